/- What pointer conversion and the heap picture look at (addresses, capacities, lengths): congruence lemmas,
   list bookkeeping, the buffer list after one buffer was placed elsewhere. Independent of the fix-up loop. -/
import YaraModel.Lemmas.ArenaPtr
namespace YaraModel.Arena
open YaraModel.Gen.ArenaLayout

/-! ### what pointer conversion looks at -/

def key (b : Buf) : Nat × Nat := (b.base, b.data.length)

theorem findBuf_congr {l l' : List Buf} (h : l.map key = l'.map key) (p k : Nat) : findBuf p l k = findBuf p l' k := by
  induction l generalizing l' k with
  | nil =>
    cases l' with
    | nil => rfl
    | cons _ _ => simp at h
  | cons b t ih =>
    cases l' with
    | nil => simp at h
    | cons b' t' =>
      simp only [List.map_cons, List.cons.injEq] at h
      have hk : Hits b p ↔ Hits b' p := by
        have := h.1; unfold key at this; simp only [Prod.mk.injEq] at this
        unfold Hits; rw [this.1, this.2]
      rw [findBuf_cons, findBuf_cons, ih h.2]
      have hb : b.base = b'.base := by have := h.1; unfold key at this; simp only [Prod.mk.injEq] at this; exact this.1
      by_cases hh : Hits b p
      · simp [hh, hk.1 hh, hb]
      · have hh' : ¬ Hits b' p := fun x => hh (hk.2 x)
        simp [hh, hh']

theorem ptrToRef_congr {l l' : List Buf} (h : l.map key = l'.map key) (p : Nat) : ptrToRef l p = ptrToRef l' p := by
  unfold ptrToRef; rw [findBuf_congr h]

theorem keys_setSlot (a : Arena) (r : Ref) (v : Nat) : (setSlot a r v).bufs.map key = a.bufs.map key := by
  apply List.ext_getElem?
  intro i
  simp only [setSlot, List.getElem?_map, List.getElem?_modify]
  by_cases h : r.buf = i
  · subst h; cases a.bufs[r.buf]? <;> simp [key, length_wr64]
  · simp [h]

theorem keys_mapSlots (φ : Nat → Nat) (rs : List Ref) (a : Arena) : (mapSlots φ rs a).bufs.map key = a.bufs.map key := by
  induction rs generalizing a with
  | nil => simp only [mapSlots_nil]
  | cons r t ih => rw [mapSlots_cons, ih, keys_setSlot]

theorem keys_setMeta_congr {a a' : Arena} (h : a.bufs.map key = a'.bufs.map key) (i cap base : Nat) (d : Bool) :
    (setMeta a i cap base d).bufs.map key = (setMeta a' i cap base d).bufs.map key := by
  apply List.ext_getElem?
  intro j
  have hj : (a.bufs.map key)[j]? = (a'.bufs.map key)[j]? := by rw [h]
  simp only [List.getElem?_map] at hj
  simp only [setMeta, List.getElem?_map, List.getElem?_modify]
  by_cases hi : i = j
  · subst hi
    cases h1 : a.bufs[i]? <;> cases h2 : a'.bufs[i]? <;> simp [h1, h2, key] at hj ⊢
    exact hj.2
  · simpa [hi] using hj

/-! ### heap picture after a growth -/

theorem getD_modify (l : List Buf) (i : Nat) (f : Buf → Buf) (j : Nat) :
    (l.modify i f).getD j {} = if i = j ∧ j < l.length then f (l.getD j {}) else l.getD j {} := by
  simp only [List.getD_eq_getElem?_getD, List.getElem?_modify]
  by_cases h : i = j
  · subst h
    by_cases hl : i < l.length
    · simp [hl]
    · simp [hl]
  · simp [h]

theorem mem_iff_getD {l : List Buf} {x : Buf} : x ∈ l ↔ ∃ j, j < l.length ∧ l.getD j {} = x := by
  rw [List.mem_iff_getElem]
  constructor
  · rintro ⟨j, hj, rfl⟩; exact ⟨j, hj, by simp [List.getD_eq_getElem?_getD, hj]⟩
  · rintro ⟨j, hj, rfl⟩; exact ⟨j, hj, by simp [List.getD_eq_getElem?_getD, hj]⟩

theorem Apart.symm {b c : Buf} (h : Apart b c) : Apart c b := by unfold Apart at *; omega

theorem pairwise_getD {l : List Buf} (h : l.Pairwise Apart) {i j : Nat} (hi : i < l.length) (hj : j < l.length) (hne : i ≠ j) :
    Apart (l.getD i {}) (l.getD j {}) := by
  rw [List.pairwise_iff_getElem] at h
  have ei : l.getD i {} = l[i] := by simp [List.getD_eq_getElem?_getD, hi]
  have ej : l.getD j {} = l[j] := by simp [List.getD_eq_getElem?_getD, hj]
  rw [ei, ej]
  rcases Nat.lt_or_gt_of_ne hne with hlt | hgt
  · exact h i j hi hj hlt
  · exact (h j i hj hi hgt).symm

theorem pairwise_of_getD {l : List Buf} (h : ∀ i j, i < l.length → j < l.length → i < j → Apart (l.getD i {}) (l.getD j {})) :
    l.Pairwise Apart := by
  rw [List.pairwise_iff_getElem]
  intro i j hi hj hlt
  have := h i j hi hj hlt
  simpa [List.getD_eq_getElem?_getD, hi, hj] using this

/-- the buffer list after buffer `b` was placed at `newBase` with capacity `nc` -/
def placed (l : List Buf) (b newBase nc : Nat) (d : Bool) : List Buf :=
  l.modify b (fun x => { x with cap := nc, base := newBase, dirty := d })

theorem placed_length (l : List Buf) (b newBase nc : Nat) (d : Bool) : (placed l b newBase nc d).length = l.length := by
  simp [placed]

theorem rangesOk_placed {a : Arena} (h : RangesOk a.bufs) {b newBase nc : Nat} (hf : Fresh a b newBase nc) (d : Bool) :
    RangesOk (placed a.bufs b newBase nc d) := by
  have hget : ∀ j, (placed a.bufs b newBase nc d).getD j {} =
      if b = j ∧ j < a.bufs.length then { a.bufAt j with cap := nc, base := newBase, dirty := d } else a.bufAt j := by
    intro j; unfold placed Arena.bufAt; rw [getD_modify]
  constructor
  · intro x hx
    obtain ⟨j, hj, rfl⟩ := mem_iff_getD.1 hx
    rw [placed_length] at hj
    rw [hget]
    split
    · rename_i hb; obtain ⟨rfl, _⟩ := hb; exact hf.fits
    · exact h.fits _ (mem_iff_getD.2 ⟨j, hj, rfl⟩)
  · intro x hx
    obtain ⟨j, hj, rfl⟩ := mem_iff_getD.1 hx
    rw [placed_length] at hj
    rw [hget]
    split
    · intro h0; exact absurd h0 hf.nonnull
    · exact h.null _ (mem_iff_getD.2 ⟨j, hj, rfl⟩)
  · apply pairwise_of_getD
    intro i j hi hj hlt
    rw [placed_length] at hi hj
    rw [hget, hget]
    have hij : i ≠ j := by omega
    by_cases hbi : b = i
    · subst hbi
      have := hf.others j hj (by omega)
      simp only [hi, and_self, if_true]
      rw [if_neg (by omega)]
      unfold Apart; simp only; omega
    · by_cases hbj : b = j
      · subst hbj
        have := hf.others i hi (by omega)
        rw [if_neg (by omega)]
        simp only [hj, and_self, if_true]
        unfold Apart; simp only; omega
      · rw [if_neg (by omega), if_neg (by omega)]
        exact pairwise_getD h.apart hi hj hij

end YaraModel.Arena
