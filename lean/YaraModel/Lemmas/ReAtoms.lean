/-
  Cover property of the atom extraction model (Model/ReAtoms.lean): whatever atoms `_yr_atoms_choose` picks — for EVERY
  quality function — every match of the expression contains an occurrence of one of them (byte mode, case-sensitive).
    `AtomAt buf a s`  : the masked atom `a` occurs in the buffer at `s` (every node: byte & mask = value)
    `Sat`             : a tree node is witnessed inside a region of the buffer (OR: every child; AND: some child)
    `walk_inv`        : walking an expression along one of its matches keeps "every appended child is witnessed, the
                        pending run ends at the current position"
-/
import YaraModel.Model.ReAtoms
import YaraModel.Lemmas.ReAlgebra
namespace YaraModel.ReAtoms
open YaraModel.Re

/-- the masked atom occurs at byte position `s` -/
def AtomAt (buf : Bytes) : Atom → Nat → Prop
  | [], _ => True
  | n :: t, s => (∃ c, buf[s]? = some c ∧ c &&& n.mask = n.byte) ∧ AtomAt buf t (s + 1)

section
variable {buf : Bytes}

theorem atomAt_append {a b : Atom} {s : Nat} : AtomAt buf (a ++ b) s ↔ AtomAt buf a s ∧ AtomAt buf b (s + a.length) := by
  induction a generalizing s with
  | nil => simp [AtomAt]
  | cons n t ih =>
    simp only [List.cons_append, AtomAt, List.length_cons, ih]
    have : s + 1 + t.length = s + (t.length + 1) := by omega
    rw [this]
    constructor
    · rintro ⟨h1, h2, h3⟩; exact ⟨⟨h1, h2⟩, h3⟩
    · rintro ⟨⟨h1, h2⟩, h3⟩; exact ⟨h1, h2, h3⟩

theorem atomAt_drop {a : Atom} {s : Nat} (h : AtomAt buf a s) : ∀ i, AtomAt buf (a.drop i) (s + i) := by
  induction a generalizing s with
  | nil => intro i; simp [AtomAt]
  | cons n t ih =>
    intro i
    cases i with
    | zero => simpa using h
    | succ j =>
      simp only [List.drop_succ_cons]
      have := ih h.2 j
      have e : s + 1 + j = s + (j + 1) := by omega
      rwa [e] at this

theorem atomAt_take {a : Atom} {s : Nat} (h : AtomAt buf a s) : ∀ n, AtomAt buf (a.take n) s := by
  induction a generalizing s with
  | nil => intro n; simp [AtomAt]
  | cons x t ih =>
    intro n
    cases n with
    | zero => simp [AtomAt]
    | succ j => simp only [List.take_succ_cons, AtomAt]; exact ⟨h.1, ih h.2 j⟩

/-- the atom occurs inside the region [lo, hi) -/
def Occurs (buf : Bytes) (a : Atom) (lo hi : Nat) : Prop := ∃ s, lo ≤ s ∧ s + a.length ≤ hi ∧ AtomAt buf a s

theorem Occurs.mono {a : Atom} {lo hi lo' hi' : Nat} (h : Occurs buf a lo hi) (h1 : lo' ≤ lo) (h2 : hi ≤ hi') : Occurs buf a lo' hi' := by
  obtain ⟨s, a1, a2, a3⟩ := h
  exact ⟨s, by omega, by omega, a3⟩

theorem occurs_sub {a : Atom} {lo hi : Nat} (h : Occurs buf a lo hi) (i n : Nat) : Occurs buf ((a.drop i).take n) lo hi := by
  obtain ⟨s, a1, a2, a3⟩ := h
  by_cases hi' : i ≤ a.length
  · refine ⟨s + i, by omega, ?_, atomAt_take (atomAt_drop a3 i) n⟩
    simp only [List.length_take, List.length_drop]; omega
  · have : a.drop i = [] := List.drop_eq_nil_of_le (by omega)
    rw [this]
    exact ⟨s, a1, by simp; omega, by simp [AtomAt]⟩

/-- trimming keeps an occurrence -/
theorem occurs_trim {a : Atom} {lo hi : Nat} (h : Occurs buf a lo hi) : Occurs buf (trim a).2 lo hi := by
  unfold trim
  simp only
  split
  · obtain ⟨s, a1, a2, _⟩ := h; exact ⟨s, a1, by simp; omega, by simp [AtomAt]⟩
  · split
    · have := occurs_sub (occurs_sub h ((a.takeWhile (·.mask == 0)).length)
        ((a.drop (a.takeWhile (·.mask == 0)).length).length - ((a.drop (a.takeWhile (·.mask == 0)).length).reverse.takeWhile (·.mask == 0)).length)) 0 1
      simpa using this
    · exact occurs_sub h _ _

/-! ### witnessed trees, and the choice -/
mutual
def Sat (buf : Bytes) (lo hi : Nat) : Tree → Prop
  | .leaf a => Occurs buf a lo hi
  | .or kids => SatAll buf lo hi kids
  | .and kids => SatAny buf lo hi kids
def SatAll (buf : Bytes) (lo hi : Nat) : List Tree → Prop
  | [] => True
  | t :: ts => Sat buf lo hi t ∧ SatAll buf lo hi ts
def SatAny (buf : Bytes) (lo hi : Nat) : List Tree → Prop
  | [] => False
  | t :: ts => Sat buf lo hi t ∨ SatAny buf lo hi ts
end

mutual
theorem Sat.mono {lo hi lo' hi' : Nat} (h1 : lo' ≤ lo) (h2 : hi ≤ hi') : ∀ (t : Tree), Sat buf lo hi t → Sat buf lo' hi' t
  | .leaf a, h => by unfold Sat at h ⊢; exact h.mono h1 h2
  | .or kids, h => by unfold Sat at h ⊢; exact SatAll.mono h1 h2 kids h
  | .and kids, h => by unfold Sat at h ⊢; exact SatAny.mono h1 h2 kids h
theorem SatAll.mono {lo hi lo' hi' : Nat} (h1 : lo' ≤ lo) (h2 : hi ≤ hi') : ∀ (l : List Tree), SatAll buf lo hi l → SatAll buf lo' hi' l
  | [], _ => by unfold SatAll; trivial
  | t :: ts, h => by unfold SatAll at h ⊢; exact ⟨Sat.mono h1 h2 t h.1, SatAll.mono h1 h2 ts h.2⟩
theorem SatAny.mono {lo hi lo' hi' : Nat} (h1 : lo' ≤ lo) (h2 : hi ≤ hi') : ∀ (l : List Tree), SatAny buf lo hi l → SatAny buf lo' hi' l
  | [], h => by unfold SatAny at h; exact h.elim
  | t :: ts, h => by
    unfold SatAny at h ⊢
    rcases h with h | h
    · exact .inl (Sat.mono h1 h2 t h)
    · exact .inr (SatAny.mono h1 h2 ts h)
end

theorem satAll_append {lo hi : Nat} {l1 l2 : List Tree} : SatAll buf lo hi (l1 ++ l2) ↔ SatAll buf lo hi l1 ∧ SatAll buf lo hi l2 := by
  induction l1 with
  | nil => simp [SatAll]
  | cons t ts ih => simp only [List.cons_append, SatAll, ih, and_assoc]

variable (q : Atom → Int)

theorem chooseOr_cons (t : Tree) (ts : List Tree) (acc : List Atom) (mx : Int) : chooseOr q (t :: ts) acc mx =
    if mx = 255 then (acc, mx) else if (choose q t).2 > mx then chooseOr q ts (choose q t).1 (choose q t).2 else chooseOr q ts acc mx := by
  rw [chooseOr]

mutual
/-- a witnessed tree whose chosen quality is positive has a chosen atom that occurs -/
theorem choose_occurs {lo hi : Nat} : ∀ (t : Tree), Sat buf lo hi t → (choose q t).2 > 0 → ∃ a ∈ (choose q t).1, Occurs buf a lo hi
  | .leaf a, hs, hq => by
    unfold choose at hq ⊢
    unfold Sat at hs
    simp only at hq ⊢
    split
    · rename_i he; simp [he] at hq
    · exact ⟨_, by simp, occurs_trim hs⟩
  | .or kids, hs, hq => by
    unfold choose at hq ⊢
    unfold Sat at hs
    exact chooseOr_occurs kids [] 0 hs (fun h => absurd h (by omega)) hq
  | .and kids, hs, hq => by
    unfold choose at hq ⊢
    unfold Sat at hs
    exact chooseAnd_occurs kids [] 255 hs hq
theorem chooseOr_occurs {lo hi : Nat} : ∀ (kids : List Tree) (acc : List Atom) (mx : Int), SatAll buf lo hi kids →
    (mx > 0 → ∃ a ∈ acc, Occurs buf a lo hi) → (chooseOr q kids acc mx).2 > 0 → ∃ a ∈ (chooseOr q kids acc mx).1, Occurs buf a lo hi
  | [], acc, mx, _, hacc, hq => by unfold chooseOr at hq ⊢; exact hacc hq
  | t :: ts, acc, mx, hs, hacc, hq => by
    rw [chooseOr_cons] at hq ⊢
    unfold SatAll at hs
    by_cases h255 : mx = 255
    · simp only [h255, if_true] at hq ⊢; exact hacc (by omega)
    · simp only [h255, if_false] at hq ⊢
      by_cases hgt : (choose q t).2 > mx
      · simp only [hgt, if_true] at hq ⊢
        exact chooseOr_occurs ts _ _ hs.2 (fun hpos => choose_occurs t hs.1 hpos) hq
      · simp only [hgt, if_false] at hq ⊢
        exact chooseOr_occurs ts acc mx hs.2 hacc hq
theorem chooseAnd_occurs {lo hi : Nat} : ∀ (kids : List Tree) (acc : List Atom) (mn : Int), SatAny buf lo hi kids →
    (chooseAnd q kids acc mn).2 > 0 → ∃ a ∈ (chooseAnd q kids acc mn).1, Occurs buf a lo hi
  | [], acc, mn, hs, _ => by unfold SatAny at hs; exact hs.elim
  | t :: ts, acc, mn, hs, hq => by
    unfold chooseAnd at hq ⊢
    unfold SatAny at hs
    simp only at hq ⊢
    have hmono := chooseAnd_ge ts ((choose q t).1 ++ acc) (if (choose q t).2 < mn then (choose q t).2 else mn)
    rcases hs with hs | hs
    · have hpos : (choose q t).2 > 0 := by
        have := hmono.1
        split at this <;> omega
      obtain ⟨a, ha, ho⟩ := choose_occurs t hs hpos
      exact ⟨a, hmono.2 a (List.mem_append_left _ ha), ho⟩
    · exact chooseAnd_occurs ts _ _ hs hq
/-- the AND fold only lowers the quality and only adds atoms -/
theorem chooseAnd_ge : ∀ (kids : List Tree) (acc : List Atom) (mn : Int),
    (chooseAnd q kids acc mn).2 ≤ mn ∧ ∀ a ∈ acc, a ∈ (chooseAnd q kids acc mn).1
  | [], acc, mn => by unfold chooseAnd; exact ⟨Int.le_refl _, fun a h => h⟩
  | t :: ts, acc, mn => by
    unfold chooseAnd
    simp only
    have := chooseAnd_ge ts ((choose q t).1 ++ acc) (if (choose q t).2 < mn then (choose q t).2 else mn)
    refine ⟨?_, fun a ha => this.2 a (List.mem_append_right _ ha)⟩
    have h1 := this.1
    split at h1 <;> omega
end

/-! ### the walk along a match -/
/-- state of the walk after the part [p0, cur) of a match: every appended child is witnessed there, the pending run ends at
    `cur` (or is frozen because the best quality is already maximal), the best atom so far occurs -/
structure Inv (buf : Bytes) (st : St) (p0 cur : Nat) : Prop where
  le : p0 ≤ cur
  kids : SatAll buf p0 cur st.kids
  recent : (st.recent.length ≤ cur - p0 ∧ AtomAt buf st.recent (cur - st.recent.length)) ∨
    (255 ≤ st.bestQ ∧ 4 ≤ st.recent.length ∧ Occurs buf st.recent p0 cur)
  best : Occurs buf st.best p0 cur

theorem Inv.recentOccurs {st : St} {p0 cur : Nat} (h : Inv buf st p0 cur) : Occurs buf st.recent p0 cur := by
  rcases h.recent with ⟨h1, h2⟩ | ⟨_, _, h3⟩
  · exact ⟨cur - st.recent.length, by have := h.le; omega, by have := h.le; omega, h2⟩
  · exact h3

theorem inv_init (p : Nat) : Inv buf {} p p :=
  ⟨Nat.le_refl _, by simp [SatAll], .inl ⟨by simp, by simp [AtomAt]⟩, ⟨p, Nat.le_refl _, by simp, by simp [AtomAt]⟩⟩

theorem inv_flush {st : St} {p0 cur : Nat} (h : Inv buf st p0 cur) : Inv buf (flush q st) p0 cur := by
  refine ⟨h.le, ?_, .inl ⟨by simp [flush], by simp [flush, AtomAt]⟩, ⟨p0, Nat.le_refl _, by simp [flush]; exact h.le, by simp [flush, AtomAt]⟩⟩
  unfold flush
  simp only
  split
  · exact h.kids
  · rw [satAll_append]
    refine ⟨h.kids, ?_, trivial⟩
    unfold Sat
    split
    · exact occurs_trim h.recentOccurs
    · exact h.best

theorem inv_move {st : St} {p0 cur cur' : Nat} (h : Inv buf st p0 cur) (he : st.recent = []) (hle : cur ≤ cur') : Inv buf st p0 cur' := by
  refine ⟨by have := h.le; omega, SatAll.mono (Nat.le_refl _) hle _ h.kids, .inl ?_, h.best.mono (Nat.le_refl _) hle⟩
  rw [he]; simp [AtomAt]

theorem inv_addNode {st : St} {p0 cur : Nat} (h : Inv buf st p0 cur) (x : Node) (hx : ∃ c, buf[cur]? = some c ∧ c &&& x.mask = x.byte) :
    Inv buf (addNode q st x) p0 (cur + 1) := by
  have hle := h.le
  unfold addNode
  by_cases h4 : st.recent.length < 4
  · simp only [h4, if_true]
    rcases h.recent with ⟨h1, h2⟩ | ⟨_, h2, _⟩
    · refine ⟨by omega, SatAll.mono (Nat.le_refl _) (by omega) _ h.kids, .inl ⟨by simp; omega, ?_⟩, h.best.mono (Nat.le_refl _) (by omega)⟩
      simp only [List.length_append, List.length_cons, List.length_nil]
      have e1 : cur + 1 - (st.recent.length + (0 + 1)) = cur - st.recent.length := by omega
      rw [e1, atomAt_append]
      refine ⟨h2, ?_, trivial⟩
      have e2 : cur - st.recent.length + st.recent.length = cur := by omega
      rw [e2]; exact hx
    · omega
  · simp only [h4, if_false]
    by_cases hq : st.bestQ < 255
    · simp only [hq, if_true]
      rcases h.recent with ⟨h1, h2⟩ | ⟨h1, _, _⟩
      · have hocc : Occurs buf (trim st.recent).2 p0 (cur + 1) := (occurs_trim h.recentOccurs).mono (Nat.le_refl _) (by omega)
        have hrec : (st.recent.drop 1 ++ [x]).length ≤ cur + 1 - p0 ∧ AtomAt buf (st.recent.drop 1 ++ [x]) (cur + 1 - (st.recent.drop 1 ++ [x]).length) := by
          simp only [List.length_append, List.length_drop, List.length_cons, List.length_nil]
          refine ⟨by omega, ?_⟩
          have e1 : cur + 1 - (st.recent.length - 1 + (0 + 1)) = cur - st.recent.length + 1 := by omega
          rw [e1, atomAt_append]
          refine ⟨atomAt_drop h2 1, ?_, trivial⟩
          simp only [List.length_drop]
          have e2 : cur - st.recent.length + 1 + (st.recent.length - 1) = cur := by omega
          rw [e2]; exact hx
        split
        · exact ⟨by omega, SatAll.mono (Nat.le_refl _) (by omega) _ h.kids, .inl hrec, hocc⟩
        · exact ⟨by omega, SatAll.mono (Nat.le_refl _) (by omega) _ h.kids, .inl hrec, h.best.mono (Nat.le_refl _) (by omega)⟩
      · omega
    · simp only [hq, if_false]
      exact ⟨by omega, SatAll.mono (Nat.le_refl _) (by omega) _ h.kids,
        .inr ⟨by omega, by omega, h.recentOccurs.mono (Nat.le_refl _) (by omega)⟩, h.best.mono (Nat.le_refl _) (by omega)⟩

variable {fl : Flags}

theorem and_255 (c : UInt8) : c &&& 0xFF = c := by
  apply UInt8.eq_of_toBitVec_eq
  simp only [UInt8.toBitVec_and]
  have : (255 : UInt8).toBitVec = BitVec.allOnes 8 := by decide
  rw [this, BitVec.and_allOnes]

/-- a child witnessed in the part of the match that follows is appended, then the pending run is flushed -/
theorem inv_flush_with {st : St} {p0 cur q1 : Nat} (h : Inv buf st p0 cur) (hle : cur ≤ q1) (T : Tree) (hT : Sat buf p0 q1 T) :
    Inv buf (flush q { st with kids := st.kids ++ [T] }) p0 q1 := by
  have h1 := h.le
  refine ⟨by omega, ?_, .inl ⟨by simp [flush], by simp [flush, AtomAt]⟩, ⟨p0, Nat.le_refl _, by simp [flush]; omega, by simp [flush, AtomAt]⟩⟩
  unfold flush
  simp only
  have hk : SatAll buf p0 q1 (st.kids ++ [T]) := by
    rw [satAll_append]; exact ⟨SatAll.mono (Nat.le_refl _) hle _ h.kids, hT, trivial⟩
  split
  · exact hk
  · rw [satAll_append]
    refine ⟨hk, ?_, trivial⟩
    unfold Sat
    split
    · exact (occurs_trim h.recentOccurs).mono (Nat.le_refl _) hle
    · exact h.best.mono (Nat.le_refl _) hle

/-- the pending run is flushed, then the match goes on to `q1` through something that is not part of any run -/
theorem inv_flush_move {st : St} {p0 cur q1 : Nat} (h : Inv buf st p0 cur) (hle : cur ≤ q1) : Inv buf (flush q st) p0 q1 :=
  inv_move (inv_flush q h) (by simp [flush]) hle

theorem lit_inv (hw : fl.wide = false) (hn : fl.nocase = false) {b : UInt8} {p q' : Nat} (h : Re.Matches fl buf (.lit b) p q') :
    q' = p + 1 ∧ ∃ c, buf[p]? = some c ∧ c &&& 0xFF = b := by
  cases h with
  | lit hc =>
    refine ⟨by simp [Flags.cs, hw], ?_⟩
    unfold charOk at hc
    split at hc
    · simp at hc
    · rename_i c hcb
      simp only [hw, Bool.false_eq_true, if_false, testLit, hn] at hc
      have hcb' : c = b := by simpa using hc
      subst hcb'
      exact ⟨c, hcb, and_255 c⟩

theorem masked_inv (hw : fl.wide = false) {v m : UInt8} {p q' : Nat} (h : Re.Matches fl buf (.masked v m) p q') :
    q' = p + 1 ∧ ∃ c, buf[p]? = some c ∧ c &&& m = v := by
  cases h with
  | masked hc =>
    refine ⟨by simp [Flags.cs, hw], ?_⟩
    unfold charOk at hc
    split at hc
    · simp at hc
    · rename_i c hcb
      simp only [hw, Bool.false_eq_true, if_false, testMasked] at hc
      exact ⟨c, hcb, by simpa using hc⟩

theorem any_inv (hw : fl.wide = false) {p q' : Nat} (h : Re.Matches fl buf .any p q') :
    q' = p + 1 ∧ ∃ c, buf[p]? = some c ∧ c &&& 0 = 0 := by
  cases h with
  | any hc =>
    refine ⟨by simp [Flags.cs, hw], ?_⟩
    unfold charOk at hc
    split at hc
    · simp at hc
    · rename_i c hcb
      exact ⟨c, hcb, by simp⟩

theorem range_inv {a : Re} {lo hi : Nat} {g : Bool} {p q' : Nat} (h : Re.Matches fl buf (.range a lo hi g) p q') (hlo : 0 < lo) :
    ∃ t, Re.Matches fl buf a p t ∧ Re.Matches fl buf (.range a (lo - 1) (hi - 1) g) t q' := by
  cases h with
  | rangeStop => omega
  | rangeStep _ h1 h2 => exact ⟨_, h1, h2⟩

theorem plus_inv {a : Re} {g : Bool} {p q' : Nat} (h : Re.Matches fl buf (.plus a g) p q') :
    ∃ t, Re.Matches fl buf a p t ∧ t ≤ q' := by
  cases h with
  | plusOne h1 => exact ⟨_, h1, Nat.le_refl _⟩
  | plusStep h1 h2 => exact ⟨_, h1, (Matches.bounds h2).1⟩

/-- walking an expression along one of its matches keeps the invariant (byte mode, case-sensitive) -/
theorem walk_inv (hw : fl.wide = false) (hn : fl.nocase = false) : ∀ (r : Re) (i : Nat) (st : St) (p0 cur q1 : Nat),
    Inv buf st p0 cur → Re.Matches fl buf r cur q1 → Inv buf (walk q r i st) p0 q1 := by
  intro r
  induction r with
  | lit b =>
    intro i st p0 cur q1 hi hm
    obtain ⟨e, hc⟩ := lit_inv hw hn hm
    subst e; simp only [walk]; exact inv_addNode q hi _ hc
  | masked v m =>
    intro i st p0 cur q1 hi hm
    obtain ⟨e, hc⟩ := masked_inv hw hm
    subst e; simp only [walk]; exact inv_addNode q hi _ hc
  | any =>
    intro i st p0 cur q1 hi hm
    obtain ⟨e, hc⟩ := any_inv hw hm
    subst e; simp only [walk]; exact inv_addNode q hi _ hc
  | cat a b iha ihb =>
    intro i st p0 cur q1 hi hm
    cases hm with
    | cat h1 h2 => simp only [walk]; exact ihb _ _ _ _ _ (iha _ _ _ _ _ hi h1) h2
  | alt a b iha ihb =>
    intro i st p0 cur q1 hi hm
    have hb := (Matches.bounds hm).1
    simp only [walk]
    have hand : Sat buf p0 q1 (.and [.or (flush q (walk q a i {})).kids, .or (flush q (walk q b (i + leaves a) {})).kids]) := by
      unfold Sat SatAny
      cases hm with
      | altL h1 =>
        left; unfold Sat
        exact SatAll.mono hi.le (Nat.le_refl _) _ (inv_flush q (iha _ _ _ _ _ (inv_init cur) h1)).kids
      | altR h1 =>
        right; unfold SatAny; left; unfold Sat
        exact SatAll.mono hi.le (Nat.le_refl _) _ (inv_flush q (ihb _ _ _ _ _ (inv_init cur) h1)).kids
    exact inv_flush_with q hi hb _ hand
  | plus a g ih =>
    intro i st p0 cur q1 hi hm
    obtain ⟨t, h1, h2⟩ := plus_inv hm
    simp only [walk]
    exact inv_flush_move q (ih _ _ _ _ _ hi h1) h2
  | range a lo hi g ih =>
    intro i st p0 cur q1 hi' hm
    simp only [walk]
    -- the first min(lo, 4) iterations are consecutive copies of the body
    have key : ∀ (n : Nat) (st : St) (cur lo' hi' : Nat), n ≤ lo' → Inv buf st p0 cur → Re.Matches fl buf (.range a lo' hi' g) cur q1 →
        ∃ t, t ≤ q1 ∧ Inv buf (iter (walk q a i) n st) p0 t := by
      intro n
      induction n with
      | zero => intro st cur lo' hi' _ h1 h2; exact ⟨cur, (Matches.bounds h2).1, h1⟩
      | succ k ihk =>
        intro st cur lo' hi' hle h1 h2
        obtain ⟨t, m1, m2⟩ := range_inv h2 (by omega)
        simp only [iter]
        exact ihk _ t (lo' - 1) (hi' - 1) (by omega) (ih _ _ _ _ _ h1 m1) m2
    obtain ⟨t, ht, hinv⟩ := key (min lo 4) st cur lo hi (Nat.min_le_left _ _) hi' hm
    exact inv_flush_move q hinv ht
  | star a g _ => intro i st p0 cur q1 hi hm; simp only [walk]; exact inv_flush_move q hi (Matches.bounds hm).1
  | rangeAny lo hi g => intro i st p0 cur q1 hi' hm; simp only [walk]; exact inv_flush_move q hi' (Matches.bounds hm).1
  | notLit b => intro i st p0 cur q1 hi hm; simp only [walk]; exact inv_flush_move q hi (Matches.bounds hm).1
  | maskedNot v m => intro i st p0 cur q1 hi hm; simp only [walk]; exact inv_flush_move q hi (Matches.bounds hm).1
  | cls bm neg => intro i st p0 cur q1 hi hm; simp only [walk]; exact inv_flush_move q hi (Matches.bounds hm).1
  | wordCh => intro i st p0 cur q1 hi hm; simp only [walk]; exact inv_flush_move q hi (Matches.bounds hm).1
  | nonWordCh => intro i st p0 cur q1 hi hm; simp only [walk]; exact inv_flush_move q hi (Matches.bounds hm).1
  | space => intro i st p0 cur q1 hi hm; simp only [walk]; exact inv_flush_move q hi (Matches.bounds hm).1
  | nonSpace => intro i st p0 cur q1 hi hm; simp only [walk]; exact inv_flush_move q hi (Matches.bounds hm).1
  | digit => intro i st p0 cur q1 hi hm; simp only [walk]; exact inv_flush_move q hi (Matches.bounds hm).1
  | nonDigit => intro i st p0 cur q1 hi hm; simp only [walk]; exact inv_flush_move q hi (Matches.bounds hm).1
  | empty => intro i st p0 cur q1 hi hm; simp only [walk]; exact inv_flush_move q hi (Matches.bounds hm).1
  | bol => intro i st p0 cur q1 hi hm; simp only [walk]; exact inv_flush_move q hi (Matches.bounds hm).1
  | eol => intro i st p0 cur q1 hi hm; simp only [walk]; exact inv_flush_move q hi (Matches.bounds hm).1
  | wordB => intro i st p0 cur q1 hi hm; simp only [walk]; exact inv_flush_move q hi (Matches.bounds hm).1
  | nonWordB => intro i st p0 cur q1 hi hm; simp only [walk]; exact inv_flush_move q hi (Matches.bounds hm).1

theorem chooseOr_nil_or_pos : ∀ (kids : List Tree) (acc : List Atom) (mx : Int), 0 ≤ mx → (acc = [] ∨ mx > 0) →
    ((chooseOr q kids acc mx).1 = [] ∨ (chooseOr q kids acc mx).2 > 0)
  | [], acc, mx, _, h => by unfold chooseOr; exact h
  | t :: ts, acc, mx, h0, h => by
    rw [chooseOr_cons]
    by_cases h255 : mx = 255
    · simp only [h255, if_true]; right; omega
    · simp only [h255, if_false]
      by_cases hgt : (choose q t).2 > mx
      · simp only [hgt, if_true]
        exact chooseOr_nil_or_pos ts _ _ (by omega) (.inr (by omega))
      · simp only [hgt, if_false]; exact chooseOr_nil_or_pos ts acc mx h0 h

/-- **Cover.** For every quality function (every choice the heuristic can make), in byte mode without nocase: every match
    [p, q') of the expression contains an occurrence of one of the chosen (masked) atoms — unless no atom at all was chosen,
    in which case the string gets the zero-length atom that is reported at every offset. -/
theorem chosen_cover (hw : fl.wide = false) (hn : fl.nocase = false) (r : Re) {p q' : Nat} (hm : Re.Matches fl buf r p q') :
    chosen q r = [] ∨ ∃ a ∈ chosen q r, Occurs buf a p q' := by
  have hcase : (choose q (treeOf q r)).1 = [] ∨ (choose q (treeOf q r)).2 > 0 := by
    unfold treeOf choose
    exact chooseOr_nil_or_pos q _ [] 0 (Int.le_refl _) (.inl rfl)
  rcases hcase with h0 | hq
  · left; exact h0
  · right
    have hinv := inv_flush q (walk_inv q hw hn r 0 {} p p q' (inv_init p) hm)
    have hs : Sat buf p q' (treeOf q r) := by unfold treeOf Sat; exact hinv.kids
    exact choose_occurs q _ hs hq

end

end YaraModel.ReAtoms
