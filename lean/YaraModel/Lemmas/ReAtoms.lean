/-
  Cover property of the atom extraction model (Model/ReAtoms.lean): whatever atoms `_yr_atoms_choose` picks — for EVERY
  quality function — every match of the expression contains an occurrence of one of them, at the positions of the nodes the
  match runs through.
    `Rd`              : how the nodes of an atom sit in the buffer (character size, what "node n sits at position s" means —
                        byte / wide, case folding, and membership of (node id, position) in the trace of the match)
    `AtomAt R a s`    : the masked atom `a` sits at `s`
    `Sat`             : a tree node is witnessed inside a region of the buffer (OR: every child; AND: some child)
    `Tr`              : a match together with its trace: which leaf was matched at which position
    `walk_inv`        : walking an expression along one of its matches keeps "every appended child is witnessed, the
                        pending run ends at the current position"
-/
import YaraModel.Model.ReAtoms
import YaraModel.Lemmas.ReAlgebra
namespace YaraModel.ReAtoms
open YaraModel.Re

structure Rd where
  cs : Nat
  ok : Node → Nat → Prop

/-- the masked atom sits at byte position `s` -/
def AtomAt (R : Rd) : Atom → Nat → Prop
  | [], _ => True
  | n :: t, s => R.ok n s ∧ AtomAt R t (s + R.cs)

/-- bytes an atom spans -/
def span (R : Rd) (a : Atom) : Nat := a.length * R.cs

section
variable {R : Rd}

theorem span_nil : span R [] = 0 := by simp [span]
theorem span_cons (n : Node) (t : Atom) : span R (n :: t) = R.cs + span R t := by
  simp only [span, List.length_cons]; rw [Nat.add_mul]; omega
theorem span_append (a b : Atom) : span R (a ++ b) = span R a + span R b := by
  simp only [span, List.length_append]; rw [Nat.add_mul]
theorem span_take_drop (a : Atom) (i : Nat) : span R (a.take i) + span R (a.drop i) = span R a := by
  rw [← span_append, List.take_append_drop]
theorem span_take_le (a : Atom) (n : Nat) : span R (a.take n) ≤ span R a := by
  have := span_take_drop (R := R) a n; omega

theorem atomAt_append {a b : Atom} {s : Nat} : AtomAt R (a ++ b) s ↔ AtomAt R a s ∧ AtomAt R b (s + span R a) := by
  induction a generalizing s with
  | nil => simp [AtomAt, span_nil]
  | cons n t ih =>
    simp only [List.cons_append, AtomAt, ih, span_cons]
    have : s + R.cs + span R t = s + (R.cs + span R t) := by omega
    rw [this]
    constructor
    · rintro ⟨h1, h2, h3⟩; exact ⟨⟨h1, h2⟩, h3⟩
    · rintro ⟨⟨h1, h2⟩, h3⟩; exact ⟨h1, h2, h3⟩

theorem atomAt_drop {a : Atom} {s : Nat} (h : AtomAt R a s) (i : Nat) : AtomAt R (a.drop i) (s + span R (a.take i)) := by
  have := (atomAt_append (R := R) (a := a.take i) (b := a.drop i) (s := s)).1 (by rw [List.take_append_drop]; exact h)
  exact this.2

theorem atomAt_take {a : Atom} {s : Nat} (h : AtomAt R a s) (n : Nat) : AtomAt R (a.take n) s := by
  have := (atomAt_append (R := R) (a := a.take n) (b := a.drop n) (s := s)).1 (by rw [List.take_append_drop]; exact h)
  exact this.1

/-- the atom sits inside the region [lo, hi) -/
def Occurs (R : Rd) (a : Atom) (lo hi : Nat) : Prop := ∃ s, lo ≤ s ∧ s + span R a ≤ hi ∧ AtomAt R a s

theorem Occurs.mono {a : Atom} {lo hi lo' hi' : Nat} (h : Occurs R a lo hi) (h1 : lo' ≤ lo) (h2 : hi ≤ hi') : Occurs R a lo' hi' := by
  obtain ⟨s, a1, a2, a3⟩ := h
  exact ⟨s, by omega, by omega, a3⟩

theorem occurs_nil {lo hi : Nat} (h : lo ≤ hi) : Occurs R [] lo hi := ⟨lo, Nat.le_refl _, by rw [span_nil]; omega, trivial⟩

theorem occurs_sub {a : Atom} {lo hi : Nat} (h : Occurs R a lo hi) (i n : Nat) : Occurs R ((a.drop i).take n) lo hi := by
  obtain ⟨s, a1, a2, a3⟩ := h
  refine ⟨s + span R (a.take i), by omega, ?_, atomAt_take (atomAt_drop a3 i) n⟩
  have h1 := span_take_le (R := R) (a.drop i) n
  have h2 := span_take_drop (R := R) a i
  omega

/-- trimming keeps an occurrence -/
theorem occurs_trim {a : Atom} {lo hi : Nat} (h : Occurs R a lo hi) : Occurs R (trim a).2 lo hi := by
  have hle : lo ≤ hi := by obtain ⟨s, a1, a2, _⟩ := h; omega
  unfold trim
  simp only
  split
  · exact occurs_nil hle
  · split
    · have := occurs_sub (occurs_sub h ((a.takeWhile (·.mask == 0)).length)
        ((a.drop (a.takeWhile (·.mask == 0)).length).length - ((a.drop (a.takeWhile (·.mask == 0)).length).reverse.takeWhile (·.mask == 0)).length)) 0 1
      simpa using this
    · exact occurs_sub h _ _

/-! ### witnessed trees, and the choice -/
mutual
def Sat (R : Rd) (lo hi : Nat) : Tree → Prop
  | .leaf a => Occurs R a lo hi
  | .or kids => SatAll R lo hi kids
  | .and kids => SatAny R lo hi kids
def SatAll (R : Rd) (lo hi : Nat) : List Tree → Prop
  | [] => True
  | t :: ts => Sat R lo hi t ∧ SatAll R lo hi ts
def SatAny (R : Rd) (lo hi : Nat) : List Tree → Prop
  | [] => False
  | t :: ts => Sat R lo hi t ∨ SatAny R lo hi ts
end

mutual
theorem Sat.mono {lo hi lo' hi' : Nat} (h1 : lo' ≤ lo) (h2 : hi ≤ hi') : ∀ (t : Tree), Sat R lo hi t → Sat R lo' hi' t
  | .leaf a, h => by unfold Sat at h ⊢; exact h.mono h1 h2
  | .or kids, h => by unfold Sat at h ⊢; exact SatAll.mono h1 h2 kids h
  | .and kids, h => by unfold Sat at h ⊢; exact SatAny.mono h1 h2 kids h
theorem SatAll.mono {lo hi lo' hi' : Nat} (h1 : lo' ≤ lo) (h2 : hi ≤ hi') : ∀ (l : List Tree), SatAll R lo hi l → SatAll R lo' hi' l
  | [], _ => by unfold SatAll; trivial
  | t :: ts, h => by unfold SatAll at h ⊢; exact ⟨Sat.mono h1 h2 t h.1, SatAll.mono h1 h2 ts h.2⟩
theorem SatAny.mono {lo hi lo' hi' : Nat} (h1 : lo' ≤ lo) (h2 : hi ≤ hi') : ∀ (l : List Tree), SatAny R lo hi l → SatAny R lo' hi' l
  | [], h => by unfold SatAny at h; exact h.elim
  | t :: ts, h => by
    unfold SatAny at h ⊢
    rcases h with h | h
    · exact .inl (Sat.mono h1 h2 t h)
    · exact .inr (SatAny.mono h1 h2 ts h)
end

theorem satAll_append {lo hi : Nat} {l1 l2 : List Tree} : SatAll R lo hi (l1 ++ l2) ↔ SatAll R lo hi l1 ∧ SatAll R lo hi l2 := by
  induction l1 with
  | nil => simp [SatAll]
  | cons t ts ih => simp only [List.cons_append, SatAll, ih, and_assoc]

variable (q : Atom → Int)

theorem chooseOr_cons (t : Tree) (ts : List Tree) (acc : List Atom) (mx : Int) : chooseOr q (t :: ts) acc mx =
    if mx = 255 then (acc, mx) else if (choose q t).2 > mx then chooseOr q ts (choose q t).1 (choose q t).2 else chooseOr q ts acc mx := by
  rw [chooseOr]

mutual
/-- a witnessed tree whose chosen quality is positive has a chosen atom that occurs -/
theorem choose_occurs {lo hi : Nat} : ∀ (t : Tree), Sat R lo hi t → (choose q t).2 > 0 → ∃ a ∈ (choose q t).1, Occurs R a lo hi
  | .leaf a, hs, hq => by
    unfold choose at hq ⊢
    unfold Sat at hs
    simp only at hq ⊢
    split
    · rename_i he; simp [he] at hq
    · exact ⟨_, by simp, occurs_trim hs⟩
  | .or kids, hs, hq => by
    unfold choose at hq ⊢
    unfold Sat at hs
    exact chooseOr_occurs kids [] 0 hs (fun h => absurd h (by omega)) hq
  | .and kids, hs, hq => by
    unfold choose at hq ⊢
    unfold Sat at hs
    exact chooseAnd_occurs kids [] 255 hs hq
theorem chooseOr_occurs {lo hi : Nat} : ∀ (kids : List Tree) (acc : List Atom) (mx : Int), SatAll R lo hi kids →
    (mx > 0 → ∃ a ∈ acc, Occurs R a lo hi) → (chooseOr q kids acc mx).2 > 0 → ∃ a ∈ (chooseOr q kids acc mx).1, Occurs R a lo hi
  | [], acc, mx, _, hacc, hq => by unfold chooseOr at hq ⊢; exact hacc hq
  | t :: ts, acc, mx, hs, hacc, hq => by
    rw [chooseOr_cons] at hq ⊢
    unfold SatAll at hs
    by_cases h255 : mx = 255
    · simp only [h255, if_true] at hq ⊢; exact hacc (by omega)
    · simp only [h255, if_false] at hq ⊢
      by_cases hgt : (choose q t).2 > mx
      · simp only [hgt, if_true] at hq ⊢
        exact chooseOr_occurs ts _ _ hs.2 (fun hpos => choose_occurs t hs.1 hpos) hq
      · simp only [hgt, if_false] at hq ⊢
        exact chooseOr_occurs ts acc mx hs.2 hacc hq
theorem chooseAnd_occurs {lo hi : Nat} : ∀ (kids : List Tree) (acc : List Atom) (mn : Int), SatAny R lo hi kids →
    (chooseAnd q kids acc mn).2 > 0 → ∃ a ∈ (chooseAnd q kids acc mn).1, Occurs R a lo hi
  | [], acc, mn, hs, _ => by unfold SatAny at hs; exact hs.elim
  | t :: ts, acc, mn, hs, hq => by
    unfold chooseAnd at hq ⊢
    unfold SatAny at hs
    simp only at hq ⊢
    have hmono := chooseAnd_ge ts ((choose q t).1 ++ acc) (if (choose q t).2 < mn then (choose q t).2 else mn)
    rcases hs with hs | hs
    · have hpos : (choose q t).2 > 0 := by
        have := hmono.1
        split at this <;> omega
      obtain ⟨a, ha, ho⟩ := choose_occurs t hs hpos
      exact ⟨a, hmono.2 a (List.mem_append_left _ ha), ho⟩
    · exact chooseAnd_occurs ts _ _ hs hq
/-- the AND fold only lowers the quality and only adds atoms -/
theorem chooseAnd_ge : ∀ (kids : List Tree) (acc : List Atom) (mn : Int),
    (chooseAnd q kids acc mn).2 ≤ mn ∧ ∀ a ∈ acc, a ∈ (chooseAnd q kids acc mn).1
  | [], acc, mn => by unfold chooseAnd; exact ⟨Int.le_refl _, fun a h => h⟩
  | t :: ts, acc, mn => by
    unfold chooseAnd
    simp only
    have := chooseAnd_ge ts ((choose q t).1 ++ acc) (if (choose q t).2 < mn then (choose q t).2 else mn)
    refine ⟨?_, fun a ha => this.2 a (List.mem_append_right _ ha)⟩
    have h1 := this.1
    split at h1 <;> omega
end

theorem chooseOr_nil_or_pos : ∀ (kids : List Tree) (acc : List Atom) (mx : Int), 0 ≤ mx → (acc = [] ∨ mx > 0) →
    ((chooseOr q kids acc mx).1 = [] ∨ (chooseOr q kids acc mx).2 > 0)
  | [], acc, mx, _, h => by unfold chooseOr; exact h
  | t :: ts, acc, mx, h0, h => by
    rw [chooseOr_cons]
    by_cases h255 : mx = 255
    · simp only [h255, if_true]; right; omega
    · simp only [h255, if_false]
      by_cases hgt : (choose q t).2 > mx
      · simp only [hgt, if_true]
        exact chooseOr_nil_or_pos ts _ _ (by omega) (.inr (by omega))
      · simp only [hgt, if_false]; exact chooseOr_nil_or_pos ts acc mx h0 h

/-! ### the state of the walk along a match -/
/-- state of the walk after the part [p0, cur) of a match: every appended child is witnessed there, the pending run ends at
    `cur` (or is frozen because the best quality is already maximal), the best atom so far occurs -/
structure Inv (R : Rd) (st : St) (p0 cur : Nat) : Prop where
  le : p0 ≤ cur
  kids : SatAll R p0 cur st.kids
  recent : (span R st.recent ≤ cur - p0 ∧ AtomAt R st.recent (cur - span R st.recent)) ∨
    (255 ≤ st.bestQ ∧ 4 ≤ st.recent.length ∧ Occurs R st.recent p0 cur)
  best : Occurs R st.best p0 cur

theorem Inv.recentOccurs {st : St} {p0 cur : Nat} (h : Inv R st p0 cur) : Occurs R st.recent p0 cur := by
  rcases h.recent with ⟨h1, h2⟩ | ⟨_, _, h3⟩
  · exact ⟨cur - span R st.recent, by have := h.le; omega, by have := h.le; omega, h2⟩
  · exact h3

theorem inv_init (p : Nat) : Inv R {} p p :=
  ⟨Nat.le_refl _, by simp [SatAll], .inl ⟨by simp [span_nil], by simp [AtomAt]⟩, occurs_nil (Nat.le_refl _)⟩

theorem inv_flush {st : St} {p0 cur : Nat} (h : Inv R st p0 cur) : Inv R (flush q st) p0 cur := by
  refine ⟨h.le, ?_, .inl ⟨by simp [flush, span_nil], by simp [flush, AtomAt]⟩, by simp only [flush]; exact occurs_nil h.le⟩
  unfold flush
  simp only
  split
  · exact h.kids
  · rw [satAll_append]
    refine ⟨h.kids, ?_, trivial⟩
    unfold Sat
    split
    · exact occurs_trim h.recentOccurs
    · exact h.best

theorem inv_move {st : St} {p0 cur cur' : Nat} (h : Inv R st p0 cur) (he : st.recent = []) (hle : cur ≤ cur') : Inv R st p0 cur' := by
  refine ⟨by have := h.le; omega, SatAll.mono (Nat.le_refl _) hle _ h.kids, .inl ?_, h.best.mono (Nat.le_refl _) hle⟩
  rw [he]; simp [AtomAt, span_nil]

theorem inv_addNode {st : St} {p0 cur : Nat} (h : Inv R st p0 cur) (x : Node) (hx : R.ok x cur) :
    Inv R (addNode q st x) p0 (cur + R.cs) := by
  have hle := h.le
  unfold addNode
  by_cases h4 : st.recent.length < 4
  · simp only [h4, if_true]
    rcases h.recent with ⟨h1, h2⟩ | ⟨_, h2, _⟩
    · have hs1 : span R (st.recent ++ [x]) = span R st.recent + R.cs := by rw [span_append, span_cons, span_nil]; omega
      refine ⟨by omega, SatAll.mono (Nat.le_refl _) (by omega) _ h.kids,
        .inl ⟨by show span R (st.recent ++ [x]) ≤ cur + R.cs - p0; omega, ?_⟩, h.best.mono (Nat.le_refl _) (by omega)⟩
      show AtomAt R (st.recent ++ [x]) (cur + R.cs - span R (st.recent ++ [x]))
      have e1 : cur + R.cs - span R (st.recent ++ [x]) = cur - span R st.recent := by omega
      rw [e1, atomAt_append]
      refine ⟨h2, ?_, trivial⟩
      have e2 : cur - span R st.recent + span R st.recent = cur := by omega
      rw [e2]; exact hx
    · omega
  · simp only [h4, if_false]
    by_cases hq : st.bestQ < 255
    · simp only [hq, if_true]
      rcases h.recent with ⟨h1, h2⟩ | ⟨h1, _, _⟩
      · have hocc : Occurs R (trim st.recent).2 p0 (cur + R.cs) := (occurs_trim h.recentOccurs).mono (Nat.le_refl _) (by omega)
        have hsplit := span_take_drop (R := R) st.recent 1
        have hone : span R (st.recent.take 1) = R.cs := by
          cases hr : st.recent with
          | nil => rw [hr] at h4; simp at h4
          | cons y t => simp [span]
        have hs1 : span R (st.recent.drop 1 ++ [x]) = span R (st.recent.drop 1) + R.cs := by rw [span_append, span_cons, span_nil]; omega
        have hrec : span R (st.recent.drop 1 ++ [x]) ≤ cur + R.cs - p0 ∧ AtomAt R (st.recent.drop 1 ++ [x]) (cur + R.cs - span R (st.recent.drop 1 ++ [x])) := by
          refine ⟨by omega, ?_⟩
          have e1 : cur + R.cs - span R (st.recent.drop 1 ++ [x]) = cur - span R st.recent + span R (st.recent.take 1) := by omega
          rw [e1, atomAt_append]
          refine ⟨atomAt_drop h2 1, ?_, trivial⟩
          have e2 : cur - span R st.recent + span R (st.recent.take 1) + span R (st.recent.drop 1) = cur := by omega
          rw [e2]; exact hx
        split
        · exact ⟨by omega, SatAll.mono (Nat.le_refl _) (by omega) _ h.kids, .inl hrec, hocc⟩
        · exact ⟨by omega, SatAll.mono (Nat.le_refl _) (by omega) _ h.kids, .inl hrec, h.best.mono (Nat.le_refl _) (by omega)⟩
      · omega
    · simp only [hq, if_false]
      exact ⟨by omega, SatAll.mono (Nat.le_refl _) (by omega) _ h.kids,
        .inr ⟨by omega, by omega, h.recentOccurs.mono (Nat.le_refl _) (by omega)⟩, h.best.mono (Nat.le_refl _) (by omega)⟩

/-- a child witnessed in the part of the match that follows is appended, then the pending run is flushed -/
theorem inv_flush_with {st : St} {p0 cur q1 : Nat} (h : Inv R st p0 cur) (hle : cur ≤ q1) (T : Tree) (hT : Sat R p0 q1 T) :
    Inv R (flush q { st with kids := st.kids ++ [T] }) p0 q1 := by
  have h1 := h.le
  refine ⟨by omega, ?_, .inl ⟨by simp [flush, span_nil], by simp [flush, AtomAt]⟩, by simp only [flush]; exact occurs_nil (by omega)⟩
  unfold flush
  simp only
  have hk : SatAll R p0 q1 (st.kids ++ [T]) := by
    rw [satAll_append]; exact ⟨SatAll.mono (Nat.le_refl _) hle _ h.kids, hT, trivial⟩
  split
  · exact hk
  · rw [satAll_append]
    refine ⟨hk, ?_, trivial⟩
    unfold Sat
    split
    · exact (occurs_trim h.recentOccurs).mono (Nat.le_refl _) hle
    · exact h.best.mono (Nat.le_refl _) hle

/-- the pending run is flushed, then the match goes on to `q1` through something that is not part of any run -/
theorem inv_flush_move {st : St} {p0 cur q1 : Nat} (h : Inv R st p0 cur) (hle : cur ≤ q1) : Inv R (flush q st) p0 q1 :=
  inv_move (inv_flush q h) (by simp [flush]) hle

end


/-! ### matches with their trace: which atom-capable leaf (id) was matched at which position -/
/-- nodes the walk does not descend into and that end a run -/
def Opaque : Re → Bool
  | .lit _ | .masked _ _ | .any | .cat _ _ | .alt _ _ | .plus _ _ | .range _ _ _ _ => false
  | _ => true

inductive Tr (fl : Flags) (buf : Bytes) : Re → Nat → Nat → Nat → List (Nat × Nat) → Prop
  | lit {b i p q} : Re.Matches fl buf (.lit b) p q → Tr fl buf (.lit b) i p q [(i, p)]
  | masked {v m i p q} : Re.Matches fl buf (.masked v m) p q → Tr fl buf (.masked v m) i p q [(i, p)]
  | any {i p q} : Re.Matches fl buf .any p q → Tr fl buf .any i p q [(i, p)]
  | opq {r i p q} : Opaque r = true → Re.Matches fl buf r p q → Tr fl buf r i p q []
  | cat {a b i p t q t1 t2} : Tr fl buf a i p t t1 → Tr fl buf b (i + leaves a) t q t2 → Tr fl buf (.cat a b) i p q (t1 ++ t2)
  | altL {a b i p q t1} : Tr fl buf a i p q t1 → Tr fl buf (.alt a b) i p q t1
  | altR {a b i p q t1} : Tr fl buf b (i + leaves a) p q t1 → Tr fl buf (.alt a b) i p q t1
  | plusOne {a g i p q t1} : Tr fl buf a i p q t1 → Tr fl buf (.plus a g) i p q t1
  | plusStep {a g i p t q t1} : Tr fl buf a i p t t1 → Re.Matches fl buf (.plus a g) t q → Tr fl buf (.plus a g) i p q t1
  | rangeStop {a hi g i p} : Tr fl buf (.range a 0 hi g) i p p []
  | rangeStep {a lo hi g i p t q t1 t2} : 0 < hi → Tr fl buf a i p t t1 → Tr fl buf (.range a (lo - 1) (hi - 1) g) i t q t2 →
      Tr fl buf (.range a lo hi g) i p q (t1 ++ t2)

section
variable {fl : Flags} {buf : Bytes}

/-- every match has a trace -/
theorem tr_of_matches {r : Re} {p q : Nat} (h : Re.Matches fl buf r p q) : ∀ i, ∃ tr, Tr fl buf r i p q tr := by
  induction h with
  | lit hc => intro i; exact ⟨_, .lit (.lit hc)⟩
  | masked hc => intro i; exact ⟨_, .masked (.masked hc)⟩
  | any hc => intro i; exact ⟨_, .any (.any hc)⟩
  | notLit hc => intro i; exact ⟨_, .opq rfl (.notLit hc)⟩
  | maskedNot hc => intro i; exact ⟨_, .opq rfl (.maskedNot hc)⟩
  | cls hc => intro i; exact ⟨_, .opq rfl (.cls hc)⟩
  | wordCh hc => intro i; exact ⟨_, .opq rfl (.wordCh hc)⟩
  | nonWordCh hc => intro i; exact ⟨_, .opq rfl (.nonWordCh hc)⟩
  | space hc => intro i; exact ⟨_, .opq rfl (.space hc)⟩
  | nonSpace hc => intro i; exact ⟨_, .opq rfl (.nonSpace hc)⟩
  | digit hc => intro i; exact ⟨_, .opq rfl (.digit hc)⟩
  | nonDigit hc => intro i; exact ⟨_, .opq rfl (.nonDigit hc)⟩
  | empty => intro i; exact ⟨_, .opq rfl .empty⟩
  | cat _ _ ih1 ih2 =>
    intro i
    obtain ⟨t1, h1⟩ := ih1 i
    obtain ⟨t2, h2⟩ := ih2 _
    exact ⟨_, .cat h1 h2⟩
  | altL _ ih => intro i; obtain ⟨t1, h1⟩ := ih i; exact ⟨_, .altL h1⟩
  | altR _ ih => intro i; obtain ⟨t1, h1⟩ := ih _; exact ⟨_, .altR h1⟩
  | starNil => intro i; exact ⟨_, .opq rfl .starNil⟩
  | starStep h1 h2 _ _ => intro i; exact ⟨_, .opq rfl (.starStep h1 h2)⟩
  | plusOne _ ih => intro i; obtain ⟨t1, h1⟩ := ih i; exact ⟨_, .plusOne h1⟩
  | plusStep _ h2 ih _ => intro i; obtain ⟨t1, h1⟩ := ih i; exact ⟨_, .plusStep h1 h2⟩
  | rangeStop => intro i; exact ⟨_, .rangeStop⟩
  | rangeStep hpos _ _ ih1 ih2 =>
    intro i
    obtain ⟨t1, h1⟩ := ih1 i
    obtain ⟨t2, h2⟩ := ih2 i
    exact ⟨_, .rangeStep hpos h1 h2⟩
  | rangeAnyStop => intro i; exact ⟨_, .opq rfl .rangeAnyStop⟩
  | rangeAnyStep hpos hc h2 _ => intro i; exact ⟨_, .opq rfl (.rangeAnyStep hpos hc h2)⟩
  | bol => intro i; exact ⟨_, .opq rfl .bol⟩
  | eol => intro i; exact ⟨_, .opq rfl .eol⟩
  | wordB hb => intro i; exact ⟨_, .opq rfl (.wordB hb)⟩
  | nonWordB hb => intro i; exact ⟨_, .opq rfl (.nonWordB hb)⟩

/-- the traced match is a match -/
theorem Tr.matches {r : Re} {i p q : Nat} {tr : List (Nat × Nat)} (h : Tr fl buf r i p q tr) : Re.Matches fl buf r p q := by
  induction h with
  | lit h | masked h | any h => exact h
  | opq _ h => exact h
  | cat _ _ ih1 ih2 => exact .cat ih1 ih2
  | altL _ ih => exact .altL ih
  | altR _ ih => exact .altR ih
  | plusOne _ ih => exact .plusOne ih
  | plusStep _ h2 ih => exact .plusStep ih h2
  | rangeStop => exact .rangeStop
  | rangeStep hp _ _ ih1 ih2 => exact .rangeStep hp ih1 ih2

/-- node `n` sits at byte position `s`: the character there (in wide mode with a zero high byte) has the node's value under
    its mask — or, for nocase strings, the same letter in the other case -/
def NodeOk (fl : Flags) (buf : Bytes) (n : Node) (s : Nat) : Prop :=
  ∃ c, buf[s]? = some c ∧ (fl.wide = true → buf[s + 1]? = some 0) ∧
    (c &&& n.mask = n.byte ∨ (fl.nocase = true ∧ n.mask = 0xFF ∧ lower c = lower n.byte))

/-- the masks of hex strings and regular expressions: a byte, `??`, or one nibble -/
def MaskGood (m : UInt8) : Prop := m = 0xFF ∨ m = 0x00 ∨ m = 0x0F ∨ m = 0xF0

/-- every masked node of the expression has such a mask (hex_grammar.y produces no others) -/
def MaskOK : Re → Prop
  | .masked _ m => MaskGood m
  | .cat a b => MaskOK a ∧ MaskOK b
  | .alt a b => MaskOK a ∧ MaskOK b
  | .star a _ => MaskOK a
  | .plus a _ => MaskOK a
  | .range a _ _ _ => MaskOK a
  | _ => True

/-- how the nodes of the atoms sit in the buffer along a match with trace `T` -/
def rdOf (fl : Flags) (buf : Bytes) (T : List (Nat × Nat)) : Rd :=
  { cs := fl.cs, ok := fun n s => NodeOk fl buf n s ∧ (n.id, s) ∈ T ∧ MaskGood n.mask }

theorem and_255 (c : UInt8) : c &&& 0xFF = c := by
  apply UInt8.eq_of_toBitVec_eq
  simp only [UInt8.toBitVec_and]
  have : (255 : UInt8).toBitVec = BitVec.allOnes 8 := by decide
  rw [this, BitVec.and_allOnes]

theorem charOk_inv {t : UInt8 → Bool} {p : Nat} (h : charOk fl buf t p = true) :
    ∃ c, buf[p]? = some c ∧ (fl.wide = true → buf[p + 1]? = some 0) ∧ t c = true := by
  unfold charOk at h
  split at h
  · simp at h
  · rename_i c hc
    by_cases hw : fl.wide = true
    · simp only [hw, if_true] at h
      split at h
      · rename_i z hz
        simp only [Bool.and_eq_true, beq_iff_eq] at h
        exact ⟨c, hc, fun _ => by rw [hz, h.1], h.2⟩
      · simp at h
    · simp only [hw] at h
      exact ⟨c, hc, fun hh => absurd hh hw, h⟩

theorem lit_ok {b : UInt8} {p q : Nat} (i : Nat) (h : Re.Matches fl buf (.lit b) p q) : q = p + fl.cs ∧ NodeOk fl buf ⟨b, 0xFF, i⟩ p := by
  cases h with
  | lit hc =>
    refine ⟨rfl, ?_⟩
    obtain ⟨c, h1, h2, h3⟩ := charOk_inv hc
    refine ⟨c, h1, h2, ?_⟩
    unfold testLit at h3
    by_cases hn : fl.nocase = true
    · simp only [hn, if_true, beq_iff_eq] at h3
      exact .inr ⟨hn, rfl, h3⟩
    · have hn' : fl.nocase = false := by cases hh : fl.nocase <;> simp_all
      simp only [hn', Bool.false_eq_true, if_false, beq_iff_eq] at h3
      left; simp only; rw [and_255]; exact h3

theorem masked_ok {v m : UInt8} {p q : Nat} (i : Nat) (h : Re.Matches fl buf (.masked v m) p q) : q = p + fl.cs ∧ NodeOk fl buf ⟨v, m, i⟩ p := by
  cases h with
  | masked hc =>
    refine ⟨rfl, ?_⟩
    obtain ⟨c, h1, h2, h3⟩ := charOk_inv hc
    exact ⟨c, h1, h2, .inl (by simpa [testMasked] using h3)⟩

theorem any_ok {p q : Nat} (i : Nat) (h : Re.Matches fl buf .any p q) : q = p + fl.cs ∧ NodeOk fl buf ⟨0, 0, i⟩ p := by
  cases h with
  | any hc =>
    refine ⟨rfl, ?_⟩
    obtain ⟨c, h1, h2, _⟩ := charOk_inv hc
    exact ⟨c, h1, h2, .inl (by simp)⟩

variable (q : Atom → Int)

/-- walking an expression along one of its traced matches keeps the invariant -/
theorem walk_inv (T : List (Nat × Nat)) : ∀ (r : Re) (i : Nat) (st : St) (p0 cur q1 : Nat) (tr : List (Nat × Nat)),
    MaskOK r → Inv (rdOf fl buf T) st p0 cur → Tr fl buf r i cur q1 tr → (∀ e ∈ tr, e ∈ T) → Inv (rdOf fl buf T) (walk q r i st) p0 q1 := by
  intro r
  induction r with
  | lit b =>
    intro i st p0 cur q1 tr hmk hi ht hsub
    cases ht with
    | lit hm =>
      obtain ⟨e, hc⟩ := lit_ok i hm
      subst e; simp only [walk]
      exact inv_addNode q hi _ ⟨hc, hsub _ (by simp), .inl rfl⟩
    | opq ho _ => simp [Opaque] at ho
  | masked v m =>
    intro i st p0 cur q1 tr hmk hi ht hsub
    cases ht with
    | masked hm =>
      obtain ⟨e, hc⟩ := masked_ok i hm
      subst e; simp only [walk]
      exact inv_addNode q hi _ ⟨hc, hsub _ (by simp), hmk⟩
    | opq ho _ => simp [Opaque] at ho
  | any =>
    intro i st p0 cur q1 tr hmk hi ht hsub
    cases ht with
    | any hm =>
      obtain ⟨e, hc⟩ := any_ok i hm
      subst e; simp only [walk]
      exact inv_addNode q hi _ ⟨hc, hsub _ (by simp), .inr (.inl rfl)⟩
    | opq ho _ => simp [Opaque] at ho
  | cat a b iha ihb =>
    intro i st p0 cur q1 tr hmk hi ht hsub
    cases ht with
    | cat h1 h2 =>
      simp only [walk]
      exact ihb _ _ _ _ _ _ hmk.2 (iha _ _ _ _ _ _ hmk.1 hi h1 (fun e he => hsub e (List.mem_append_left _ he))) h2
        (fun e he => hsub e (List.mem_append_right _ he))
    | opq ho _ => simp [Opaque] at ho
  | alt a b iha ihb =>
    intro i st p0 cur q1 tr hmk hi ht hsub
    have hb := (Matches.bounds ht.matches).1
    simp only [walk]
    have hand : Sat (rdOf fl buf T) p0 q1 (.and [.or (flush q (walk q a i {})).kids, .or (flush q (walk q b (i + leaves a) {})).kids]) := by
      unfold Sat SatAny
      cases ht with
      | altL h1 =>
        left; unfold Sat
        exact SatAll.mono hi.le (Nat.le_refl _) _ (inv_flush q (iha _ _ _ _ _ _ hmk.1 (inv_init cur) h1 hsub)).kids
      | altR h1 =>
        right; unfold SatAny; left; unfold Sat
        exact SatAll.mono hi.le (Nat.le_refl _) _ (inv_flush q (ihb _ _ _ _ _ _ hmk.2 (inv_init cur) h1 hsub)).kids
      | opq ho _ => simp [Opaque] at ho
    exact inv_flush_with q hi hb _ hand
  | plus a g ih =>
    intro i st p0 cur q1 tr hmk hi ht hsub
    simp only [walk]
    cases ht with
    | plusOne h1 => exact inv_flush q (ih _ _ _ _ _ _ hmk hi h1 hsub)
    | plusStep h1 h2 => exact inv_flush_move q (ih _ _ _ _ _ _ hmk hi h1 hsub) (Matches.bounds h2).1
    | opq ho _ => simp [Opaque] at ho
  | range a lo hi g ih =>
    intro i st p0 cur q1 tr hmk hi' ht hsub
    simp only [walk]
    -- the first min(lo, 4) iterations are consecutive copies of the body
    have key : ∀ (n : Nat) (st : St) (cur lo' hi' : Nat) (tr : List (Nat × Nat)), n ≤ lo' → Inv (rdOf fl buf T) st p0 cur →
        Tr fl buf (.range a lo' hi' g) i cur q1 tr → (∀ e ∈ tr, e ∈ T) →
        ∃ t, t ≤ q1 ∧ Inv (rdOf fl buf T) (iter (walk q a i) n st) p0 t := by
      intro n
      induction n with
      | zero => intro st cur lo' hi' tr _ h1 h2 _; exact ⟨cur, (Matches.bounds h2.matches).1, h1⟩
      | succ k ihk =>
        intro st cur lo' hi' tr hle h1 h2 hs
        cases h2 with
        | rangeStop => omega
        | rangeStep _ m1 m2 =>
          simp only [iter]
          exact ihk _ _ (lo' - 1) (hi' - 1) _ (by omega) (ih _ _ _ _ _ _ hmk h1 m1 (fun e he => hs e (List.mem_append_left _ he))) m2
            (fun e he => hs e (List.mem_append_right _ he))
        | opq ho _ => simp [Opaque] at ho
    obtain ⟨t, ht', hinv⟩ := key (min lo 4) st cur lo hi tr (Nat.min_le_left _ _) hi' ht hsub
    exact inv_flush_move q hinv ht'
  | star a g _ => intro i st p0 cur q1 tr _ hi ht _; simp only [walk]; exact inv_flush_move q hi (Matches.bounds ht.matches).1
  | rangeAny lo hi g => intro i st p0 cur q1 tr _ hi' ht _; simp only [walk]; exact inv_flush_move q hi' (Matches.bounds ht.matches).1
  | notLit b => intro i st p0 cur q1 tr _ hi ht _; simp only [walk]; exact inv_flush_move q hi (Matches.bounds ht.matches).1
  | maskedNot v m => intro i st p0 cur q1 tr _ hi ht _; simp only [walk]; exact inv_flush_move q hi (Matches.bounds ht.matches).1
  | cls bm neg => intro i st p0 cur q1 tr _ hi ht _; simp only [walk]; exact inv_flush_move q hi (Matches.bounds ht.matches).1
  | wordCh => intro i st p0 cur q1 tr _ hi ht _; simp only [walk]; exact inv_flush_move q hi (Matches.bounds ht.matches).1
  | nonWordCh => intro i st p0 cur q1 tr _ hi ht _; simp only [walk]; exact inv_flush_move q hi (Matches.bounds ht.matches).1
  | space => intro i st p0 cur q1 tr _ hi ht _; simp only [walk]; exact inv_flush_move q hi (Matches.bounds ht.matches).1
  | nonSpace => intro i st p0 cur q1 tr _ hi ht _; simp only [walk]; exact inv_flush_move q hi (Matches.bounds ht.matches).1
  | digit => intro i st p0 cur q1 tr _ hi ht _; simp only [walk]; exact inv_flush_move q hi (Matches.bounds ht.matches).1
  | nonDigit => intro i st p0 cur q1 tr _ hi ht _; simp only [walk]; exact inv_flush_move q hi (Matches.bounds ht.matches).1
  | empty => intro i st p0 cur q1 tr _ hi ht _; simp only [walk]; exact inv_flush_move q hi (Matches.bounds ht.matches).1
  | bol => intro i st p0 cur q1 tr _ hi ht _; simp only [walk]; exact inv_flush_move q hi (Matches.bounds ht.matches).1
  | eol => intro i st p0 cur q1 tr _ hi ht _; simp only [walk]; exact inv_flush_move q hi (Matches.bounds ht.matches).1
  | wordB => intro i st p0 cur q1 tr _ hi ht _; simp only [walk]; exact inv_flush_move q hi (Matches.bounds ht.matches).1
  | nonWordB => intro i st p0 cur q1 tr _ hi ht _; simp only [walk]; exact inv_flush_move q hi (Matches.bounds ht.matches).1

/-- **Cover, masked atoms.** For every quality function: along a traced match [p, q') of the expression, one of the chosen
    atoms sits inside [p, q') on nodes of the trace — unless no atom at all was chosen (the zero-length atom applies). -/
theorem chosen_cover (r : Re) (hmk : MaskOK r) {p q' : Nat} {T : List (Nat × Nat)} (hm : Tr fl buf r 0 p q' T) :
    chosen q r = [] ∨ ∃ a ∈ chosen q r, Occurs (rdOf fl buf T) a p q' := by
  have hcase : (choose q (treeOf q r)).1 = [] ∨ (choose q (treeOf q r)).2 > 0 := by
    unfold treeOf choose
    exact chooseOr_nil_or_pos q _ [] 0 (Int.le_refl _) (.inl rfl)
  rcases hcase with h0 | hq
  · left; exact h0
  · right
    have hinv := inv_flush q (walk_inv q T r 0 {} p p q' T hmk (inv_init p) hm (fun e he => he))
    have hs : Sat (rdOf fl buf T) p q' (treeOf q r) := by unfold treeOf Sat; exact hinv.kids
    exact choose_occurs q _ hs hq

end

end YaraModel.ReAtoms
