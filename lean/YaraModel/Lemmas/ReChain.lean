/-
  Lemmas about the chain bookkeeping model (Model/ReChain.lean) for a two-piece chain  head <- tail.
-/
import YaraModel.Model.ReChain
namespace YaraModel.ReChain

def Sorted (l : List UM) : Prop := l.Pairwise (fun a b => a.off < b.off)

/-! ### addSorted / addConfirmed -/
theorem mem_addSorted_of_mem {m x : UM} : ∀ {l : List UM}, x ∈ l → x ∈ addSorted m l
  | [], h => by simp at h
  | y :: t, h => by
    simp only [addSorted]
    split
    · exact h
    · split
      · exact List.mem_cons_of_mem _ h
      · rcases List.mem_cons.1 h with rfl | h'
        · exact List.mem_cons_self
        · exact List.mem_cons_of_mem _ (mem_addSorted_of_mem h')

theorem mem_addSorted {m x : UM} : ∀ {l : List UM}, x ∈ addSorted m l → x ∈ l ∨ x = m
  | [], h => by simp [addSorted] at h; exact .inr h
  | y :: t, h => by
    simp only [addSorted] at h
    split at h
    · exact .inl h
    · split at h
      · rcases List.mem_cons.1 h with rfl | h'
        · exact .inr rfl
        · exact .inl h'
      · rcases List.mem_cons.1 h with rfl | h'
        · exact .inl List.mem_cons_self
        · rcases mem_addSorted h' with h'' | h''
          · exact .inl (List.mem_cons_of_mem _ h'')
          · exact .inr h''

theorem addSorted_has_off (m : UM) : ∀ (l : List UM), ∃ y, y ∈ addSorted m l ∧ y.off = m.off
  | [] => ⟨m, by simp [addSorted], rfl⟩
  | y :: t => by
    simp only [addSorted]
    split
    · rename_i h; exact ⟨y, List.mem_cons_self, h.symm⟩
    · split
      · exact ⟨m, List.mem_cons_self, rfl⟩
      · obtain ⟨z, hz, hz'⟩ := addSorted_has_off m t
        exact ⟨z, List.mem_cons_of_mem _ hz, hz'⟩

theorem sorted_addSorted (m : UM) : ∀ {l : List UM}, Sorted l → Sorted (addSorted m l)
  | [], _ => by simp [addSorted, Sorted]
  | y :: t, h => by
    unfold Sorted at h ⊢
    simp only [addSorted]
    rw [List.pairwise_cons] at h
    split
    · exact List.pairwise_cons.2 h
    · split
      · rename_i hne hlt
        refine List.pairwise_cons.2 ⟨?_, List.pairwise_cons.2 h⟩
        intro a ha
        rcases List.mem_cons.1 ha with rfl | ha'
        · exact hlt
        · exact Nat.lt_trans hlt (h.1 a ha')
      · rename_i hne hnlt
        refine List.pairwise_cons.2 ⟨?_, sorted_addSorted m h.2⟩
        intro a ha
        rcases mem_addSorted ha with ha' | rfl
        · exact h.1 a ha'
        · omega

theorem mem_addConfirmed_of_mem {o l : Nat} {x : Nat × Nat} : ∀ {c : List (Nat × Nat)}, x ∈ c → x ∈ addConfirmed o l c
  | [], h => by simp at h
  | y :: t, h => by
    simp only [addConfirmed]
    split
    · exact h
    · split
      · exact List.mem_cons_of_mem _ h
      · rcases List.mem_cons.1 h with rfl | h'
        · exact List.mem_cons_self
        · exact List.mem_cons_of_mem _ (mem_addConfirmed_of_mem h')

theorem mem_addConfirmed {o l : Nat} {x : Nat × Nat} : ∀ {c : List (Nat × Nat)}, x ∈ addConfirmed o l c → x ∈ c ∨ x = (o, l)
  | [], h => by simp [addConfirmed] at h; exact .inr h
  | y :: t, h => by
    simp only [addConfirmed] at h
    split at h
    · exact .inl h
    · split at h
      · rcases List.mem_cons.1 h with rfl | h'
        · exact .inr rfl
        · exact .inl h'
      · rcases List.mem_cons.1 h with rfl | h'
        · exact .inl List.mem_cons_self
        · rcases mem_addConfirmed h' with h'' | h''
          · exact .inl (List.mem_cons_of_mem _ h'')
          · exact .inr h''

theorem addConfirmed_has (o l : Nat) : ∀ (c : List (Nat × Nat)), ∃ l', (o, l') ∈ addConfirmed o l c
  | [] => ⟨l, by simp [addConfirmed]⟩
  | y :: t => by
    simp only [addConfirmed]
    split
    · rename_i h; exact ⟨y.2, by rw [h]; exact List.mem_cons_self⟩
    · split
      · exact ⟨l, List.mem_cons_self⟩
      · obtain ⟨l', hl'⟩ := addConfirmed_has o l t
        exact ⟨l', List.mem_cons_of_mem _ hl'⟩

/-! ### pruneScan -/
theorem pruneScan_sublist (g : Gap) (lo o : Nat) : ∀ (l : List UM), (pruneScan g lo o l).1.Sublist l
  | [] => by simp [pruneScan]
  | m :: t => by
    simp only [pruneScan]
    split
    · exact (pruneScan_sublist g lo o t).cons _
    · split
      · exact List.Sublist.refl _
      · exact (pruneScan_sublist g lo o t).cons₂ _

theorem pruneScan_keep (g : Gap) (lo o : Nat) {x : UM} : ∀ {l : List UM}, x ∈ l →
    x ∈ (pruneScan g lo o l).1 ∨ x.off + x.len + g.gmax + window < lo
  | [], h => by simp at h
  | m :: t, h => by
    simp only [pruneScan]
    split
    · rename_i hp
      rcases List.mem_cons.1 h with rfl | h'
      · exact .inr hp
      · exact pruneScan_keep g lo o h'
    · split
      · exact .inl h
      · rcases List.mem_cons.1 h with rfl | h'
        · exact .inl List.mem_cons_self
        · rcases pruneScan_keep g lo o h' with h'' | h''
          · exact .inl (List.mem_cons_of_mem _ h'')
          · exact .inr h''

theorem pruneScan_found (g : Gap) (lo o : Nat) : ∀ (l : List UM),
    (pruneScan g lo o l).2 = true ↔ ∃ x, x ∈ l ∧ gapOk g x o = true ∧ ¬ (x.off + x.len + g.gmax + window < lo)
  | [] => by simp [pruneScan]
  | m :: t => by
    simp only [pruneScan]
    split
    · rename_i hp
      rw [pruneScan_found g lo o t]
      constructor
      · rintro ⟨x, hx, h1, h2⟩; exact ⟨x, List.mem_cons_of_mem _ hx, h1, h2⟩
      · rintro ⟨x, hx, h1, h2⟩
        rcases List.mem_cons.1 hx with rfl | hx'
        · exact absurd hp h2
        · exact ⟨x, hx', h1, h2⟩
    · rename_i hp
      split
      · rename_i hg
        simp only [true_iff]
        exact ⟨m, List.mem_cons_self, hg, hp⟩
      · rename_i hg
        show (pruneScan g lo o t).2 = true ↔ _
        rw [pruneScan_found g lo o t]
        constructor
        · rintro ⟨x, hx, h1, h2⟩; exact ⟨x, List.mem_cons_of_mem _ hx, h1, h2⟩
        · rintro ⟨x, hx, h1, h2⟩
          rcases List.mem_cons.1 hx with rfl | hx'
          · exact absurd h1 hg
          · exact ⟨x, hx', h1, h2⟩

/-! ### list-of-lists access -/
theorem getL_setL_same (u : List (List UM)) (i : Nat) (v : List UM) (h : i < u.length) : getL (setL u i v) i = v := by
  simp [getL, setL, List.getD_eq_getElem?_getD, List.getElem?_set, h]

theorem getL_setL_ne (u : List (List UM)) (i j : Nat) (v : List UM) (h : i ≠ j) : getL (setL u i v) j = getL u j := by
  simp [getL, setL, List.getD_eq_getElem?_getD, List.getElem?_set, h]

theorem length_setL (u : List (List UM)) (i : Nat) (v : List UM) : (setL u i v).length = u.length := by
  simp [setL]

/-! ### the marking fold of the tail branch (two pieces: `updLen gaps 0 off 1`) -/
def markOffs (S : List Nat) (x : UM) : UM := if x.off ∈ S then { x with chainLen := 1 } else x

theorem markOffs_off (S : List Nat) (x : UM) : (markOffs S x).off = x.off := by
  unfold markOffs; split <;> rfl

theorem mark_step (S : List Nat) (off : Nat) (x : UM) :
    (if (markOffs S x).off = off then { markOffs S x with chainLen := 1 } else markOffs S x) = markOffs (off :: S) x := by
  rw [markOffs_off]
  by_cases h2 : x.off = off
  · subst h2
    rw [if_pos rfl]
    unfold markOffs
    by_cases h1 : x.off ∈ S
    · simp [h1]
    · simp [h1]
  · rw [if_neg h2]
    unfold markOffs
    by_cases h1 : x.off ∈ S
    · simp [h1]
    · simp [h1, h2]

theorem sorted_unique {L : List UM} (hs : Sorted L) {a b : UM} (ha : a ∈ L) (hb : b ∈ L) (h : a.off = b.off) : a = b := by
  induction L with
  | nil => simp at ha
  | cons y t ih =>
    unfold Sorted at hs
    rw [List.pairwise_cons] at hs
    rcases List.mem_cons.1 ha with rfl | ha' <;> rcases List.mem_cons.1 hb with rfl | hb'
    · rfl
    · have := hs.1 b hb'; omega
    · have := hs.1 a ha'; omega
    · exact ih hs.2 ha' hb'

theorem markFold (gaps : List Gap) (g : Gap) (o : Nat) (L : List UM) (hs : Sorted L) (hz : ∀ m, m ∈ L → m.chainLen = 0) :
    ∀ (todo : List UM) (S : List Nat) (acc : List (List UM)), (∀ m, m ∈ todo → m ∈ L) → 0 < acc.length →
      getL acc 0 = L.map (markOffs S) →
      ∃ S', (∀ s, s ∈ S' ↔ s ∈ S ∨ ∃ m, m ∈ todo ∧ gapOk g m o = true ∧ m.off = s) ∧
        (todo.foldl (fun acc m => if gapOk g m o then updLen gaps 0 m.off 1 acc else acc) acc).length = acc.length ∧
        (∀ j, j ≠ 0 → getL (todo.foldl (fun acc m => if gapOk g m o then updLen gaps 0 m.off 1 acc else acc) acc) j = getL acc j) ∧
        getL (todo.foldl (fun acc m => if gapOk g m o then updLen gaps 0 m.off 1 acc else acc) acc) 0 = L.map (markOffs S')
  | [], S, acc, _, _, hacc => ⟨S, by simp, by simp, by simp, by simpa using hacc⟩
  | m :: t, S, acc, hsub, hlen, hacc => by
    simp only [List.foldl_cons]
    have hmL : m ∈ L := hsub m List.mem_cons_self
    by_cases hg : gapOk g m o = true
    · simp only [hg, if_true]
      -- the step either marks the entry at m.off or leaves acc unchanged because it is already marked
      have hstep : (updLen gaps 0 m.off 1 acc).length = acc.length ∧ (∀ j, j ≠ 0 → getL (updLen gaps 0 m.off 1 acc) j = getL acc j) ∧
          getL (updLen gaps 0 m.off 1 acc) 0 = L.map (markOffs (m.off :: S)) := by
        simp only [updLen]
        split
        · refine ⟨by simp [mark, length_setL], fun j hj => by simp [mark]; exact getL_setL_ne _ _ _ _ (Ne.symm hj), ?_⟩
          simp only [mark]
          rw [getL_setL_same _ _ _ hlen, hacc, List.map_map]
          apply List.map_congr_left
          intro x _
          simp only [Function.comp]
          exact mark_step S m.off x
        · rename_i hn
          refine ⟨rfl, fun _ _ => rfl, ?_⟩
          rw [hacc]
          apply List.map_congr_left
          intro x hxL
          -- not needing the update means the entry at m.off is already marked, i.e. m.off ∈ S
          have hin : m.off ∈ S := by
            unfold needsUpd at hn
            rw [hacc] at hn
            have hfind : (List.map (markOffs S) L).find? (fun y => decide (y.off = m.off)) = some (markOffs S m) := by
              rw [List.find?_eq_some_iff_append]
              refine ⟨by simp [markOffs_off], ?_⟩
              obtain ⟨as, bs, hL⟩ := List.append_of_mem hmL
              refine ⟨as.map (markOffs S), bs.map (markOffs S), by simp [hL], ?_⟩
              intro a ha
              obtain ⟨a0, ha0, rfl⟩ := List.mem_map.1 ha
              simp only [markOffs_off, Bool.not_eq_true', decide_eq_false_iff_not]
              intro heq
              have hs' := hs
              rw [hL] at hs'
              unfold Sorted at hs'
              rw [List.pairwise_append] at hs'
              have := hs'.2.2 a0 ha0 m List.mem_cons_self
              omega
            rw [hfind] at hn
            by_cases hS : m.off ∈ S
            · exact hS
            · exfalso
              apply hn
              unfold markOffs
              simp [hS, hz m hmL]
          unfold markOffs
          by_cases hx : x.off = m.off
          · simp [hx, hin]
          · simp [hx]
      obtain ⟨h1, h2, h3⟩ := hstep
      obtain ⟨S', hS', hl', hj', hr'⟩ := markFold gaps g o L hs hz t (m.off :: S) _ (fun x hx => hsub x (List.mem_cons_of_mem _ hx)) (by rw [h1]; exact hlen) h3
      refine ⟨S', ?_, by rw [hl', h1], fun j hj => by rw [hj' j hj, h2 j hj], hr'⟩
      intro s
      rw [hS' s]
      constructor
      · rintro (hs1 | ⟨x, hx, hgx, rfl⟩)
        · rcases List.mem_cons.1 hs1 with rfl | hs2
          · exact .inr ⟨m, List.mem_cons_self, hg, rfl⟩
          · exact .inl hs2
        · exact .inr ⟨x, List.mem_cons_of_mem _ hx, hgx, rfl⟩
      · rintro (hs1 | ⟨x, hx, hgx, rfl⟩)
        · exact .inl (List.mem_cons_of_mem _ hs1)
        · rcases List.mem_cons.1 hx with rfl | hx'
          · exact .inl List.mem_cons_self
          · exact .inr ⟨x, hx', hgx, rfl⟩
    · simp only [hg]
      obtain ⟨S', hS', hl', hj', hr'⟩ := markFold gaps g o L hs hz t S acc (fun x hx => hsub x (List.mem_cons_of_mem _ hx)) hlen hacc
      refine ⟨S', ?_, hl', hj', hr'⟩
      intro s
      rw [hS' s]
      constructor
      · rintro (hs1 | ⟨x, hx, hgx, rfl⟩)
        · exact .inl hs1
        · exact .inr ⟨x, List.mem_cons_of_mem _ hx, hgx, rfl⟩
      · rintro (hs1 | ⟨x, hx, hgx, rfl⟩)
        · exact .inl hs1
        · rcases List.mem_cons.1 hx with rfl | hx'
          · exact absurd hgx hg
          · exact .inr ⟨x, hx', hgx, rfl⟩


/-! ### two-piece chains: explicit form of one step -/
def um (e : Ev) : UM := { off := e.off, len := e.len }

theorem gapOk_congr (g : Gap) {a b : UM} (o : Nat) (h1 : a.off = b.off) (h2 : a.len = b.len) : gapOk g a o = gapOk g b o := by
  unfold gapOk; rw [h1, h2]

theorem gapOk_iff (g : Gap) (x : UM) (o : Nat) :
    gapOk g x o = true ↔ o ≤ x.off + x.len + g.gmax ∧ x.off + x.len + g.gmin ≤ o := by
  unfold gapOk
  simp only [Bool.and_eq_true, decide_eq_true_eq, ge_iff_le]

theorem gapOk_not_pruned {g : Gap} {m : UM} {o : Nat} (h : gapOk g m o = true) : ¬ (m.off + m.len + g.gmax + window < o) := by
  unfold gapOk at h
  simp only [Bool.and_eq_true, decide_eq_true_eq, ge_iff_le] at h
  omega

theorem verify_head (g : Gap) (st : St) (e : Ev) (h : e.piece = 0) :
    verify [g] st e = { st with unconf := setL st.unconf 0 (addSorted (um e) (getL st.unconf 0)) } := by
  unfold verify
  simp only [h]
  simp [um]

/-- the tail step, with the marking fold replaced by its closed form -/
def tailStep (g : Gap) (st : St) (e : Ev) : St :=
  let pr := pruneScan g e.off e.off (getL st.unconf 0)
  let u1 := setL st.unconf 0 pr.1
  if !pr.2 then { st with unconf := u1 }
  else
    let u2 := (getL u1 0).foldl (fun acc m => if gapOk g m e.off then updLen [g] 0 m.off 1 acc else acc) u1
    let heads := getL u2 0
    { unconf := setL u2 0 (heads.filter (·.chainLen ≠ 1)),
      confirmed := (heads.filter (·.chainLen = 1)).foldl (fun acc m => addConfirmed m.off (e.off - m.off + e.len) acc) st.confirmed }

theorem verify_tail (g : Gap) (st : St) (e : Ev) (h : e.piece = 1) (ht : getL st.unconf 1 = []) :
    verify [g] st e = tailStep g st e := by
  unfold verify tailStep
  simp only [h, ht]
  simp

/-! ### invariants -/
structure InvS (g : Gap) (pre : List Ev) (st : St) : Prop where
  len2 : st.unconf.length = 2
  tailEmpty : getL st.unconf 1 = []
  sorted : Sorted (getL st.unconf 0)
  zero : ∀ m, m ∈ getL st.unconf 0 → m.chainLen = 0
  fromHead : ∀ m, m ∈ getL st.unconf 0 → ∃ h, h ∈ pre ∧ h.piece = 0 ∧ h.off = m.off ∧ h.len = m.len
  confSound : ∀ c, c ∈ st.confirmed → ∃ h t, h ∈ pre ∧ t ∈ pre ∧ h.piece = 0 ∧ t.piece = 1 ∧ h.off = c.1 ∧
      gapOk g (um h) t.off = true ∧ c.2 = t.off - h.off + t.len

theorem foldl_addConfirmed_mem (f : UM → Nat) : ∀ (done : List UM) (c0 : List (Nat × Nat)) (c : Nat × Nat),
    c ∈ done.foldl (fun acc m => addConfirmed m.off (f m) acc) c0 → c ∈ c0 ∨ ∃ m, m ∈ done ∧ c = (m.off, f m)
  | [], c0, c, h => .inl (by simpa using h)
  | m :: t, c0, c, h => by
    simp only [List.foldl_cons] at h
    rcases foldl_addConfirmed_mem f t _ c h with h1 | ⟨x, hx, rfl⟩
    · rcases mem_addConfirmed h1 with h2 | h2
      · exact .inl h2
      · exact .inr ⟨m, List.mem_cons_self, h2⟩
    · exact .inr ⟨x, List.mem_cons_of_mem _ hx, rfl⟩

theorem foldl_addConfirmed_mono (f : UM → Nat) : ∀ (done : List UM) (c0 : List (Nat × Nat)) (c : Nat × Nat),
    c ∈ c0 → c ∈ done.foldl (fun acc m => addConfirmed m.off (f m) acc) c0
  | [], _, _, h => by simpa using h
  | m :: t, c0, c, h => by
    simp only [List.foldl_cons]
    exact foldl_addConfirmed_mono f t _ c (mem_addConfirmed_of_mem h)

theorem foldl_addConfirmed_has (f : UM → Nat) : ∀ (done : List UM) (c0 : List (Nat × Nat)) (m : UM), m ∈ done →
    ∃ l, (m.off, l) ∈ done.foldl (fun acc m => addConfirmed m.off (f m) acc) c0
  | [], _, _, h => by simp at h
  | x :: t, c0, m, h => by
    simp only [List.foldl_cons]
    rcases List.mem_cons.1 h with rfl | h'
    · obtain ⟨l, hl⟩ := addConfirmed_has m.off (f m) c0
      exact ⟨l, foldl_addConfirmed_mono f t _ _ hl⟩
    · exact foldl_addConfirmed_has f t _ m h'

/-- facts about the tail step used by both invariants -/
theorem tailStep_facts (g : Gap) (pre : List Ev) (st : St) (e : Ev) (inv : InvS g pre st) :
    let L := (pruneScan g e.off e.off (getL st.unconf 0)).1
    let st' := tailStep g st e
    st'.unconf.length = 2 ∧ getL st'.unconf 1 = [] ∧
    (∀ m, m ∈ getL st'.unconf 0 → m ∈ L) ∧
    (∀ m, m ∈ L → m ∈ getL st'.unconf 0 ∨ ((pruneScan g e.off e.off (getL st.unconf 0)).2 = true ∧ gapOk g m e.off = true ∧ ∃ l, (m.off, l) ∈ st'.confirmed)) ∧
    Sorted (getL st'.unconf 0) ∧
    (∀ c, c ∈ st.confirmed → c ∈ st'.confirmed) ∧
    (∀ c, c ∈ st'.confirmed → c ∈ st.confirmed ∨ ∃ m, m ∈ L ∧ gapOk g m e.off = true ∧ c = (m.off, e.off - m.off + e.len)) ∧
    ((pruneScan g e.off e.off (getL st.unconf 0)).2 = true → ∀ m, m ∈ getL st'.unconf 0 → ¬ gapOk g m e.off = true) := by
  intro L st'
  have hL : (pruneScan g e.off e.off (getL st.unconf 0)).1 = L := rfl
  have hst'def : st' = tailStep g st e := rfl
  have hsub : L.Sublist (getL st.unconf 0) := pruneScan_sublist g e.off e.off _
  clear_value L st'
  have hLs : Sorted L := List.Pairwise.sublist hsub inv.sorted
  have hLz : ∀ m, m ∈ L → m.chainLen = 0 := fun m hm => inv.zero m (hsub.mem hm)
  have hlen0 : 0 < st.unconf.length := by rw [inv.len2]; omega
  by_cases hf : (pruneScan g e.off e.off (getL st.unconf 0)).2 = true
  · -- found: marking fold
    have hu1len : 0 < (setL st.unconf 0 L).length := by rw [length_setL]; exact hlen0
    have hu1 : getL (setL st.unconf 0 L) 0 = L := getL_setL_same _ _ _ hlen0
    have hmap0 : L = L.map (markOffs []) := by
      rw [List.map_congr_left (g := id)]
      · simp
      · intro x _; simp [markOffs]
    obtain ⟨S', hS', hl', hj', hr'⟩ := markFold [g] g e.off L hLs hLz L [] (setL st.unconf 0 L) (fun _ h => h) hu1len (by rw [hu1]; exact hmap0)
    obtain ⟨F, hF⟩ : ∃ F, F = L.foldl (fun acc m => if gapOk g m e.off then updLen [g] 0 m.off 1 acc else acc) (setL st.unconf 0 L) := ⟨_, rfl⟩
    rw [← hF] at hl' hj' hr'
    obtain ⟨R, hR⟩ : ∃ R, R = (L.map (markOffs S')).filter (·.chainLen ≠ 1) := ⟨_, rfl⟩
    obtain ⟨D, hD⟩ : ∃ D, D = (L.map (markOffs S')).filter (·.chainLen = 1) := ⟨_, rfl⟩
    have hst' : st' = { unconf := setL F 0 R, confirmed := D.foldl (fun acc m => addConfirmed m.off (e.off - m.off + e.len) acc) st.confirmed } := by
      rw [hst'def]
      unfold tailStep
      simp only [hL, hf, Bool.not_true, Bool.false_eq_true, if_false, hu1]
      rw [← hF, hr', ← hR, ← hD]
    -- membership in S' means gapOk (by uniqueness of offsets)
    have hSgap : ∀ x, x ∈ L → (x.off ∈ S' ↔ gapOk g x e.off = true) := by
      intro x hx
      rw [hS']
      constructor
      · rintro (h | ⟨m, hm, hg, ho⟩)
        · simp at h
        · have := sorted_unique hLs hm hx ho
          subst this; exact hg
      · intro hg; exact .inr ⟨x, hx, hg, rfl⟩
    have hmark1 : ∀ x, x ∈ L → ((markOffs S' x).chainLen = 1 ↔ gapOk g x e.off = true) := by
      intro x hx
      rw [← hSgap x hx]
      unfold markOffs
      by_cases h : x.off ∈ S'
      · simp [h]
      · simp [h, hLz x hx]
    have hlenfold : F.length = 2 := by
      rw [hl', length_setL, inv.len2]
    have hrest : ∀ y, y ∈ R ↔ y ∈ L ∧ ¬ gapOk g y e.off = true := by
      intro y
      rw [hR]
      simp only [List.mem_filter, List.mem_map, decide_eq_true_eq]
      constructor
      · rintro ⟨⟨x, hx, rfl⟩, hne⟩
        have hng : ¬ gapOk g x e.off = true := fun hg => hne ((hmark1 x hx).2 hg)
        have : markOffs S' x = x := by
          unfold markOffs
          rw [if_neg (fun h => hng ((hSgap x hx).1 h))]
        rw [this]; exact ⟨hx, hng⟩
      · rintro ⟨hy, hng⟩
        have : markOffs S' y = y := by
          unfold markOffs
          rw [if_neg (fun h => hng ((hSgap y hy).1 h))]
        exact ⟨⟨y, hy, this⟩, by rw [hLz y hy]; omega⟩
    rw [hst']
    refine ⟨by simp [length_setL, hlenfold], ?_, ?_, ?_, ?_, ?_, ?_, ?_⟩
    · show getL (setL _ 0 _) 1 = []
      rw [getL_setL_ne _ _ _ _ (by omega), hj' 1 (by omega), getL_setL_ne _ _ _ _ (by omega)]
      exact inv.tailEmpty
    · intro m hm
      have : getL (setL F 0 R) 0 = R := getL_setL_same _ _ _ (by rw [hlenfold]; omega)
      simp only at hm
      rw [this] at hm
      exact ((hrest m).1 hm).1
    · intro m hm
      have hget : getL (setL F 0 R) 0 = R := getL_setL_same _ _ _ (by rw [hlenfold]; omega)
      by_cases hg : gapOk g m e.off = true
      · right
        refine ⟨hf, hg, ?_⟩
        have hmd : markOffs S' m ∈ D := by
          rw [hD]
          simp only [List.mem_filter, List.mem_map, decide_eq_true_eq]
          exact ⟨⟨m, hm, rfl⟩, (hmark1 m hm).2 hg⟩
        obtain ⟨l, hl⟩ := foldl_addConfirmed_has (fun m => e.off - m.off + e.len) _ st.confirmed _ hmd
        rw [markOffs_off] at hl
        exact ⟨l, hl⟩
      · left
        simp only
        rw [hget]
        exact (hrest m).2 ⟨hm, hg⟩
    · simp only
      rw [getL_setL_same _ _ _ (by rw [hlenfold]; omega), hR]
      apply List.Pairwise.filter
      unfold Sorted at hLs
      rw [List.pairwise_map]
      simpa [markOffs_off] using hLs
    · intro c hc
      exact foldl_addConfirmed_mono _ _ _ _ hc
    · intro c hc
      rcases foldl_addConfirmed_mem (fun m => e.off - m.off + e.len) _ _ _ hc with h1 | ⟨y, hy, rfl⟩
      · exact .inl h1
      · rw [hD] at hy
        simp only [List.mem_filter, List.mem_map, decide_eq_true_eq] at hy
        obtain ⟨⟨x, hx, rfl⟩, h1⟩ := hy
        right
        refine ⟨x, hx, (hmark1 x hx).1 h1, ?_⟩
        simp [markOffs_off]
    · intro _ m hm
      simp only at hm
      rw [getL_setL_same _ _ _ (by rw [hlenfold]; omega)] at hm
      exact ((hrest m).1 hm).2
  · -- nothing at a legal distance: only the pruning is kept
    have hst' : st' = { st with unconf := setL st.unconf 0 L } := by
      rw [hst'def]
      unfold tailStep
      simp only [Bool.not_eq_true] at hf
      simp [hf, hL]
    rw [hst']
    refine ⟨by simp [length_setL, inv.len2], ?_, ?_, ?_, ?_, fun c h => h, fun c h => .inl h, fun h => absurd h hf⟩
    · show getL (setL st.unconf 0 L) 1 = []
      rw [getL_setL_ne _ _ _ _ (by omega)]; exact inv.tailEmpty
    · intro m hm
      simp only at hm
      rw [getL_setL_same _ _ _ hlen0] at hm; exact hm
    · intro m hm
      left
      simp only
      rw [getL_setL_same _ _ _ hlen0]; exact hm
    · simp only
      rw [getL_setL_same _ _ _ hlen0]; exact hLs

theorem invS_step (g : Gap) (pre : List Ev) (st : St) (e : Ev) (he : e.piece ≤ 1) (inv : InvS g pre st) :
    InvS g (pre ++ [e]) (verify [g] st e) := by
  have hlen0 : 0 < st.unconf.length := by rw [inv.len2]; omega
  by_cases hp : e.piece = 0
  · rw [verify_head g st e hp]
    refine ⟨by simp [length_setL, inv.len2], ?_, ?_, ?_, ?_, ?_⟩
    · show getL (setL st.unconf 0 _) 1 = []
      rw [getL_setL_ne _ _ _ _ (by omega)]; exact inv.tailEmpty
    · show Sorted (getL (setL st.unconf 0 _) 0)
      rw [getL_setL_same _ _ _ hlen0]; exact sorted_addSorted _ inv.sorted
    · intro m hm
      simp only at hm
      rw [getL_setL_same _ _ _ hlen0] at hm
      rcases mem_addSorted hm with h | rfl
      · exact inv.zero m h
      · rfl
    · intro m hm
      simp only at hm
      rw [getL_setL_same _ _ _ hlen0] at hm
      rcases mem_addSorted hm with h | rfl
      · obtain ⟨h', h1, h2⟩ := inv.fromHead m h
        exact ⟨h', List.mem_append_left _ h1, h2⟩
      · exact ⟨e, by simp, hp, rfl, rfl⟩
    · intro c hc
      obtain ⟨h, t, h1, h2, h3⟩ := inv.confSound c hc
      exact ⟨h, t, List.mem_append_left _ h1, List.mem_append_left _ h2, h3⟩
  · have hp1 : e.piece = 1 := by omega
    rw [verify_tail g st e hp1 inv.tailEmpty]
    obtain ⟨f1, f2, f3, f4, f5, f6, f7, _⟩ := tailStep_facts g pre st e inv
    have hsub : ((pruneScan g e.off e.off (getL st.unconf 0)).1).Sublist (getL st.unconf 0) := pruneScan_sublist g e.off e.off _
    refine ⟨f1, f2, f5, ?_, ?_, ?_⟩
    · intro m hm; exact inv.zero m (hsub.mem (f3 m hm))
    · intro m hm
      obtain ⟨h', h1, h2⟩ := inv.fromHead m (hsub.mem (f3 m hm))
      exact ⟨h', List.mem_append_left _ h1, h2⟩
    · intro c hc
      rcases f7 c hc with h1 | ⟨m, hm, hg, rfl⟩
      · obtain ⟨h, t, h1', h2, h3⟩ := inv.confSound c h1
        exact ⟨h, t, List.mem_append_left _ h1', List.mem_append_left _ h2, h3⟩
      · obtain ⟨h', h1, h2, h3, h4⟩ := inv.fromHead m (hsub.mem hm)
        refine ⟨h', e, List.mem_append_left _ h1, by simp, h2, hp1, h3, ?_, ?_⟩
        · rw [gapOk_congr g e.off (a := um h') (b := m) h3 h4]; exact hg
        · simp [h3]

theorem invS_init (g : Gap) : InvS g [] (init [g]) := by
  refine ⟨by simp [init], by simp [init, getL], by simp [init, getL, Sorted], by simp [init, getL], by simp [init, getL], by simp [init]⟩

theorem invS_run (g : Gap) : ∀ (rest pre : List Ev) (st : St), (∀ e, e ∈ rest → e.piece ≤ 1) → InvS g pre st →
    InvS g (pre ++ rest) (rest.foldl (verify [g]) st)
  | [], pre, st, _, inv => by simpa using inv
  | e :: t, pre, st, hp, inv => by
    simp only [List.foldl_cons]
    have := invS_run g t (pre ++ [e]) (verify [g] st e) (fun x hx => hp x (List.mem_cons_of_mem _ hx))
      (invS_step g pre st e (hp e List.mem_cons_self) inv)
    simpa using this


/-- every confirmed match of a two-piece chain is a real head/tail pair at a legal distance (no hypothesis on the arrival order) -/
theorem chain2_sound (g : Gap) (evs : List Ev) (hp : ∀ e, e ∈ evs → e.piece ≤ 1) (c : Nat × Nat) (hc : c ∈ (run [g] evs).confirmed) :
    ∃ h t, h ∈ evs ∧ t ∈ evs ∧ h.piece = 0 ∧ t.piece = 1 ∧ h.off = c.1 ∧ gapOk g (um h) t.off = true ∧ c.2 = t.off - h.off + t.len := by
  have := invS_run g evs [] (init [g]) hp (invS_init g)
  simp only [List.nil_append] at this
  exact this.confSound c hc

/-! ### completeness under the hypotheses the bookkeeping needs -/
structure InvC (g : Gap) (pre : List Ev) (st : St) : Prop where
  complete : ∀ h, h ∈ pre → h.piece = 0 → (∃ m, m ∈ getL st.unconf 0 ∧ m.off = h.off) ∨ (∃ l, (h.off, l) ∈ st.confirmed) ∨
      (∃ t, t ∈ pre ∧ t.piece = 1 ∧ h.off + h.len + g.gmax + window < t.off)
  linked : ∀ h t, h ∈ pre → t ∈ pre → h.piece = 0 → t.piece = 1 → gapOk g (um h) t.off = true → ∃ l, (h.off, l) ∈ st.confirmed

theorem invC_step (g : Gap) (pre : List Ev) (st : St) (e : Ev) (he : e.piece ≤ 1) (invS : InvS g pre st) (invC : InvC g pre st)
    -- H2: one length per head offset
    (hH2 : ∀ a b, a ∈ pre ++ [e] → b ∈ pre ++ [e] → a.piece = 0 → b.piece = 0 → a.off = b.off → a.len = b.len)
    -- H1: a tail match starts at most `window` bytes before the tail matches that arrived earlier
    (hH1 : e.piece = 1 → ∀ t, t ∈ pre → t.piece = 1 → t.off ≤ e.off + window)
    -- H3: a head arrives before the tails it connects to
    (hH3 : e.piece = 0 → ∀ t, t ∈ pre → t.piece = 1 → gapOk g (um e) t.off = false) :
    InvC g (pre ++ [e]) (verify [g] st e) := by
  have hlen0 : 0 < st.unconf.length := by rw [invS.len2]; omega
  by_cases hp : e.piece = 0
  · rw [verify_head g st e hp]
    constructor
    · intro h hh hh0
      simp only
      rw [getL_setL_same _ _ _ hlen0]
      rcases List.mem_append.1 hh with hpre | hlast
      · rcases invC.complete h hpre hh0 with ⟨m, hm, hmo⟩ | hconf | ⟨t, ht, ht1, hd⟩
        · exact .inl ⟨m, mem_addSorted_of_mem hm, hmo⟩
        · exact .inr (.inl hconf)
        · exact .inr (.inr ⟨t, List.mem_append_left _ ht, ht1, hd⟩)
      · simp at hlast; subst hlast
        obtain ⟨y, hy, hyo⟩ := addSorted_has_off (um h) (getL st.unconf 0)
        exact .inl ⟨y, hy, hyo⟩
    · intro h t hh ht hh0 ht1 hg
      simp only
      have htpre : t ∈ pre := by
        rcases List.mem_append.1 ht with h1 | h1
        · exact h1
        · simp at h1; subst h1; omega
      rcases List.mem_append.1 hh with hpre | hlast
      · exact invC.linked h t hpre htpre hh0 ht1 hg
      · simp at hlast; subst hlast
        have := hH3 hp t htpre ht1
        rw [this] at hg; simp at hg
  · have hp1 : e.piece = 1 := by omega
    rw [verify_tail g st e hp1 invS.tailEmpty]
    obtain ⟨f1, f2, f3, f4, f5, f6, f7, f8⟩ := tailStep_facts g pre st e invS
    have headPre : ∀ h, h ∈ pre ++ [e] → h.piece = 0 → h ∈ pre := by
      intro h hh hh0
      rcases List.mem_append.1 hh with h1 | h1
      · exact h1
      · simp at h1; subst h1; omega
    -- an unconfirmed entry with the offset of head h has the length of h
    have lenOf : ∀ h m, h ∈ pre → h.piece = 0 → m ∈ getL st.unconf 0 → m.off = h.off → m.len = h.len := by
      intro h m hh hh0 hm hmo
      obtain ⟨h', h1, h2, h3, h4⟩ := invS.fromHead m hm
      have := hH2 h' h (List.mem_append_left _ h1) (List.mem_append_left _ hh) h2 hh0 (by omega)
      omega
    constructor
    · intro h hh hh0
      have hpre := headPre h hh hh0
      rcases invC.complete h hpre hh0 with ⟨m, hm, hmo⟩ | ⟨l, hl⟩ | ⟨t, ht, ht1, hd⟩
      · rcases pruneScan_keep g e.off e.off hm with hk | hpr
        · rcases f4 m hk with h1 | ⟨_, _, l, hl⟩
          · exact .inl ⟨m, h1, hmo⟩
          · exact .inr (.inl ⟨l, by rw [← hmo]; exact hl⟩)
        · have := lenOf h m hpre hh0 hm hmo
          exact .inr (.inr ⟨e, by simp, hp1, by omega⟩)
      · exact .inr (.inl ⟨l, f6 _ hl⟩)
      · exact .inr (.inr ⟨t, List.mem_append_left _ ht, ht1, hd⟩)
    · intro h t hh ht hh0 ht1 hg
      have hpre := headPre h hh hh0
      rcases List.mem_append.1 ht with htpre | hlast
      · obtain ⟨l, hl⟩ := invC.linked h t hpre htpre hh0 ht1 hg
        exact ⟨l, f6 _ hl⟩
      · simp at hlast; subst hlast
        rcases invC.complete h hpre hh0 with ⟨m, hm, hmo⟩ | ⟨l, hl⟩ | ⟨t', ht', ht1', hd⟩
        · have hml := lenOf h m hpre hh0 hm hmo
          have hgm : gapOk g m t.off = true := by
            rw [gapOk_congr g t.off (a := m) (b := um h) hmo hml]; exact hg
          have hnp := gapOk_not_pruned hgm
          rcases pruneScan_keep g t.off t.off hm with hk | hpr
          · rcases f4 m hk with h1 | ⟨_, _, l, hl⟩
            · -- m cannot stay unconfirmed: a legal entry was found, and kept entries are not legal
              exfalso
              have hfound : (pruneScan g t.off t.off (getL st.unconf 0)).2 = true :=
                (pruneScan_found g t.off t.off _).2 ⟨m, hm, hgm, hnp⟩
              exact f8 hfound m h1 hgm
            · exact ⟨l, by rw [← hmo]; exact hl⟩
          · exact absurd hpr hnp
        · exact ⟨l, f6 _ hl⟩
        · -- dead head: an earlier tail started beyond its reach by more than the window
          exfalso
          have h1 := hH1 hp1 t' ht' ht1'
          have := (gapOk_iff g (um h) t.off).1 hg
          simp only [um] at this
          omega


theorem invC_init (g : Gap) : InvC g [] (init [g]) := ⟨by simp, by simp⟩

theorem inv_run (g : Gap) : ∀ (rest pre : List Ev) (st : St), (∀ e, e ∈ pre ++ rest → e.piece ≤ 1) →
    (∀ a b, a ∈ pre ++ rest → b ∈ pre ++ rest → a.piece = 0 → b.piece = 0 → a.off = b.off → a.len = b.len) →
    (pre ++ rest).Pairwise (fun a b => a.piece = 1 → b.piece = 1 → a.off ≤ b.off + window) →
    (pre ++ rest).Pairwise (fun a b => a.piece = 1 → b.piece = 0 → gapOk g (um b) a.off = false) →
    InvS g pre st → InvC g pre st →
    InvS g (pre ++ rest) (rest.foldl (verify [g]) st) ∧ InvC g (pre ++ rest) (rest.foldl (verify [g]) st)
  | [], pre, st, _, _, _, _, iS, iC => by simpa using ⟨iS, iC⟩
  | e :: t, pre, st, hp, h2, h1, h3, iS, iC => by
    simp only [List.foldl_cons]
    have he : e.piece ≤ 1 := hp e (by simp)
    have hsplit : pre ++ e :: t = (pre ++ [e]) ++ t := by simp
    have iS' := invS_step g pre st e he iS
    have iC' := invC_step g pre st e he iS iC
      (fun a b ha hb => h2 a b (by rw [hsplit]; exact List.mem_append_left _ ha) (by rw [hsplit]; exact List.mem_append_left _ hb))
      (fun hp1 x hx hx1 => by
        rw [List.pairwise_append] at h1
        exact h1.2.2 x hx e List.mem_cons_self hx1 hp1)
      (fun hp0 x hx hx1 => by
        rw [List.pairwise_append] at h3
        exact h3.2.2 x hx e List.mem_cons_self hx1 hp0)
    have := inv_run g t (pre ++ [e]) (verify [g] st e) (by rw [← hsplit]; exact hp) (by rw [← hsplit]; exact h2)
      (by rw [← hsplit]; exact h1) (by rw [← hsplit]; exact h3) iS' iC'
    rw [hsplit]; exact this

/-- completeness of the two-piece bookkeeping under its hypotheses -/
theorem chain2_complete (g : Gap) (evs : List Ev) (hp : ∀ e, e ∈ evs → e.piece ≤ 1)
    (hH2 : ∀ a b, a ∈ evs → b ∈ evs → a.piece = 0 → b.piece = 0 → a.off = b.off → a.len = b.len)
    (hH1 : evs.Pairwise (fun a b => a.piece = 1 → b.piece = 1 → a.off ≤ b.off + window))
    (hH3 : evs.Pairwise (fun a b => a.piece = 1 → b.piece = 0 → gapOk g (um b) a.off = false))
    (h t : Ev) (hh : h ∈ evs) (ht : t ∈ evs) (hh0 : h.piece = 0) (ht1 : t.piece = 1) (hg : gapOk g (um h) t.off = true) :
    ∃ l, (h.off, l) ∈ (run [g] evs).confirmed := by
  have := inv_run g evs [] (init [g]) (by simpa using hp) (by simpa using hH2) (by simpa using hH1) (by simpa using hH3)
    (invS_init g) (invC_init g)
  simp only [List.nil_append] at this
  exact this.2.linked h t hh ht hh0 ht1 hg

end YaraModel.ReChain
