/-
  Lemmas about the regular-expression specification (Spec/Re.lean):
  the closure operators `iterN` / `upTo` characterised by paths, bounds of matches, and
  `ends_iff_Matches` (functional spec = relational spec) for every node kind.
-/
import YaraModel.Spec.Re
namespace YaraModel.Re

/-- `Path f k x z`: `z` is reached from `x` by exactly `k` applications of `f` -/
inductive Path (f : Nat → List Nat) : Nat → Nat → Nat → Prop
  | nil {x} : Path f 0 x x
  | cons {k x y z} : y ∈ f x → Path f k y z → Path f (k+1) x z

theorem Path.zero_eq {f : Nat → List Nat} {x z : Nat} (h : Path f 0 x z) : z = x := by
  cases h; rfl

theorem Path.snoc {f : Nat → List Nat} {k x y z : Nat} (h : Path f k x y) (hz : z ∈ f y) : Path f (k+1) x z := by
  induction h with
  | nil => exact .cons hz .nil
  | cons hy _ ih => exact .cons hy (ih hz)

theorem Path.append {f : Nat → List Nat} {a b x y z : Nat} (h1 : Path f a x y) (h2 : Path f b y z) :
    Path f (a + b) x z := by
  induction h1 with
  | nil => simpa using h2
  | @cons k x y' z' hy _ ih =>
    have := ih h2
    have e : k + 1 + b = (k + b) + 1 := by omega
    rw [e]; exact .cons hy this

theorem Path.split {f : Nat → List Nat} : ∀ (a : Nat) {b x z : Nat}, Path f (a + b) x z → ∃ y, Path f a x y ∧ Path f b y z
  | 0, b, x, z, h => ⟨x, .nil, by simpa using h⟩
  | a+1, b, x, z, h => by
    have e : a + 1 + b = (a + b) + 1 := by omega
    rw [e] at h
    cases h with
    | cons hy hp =>
      obtain ⟨w, h1, h2⟩ := Path.split a hp
      exact ⟨w, .cons hy h1, h2⟩

/-- when `f` never moves backwards, stationary steps can be dropped: a path needs at most `z - x` steps -/
theorem Path.shorten {f : Nat → List Nat} (mono : ∀ a b, b ∈ f a → a ≤ b) {k x z : Nat} (h : Path f k x z) :
    x ≤ z ∧ ∃ k', k' ≤ z - x ∧ Path f k' x z := by
  induction h with
  | nil => exact ⟨Nat.le_refl _, 0, Nat.zero_le _, .nil⟩
  | @cons k x y z hy _ ih =>
    obtain ⟨hyz, k', hk', hp⟩ := ih
    have hxy := mono _ _ hy
    refine ⟨Nat.le_trans hxy hyz, ?_⟩
    by_cases e : y = x
    · subst e; exact ⟨k', hk', hp⟩
    · exact ⟨k' + 1, by omega, .cons hy hp⟩

/-! ### iterN -/
theorem mem_iterN {f : Nat → List Nat} : ∀ (n : Nat) (s : List Nat) (q : Nat),
    q ∈ iterN f n s ↔ ∃ x, x ∈ s ∧ Path f n x q
  | 0, s, q => by
    simp only [iterN]
    constructor
    · intro h; exact ⟨q, h, .nil⟩
    · rintro ⟨x, hx, hp⟩; rw [hp.zero_eq]; exact hx
  | n+1, s, q => by
    simp only [iterN]
    rw [mem_iterN n]
    constructor
    · rintro ⟨y, hy, hp⟩
      rw [List.mem_eraseDups, List.mem_flatMap] at hy
      obtain ⟨x, hx, hxy⟩ := hy
      exact ⟨x, hx, .cons hxy hp⟩
    · rintro ⟨x, hx, hp⟩
      cases hp with
      | cons hy hp' =>
        exact ⟨_, by rw [List.mem_eraseDups, List.mem_flatMap]; exact ⟨x, hx, hy⟩, hp'⟩

/-! ### upTo -/
theorem acc_subset_upTo {f : Nat → List Nat} : ∀ (n : Nat) (fr acc : List Nat) (q : Nat), q ∈ acc → q ∈ upTo f n fr acc
  | 0, _, _, _, h => by simpa [upTo] using h
  | n+1, fr, acc, q, h => by
    simp only [upTo]
    split
    · exact h
    · exact acc_subset_upTo n _ _ q (List.mem_append_left _ h)

theorem upTo_sound {f : Nat → List Nat} : ∀ (n : Nat) (fr acc : List Nat) (q : Nat),
    q ∈ upTo f n fr acc → q ∈ acc ∨ ∃ x, x ∈ fr ∧ ∃ k, k ≤ n ∧ Path f k x q
  | 0, _, _, _, h => by left; simpa [upTo] using h
  | n+1, fr, acc, q, h => by
    simp only [upTo] at h
    split at h
    · exact .inl h
    · rcases upTo_sound n _ _ q h with h1 | ⟨x, hx, k, hk, hp⟩
      · rcases List.mem_append.1 h1 with h2 | h2
        · exact .inl h2
        · rw [List.mem_eraseDups, List.mem_filter, List.mem_flatMap] at h2
          obtain ⟨⟨w, hw, hwq⟩, _⟩ := h2
          exact .inr ⟨w, hw, 1, by omega, .cons hwq .nil⟩
      · rw [List.mem_eraseDups, List.mem_filter, List.mem_flatMap] at hx
        obtain ⟨⟨w, hw, hwx⟩, _⟩ := hx
        exact .inr ⟨w, hw, k + 1, by omega, .cons hwx hp⟩

/-- invariant of the breadth-first closure: the frontier is in `acc`, and every non-frontier member of `acc`
    has all its successors in `acc` -/
def Closed (f : Nat → List Nat) (fr acc : List Nat) : Prop :=
  (∀ x, x ∈ fr → x ∈ acc) ∧ (∀ y, y ∈ acc → y ∉ fr → ∀ z, z ∈ f y → z ∈ acc)

theorem closed_all {f : Nat → List Nat} {acc : List Nat} (h : ∀ y, y ∈ acc → ∀ z, z ∈ f y → z ∈ acc)
    {k y q : Nat} (hp : Path f k y q) (hy : y ∈ acc) : q ∈ acc := by
  induction hp with
  | nil => exact hy
  | cons hz _ ih => exact ih (h _ hy _ hz)

theorem upTo_complete {f : Nat → List Nat} : ∀ (n : Nat) (fr acc : List Nat), Closed f fr acc →
    ∀ (j y q : Nat), y ∈ acc → Path f j y q → j ≤ n → q ∈ upTo f n fr acc
  | 0, fr, acc, _, j, y, q, hy, hp, hj => by
    have : j = 0 := by omega
    subst this
    rw [hp.zero_eq]; simpa [upTo] using hy
  | n+1, fr, acc, hc, j, y, q, hy, hp, hj => by
    induction j generalizing y with
    | zero => rw [hp.zero_eq]; exact acc_subset_upTo _ _ _ _ hy
    | succ j ih =>
      cases hp with
      | @cons _ _ y1 _ hy1 hp' =>
        by_cases hfr : y ∈ fr
        · -- y is in the frontier: its successor is either already known or in the next level
          simp only [upTo]
          split
          · -- no new element: acc is closed under f
            rename_i hnew
            have hall : ∀ a, a ∈ acc → ∀ z, z ∈ f a → z ∈ acc := by
              intro a ha z hz
              by_cases hafr : a ∈ fr
              · by_cases hz' : z ∈ acc
                · exact hz'
                · exfalso
                  have : z ∈ ((fr.flatMap f).filter (fun x => !acc.contains x)).eraseDups := by
                    rw [List.mem_eraseDups, List.mem_filter, List.mem_flatMap]
                    refine ⟨⟨a, hafr, hz⟩, ?_⟩
                    simp [hz']
                  rw [List.isEmpty_iff] at hnew
                  rw [hnew] at this
                  simp at this
              · exact hc.2 a ha hafr z hz
            exact closed_all hall (.cons hy1 hp') hy
          · -- recurse with the new level as frontier
            have hc' : Closed f (((fr.flatMap f).filter (fun x => !acc.contains x)).eraseDups)
                (acc ++ ((fr.flatMap f).filter (fun x => !acc.contains x)).eraseDups) := by
              constructor
              · intro x hx; exact List.mem_append_right _ hx
              · intro a ha hanew z hz
                have haacc : a ∈ acc := by
                  rcases List.mem_append.1 ha with h | h
                  · exact h
                  · exact absurd h hanew
                by_cases hz' : z ∈ acc
                · exact List.mem_append_left _ hz'
                · by_cases hafr : a ∈ fr
                  · apply List.mem_append_right
                    rw [List.mem_eraseDups, List.mem_filter, List.mem_flatMap]
                    exact ⟨⟨a, hafr, hz⟩, by simp [hz']⟩
                  · exact absurd (hc.2 a haacc hafr z hz) hz'
            have hy1' : y1 ∈ acc ++ ((fr.flatMap f).filter (fun x => !acc.contains x)).eraseDups := by
              by_cases hz' : y1 ∈ acc
              · exact List.mem_append_left _ hz'
              · apply List.mem_append_right
                rw [List.mem_eraseDups, List.mem_filter, List.mem_flatMap]
                exact ⟨⟨y, hfr, hy1⟩, by simp [hz']⟩
            exact upTo_complete n _ _ hc' j y1 q hy1' hp' (by omega)
        · -- y is an interior point: its successor is in acc, shorter path
          exact ih y1 (hc.2 y hy hfr y1 hy1) hp' (by omega)

theorem mem_upTo_self {f : Nat → List Nat} (n : Nat) (s : List Nat) (q : Nat) :
    q ∈ upTo f n s s ↔ ∃ x, x ∈ s ∧ ∃ k, k ≤ n ∧ Path f k x q := by
  constructor
  · intro h
    rcases upTo_sound n s s q h with h1 | h1
    · exact ⟨q, h1, 0, Nat.zero_le _, .nil⟩
    · exact h1
  · rintro ⟨x, hx, k, hk, hp⟩
    exact upTo_complete n s s ⟨fun _ h => h, fun y hy hn => absurd hy hn⟩ k x q hx hp hk

/-! ### one-character steps -/
theorem charOk_size {fl : Flags} {buf : Bytes} {t : UInt8 → Bool} {p : Nat} (h : charOk fl buf t p = true) :
    p + fl.cs ≤ buf.size := by
  unfold charOk at h
  unfold Flags.cs
  split at h
  · simp at h
  · rename_i c hc
    have h1 : p < buf.size := by
      have := Array.getElem?_eq_some_iff.1 hc
      exact this.1
    split at h
    · rename_i hw
      split at h
      · rename_i z hz
        have := (Array.getElem?_eq_some_iff.1 hz).1
        simp [hw]; omega
      · simp at h
    · rename_i hw
      simp [hw]; omega

theorem mem_step {fl : Flags} {buf : Bytes} {t : UInt8 → Bool} {p q : Nat} :
    q ∈ step fl buf t p ↔ charOk fl buf t p = true ∧ q = p + fl.cs := by
  unfold step
  split <;> simp_all

/-! ### bounds of relational matches -/
theorem Matches.bounds {fl : Flags} {buf : Bytes} {r : Re} {p q : Nat} (h : Re.Matches fl buf r p q) :
    p ≤ q ∧ q ≤ max p buf.size := by
  induction h with
  | lit h | masked h | notLit h | maskedNot h | any h | cls h | wordCh h | nonWordCh h | space h | nonSpace h
  | digit h | nonDigit h => have := charOk_size h; omega
  | empty | starNil | rangeStop | rangeAnyStop | bol | eol | wordB _ | nonWordB _ => omega
  | cat _ _ ih1 ih2 | starStep _ _ ih1 ih2 | plusStep _ _ ih1 ih2 | rangeStep _ _ _ ih1 ih2 => omega
  | altL _ ih | altR _ ih | plusOne _ ih => exact ih
  | rangeAnyStep _ h _ ih => have := charOk_size h; omega

/-! ### star / plus / range as paths -/
section
variable {fl : Flags} {buf : Bytes}

theorem star_of_path {a : Re} {g : Bool} (ih : ∀ x y, y ∈ a.ends fl buf x → Re.Matches fl buf a x y)
    {k p q : Nat} (h : Path (fun x => a.ends fl buf x) k p q) : Re.Matches fl buf (.star a g) p q := by
  induction h with
  | nil => exact .starNil
  | cons hy _ ih' => exact .starStep (ih _ _ hy) ih'

theorem path_of_star {a : Re} {g : Bool} (ih : ∀ x y, Re.Matches fl buf a x y → y ∈ a.ends fl buf x)
    {r : Re} {p q : Nat} (h : Re.Matches fl buf r p q) (e : r = .star a g) :
    ∃ k, Path (fun x => a.ends fl buf x) k p q := by
  induction h with
  | starNil => exact ⟨0, .nil⟩
  | starStep h1 _ _ ih2 =>
    cases e
    obtain ⟨k, hk⟩ := ih2 rfl
    exact ⟨k + 1, .cons (ih _ _ h1) hk⟩
  | _ => cases e

theorem plus_of_path {a : Re} {g : Bool} (ih : ∀ x y, y ∈ a.ends fl buf x → Re.Matches fl buf a x y)
    {k x q : Nat} (h : Path (fun x => a.ends fl buf x) k x q) :
    ∀ p, Re.Matches fl buf a p x → Re.Matches fl buf (.plus a g) p q := by
  induction h with
  | nil => intro p hp; exact .plusOne hp
  | cons hy _ ih' => intro p hp; exact .plusStep hp (ih' _ (ih _ _ hy))

theorem path_of_plus {a : Re} {g : Bool} (ih : ∀ x y, Re.Matches fl buf a x y → y ∈ a.ends fl buf x)
    {r : Re} {p q : Nat} (h : Re.Matches fl buf r p q) (e : r = .plus a g) :
    ∃ x, Re.Matches fl buf a p x ∧ ∃ k, Path (fun x => a.ends fl buf x) k x q := by
  induction h with
  | plusOne h1 => cases e; exact ⟨_, h1, 0, .nil⟩
  | plusStep h1 _ _ ih2 =>
    cases e
    obtain ⟨x, hx, k, hk⟩ := ih2 rfl
    exact ⟨_, h1, k + 1, .cons (ih _ _ hx) hk⟩
  | _ => cases e

theorem range_of_path {a : Re} {g : Bool} (ih : ∀ x y, y ∈ a.ends fl buf x → Re.Matches fl buf a x y) :
    ∀ (k lo hi p q : Nat), lo ≤ k → k ≤ hi → Path (fun x => a.ends fl buf x) k p q →
      Re.Matches fl buf (.range a lo hi g) p q
  | 0, lo, hi, p, q, hlo, _, h => by
    have : lo = 0 := by omega
    subst this
    rw [h.zero_eq]; exact .rangeStop
  | k+1, lo, hi, p, q, hlo, hhi, h => by
    cases h with
    | cons hy hp =>
      exact .rangeStep (by omega) (ih _ _ hy) (range_of_path ih k (lo - 1) (hi - 1) _ _ (by omega) (by omega) hp)

theorem path_of_range {a : Re} {g : Bool} (ih : ∀ x y, Re.Matches fl buf a x y → y ∈ a.ends fl buf x)
    {r : Re} {p q : Nat} (h : Re.Matches fl buf r p q) : ∀ lo hi, r = .range a lo hi g →
    ∃ k, lo ≤ k ∧ k ≤ hi ∧ Path (fun x => a.ends fl buf x) k p q := by
  induction h with
  | rangeStop => intro lo hi e; cases e; exact ⟨0, Nat.le_refl _, Nat.zero_le _, .nil⟩
  | rangeStep hpos h1 _ _ ih2 =>
    intro lo hi e
    cases e
    obtain ⟨k, h1', h2', hk⟩ := ih2 _ _ rfl
    exact ⟨k + 1, by omega, by omega, .cons (ih _ _ h1) hk⟩
  | _ => intro lo hi e; cases e

theorem rangeAny_of_path {g : Bool} :
    ∀ (k lo hi p q : Nat), lo ≤ k → k ≤ hi → Path (step fl buf (testAny fl)) k p q →
      Re.Matches fl buf (.rangeAny lo hi g) p q
  | 0, lo, hi, p, q, hlo, _, h => by
    have : lo = 0 := by omega
    subst this
    rw [h.zero_eq]; exact .rangeAnyStop
  | k+1, lo, hi, p, q, hlo, hhi, h => by
    cases h with
    | cons hy hp =>
      obtain ⟨hc, rfl⟩ := mem_step.1 hy
      exact .rangeAnyStep (by omega) hc (rangeAny_of_path k (lo - 1) (hi - 1) _ _ (by omega) (by omega) hp)

theorem path_of_rangeAny {g : Bool} {r : Re} {p q : Nat} (h : Re.Matches fl buf r p q) :
    ∀ lo hi, r = .rangeAny lo hi g → ∃ k, lo ≤ k ∧ k ≤ hi ∧ Path (step fl buf (testAny fl)) k p q := by
  induction h with
  | rangeAnyStop => intro lo hi e; cases e; exact ⟨0, Nat.le_refl _, Nat.zero_le _, .nil⟩
  | rangeAnyStep hpos hc _ ih2 =>
    intro lo hi e
    cases e
    obtain ⟨k, h1', h2', hk⟩ := ih2 _ _ rfl
    exact ⟨k + 1, by omega, by omega, .cons (mem_step.2 ⟨hc, rfl⟩) hk⟩
  | _ => intro lo hi e; cases e

/-- bounded closure after exactly `lo` steps = between `lo` and `hi` steps -/
theorem mem_range_sets (f : Nat → List Nat) (lo hi p q : Nat) (hlh : lo ≤ hi) :
    q ∈ upTo f (hi - lo) (iterN f lo [p]) (iterN f lo [p]) ↔ ∃ k, lo ≤ k ∧ k ≤ hi ∧ Path f k p q := by
  rw [mem_upTo_self]
  constructor
  · rintro ⟨x, hx, k, hk, hp⟩
    obtain ⟨p', hp', hpx⟩ := (mem_iterN lo [p] x).1 hx
    simp at hp'; subst hp'
    exact ⟨lo + k, by omega, by omega, hpx.append hp⟩
  · rintro ⟨k, h1, h2, hp⟩
    have e : k = lo + (k - lo) := by omega
    rw [e] at hp
    obtain ⟨y, hy1, hy2⟩ := Path.split lo hp
    exact ⟨y, (mem_iterN lo [p] y).2 ⟨p, by simp, hy1⟩, k - lo, by omega, hy2⟩

end

end YaraModel.Re

namespace YaraModel.Re

/-- The functional specification (sets of end positions) and the relational one coincide, for every node kind. -/
theorem ends_iff_Matches (fl : Flags) (buf : Bytes) (r : Re) : ∀ (p q : Nat),
    q ∈ r.ends fl buf p ↔ Re.Matches fl buf r p q := by
  induction r with
  | lit b | masked v m | notLit b | maskedNot v m | any | cls bm neg | wordCh | nonWordCh | space | nonSpace
  | digit | nonDigit =>
    intro p q
    simp only [Re.ends, mem_step]
    constructor
    · rintro ⟨h, rfl⟩; constructor; exact h
    · intro h; cases h; rename_i h; exact ⟨h, rfl⟩
  | empty =>
    intro p q
    simp only [Re.ends, List.mem_singleton]
    constructor
    · rintro rfl; exact .empty
    · intro h; cases h; rfl
  | cat a b iha ihb =>
    intro p q
    simp only [Re.ends, List.mem_eraseDups, List.mem_flatMap]
    constructor
    · rintro ⟨x, hx, hq⟩; exact .cat ((iha _ _).1 hx) ((ihb _ _).1 hq)
    · intro h; cases h with
      | cat h1 h2 => exact ⟨_, (iha _ _).2 h1, (ihb _ _).2 h2⟩
  | alt a b iha ihb =>
    intro p q
    simp only [Re.ends, List.mem_eraseDups, List.mem_append]
    constructor
    · rintro (h | h)
      · exact .altL ((iha _ _).1 h)
      · exact .altR ((ihb _ _).1 h)
    · intro h; cases h with
      | altL h => exact .inl ((iha _ _).2 h)
      | altR h => exact .inr ((ihb _ _).2 h)
  | star a g iha =>
    intro p q
    simp only [Re.ends]
    rw [mem_upTo_self]
    constructor
    · rintro ⟨x, hx, k, _, hp⟩
      simp at hx; subst hx
      exact star_of_path (fun x y h => (iha x y).1 h) hp
    · intro h
      obtain ⟨k, hk⟩ := path_of_star (fun x y h => (iha x y).2 h) h rfl
      have hb := Matches.bounds h
      have mono : ∀ a' b', b' ∈ (fun x => a.ends fl buf x) a' → a' ≤ b' :=
        fun a' b' hb' => (Matches.bounds ((iha a' b').1 hb')).1
      obtain ⟨_, k', hk', hp'⟩ := Path.shorten mono hk
      exact ⟨p, by simp, k', by omega, hp'⟩
  | plus a g iha =>
    intro p q
    simp only [Re.ends]
    rw [mem_upTo_self]
    constructor
    · rintro ⟨x, hx, k, _, hp⟩
      rw [List.mem_eraseDups] at hx
      exact plus_of_path (fun x y h => (iha x y).1 h) hp p ((iha _ _).1 hx)
    · intro h
      obtain ⟨x, hx, k, hk⟩ := path_of_plus (fun x y h => (iha x y).2 h) h rfl
      have hb := Matches.bounds h
      have hbx := Matches.bounds hx
      have mono : ∀ a' b', b' ∈ (fun x => a.ends fl buf x) a' → a' ≤ b' :=
        fun a' b' hb' => (Matches.bounds ((iha a' b').1 hb')).1
      obtain ⟨_, k', hk', hp'⟩ := Path.shorten mono hk
      exact ⟨x, by rw [List.mem_eraseDups]; exact (iha _ _).2 hx, k', by omega, hp'⟩
  | range a lo hi g iha =>
    intro p q
    simp only [Re.ends]
    split
    · rename_i hlh
      rw [mem_range_sets _ _ _ _ _ hlh]
      constructor
      · rintro ⟨k, h1, h2, hp⟩
        exact range_of_path (fun x y h => (iha x y).1 h) k lo hi p q h1 h2 hp
      · intro h
        exact path_of_range (fun x y h => (iha x y).2 h) h lo hi rfl
    · rename_i hlh
      constructor
      · intro h; simp at h
      · intro h
        obtain ⟨k, h1, h2, _⟩ := path_of_range (fun x y h => (iha x y).2 h) h lo hi rfl
        omega
  | rangeAny lo hi g =>
    intro p q
    simp only [Re.ends]
    split
    · rename_i hlh
      rw [mem_range_sets _ _ _ _ _ hlh]
      constructor
      · rintro ⟨k, h1, h2, hp⟩
        exact rangeAny_of_path k lo hi p q h1 h2 hp
      · intro h
        exact path_of_rangeAny h lo hi rfl
    · rename_i hlh
      constructor
      · intro h; simp at h
      · intro h
        obtain ⟨k, h1, h2, _⟩ := path_of_rangeAny (g := g) h lo hi rfl
        omega
  | bol =>
    intro p q
    simp only [Re.ends]
    constructor
    · intro h
      split at h
      · rename_i hp; subst hp; simp at h; subst h; exact .bol
      · simp at h
    · intro h; cases h; simp
  | eol =>
    intro p q
    simp only [Re.ends]
    constructor
    · intro h
      split at h
      · rename_i hp; subst hp; simp at h; subst h; exact .eol
      · simp at h
    · intro h; cases h; simp
  | wordB =>
    intro p q
    simp only [Re.ends]
    constructor
    · intro h
      split at h
      · rename_i hp; simp at h; subst h; exact .wordB hp
      · simp at h
    · intro h; cases h with | wordB hb => simp [hb]
  | nonWordB =>
    intro p q
    simp only [Re.ends]
    constructor
    · intro h
      split at h
      · simp at h
      · rename_i hp; simp at h; subst h; exact .nonWordB (by simpa using hp)
    · intro h; cases h with | nonWordB hb => simp [hb]

end YaraModel.Re
