/- Slot algebra of the arena model: getSlot/setSlot frame lemmas and the in-place map over the
   relocation list (`mapSlots`), of which the fix-up loop, save's pointer->reference pass and
   its reference->pointer pass are instances. -/
import YaraModel.Lemmas.ArenaBytes
import YaraModel.Spec.Arena
namespace YaraModel.Arena

theorem NoOverlap.symm {r s : Ref} (h : NoOverlap r s) : NoOverlap s r := by
  unfold NoOverlap at *; omega

@[simp] theorem setSlot_relocs (a : Arena) (r : Ref) (v : Nat) : (setSlot a r v).relocs = a.relocs := rfl
@[simp] theorem setSlot_init (a : Arena) (r : Ref) (v : Nat) : (setSlot a r v).init = a.init := rfl
@[simp] theorem setSlot_unspec (a : Arena) (r : Ref) (v : Nat) : (setSlot a r v).unspec = a.unspec := rfl
@[simp] theorem setSlot_length (a : Arena) (r : Ref) (v : Nat) : (setSlot a r v).bufs.length = a.bufs.length := by
  simp [setSlot]

theorem Arena.ext' {a b : Arena} (h1 : a.bufs = b.bufs) (h2 : a.relocs = b.relocs) (h3 : a.init = b.init)
    (h4 : a.unspec = b.unspec) : a = b := by
  cases a; cases b; simp_all

theorem bufAt_eq (a : Arena) (i : Nat) : a.bufAt i = (a.bufs[i]?).getD {} := by
  simp [Arena.bufAt, List.getD_eq_getElem?_getD]

theorem bufAt_setSlot (a : Arena) (r : Ref) (v : Nat) (i : Nat) :
    (setSlot a r v).bufAt i =
      if i = r.buf ∧ i < a.bufs.length then { a.bufAt i with data := wr64 (a.bufAt i).data r.off v } else a.bufAt i := by
  simp only [bufAt_eq, setSlot, List.getElem?_modify]
  by_cases h : r.buf = i
  · subst h
    by_cases hl : r.buf < a.bufs.length
    · simp [hl]
    · simp [hl]
  · have : ¬ (i = r.buf ∧ i < a.bufs.length) := by omega
    simp [h, this]

theorem bufAt_setSlot_base (a : Arena) (r : Ref) (v i : Nat) : ((setSlot a r v).bufAt i).base = (a.bufAt i).base := by
  rw [bufAt_setSlot]; split <;> rfl

theorem bufAt_setSlot_cap (a : Arena) (r : Ref) (v i : Nat) : ((setSlot a r v).bufAt i).cap = (a.bufAt i).cap := by
  rw [bufAt_setSlot]; split <;> rfl

theorem bufAt_setSlot_len (a : Arena) (r : Ref) (v i : Nat) :
    ((setSlot a r v).bufAt i).data.length = (a.bufAt i).data.length := by
  rw [bufAt_setSlot]; split <;> simp [length_wr64]

theorem InB_setSlot (a : Arena) (r : Ref) (v : Nat) (s : Ref) : InB (setSlot a r v) s ↔ InB a s := by
  unfold InB; rw [bufAt_setSlot_len, setSlot_length]

theorem getSlot_setSlot_same {a : Arena} {r : Ref} (v : Nat) (h : InB a r) : getSlot (setSlot a r v) r = v % 2 ^ 64 := by
  unfold getSlot
  rw [bufAt_setSlot]
  simp only [h.2, and_self, if_true]
  exact rd64_wr64_same v h.1

theorem getSlot_setSlot_other {a : Arena} {r s : Ref} (v : Nat) (h : NoOverlap r s) :
    getSlot (setSlot a r v) s = getSlot a s := by
  unfold getSlot
  rw [bufAt_setSlot]
  split
  · rename_i hc
    have : s.off + 8 ≤ r.off ∨ r.off + 8 ≤ s.off := by unfold NoOverlap at h; omega
    exact rd64_wr64_other v this
  · rfl

theorem setSlot_setSlot_same (a : Arena) (r : Ref) (v w : Nat) : setSlot (setSlot a r v) r w = setSlot a r w := by
  refine Arena.ext' ?_ (by rfl) (by rfl) (by rfl)
  simp only [setSlot, List.modify_modify_eq]
  congr 1
  funext b
  simp [wr64_wr64_same]

theorem setSlot_comm (a : Arena) {r s : Ref} (v w : Nat) (h : NoOverlap r s) :
    setSlot (setSlot a r v) s w = setSlot (setSlot a s w) r v := by
  refine Arena.ext' ?_ (by rfl) (by rfl) (by rfl)
  simp only [setSlot]
  by_cases hb : r.buf = s.buf
  · have : r.off + 8 ≤ s.off ∨ s.off + 8 ≤ r.off := by unfold NoOverlap at h; omega
    rw [hb, List.modify_modify_eq, List.modify_modify_eq]
    congr 1
    funext b
    simp [wr64_comm _ v w this]
  · rw [List.modify_modify_ne _ _ _ hb]

theorem setSlot_getSlot_id {a : Arena} {r : Ref} (h : InB a r) : setSlot a r (getSlot a r) = a := by
  refine Arena.ext' ?_ (by rfl) (by rfl) (by rfl)
  apply List.ext_getElem?
  intro i
  simp only [setSlot, List.getElem?_modify]
  split
  · rename_i hi
    subst hi
    have hl := h.2
    have h1 := h.1
    simp only [bufAt_eq, List.getElem?_eq_getElem hl, Option.getD_some] at h1
    simp only [List.getElem?_eq_getElem hl, getSlot, bufAt_eq, Option.getD_some, Option.map_eq_map, Option.map_some]
    rw [wr64_rd64_id h1]
  · simp

theorem setSlot_mod (a : Arena) (r : Ref) (v : Nat) : setSlot a r (v % 2 ^ 64) = setSlot a r v := by
  simp only [setSlot, wr64_mod]

/-! ### in-place map over a list of slots -/

def mapSlots (φ : Nat → Nat) (rs : List Ref) (a : Arena) : Arena :=
  rs.foldl (fun x r => setSlot x r (φ (getSlot x r))) a

@[simp] theorem mapSlots_nil (φ : Nat → Nat) (a : Arena) : mapSlots φ [] a = a := rfl
@[simp] theorem mapSlots_cons (φ : Nat → Nat) (r : Ref) (t : List Ref) (a : Arena) :
    mapSlots φ (r :: t) a = mapSlots φ t (setSlot a r (φ (getSlot a r))) := rfl

@[simp] theorem mapSlots_relocs (φ : Nat → Nat) (rs : List Ref) (a : Arena) : (mapSlots φ rs a).relocs = a.relocs := by
  induction rs generalizing a with
  | nil => rfl
  | cons r t ih => simp [ih]

@[simp] theorem mapSlots_init (φ : Nat → Nat) (rs : List Ref) (a : Arena) : (mapSlots φ rs a).init = a.init := by
  induction rs generalizing a with
  | nil => rfl
  | cons r t ih => simp [ih]

@[simp] theorem mapSlots_unspec (φ : Nat → Nat) (rs : List Ref) (a : Arena) : (mapSlots φ rs a).unspec = a.unspec := by
  induction rs generalizing a with
  | nil => rfl
  | cons r t ih => simp [ih]

@[simp] theorem mapSlots_length (φ : Nat → Nat) (rs : List Ref) (a : Arena) : (mapSlots φ rs a).bufs.length = a.bufs.length := by
  induction rs generalizing a with
  | nil => rfl
  | cons r t ih => simp [ih]

theorem bufAt_mapSlots_base (φ : Nat → Nat) (rs : List Ref) (a : Arena) (i : Nat) :
    ((mapSlots φ rs a).bufAt i).base = (a.bufAt i).base := by
  induction rs generalizing a with
  | nil => rfl
  | cons r t ih => simp [ih, bufAt_setSlot_base]

theorem bufAt_mapSlots_cap (φ : Nat → Nat) (rs : List Ref) (a : Arena) (i : Nat) :
    ((mapSlots φ rs a).bufAt i).cap = (a.bufAt i).cap := by
  induction rs generalizing a with
  | nil => rfl
  | cons r t ih => simp [ih, bufAt_setSlot_cap]

theorem bufAt_mapSlots_len (φ : Nat → Nat) (rs : List Ref) (a : Arena) (i : Nat) :
    ((mapSlots φ rs a).bufAt i).data.length = (a.bufAt i).data.length := by
  induction rs generalizing a with
  | nil => rfl
  | cons r t ih => simp [ih, bufAt_setSlot_len]

theorem InB_mapSlots (φ : Nat → Nat) (rs : List Ref) (a : Arena) (s : Ref) : InB (mapSlots φ rs a) s ↔ InB a s := by
  unfold InB; rw [bufAt_mapSlots_len, mapSlots_length]

theorem getSlot_mapSlots_other (φ : Nat → Nat) {t : List Ref} {r : Ref} (a : Arena) (h : ∀ s ∈ t, NoOverlap s r) :
    getSlot (mapSlots φ t a) r = getSlot a r := by
  induction t generalizing a with
  | nil => simp only [mapSlots_nil]
  | cons s t ih =>
    rw [mapSlots_cons, ih _ (fun x hx => h x (List.mem_cons_of_mem _ hx)),
      getSlot_setSlot_other _ (h s (List.mem_cons_self ..))]

theorem mapSlots_setSlot_comm (φ : Nat → Nat) {t : List Ref} {r : Ref} (a : Arena) (v : Nat)
    (h : ∀ s ∈ t, NoOverlap r s) : mapSlots φ t (setSlot a r v) = setSlot (mapSlots φ t a) r v := by
  induction t generalizing a with
  | nil => simp only [mapSlots_nil]
  | cons s t ih =>
    have hrs := h s (List.mem_cons_self ..)
    rw [mapSlots_cons, mapSlots_cons, getSlot_setSlot_other _ hrs, setSlot_comm _ _ _ hrs,
      ih _ (fun x hx => h x (List.mem_cons_of_mem _ hx))]

theorem SlotsOk.tail {a : Arena} {r : Ref} {t : List Ref} (h : SlotsOk a (r :: t)) : SlotsOk a t :=
  ⟨(List.pairwise_cons.1 h.1).2, fun s hs => h.2 s (List.mem_cons_of_mem _ hs)⟩

theorem SlotsOk.head {a : Arena} {r : Ref} {t : List Ref} (h : SlotsOk a (r :: t)) :
    (∀ s ∈ t, NoOverlap r s) ∧ InB a r :=
  ⟨(List.pairwise_cons.1 h.1).1, h.2 r (List.mem_cons_self ..)⟩

theorem SlotsOk.setSlot {a : Arena} {rs : List Ref} (h : SlotsOk a rs) (r : Ref) (v : Nat) : SlotsOk (setSlot a r v) rs :=
  ⟨h.1, fun s hs => (InB_setSlot a r v s).2 (h.2 s hs)⟩

theorem SlotsOk.mapSlots {a : Arena} {rs : List Ref} (h : SlotsOk a rs) (φ : Nat → Nat) (t : List Ref) :
    SlotsOk (mapSlots φ t a) rs :=
  ⟨h.1, fun s hs => (InB_mapSlots φ t a s).2 (h.2 s hs)⟩

/-- after the pass every slot holds the image of its old value -/
theorem getSlot_mapSlots (φ : Nat → Nat) {rs : List Ref} {a : Arena} (h : SlotsOk a rs) {r : Ref} (hr : r ∈ rs) :
    getSlot (mapSlots φ rs a) r = φ (getSlot a r) % 2 ^ 64 := by
  induction rs generalizing a with
  | nil => cases hr
  | cons s t ih =>
    have ⟨hno, hin⟩ := h.head
    rw [mapSlots_cons, mapSlots_setSlot_comm _ _ _ hno]
    rcases List.mem_cons.1 hr with rfl | hmem
    · rw [getSlot_setSlot_same _ ((InB_mapSlots φ t a r).2 hin)]
    · rw [getSlot_setSlot_other _ (hno r hmem), ih h.tail hmem]

theorem mapSlots_comp (φ ψ : Nat → Nat) {rs : List Ref} {a : Arena} (h : SlotsOk a rs)
    (hφ : ∀ r ∈ rs, φ (getSlot a r) < 2 ^ 64) :
    mapSlots ψ rs (mapSlots φ rs a) = mapSlots (fun v => ψ (φ v)) rs a := by
  induction rs generalizing a with
  | nil => simp only [mapSlots_nil]
  | cons r t ih =>
    have ⟨hno, hin⟩ := h.head
    simp only [mapSlots_cons]
    rw [mapSlots_setSlot_comm φ a _ hno]
    rw [getSlot_setSlot_same _ ((InB_mapSlots φ t a r).2 hin), setSlot_setSlot_same,
      Nat.mod_eq_of_lt (hφ r (List.mem_cons_self ..))]
    rw [mapSlots_setSlot_comm ψ _ _ hno, mapSlots_setSlot_comm _ a _ hno,
      ih h.tail (fun s hs => hφ s (List.mem_cons_of_mem _ hs))]

theorem mapSlots_congr {φ ψ : Nat → Nat} {rs : List Ref} {a : Arena} (h : SlotsOk a rs)
    (hv : ∀ r ∈ rs, φ (getSlot a r) = ψ (getSlot a r)) : mapSlots φ rs a = mapSlots ψ rs a := by
  induction rs generalizing a with
  | nil => simp only [mapSlots_nil]
  | cons r t ih =>
    have ⟨hno, hin⟩ := h.head
    simp only [mapSlots_cons]
    rw [hv r (List.mem_cons_self ..)]
    apply ih (h.tail.setSlot r _)
    intro s hs
    rw [getSlot_setSlot_other _ (hno s hs)]
    exact hv s (List.mem_cons_of_mem _ hs)

theorem mapSlots_id {φ : Nat → Nat} {rs : List Ref} {a : Arena} (h : SlotsOk a rs)
    (hv : ∀ r ∈ rs, φ (getSlot a r) = getSlot a r) : mapSlots φ rs a = a := by
  induction rs generalizing a with
  | nil => simp only [mapSlots_nil]
  | cons r t ih =>
    have ⟨hno, hin⟩ := h.head
    simp only [mapSlots_cons]
    rw [hv r (List.mem_cons_self ..), setSlot_getSlot_id hin]
    exact ih h.tail (fun s hs => hv s (List.mem_cons_of_mem _ hs))

end YaraModel.Arena
