/-
  How a run reads its input — instances of `Dir` (Lemmas/ReIrStep.lean) — and what a code shape's matches in units of
  matched bytes (`IrM`) mean for the expression on the buffer.
    forwards, one-byte characters:  `L r q t` = the expression of the instruction matches buf[start+q, start+t)
-/
import YaraModel.Lemmas.ReIrSound
namespace YaraModel.ReEmit
open YaraModel.Re YaraModel.ReVm

/-! ### forwards, byte mode -/
def fwdL (e : Env) (r : Re) (q t : Nat) : Prop := Re.Matches (specFlags e.fl) e.buf r (e.start + q) (e.start + t)

def fwdByteDir (e : Env) (h : FwdByte e) : Dir e where
  L := fwdL e
  ok := fun bm => e.start + bm ≤ e.buf.size
  cons := by
    intro r a f bm hc hip hcons hok
    have e1 : e.start + (bm + e.cs) = e.start + bm + 1 := by rw [cs_one h]; omega
    unfold fwdL
    rw [e1]
    cases hc with
    | lit h1 h2 => exact consume_lit h (by rw [hip]; exact h1) (by rw [hip]; exact h2) hok
    | notLit h1 h2 => exact consume_notLit h (by rw [hip]; exact h1) (by rw [hip]; exact h2) hok
    | masked h1 h2 h3 => exact consume_masked h (by rw [hip]; exact h1) (by rw [hip]; exact h2) (by rw [hip]; exact h3) hok
    | maskedNot h1 h2 h3 => exact consume_maskedNot h (by rw [hip]; exact h1) (by rw [hip]; exact h2) (by rw [hip]; exact h3) hok
    | any h1 => exact consume_any h (by rw [hip]; exact h1) hok
    | cls h1 h2 h3 => exact consume_cls h (by rw [hip]; exact h1) (by rw [hip]; exact h2) (by rw [hip]; exact h3) hok
    | wordCh h1 => exact consume_wordCh h (by rw [hip]; exact h1) hok
    | nonWordCh h1 => exact consume_nonWordCh h (by rw [hip]; exact h1) hok
    | space h1 => exact consume_space h (by rw [hip]; exact h1) hok
    | nonSpace h1 => exact consume_nonSpace h (by rw [hip]; exact h1) hok
    | digit h1 => exact consume_digit h (by rw [hip]; exact h1) hok
    | nonDigit h1 => exact consume_nonDigit h (by rw [hip]; exact h1) hok
    | bol h1 | eol h1 | wordB h1 | nonWordB h1 => rw [h1] at hcons; simp [isConsuming, OP_MATCH_AT_START, OP_MATCH_AT_END, OP_WORD_BOUNDARY, OP_NON_WORD_BOUNDARY, OP_ANY, OP_REPEAT_ANY_GREEDY, OP_REPEAT_ANY_UNGREEDY, OP_LITERAL, OP_NOT_LITERAL, OP_MASKED_LITERAL, OP_MASKED_NOT_LITERAL, OP_CLASS, OP_WORD_CHAR, OP_NON_WORD_CHAR, OP_SPACE, OP_NON_SPACE, OP_DIGIT, OP_NON_DIGIT] at hcons
  any := by
    intro f bm hop hok
    have e1 : e.start + (bm + e.cs) = e.start + bm + 1 := by rw [cs_one h]; omega
    unfold fwdL
    rw [e1]
    have := consume_anyrep h hop hok
    rw [mem_step] at this
    have hm := Re.Matches.any this.1
    rwa [specFlags_cs] at hm
  zw := by
    intro r a bm hc hnc hok hz
    unfold fwdL
    cases hc with
    | bol h1 => rw [h1] at hz; rw [zw_bol h hz]; exact .bol
    | eol h1 => rw [h1] at hz; rw [zw_eol h hok hz]; exact .eol
    | wordB h1 => rw [h1] at hz; exact .wordB (by rw [← zw_boundary h hok]; exact hz)
    | nonWordB h1 =>
      rw [h1] at hz
      exact .nonWordB (by
        rw [zw_nonboundary, zw_boundary h hok] at hz
        simpa using hz)
    | lit h1 _ | notLit h1 _ | masked h1 _ _ | maskedNot h1 _ _ | any h1 | cls h1 _ _ | wordCh h1 | nonWordCh h1 | space h1 | nonSpace h1 | digit h1 | nonDigit h1 =>
      rw [h1] at hnc; simp [isConsuming, OP_ANY, OP_REPEAT_ANY_GREEDY, OP_REPEAT_ANY_UNGREEDY, OP_LITERAL, OP_NOT_LITERAL, OP_MASKED_LITERAL, OP_MASKED_NOT_LITERAL, OP_CLASS, OP_WORD_CHAR, OP_NON_WORD_CHAR, OP_SPACE, OP_NON_SPACE, OP_DIGIT, OP_NON_DIGIT] at hnc
  ok0 := h.startIn
  okScan := by
    intro bm _ hbm
    have := maxBytes_le h
    omega
  okCons := by
    intro f bm hb hok
    have := consume_in_buf h hok
    rw [cs_one h]; omega

/-- forwards, the matches of a shape in matched bytes are matches of its expression on the buffer -/
theorem irm_fwd (e : Env) {x : Ir} {q t : Nat} (hm : IrM (fwdL e) x q t) :
    Re.Matches (specFlags e.fl) e.buf x.re (e.start + q) (e.start + t) := by
  induction hm with
  | leaf h => exact h
  | @jump lo hi g j q t h1 h2 hit =>
    have hp : Path (step (specFlags e.fl) e.buf (testAny (specFlags e.fl))) j (e.start + q) (e.start + t) := by
      clear h1 h2
      induction hit with
      | nil => exact .nil
      | @cons k x y z hxy _ ih =>
        refine .cons ?_ ih
        unfold fwdL at hxy
        have := (ends_iff_Matches _ _ .any _ _).2 hxy
        simpa [Re.ends] using this
    exact rangeAny_of_path j lo hi _ _ h1 h2 hp
  | eps => exact .empty
  | cat _ _ ih1 ih2 => exact .cat ih1 ih2
  | altL _ ih => exact .altL ih
  | altR _ ih => exact .altR ih
  | starNil => exact .starNil
  | starStep _ _ ih1 ih2 => exact .starStep ih1 ih2
  | plusOne _ ih => exact .plusOne ih
  | plusStep _ _ ih1 ih2 => exact .plusStep ih1 ih2
  | optSkip => exact .rangeStop
  | optTake _ ih => exact .rangeStep (by decide) ih .rangeStop
  | loopStop => exact .rangeStop
  | loopStep hpos _ _ ih1 ih2 => exact .rangeStep hpos ih1 ih2

end YaraModel.ReEmit
