/-
  How a run reads its input — instances of `Dir` (Lemmas/ReIrStep.lean) — and what a code shape's matches in units of
  matched bytes (`IrM`) mean for the expression on the buffer.
    forwards, one-byte characters:  `L r q t` = the expression of the instruction matches buf[start+q, start+t)
-/
import YaraModel.Lemmas.ReIrSound
namespace YaraModel.ReEmit
open YaraModel.Re YaraModel.ReVm

/-! ### forwards, byte mode -/
def fwdL (e : Env) (r : Re) (q t : Nat) : Prop := Re.Matches (specFlags e.fl) e.buf r (e.start + q) (e.start + t)

def fwdByteDir (e : Env) (h : FwdByte e) : Dir e where
  L := fwdL e
  ok := fun bm => e.start + bm ≤ e.buf.size
  cons := by
    intro r a f bm hc hip hcons _ hok
    have e1 : e.start + (bm + e.cs) = e.start + bm + 1 := by rw [cs_one h]; omega
    unfold fwdL
    rw [e1]
    cases hc with
    | lit h1 h2 => exact consume_lit h (by rw [hip]; exact h1) (by rw [hip]; exact h2) hok
    | notLit h1 h2 => exact consume_notLit h (by rw [hip]; exact h1) (by rw [hip]; exact h2) hok
    | masked h1 h2 h3 => exact consume_masked h (by rw [hip]; exact h1) (by rw [hip]; exact h2) (by rw [hip]; exact h3) hok
    | maskedNot h1 h2 h3 => exact consume_maskedNot h (by rw [hip]; exact h1) (by rw [hip]; exact h2) (by rw [hip]; exact h3) hok
    | any h1 => exact consume_any h (by rw [hip]; exact h1) hok
    | cls h1 h2 h3 => exact consume_cls h (by rw [hip]; exact h1) (by rw [hip]; exact h2) (by rw [hip]; exact h3) hok
    | wordCh h1 => exact consume_wordCh h (by rw [hip]; exact h1) hok
    | nonWordCh h1 => exact consume_nonWordCh h (by rw [hip]; exact h1) hok
    | space h1 => exact consume_space h (by rw [hip]; exact h1) hok
    | nonSpace h1 => exact consume_nonSpace h (by rw [hip]; exact h1) hok
    | digit h1 => exact consume_digit h (by rw [hip]; exact h1) hok
    | nonDigit h1 => exact consume_nonDigit h (by rw [hip]; exact h1) hok
    | bol h1 | eol h1 | wordB h1 | nonWordB h1 => rw [h1] at hcons; simp [isConsuming, OP_MATCH_AT_START, OP_MATCH_AT_END, OP_WORD_BOUNDARY, OP_NON_WORD_BOUNDARY, OP_ANY, OP_REPEAT_ANY_GREEDY, OP_REPEAT_ANY_UNGREEDY, OP_LITERAL, OP_NOT_LITERAL, OP_MASKED_LITERAL, OP_MASKED_NOT_LITERAL, OP_CLASS, OP_WORD_CHAR, OP_NON_WORD_CHAR, OP_SPACE, OP_NON_SPACE, OP_DIGIT, OP_NON_DIGIT] at hcons
  any := by
    intro f bm hop _ hok
    have e1 : e.start + (bm + e.cs) = e.start + bm + 1 := by rw [cs_one h]; omega
    unfold fwdL
    rw [e1]
    have := consume_anyrep h hop hok
    rw [mem_step] at this
    have hm := Re.Matches.any this.1
    rwa [specFlags_cs] at hm
  zw := by
    intro r a bm hc hnc hok hz
    unfold fwdL
    cases hc with
    | bol h1 => rw [h1] at hz; rw [zw_bol h hz]; exact .bol
    | eol h1 => rw [h1] at hz; rw [zw_eol h hok hz]; exact .eol
    | wordB h1 => rw [h1] at hz; exact .wordB (by rw [← zw_boundary h hok]; exact hz)
    | nonWordB h1 =>
      rw [h1] at hz
      exact .nonWordB (by
        rw [zw_nonboundary, zw_boundary h hok] at hz
        simpa using hz)
    | lit h1 _ | notLit h1 _ | masked h1 _ _ | maskedNot h1 _ _ | any h1 | cls h1 _ _ | wordCh h1 | nonWordCh h1 | space h1 | nonSpace h1 | digit h1 | nonDigit h1 =>
      rw [h1] at hnc; simp [isConsuming, OP_ANY, OP_REPEAT_ANY_GREEDY, OP_REPEAT_ANY_UNGREEDY, OP_LITERAL, OP_NOT_LITERAL, OP_MASKED_LITERAL, OP_MASKED_NOT_LITERAL, OP_CLASS, OP_WORD_CHAR, OP_NON_WORD_CHAR, OP_SPACE, OP_NON_SPACE, OP_DIGIT, OP_NON_DIGIT] at hnc
  ok0 := h.startIn
  okScan := by
    intro bm _ hbm
    have := maxBytes_le h
    omega
  okCons := by
    intro f bm hb hok
    have := consume_in_buf h hok
    rw [cs_one h]; omega

/-- forwards, the matches of a shape in matched bytes are matches of its expression on the buffer -/
theorem irm_fwd (e : Env) {x : Ir} {q t : Nat} (hm : IrM (fwdL e) x q t) :
    Re.Matches (specFlags e.fl) e.buf x.re (e.start + q) (e.start + t) := by
  induction hm with
  | leaf h => exact h
  | @jump lo hi g j q t h1 h2 hit =>
    have hp : Path (step (specFlags e.fl) e.buf (testAny (specFlags e.fl))) j (e.start + q) (e.start + t) := by
      clear h1 h2
      induction hit with
      | nil => exact .nil
      | @cons k x y z hxy _ ih =>
        refine .cons ?_ ih
        unfold fwdL at hxy
        have := (ends_iff_Matches _ _ .any _ _).2 hxy
        simpa [Re.ends] using this
    exact rangeAny_of_path j lo hi _ _ h1 h2 hp
  | eps => exact .empty
  | cat _ _ ih1 ih2 => exact .cat ih1 ih2
  | altL _ ih => exact .altL ih
  | altR _ ih => exact .altR ih
  | starNil => exact .starNil
  | starStep _ _ ih1 ih2 => exact .starStep ih1 ih2
  | plusOne _ ih => exact .plusOne ih
  | plusStep _ _ ih1 ih2 => exact .plusStep ih1 ih2
  | optSkip => exact .rangeStop
  | optTake _ ih => exact .rangeStep (by decide) ih .rangeStop
  | loopStop => exact .rangeStop
  | loopStep hpos _ _ ih1 ih2 => exact .rangeStep hpos ih1 ih2

/-! ### every direction and character size -/
structure RunOK (e : Env) : Prop where
  startIn : e.start ≤ e.buf.size
  scanByte : e.fl.scan = true → e.fl.wide = false      -- the scan mode is the `matches` operator: byte mode

theorem mod_cs_of_scan {e : Env} (h : RunOK e) (hsc : e.fl.scan = true) (bm : Nat) : bm % e.cs = 0 := by
  have := h.scanByte hsc
  simp [Env.cs, this, Nat.mod_one]

/-- the single-instruction relation of a run: the matched character lies after (forwards) or before (backwards) the
    part matched so far -/
def fwdLG (e : Env) (r : Re) (q t : Nat) : Prop := Re.Matches (specFlagsG e.fl) e.buf r (e.start + q) (e.start + t)
def bwdL (e : Env) (r : Re) (q t : Nat) : Prop := Re.Matches (specFlagsG e.fl) e.buf r (e.start - t) (e.start - q)

theorem not_consuming_zw {op : Nat} (h : op = OP_MATCH_AT_START ∨ op = OP_MATCH_AT_END ∨ op = OP_WORD_BOUNDARY ∨ op = OP_NON_WORD_BOUNDARY) :
    isConsuming op = false := by
  rcases h with h | h | h | h <;> subst h <;>
    simp [isConsuming, OP_MATCH_AT_START, OP_MATCH_AT_END, OP_WORD_BOUNDARY, OP_NON_WORD_BOUNDARY, OP_ANY, OP_REPEAT_ANY_GREEDY, OP_REPEAT_ANY_UNGREEDY, OP_LITERAL, OP_NOT_LITERAL, OP_MASKED_LITERAL, OP_MASKED_NOT_LITERAL, OP_CLASS, OP_WORD_CHAR, OP_NON_WORD_CHAR, OP_SPACE, OP_NON_SPACE, OP_DIGIT, OP_NON_DIGIT]

/-- a consuming leaf instruction accepts the character at `p` -/
theorem leaf_consume_at {e : Env} {bm p : Nat} (hat : At e bm p) {r : Re} {a : Nat} {f : Fiber} (hc : LeafCode e.code r a) (hip : f.ip = a)
    (hcons : isConsuming (u8 e.code a) = true) (hok : consumeOk e bm f = true) : Re.Matches (specFlagsG e.fl) e.buf r p (p + e.cs) := by
  cases hc with
  | lit h1 h2 => exact consume_lit_at hat (by rw [hip]; exact h1) (by rw [hip]; exact h2) hok
  | notLit h1 h2 => exact consume_notLit_at hat (by rw [hip]; exact h1) (by rw [hip]; exact h2) hok
  | masked h1 h2 h3 => exact consume_masked_at hat (by rw [hip]; exact h1) (by rw [hip]; exact h2) (by rw [hip]; exact h3) hok
  | maskedNot h1 h2 h3 => exact consume_maskedNot_at hat (by rw [hip]; exact h1) (by rw [hip]; exact h2) (by rw [hip]; exact h3) hok
  | any h1 => exact consume_any_at hat (by rw [hip]; exact h1) hok
  | cls h1 h2 h3 => exact consume_cls_at hat (by rw [hip]; exact h1) (by rw [hip]; exact h2) (by rw [hip]; exact h3) hok
  | wordCh h1 => exact consume_wordCh_at hat (by rw [hip]; exact h1) hok
  | nonWordCh h1 => exact consume_nonWordCh_at hat (by rw [hip]; exact h1) hok
  | space h1 => exact consume_space_at hat (by rw [hip]; exact h1) hok
  | nonSpace h1 => exact consume_nonSpace_at hat (by rw [hip]; exact h1) hok
  | digit h1 => exact consume_digit_at hat (by rw [hip]; exact h1) hok
  | nonDigit h1 => exact consume_nonDigit_at hat (by rw [hip]; exact h1) hok
  | bol h1 => rw [h1, not_consuming_zw (.inl rfl)] at hcons; simp at hcons
  | eol h1 => rw [h1, not_consuming_zw (.inr (.inl rfl))] at hcons; simp at hcons
  | wordB h1 => rw [h1, not_consuming_zw (.inr (.inr (.inl rfl)))] at hcons; simp at hcons
  | nonWordB h1 => rw [h1, not_consuming_zw (.inr (.inr (.inr rfl)))] at hcons; simp at hcons

/-- a zero-width leaf instruction holds at the boundary `P` between the matched part and the rest -/
theorem leaf_zw_at {e : Env} {bm P : Nat} {r : Re} {a : Nat} (hc : LeafCode e.code r a) (hnc : isConsuming (u8 e.code a) = false)
    (hbol : zeroWidthOk e bm OP_MATCH_AT_START = true → P = 0)
    (heol : zeroWidthOk e bm OP_MATCH_AT_END = true → P = e.buf.size)
    (hwb : zeroWidthOk e bm OP_WORD_BOUNDARY = isBoundary (specFlagsG e.fl) e.buf P)
    (hz : zeroWidthOk e bm (u8 e.code a) = true) : Re.Matches (specFlagsG e.fl) e.buf r P P := by
  cases hc with
  | bol h1 => rw [h1] at hz; rw [hbol hz]; exact .bol
  | eol h1 => rw [h1] at hz; rw [heol hz]; exact .eol
  | wordB h1 => rw [h1] at hz; exact .wordB (by rw [← hwb]; exact hz)
  | nonWordB h1 =>
    rw [h1] at hz
    exact .nonWordB (by
      rw [zw_nonboundary, hwb] at hz
      simpa using hz)
  | lit h1 _ | notLit h1 _ | masked h1 _ _ | maskedNot h1 _ _ | any h1 | cls h1 _ _ | wordCh h1 | nonWordCh h1 | space h1 | nonSpace h1 | digit h1 | nonDigit h1 =>
    rw [h1] at hnc; simp [isConsuming, OP_ANY, OP_REPEAT_ANY_GREEDY, OP_REPEAT_ANY_UNGREEDY, OP_LITERAL, OP_NOT_LITERAL, OP_MASKED_LITERAL, OP_MASKED_NOT_LITERAL, OP_CLASS, OP_WORD_CHAR, OP_NON_WORD_CHAR, OP_SPACE, OP_NON_SPACE, OP_DIGIT, OP_NON_DIGIT] at hnc

/-- forwards, one- or two-byte characters -/
def fwdDir (e : Env) (hb : e.fl.backwards = false) (h : RunOK e) : Dir e where
  L := fwdLG e
  ok := fun bm => bm % e.cs = 0 ∧ e.start + bm ≤ e.buf.size
  cons := by
    intro r a f bm hc hip hcons hokb hok
    have hat := at_fwd hb h.startIn hokb.1 hok
    have := leaf_consume_at hat hc hip hcons hok
    unfold fwdLG
    rwa [Nat.add_assoc] at this
  any := by
    intro f bm hop hokb hok
    have hat := at_fwd hb h.startIn hokb.1 hok
    have := consume_anyrep_at hat hop hok
    unfold fwdLG
    rwa [Nat.add_assoc] at this
  zw := by
    intro r a bm hc hnc hok hz
    exact leaf_zw_at hc hnc (fun hh => zwG_bol_fwd hb hh) (fun hh => zwG_eol_fwd hb hok.2 hh) (zwG_boundary_fwd hb bm) hz
  ok0 := ⟨Nat.zero_mod _, h.startIn⟩
  okScan := by
    intro bm hsc hbm
    have := (maxBytes_bound e).1 hb h.startIn
    exact ⟨mod_cs_of_scan h hsc bm, by omega⟩
  okCons := by
    intro f bm hokb hok
    have hat := at_fwd hb h.startIn hokb.1 hok
    have := hat.inBuf
    exact ⟨by rw [Nat.add_mod_right]; exact hokb.1, by omega⟩

/-- backwards, one- or two-byte characters -/
def bwdDir (e : Env) (hb : e.fl.backwards = true) (h : RunOK e) : Dir e where
  L := bwdL e
  ok := fun bm => bm % e.cs = 0 ∧ bm ≤ e.start
  cons := by
    intro r a f bm hc hip hcons hokb hok
    obtain ⟨hle, hat⟩ := at_bwd hb h.startIn hokb.1 hok
    have := leaf_consume_at hat hc hip hcons hok
    unfold bwdL
    have e1 : e.start - (bm + e.cs) = e.start - e.cs - bm := by omega
    have e2 : e.start - bm = e.start - e.cs - bm + e.cs := by omega
    rw [e1, e2]; exact this
  any := by
    intro f bm hop hokb hok
    obtain ⟨hle, hat⟩ := at_bwd hb h.startIn hokb.1 hok
    have := consume_anyrep_at hat hop hok
    unfold bwdL
    have e1 : e.start - (bm + e.cs) = e.start - e.cs - bm := by omega
    have e2 : e.start - bm = e.start - e.cs - bm + e.cs := by omega
    rw [e1, e2]; exact this
  zw := by
    intro r a bm hc hnc hok hz
    exact leaf_zw_at hc hnc (fun hh => zwG_bol_bwd hb hok.2 hh) (fun hh => by rw [zwG_eol_bwd hb] at hh; simp at hh)
      (zwG_boundary_bwd hb hok.2) hz
  ok0 := ⟨Nat.zero_mod _, Nat.zero_le _⟩
  okScan := by
    intro bm hsc hbm
    have := (maxBytes_bound e).2 hb
    exact ⟨mod_cs_of_scan h hsc bm, by omega⟩
  okCons := by
    intro f bm hokb hok
    obtain ⟨hle, _⟩ := at_bwd hb h.startIn hokb.1 hok
    exact ⟨by rw [Nat.add_mod_right]; exact hokb.1, hle⟩

/-! ### from matched-byte units to the expression on the buffer -/
section
variable (fl : Flags) (buf : Bytes) (s : Nat)

/-- forwards: a shape match from `q` to `t` matched bytes is a match of the shape's expression over buf[s+q, s+t) -/
theorem irm_fwdG {x : Ir} {q t : Nat} (hm : IrM (fun r q t => Re.Matches fl buf r (s + q) (s + t)) x q t) :
    Re.Matches fl buf x.re (s + q) (s + t) := by
  induction hm with
  | leaf h => exact h
  | @jump lo hi g j q t h1 h2 hit =>
    have hp : Path (step fl buf (testAny fl)) j (s + q) (s + t) := by
      clear h1 h2
      induction hit with
      | nil => exact .nil
      | @cons k x y z hxy _ ih =>
        refine .cons ?_ ih
        have := (ends_iff_Matches _ _ .any _ _).2 hxy
        simpa [Re.ends] using this
    exact rangeAny_of_path j lo hi _ _ h1 h2 hp
  | eps => exact .empty
  | cat _ _ ih1 ih2 => exact .cat ih1 ih2
  | altL _ ih => exact .altL ih
  | altR _ ih => exact .altR ih
  | starNil => exact .starNil
  | starStep _ _ ih1 ih2 => exact .starStep ih1 ih2
  | plusOne _ ih => exact .plusOne ih
  | plusStep _ _ ih1 ih2 => exact .plusStep ih1 ih2
  | optSkip => exact .rangeStop
  | optTake _ ih => exact .rangeStep (by decide) ih .rangeStop
  | loopStop => exact .rangeStop
  | loopStep hpos _ _ ih1 ih2 => exact .rangeStep hpos ih1 ih2

variable {fl buf}

theorem star_snoc {a : Re} {g : Bool} {p m q : Nat} (h1 : Re.Matches fl buf (.star a g) p m) (h2 : Re.Matches fl buf a m q) :
    Re.Matches fl buf (.star a g) p q := by
  obtain ⟨k, hk⟩ := path_of_star (fun x y hh => (ends_iff_Matches fl buf a x y).2 hh) h1 rfl
  exact star_of_path (fun x y hh => (ends_iff_Matches fl buf a x y).1 hh) (hk.snoc ((ends_iff_Matches fl buf a m q).2 h2))

theorem plus_snoc {a : Re} {g : Bool} {p m q : Nat} (h1 : Re.Matches fl buf (.plus a g) p m) (h2 : Re.Matches fl buf a m q) :
    Re.Matches fl buf (.plus a g) p q := by
  obtain ⟨x, hx, k, hk⟩ := path_of_plus (fun x y hh => (ends_iff_Matches fl buf a x y).2 hh) h1 rfl
  exact plus_of_path (fun x y hh => (ends_iff_Matches fl buf a x y).1 hh) (hk.snoc ((ends_iff_Matches fl buf a m q).2 h2)) _ hx

theorem range_snoc {a : Re} {g : Bool} {lo hi p m q : Nat} (hpos : 0 < hi) (h1 : Re.Matches fl buf (.range a (lo - 1) (hi - 1) g) p m)
    (h2 : Re.Matches fl buf a m q) : Re.Matches fl buf (.range a lo hi g) p q := by
  obtain ⟨k, k1, k2, hk⟩ := path_of_range (fun x y hh => (ends_iff_Matches fl buf a x y).2 hh) h1 _ _ rfl
  exact range_of_path (fun x y hh => (ends_iff_Matches fl buf a x y).1 hh) (k + 1) lo hi p q (by omega) (by omega)
    (hk.snoc ((ends_iff_Matches fl buf a m q).2 h2))

variable (fl buf)

/-- the expression a shape denotes when its code is run BACKWARDS: concatenations read right to left -/
def Ir.reB : Ir → Re
  | .leaf r => r
  | .jump lo hi g => .rangeAny lo hi g
  | .eps => .empty
  | .cat x y => .cat y.reB x.reB
  | .alt x y => .alt x.reB y.reB
  | .star x g => .star x.reB g
  | .plus x g => .plus x.reB g
  | .opt x g => .range x.reB 0 1 g
  | .loop x lo hi g => .range x.reB lo hi g

/-- backwards: a shape match from `q` to `t` matched bytes is a match of the mirrored expression over buf[s-t, s-q) -/
theorem irm_bwdG {x : Ir} {q t : Nat} (hm : IrM (fun r q t => Re.Matches fl buf r (s - t) (s - q)) x q t) :
    Re.Matches fl buf x.reB (s - t) (s - q) := by
  induction hm with
  | leaf h => exact h
  | @jump lo hi g j q t h1 h2 hit =>
    have hp : Path (step fl buf (testAny fl)) j (s - t) (s - q) := by
      clear h1 h2
      induction hit with
      | nil => exact .nil
      | @cons k x y z hxy _ ih =>
        refine ih.snoc ?_
        have := (ends_iff_Matches _ _ .any _ _).2 hxy
        simpa [Re.ends] using this
    exact rangeAny_of_path j lo hi _ _ h1 h2 hp
  | eps => exact .empty
  | cat _ _ ih1 ih2 => exact .cat ih2 ih1
  | altL _ ih => exact .altL ih
  | altR _ ih => exact .altR ih
  | starNil => exact .starNil
  | starStep _ _ ih1 ih2 => exact star_snoc ih2 ih1
  | plusOne _ ih => exact .plusOne ih
  | plusStep _ _ ih1 ih2 => exact plus_snoc ih2 ih1
  | optSkip => exact .rangeStop
  | optTake _ ih => exact .rangeStep (by decide) ih .rangeStop
  | loopStop => exact .rangeStop
  | loopStep hpos _ _ ih1 ih2 => exact range_snoc hpos ih2 ih1

end

end YaraModel.ReEmit
