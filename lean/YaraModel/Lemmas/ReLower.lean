/-
  From expressions to code shapes: `lower r` is the shape of the code `_yr_re_emit` writes for `r` — counted repeats
  `e{n,m}` become  prolog `e` · loop `e{min',max'}` · `e?` / epilog `e`  by the emit table of re.c (every row).
  `lower_sem`  : the shape denotes the same language as the expression (uses `rangeShape_iff`, Lemmas/ReAlgebra.lean).
  `seg_of_emit`: the bytes of the emit model decode to that shape.
-/
import YaraModel.Lemmas.ReDir
namespace YaraModel.ReEmit
open YaraModel.Re YaraModel.ReVm

/-- the expressions `_yr_re_emit` is given: bounds ordered and inside the 16-bit operands -/
inductive WF : Re → Prop
  | lit (b) : WF (.lit b)
  | masked (v m) : WF (.masked v m)
  | notLit (b) : WF (.notLit b)
  | maskedNot (v m) : WF (.maskedNot v m)
  | any : WF .any
  | cls (bm : Nat) (neg : Bool) : WF (.cls bm neg)
  | wordCh : WF .wordCh
  | nonWordCh : WF .nonWordCh
  | space : WF .space
  | nonSpace : WF .nonSpace
  | digit : WF .digit
  | nonDigit : WF .nonDigit
  | bol : WF .bol
  | eol : WF .eol
  | wordB : WF .wordB
  | nonWordB : WF .nonWordB
  | empty : WF .empty
  | rangeAny (lo hi : Nat) (g : Bool) : lo ≤ hi → hi < 65536 → WF (.rangeAny lo hi g)
  | range {a} (lo hi : Nat) (g : Bool) : WF a → lo ≤ hi → hi < 65536 → WF (.range a lo hi g)
  | star {a} (g : Bool) : WF a → WF (.star a g)
  | plus {a} (g : Bool) : WF a → WF (.plus a g)
  | cat {a b} : WF a → WF b → WF (.cat a b)
  | alt {a b} : WF a → WF b → WF (.alt a b)

def lower : Re → Ir
  | .cat a b => .cat (lower a) (lower b)
  | .alt a b => .alt (lower a) (lower b)
  | .star a g => .star (lower a) g
  | .plus a g => .plus (lower a) g
  | .rangeAny lo hi g => .jump lo hi g
  | .empty => .eps
  | .range a lo hi g =>
      .cat (if emitProlog lo then lower a else .eps)
        (.cat (if emitRepeat lo hi then .loop (lower a) (repMin lo hi) (repMax lo hi) g else .eps)
          (if emitSplit lo hi then .opt (lower a) g else if emitEpilog lo hi then lower a else .eps))
  | r => .leaf r

section
variable {fl : Flags} {buf : Bytes}

theorem Path.congr {f f' : Nat → List Nat} (h : ∀ x y, y ∈ f x → y ∈ f' x) {k p q : Nat} (hp : Path f k p q) : Path f' k p q := by
  induction hp with
  | nil => exact .nil
  | cons hy _ ih => exact .cons (h _ _ hy) ih

theorem ends_congr {a a' : Re} (h : ∀ x y, Re.Matches fl buf a x y → Re.Matches fl buf a' x y) (x y : Nat)
    (hy : y ∈ a.ends fl buf x) : y ∈ a'.ends fl buf x :=
  (ends_iff_Matches fl buf a' x y).2 (h x y ((ends_iff_Matches fl buf a x y).1 hy))

theorem star_congr {a a' : Re} (g : Bool) (h : ∀ x y, Re.Matches fl buf a x y → Re.Matches fl buf a' x y) {p q : Nat}
    (hm : Re.Matches fl buf (.star a g) p q) : Re.Matches fl buf (.star a' g) p q := by
  obtain ⟨k, hk⟩ := path_of_star (fun x y hh => (ends_iff_Matches fl buf a x y).2 hh) hm rfl
  exact star_of_path (fun x y hh => (ends_iff_Matches fl buf a' x y).1 hh) (Path.congr (ends_congr h) hk)

theorem plus_congr {a a' : Re} (g : Bool) (h : ∀ x y, Re.Matches fl buf a x y → Re.Matches fl buf a' x y) {p q : Nat}
    (hm : Re.Matches fl buf (.plus a g) p q) : Re.Matches fl buf (.plus a' g) p q := by
  obtain ⟨x, hx, k, hk⟩ := path_of_plus (fun x y hh => (ends_iff_Matches fl buf a x y).2 hh) hm rfl
  exact plus_of_path (fun x y hh => (ends_iff_Matches fl buf a' x y).1 hh) (Path.congr (ends_congr h) hk) _ (h _ _ hx)

theorem range_congr {a a' : Re} (lo hi : Nat) (g : Bool) (h : ∀ x y, Re.Matches fl buf a x y → Re.Matches fl buf a' x y) {p q : Nat}
    (hm : Re.Matches fl buf (.range a lo hi g) p q) : Re.Matches fl buf (.range a' lo hi g) p q := by
  obtain ⟨k, h1, h2, hk⟩ := path_of_range (fun x y hh => (ends_iff_Matches fl buf a x y).2 hh) hm lo hi rfl
  exact range_of_path (fun x y hh => (ends_iff_Matches fl buf a' x y).1 hh) k lo hi p q h1 h2 (Path.congr (ends_congr h) hk)

theorem shape_congr {a a' : Re} (lo hi : Nat) (g : Bool) (h : ∀ x y, Re.Matches fl buf a x y → Re.Matches fl buf a' x y) {p q : Nat}
    (hm : Re.Matches fl buf (rangeShape a lo hi g) p q) : Re.Matches fl buf (rangeShape a' lo hi g) p q := by
  unfold rangeShape at hm ⊢
  obtain ⟨t, h1, h23⟩ := (cat_iff _ _ _ _).1 hm
  obtain ⟨u, h2, h3⟩ := (cat_iff _ _ _ _).1 h23
  · · have k1 : Re.Matches fl buf (if emitProlog lo = true then a' else .empty) p t := by
        by_cases c : emitProlog lo = true
        · simp only [c, if_true] at h1 ⊢; exact h _ _ h1
        · simp only [c] at h1 ⊢; exact h1
      have k2 : Re.Matches fl buf (if emitRepeat lo hi = true then .range a' (repMin lo hi) (repMax lo hi) g else .empty) t u := by
        by_cases c : emitRepeat lo hi = true
        · simp only [c, if_true] at h2 ⊢; exact range_congr _ _ g h h2
        · simp only [c] at h2 ⊢; exact h2
      have k3 : Re.Matches fl buf (if emitSplit lo hi = true then .range a' 0 1 g else if emitEpilog lo hi = true then a' else .empty) u q := by
        by_cases c : emitSplit lo hi = true
        · simp only [c, if_true] at h3 ⊢; exact range_congr _ _ g h h3
        · by_cases c2 : emitEpilog lo hi = true
          · simp only [c, c2, if_true] at h3 ⊢; exact h _ _ h3
          · simp only [c, c2] at h3 ⊢; exact h3
      exact .cat k1 (.cat k2 k3)

/-- the expression of the lowered shape of `e{lo,hi}` is the emit-table shape over the lowered body -/
theorem lower_range_re (a : Re) (lo hi : Nat) (g : Bool) : (lower (.range a lo hi g)).re = rangeShape (lower a).re lo hi g := by
  simp only [lower, Ir.re, rangeShape]
  congr 1
  · split <;> rfl
  · congr 1
    · split <;> rfl
    · split
      · rfl
      · split <;> rfl

/-- lowering keeps the language -/
theorem lower_sem {r : Re} (hw : WF r) : ∀ p q, Re.Matches fl buf (lower r).re p q ↔ Re.Matches fl buf r p q := by
  induction hw with
  | lit _ | masked _ _ | notLit _ | maskedNot _ _ | any | cls _ _ | wordCh | nonWordCh | space | nonSpace | digit | nonDigit | bol | eol | wordB | nonWordB =>
    intro p q; exact Iff.rfl
  | empty => intro p q; exact Iff.rfl
  | rangeAny _ _ _ _ _ => intro p q; exact Iff.rfl
  | @range a lo hi g _ hlh _ ih =>
    intro p q
    rw [lower_range_re]
    constructor
    · intro hm
      exact range_congr lo hi g (fun x y => (ih x y).1) ((rangeShape_iff _ lo hi g hlh p q).1 hm)
    · intro hm
      exact (rangeShape_iff _ lo hi g hlh p q).2 (range_congr lo hi g (fun x y => (ih x y).2) hm)
  | @star a g _ ih =>
    intro p q
    exact ⟨star_congr g (fun x y => (ih x y).1), star_congr g (fun x y => (ih x y).2)⟩
  | @plus a g _ ih =>
    intro p q
    exact ⟨plus_congr g (fun x y => (ih x y).1), plus_congr g (fun x y => (ih x y).2)⟩
  | @cat a b _ _ ih1 ih2 =>
    intro p q
    simp only [lower, Ir.re]
    rw [cat_iff, cat_iff]
    constructor
    · rintro ⟨t, h1, h2⟩; exact ⟨t, (ih1 _ _).1 h1, (ih2 _ _).1 h2⟩
    · rintro ⟨t, h1, h2⟩; exact ⟨t, (ih1 _ _).2 h1, (ih2 _ _).2 h2⟩
  | @alt a b _ _ ih1 ih2 =>
    intro p q
    simp only [lower, Ir.re]
    constructor
    · intro hm
      cases hm with
      | altL h1 => exact .altL ((ih1 _ _).1 h1)
      | altR h1 => exact .altR ((ih2 _ _).1 h1)
    · intro hm
      cases hm with
      | altL h1 => exact .altL ((ih1 _ _).2 h1)
      | altR h1 => exact .altR ((ih2 _ _).2 h1)

end

/-! ### decoding operands -/
theorem sub_le16 {code : Code} {a n : Nat} (hn : n < 65536) (h : Sub code a (le16 n)) : u16 code a = n := by
  unfold le16 at h
  have h0 := h 0 (by simp)
  have h1 := h 1 (by simp)
  simp only [Nat.add_zero, List.getElem?_cons_zero, Option.getD_some, List.getElem?_cons_succ] at h0 h1
  have t0 : (UInt8.ofNat (n % 256)).toNat = n % 256 := by simp
  have t1 : (UInt8.ofNat (n / 256 % 256)).toNat = n / 256 % 256 := by simp
  unfold u16
  rw [h0, h1, t0, t1]
  omega

theorem sub_leI32 {code : Code} {a : Nat} {i : Int} (h1 : -2147483648 ≤ i) (h2 : i < 2147483648) (h : Sub code a (leI32 i)) :
    i32 code a = i := by
  obtain ⟨n, hn⟩ : ∃ n : Nat, n = (i % 4294967296).toNat := ⟨_, rfl⟩
  have hb : n < 4294967296 := by omega
  have e : leI32 i = [UInt8.ofNat (n % 256), UInt8.ofNat (n / 256 % 256), UInt8.ofNat (n / 65536 % 256), UInt8.ofNat (n / 16777216 % 256)] := by
    unfold leI32; rw [← hn]
  rw [e] at h
  have h0 := h 0 (by simp)
  have h1' := h 1 (by simp)
  have h2' := h 2 (by simp)
  have h3 := h 3 (by simp)
  simp only [Nat.add_zero, List.getElem?_cons_zero, Option.getD_some, List.getElem?_cons_succ] at h0 h1' h2' h3
  have t0 : (UInt8.ofNat (n % 256)).toNat = n % 256 := by simp
  have t1 : (UInt8.ofNat (n / 256 % 256)).toNat = n / 256 % 256 := by simp
  have t2 : (UInt8.ofNat (n / 65536 % 256)).toNat = n / 65536 % 256 := by simp
  have t3 : (UInt8.ofNat (n / 16777216 % 256)).toNat = n / 16777216 % 256 := by simp
  unfold i32
  rw [h0, h1', h2', h3, t0, t1, t2, t3]
  have e3 : n % 256 + 256 * (n / 256 % 256) + 65536 * (n / 65536 % 256) + 16777216 * (n / 16777216 % 256) = n := by omega
  simp only [e3]
  split <;> omega

theorem leI32_length (i : Int) : (leI32 i).length = 4 := by simp [leI32]
theorem le16_length (n : Nat) : (le16 n).length = 2 := by simp [le16]

/-! ### the emit table as three sections -/
theorem tbl_eq (lo hi : Nat) : emit.emitProlog lo = emitProlog lo ∧ emit.emitRepeat lo hi = emitRepeat lo hi ∧ emit.emitSplit lo hi = emitSplit lo hi ∧
    emit.emitEpilog lo hi = emitEpilog lo hi ∧ emit.repMin lo hi = repMin lo hi ∧ emit.repMax lo hi = repMax lo hi := by
  refine ⟨rfl, rfl, rfl, rfl, ?_, ?_⟩
  · simp [emit.repMin, repMin, emitProlog, emitSplit]
  · simp [emit.repMax, repMax, emitProlog]

def rngC1 (a : Re) (lo s : Nat) : List UInt8 := if emitProlog lo then (emit false a s).1 else []
def rngS1 (a : Re) (lo s : Nat) : Nat := if emitProlog lo then (emit false a s).2 else s
def rngC2 (a : Re) (lo hi : Nat) (g : Bool) (s1 : Nat) : List UInt8 :=
  if emitRepeat lo hi then
    [if g then 0xC3 else 0xC5] ++ (le16 (repMin lo hi % 65536) ++ le16 (repMax lo hi % 65536)) ++ leI32 (9 + (emit false a s1).1.length + 9) ++ (emit false a s1).1 ++
      [if g then 0xC4 else 0xC6] ++ (le16 (repMin lo hi % 65536) ++ le16 (repMax lo hi % 65536)) ++ leI32 (-((emit false a s1).1.length : Int))
  else []
def rngS2 (a : Re) (lo hi s1 : Nat) : Nat := if emitRepeat lo hi then (emit false a s1).2 else s1
def rngC3 (a : Re) (lo hi : Nat) (g : Bool) (s2 : Nat) : List UInt8 :=
  if emitSplit lo hi then [if g then 0xC0 else 0xC1, UInt8.ofNat s2] ++ leI16 (4 + (emit false a (s2 + 1)).1.length) ++ (emit false a (s2 + 1)).1
  else if emitEpilog lo hi then (emit false a s2).1 else []

theorem emit_range (a : Re) (lo hi : Nat) (g : Bool) (s : Nat) : (emit false (.range a lo hi g) s).1 =
    rngC1 a lo s ++ rngC2 a lo hi g (rngS1 a lo s) ++ rngC3 a lo hi g (rngS2 a lo hi (rngS1 a lo s)) := by
  obtain ⟨t1, t2, t3, t4, t5, t6⟩ := tbl_eq lo hi
  simp only [emit, t1, t2, t3, t4, t5, t6, rngC1, rngC2, rngC3, rngS1, rngS2]
  have hSE : emitSplit lo hi = true → emitEpilog lo hi = true := by
    intro hh; simp only [emitSplit, emitEpilog] at hh ⊢; simp at hh ⊢; omega
  by_cases c1 : emitProlog lo = true <;> by_cases c2 : emitRepeat lo hi = true <;> by_cases c3 : emitSplit lo hi = true
  all_goals first
    | (have c4 := hSE c3; simp [c1, c2, c3, c4])
    | (by_cases c4 : emitEpilog lo hi = true <;> simp [c1, c2, c3, c4])

theorem emit_len {r : Re} (hw : WF r) : ∀ s, (emit false r s).1.length = clen (lower r) := by
  induction hw with
  | lit _ | masked _ _ | notLit _ | maskedNot _ _ | any | wordCh | nonWordCh | space | nonSpace | digit | nonDigit | bol | eol | wordB | nonWordB =>
    intro s; simp [emit, lower, clen, leafLen]
  | cls _ _ => intro s; simp [emit, lower, clen, leafLen, bitmapBytes]
  | empty => intro s; simp [emit, lower, clen]
  | rangeAny _ _ _ _ _ => intro s; simp [emit, lower, clen, le16]
  | @star a g _ ih =>
    intro s
    simp only [emit, lower, clen, List.length_append, List.length_cons, List.length_nil, leI16, le16]
    rw [ih]
  | @plus a g _ ih =>
    intro s
    have hl := ih s
    simp only [emit, lower, clen]
    by_cases he : (emit false a s).1.isEmpty = true
    · have h0 : (emit false a s).1.length = 0 := by
        rw [List.isEmpty_iff] at he; rw [he]; rfl
      simp only [he, if_true]
      rw [← hl, h0]; simp
    · have h0 : ¬ (emit false a s).1.length = 0 := by
        intro hh; apply he; rw [List.isEmpty_iff]; exact List.length_eq_zero_iff.1 hh
      simp only [he]
      rw [← hl, if_neg h0]
      simp [leI16, le16]
  | @cat a b _ _ ih1 ih2 =>
    intro s
    simp only [emit, lower, Bool.false_eq_true, if_false, clen, List.length_append]
    rw [ih1, ih2]
  | @alt a b _ _ ih1 ih2 =>
    intro s
    simp only [emit, lower, clen, List.length_append, List.length_cons, List.length_nil, leI16, le16]
    rw [ih1, ih2]
  | @range a lo hi g _ _ _ ih =>
    intro s
    rw [emit_range]
    simp only [lower, clen, List.length_append]
    have e1 : (rngC1 a lo s).length = clen (if emitProlog lo then lower a else .eps) := by
      unfold rngC1; split <;> simp [clen, ih]
    have e2 : ∀ s1, (rngC2 a lo hi g s1).length =
        clen (if emitRepeat lo hi then Ir.loop (lower a) (repMin lo hi) (repMax lo hi) g else .eps) := by
      intro s1; unfold rngC2; split
      · simp [clen, ih, le16, leI32]; omega
      · simp [clen]
    have e3 : ∀ s2, (rngC3 a lo hi g s2).length =
        clen (if emitSplit lo hi then Ir.opt (lower a) g else if emitEpilog lo hi then lower a else .eps) := by
      intro s2; unfold rngC3; split
      · simp [clen, ih, leI16, le16]; omega
      · split <;> simp [clen, ih]
    rw [e1, e2, e3]; omega

theorem seg_of_emit {r : Re} (hw : WF r) : ∀ (s : Nat) (code : Code) (a : Nat), clen (lower r) < 32000 →
    Sub code a (emit false r s).1 → Seg code (lower r) a (a + clen (lower r)) := by
  induction hw with
  | lit b =>
    intro s code a _ h
    simp only [emit] at h
    have h0 := h 0 (by simp); have h1 := h 1 (by simp)
    simp at h0 h1
    exact Seg.leaf (.lit (by rw [h0]; rfl) h1)
  | notLit b =>
    intro s code a _ h
    simp only [emit] at h
    have h0 := h 0 (by simp); have h1 := h 1 (by simp)
    simp at h0 h1
    exact Seg.leaf (.notLit (by rw [h0]; rfl) h1)
  | masked v m =>
    intro s code a _ h
    simp only [emit] at h
    have h0 := h 0 (by simp); have h1 := h 1 (by simp); have h2 := h 2 (by simp)
    simp at h0 h1 h2
    exact Seg.leaf (.masked (by rw [h0]; rfl) h1 h2)
  | maskedNot v m =>
    intro s code a _ h
    simp only [emit] at h
    have h0 := h 0 (by simp); have h1 := h 1 (by simp); have h2 := h 2 (by simp)
    simp at h0 h1 h2
    exact Seg.leaf (.maskedNot (by rw [h0]; rfl) h1 h2)
  | any =>
    intro s code a _ h
    simp only [emit] at h
    have h0 := h 0 (by simp)
    simp at h0
    exact Seg.leaf (.any (by rw [h0]; rfl))
  | cls cb neg =>
    intro s code a _ h
    simp only [emit] at h
    have h0 := h 0 (by simp [bitmapBytes])
    have h1 := h 1 (by simp [bitmapBytes])
    simp at h0 h1
    refine Seg.leaf (.cls (by rw [h0]; rfl) (by rw [h1]; cases neg <;> rfl) ?_)
    intro c
    unfold classBit inBitmap
    have hi : c.toNat / 8 < 32 := by have := c.toNat_lt; omega
    have hb := h (2 + c.toNat / 8) (by simp [bitmapBytes]; omega)
    have e1 : a + (2 + c.toNat / 8) = a + 2 + c.toNat / 8 := by omega
    rw [e1] at hb
    rw [hb]
    have e2 : (0xA5 :: (if neg = true then (1 : UInt8) else 0) :: bitmapBytes cb)[2 + c.toNat / 8]? = (bitmapBytes cb)[c.toNat / 8]? := by
      have : 2 + c.toNat / 8 = (c.toNat / 8 + 1) + 1 := by omega
      rw [this]; rfl
    rw [e2]
    unfold bitmapBytes
    rw [List.getElem?_map, List.getElem?_range hi]
    simp only [Option.map_some, Option.getD_some]
    have e3 : (UInt8.ofNat (cb / 2 ^ (8 * (c.toNat / 8)) % 256)).toNat = cb / 2 ^ (8 * (c.toNat / 8)) % 256 := by simp
    rw [e3]
    have e4 : (256 : Nat) = 2 ^ 8 := by decide
    rw [e4, Nat.testBit_mod_two_pow, Nat.testBit_div_two_pow]
    have e5 : c.toNat % 8 < 8 := Nat.mod_lt _ (by omega)
    have e6 : c.toNat % 8 + 8 * (c.toNat / 8) = c.toNat := by omega
    simp [e5, e6]
  | wordCh =>
    intro s code a _ h
    simp only [emit] at h
    have h0 := h 0 (by simp)
    simp at h0
    exact Seg.leaf (.wordCh (by rw [h0]; rfl))
  | nonWordCh =>
    intro s code a _ h
    simp only [emit] at h
    have h0 := h 0 (by simp)
    simp at h0
    exact Seg.leaf (.nonWordCh (by rw [h0]; rfl))
  | space =>
    intro s code a _ h
    simp only [emit] at h
    have h0 := h 0 (by simp)
    simp at h0
    exact Seg.leaf (.space (by rw [h0]; rfl))
  | nonSpace =>
    intro s code a _ h
    simp only [emit] at h
    have h0 := h 0 (by simp)
    simp at h0
    exact Seg.leaf (.nonSpace (by rw [h0]; rfl))
  | digit =>
    intro s code a _ h
    simp only [emit] at h
    have h0 := h 0 (by simp)
    simp at h0
    exact Seg.leaf (.digit (by rw [h0]; rfl))
  | nonDigit =>
    intro s code a _ h
    simp only [emit] at h
    have h0 := h 0 (by simp)
    simp at h0
    exact Seg.leaf (.nonDigit (by rw [h0]; rfl))
  | bol =>
    intro s code a _ h
    simp only [emit] at h
    have h0 := h 0 (by simp)
    simp at h0
    exact Seg.leaf (.bol (by rw [h0]; rfl))
  | eol =>
    intro s code a _ h
    simp only [emit] at h
    have h0 := h 0 (by simp)
    simp at h0
    exact Seg.leaf (.eol (by rw [h0]; rfl))
  | wordB =>
    intro s code a _ h
    simp only [emit] at h
    have h0 := h 0 (by simp)
    simp at h0
    exact Seg.leaf (.wordB (by rw [h0]; rfl))
  | nonWordB =>
    intro s code a _ h
    simp only [emit] at h
    have h0 := h 0 (by simp)
    simp at h0
    exact Seg.leaf (.nonWordB (by rw [h0]; rfl))
  | rangeAny lo hi g hlh hhi =>
    intro s code a _ h
    simp only [emit, le16] at h
    have hlo : lo % 65536 = lo := Nat.mod_eq_of_lt (by omega)
    have hhi' : hi % 65536 = hi := Nat.mod_eq_of_lt hhi
    rw [hlo, hhi'] at h
    have h0 := h 0 (by simp); have h1 := h 1 (by simp); have h2 := h 2 (by simp); have h3 := h 3 (by simp); have h4 := h 4 (by simp)
    simp at h0 h1 h2 h3 h4
    have e2 : a + 1 + 1 = a + 2 := by omega
    have e4 : a + 3 + 1 = a + 4 := by omega
    refine .jump ?_ ?_ ?_ hlh
    · rw [h0]; cases g <;> simp [OP_REPEAT_ANY_GREEDY, OP_REPEAT_ANY_UNGREEDY]
    · unfold u16; rw [e2, h1, h2]; omega
    · unfold u16; rw [e4, h3, h4]; omega
  | @star x g hx ih =>
    intro s code a hsz h
    simp only [lower, clen] at hsz ⊢
    simp only [emit] at h
    -- [op, id] ++ off16 ++ ca ++ [C2] ++ off16'
    obtain ⟨h1234, hoff2⟩ := sub_append h
    obtain ⟨h123, hjmp⟩ := sub_append h1234
    obtain ⟨h12, hca⟩ := sub_append h123
    obtain ⟨hhead, hoff1⟩ := sub_append h12
    simp only [List.length_append, List.length_cons, List.length_nil, leI16_length, emit_len hx] at hoff2 hjmp hca hoff1
    have hop : u8 code a = OP_SPLIT_A ∨ u8 code a = OP_SPLIT_B := by
      have := hhead 0 (by simp); simp at this
      cases g
      · right; rw [this]; rfl
      · left; rw [this]; rfl
    have hj : u8 code (a + 4 + clen (lower x)) = OP_JUMP := by
      have := hjmp 0 (by simp)
      simp at this
      have e1 : a + (0 + 1 + 1 + (0 + 1 + 1) + clen (lower x)) = a + 4 + clen (lower x) := by omega
      rw [e1] at this; rw [this]; rfl
    have ho1 : i16 code (a + 2) = ((4 + clen (lower x) + 3 : Nat) : Int) := by
      apply sub_leI16 (by omega)
      have e1 : a + (0 + 1 + 1) = a + 2 := by omega
      rw [e1] at hoff1
      have e2 : ((4 + clen (lower x) + 3 : Nat) : Int) = 4 + (clen (lower x) : Int) + 3 := by omega
      rw [e2]; exact hoff1
    have ho2 : i16 code (a + 4 + clen (lower x) + 1) = -((4 + clen (lower x) : Nat) : Int) := by
      apply sub_leI16_neg (by omega) (by omega)
      have e1 : a + (0 + 1 + 1 + (0 + 1 + 1) + clen (lower x) + (0 + 1)) = a + 4 + clen (lower x) + 1 := by omega
      rw [e1] at hoff2
      exact hoff2
    have sx : Seg code (lower x) (a + 4) (a + 4 + clen (lower x)) := by
      apply ih (s + 1) code (a + 4) (by omega)
      have e1 : a + (0 + 1 + 1 + (0 + 1 + 1)) = a + 4 := by omega
      rw [e1] at hca; exact hca
    have := Seg.star (code := code) (x := lower x) (a := a) (m := a + 4 + clen (lower x)) (g := g) hop
      (by rw [ho1]; unfold addOff; omega) sx hj (by rw [ho2]; unfold addOff; omega)
    have e3 : a + (4 + clen (lower x) + 3) = a + 4 + clen (lower x) + 3 := by omega
    rw [e3]; exact this
  | @plus x g hx ih =>
    intro s code a hsz h
    have hl := emit_len hx s
    by_cases he : (emit false x s).1.isEmpty = true
    · -- e emits no code: e+ is e
      have h0 : clen (lower x) = 0 := by
        rw [← hl]; rw [List.isEmpty_iff] at he; rw [he]; rfl
      simp only [emit, he, if_true] at h
      have sx := ih s code a (by omega) h
      rw [h0] at sx
      simp only [lower, clen, h0, if_true]
      exact Seg.plusNil sx
    · have hne : ¬ clen (lower x) = 0 := by
        intro hh; apply he; rw [List.isEmpty_iff]; exact List.length_eq_zero_iff.1 (by rw [hl]; exact hh)
      simp only [lower, clen, hne, if_false] at hsz ⊢
      simp only [emit, he] at h
      -- ca ++ [op, id] ++ off16
      obtain ⟨h12, hoff⟩ := sub_append h
      obtain ⟨hca, hhead⟩ := sub_append h12
      simp only [List.length_append, List.length_cons, List.length_nil, emit_len hx] at hoff hhead
      have sx : Seg code (lower x) a (a + clen (lower x)) := ih s code a (by omega) hca
      have hop : u8 code (a + clen (lower x)) = OP_SPLIT_A ∨ u8 code (a + clen (lower x)) = OP_SPLIT_B := by
        have := hhead 0 (by simp); simp at this
        cases g
        · left; rw [this]; rfl
        · right; rw [this]; rfl
      have ho : i16 code (a + clen (lower x) + 2) = -((clen (lower x) : Nat) : Int) := by
        apply sub_leI16_neg (by omega) (by omega)
        have e1 : a + (clen (lower x) + (0 + 1 + 1)) = a + clen (lower x) + 2 := by omega
        rw [e1] at hoff
        exact hoff
      have := Seg.plus (code := code) (x := lower x) (a := a) (m := a + clen (lower x)) (g := g) sx (by omega) hop (by rw [ho]; unfold addOff; omega)
      have e3 : a + (clen (lower x) + 4) = a + clen (lower x) + 4 := by omega
      rw [e3]; exact this
  | empty =>
    intro s code a _ h
    exact Seg.eps
  | @range x lo hi g hx hlh hhi ih =>
    intro s code a hsz h
    rw [emit_range] at h
    obtain ⟨h12, h3⟩ := sub_append h
    obtain ⟨h1, h2⟩ := sub_append h12
    simp only [lower, clen] at hsz ⊢
    have hL := emit_len hx
    -- table arithmetic
    have tP : emitProlog lo = true ↔ lo > 0 := by simp [emitProlog]
    have tR : emitRepeat lo hi = true ↔ (hi > lo + 1 ∨ hi > 2) := by simp [emitRepeat]
    have tS : emitSplit lo hi = true ↔ hi > lo := by simp [emitSplit]
    have tE : emitEpilog lo hi = true ↔ (hi > lo ∨ hi > 1) := by simp [emitEpilog]
    -- section 1: the prolog copy
    have S1 : Seg code (if emitProlog lo then lower x else .eps) a (a + (rngC1 x lo s).length) := by
      unfold rngC1 at h1 ⊢
      by_cases c : emitProlog lo = true
      · simp only [c, if_true] at h1 hsz ⊢
        rw [hL]; exact ih s code a (by omega) h1
      · simp only [c] at h1 ⊢
        exact Seg.eps
    -- section 2: the loop
    have S2 : Seg code (if emitRepeat lo hi then Ir.loop (lower x) (repMin lo hi) (repMax lo hi) g else .eps) (a + (rngC1 x lo s).length)
        (a + (rngC1 x lo s).length + (rngC2 x lo hi g (rngS1 x lo s)).length) := by
      obtain ⟨A, hA⟩ : ∃ A, A = a + (rngC1 x lo s).length := ⟨_, rfl⟩
      rw [← hA] at h2 ⊢
      unfold rngC2 at h2 ⊢
      by_cases c : emitRepeat lo hi = true
      · simp only [c, if_true] at h2 hsz ⊢
        have hmin : repMin lo hi ≤ repMax lo hi ∧ 0 < repMax lo hi ∧ repMax lo hi < 65536 := by
          have := tR.1 c
          simp only [repMin, repMax, emitProlog, emitSplit]
          by_cases c1 : lo > 0 <;> by_cases c2 : hi > lo <;> simp [c1, c2] <;> omega
        have hmin' : repMin lo hi % 65536 = repMin lo hi := Nat.mod_eq_of_lt (by omega)
        have hmax' : repMax lo hi % 65536 = repMax lo hi := Nat.mod_eq_of_lt (by omega)
        rw [hmin', hmax'] at h2
        -- [op] ++ args ++ off32 ++ body ++ [op'] ++ args ++ off32'
        obtain ⟨h123456, hoff2⟩ := sub_append h2
        obtain ⟨h12345, hargs2⟩ := sub_append h123456
        obtain ⟨h1234, hop2⟩ := sub_append h12345
        obtain ⟨h123, hbody⟩ := sub_append h1234
        obtain ⟨h12', hoff1⟩ := sub_append h123
        obtain ⟨hop1, hargs1⟩ := sub_append h12'
        obtain ⟨hmn1, _⟩ := sub_append hargs1
        obtain ⟨hmn2, hmx2⟩ := sub_append hargs2
        simp only [List.length_append, List.length_cons, List.length_nil, leI32_length, le16_length, hL] at hoff2 hargs2 hop2 hbody hoff1 hargs1 hmn1 hmn2 hmx2 ⊢
        simp only [clen] at hsz
        have o1 : u8 code A = OP_REPEAT_START_GREEDY ∨ u8 code A = OP_REPEAT_START_UNGREEDY := by
          have := hop1 0 (by simp); simp at this
          cases g
          · right; rw [this]; rfl
          · left; rw [this]; rfl
        have o2 : u16 code (A + 1) = repMin lo hi := sub_le16 (by omega) (by
          have e1 : A + (0 + 1) = A + 1 := by omega
          rw [e1] at hmn1; exact hmn1)
        have o3 : i32 code (A + 5) = ((9 + clen (lower x) + 9 : Nat) : Int) := by
          apply sub_leI32 (by omega) (by omega)
          have e1 : A + (0 + 1 + (2 + 2)) = A + 5 := by omega
          rw [e1] at hoff1
          have e2 : ((9 + clen (lower x) + 9 : Nat) : Int) = 9 + ((clen (lower x) : Nat) : Int) + 9 := by omega
          rw [e2]; exact hoff1
        have sx : Seg code (lower x) (A + 9) (A + 9 + clen (lower x)) := by
          apply ih _ code (A + 9) (by omega)
          have e1 : A + (0 + 1 + (2 + 2) + 4) = A + 9 := by omega
          rw [e1] at hbody; exact hbody
        have o4 : u8 code (A + 9 + clen (lower x)) = OP_REPEAT_END_GREEDY ∨ u8 code (A + 9 + clen (lower x)) = OP_REPEAT_END_UNGREEDY := by
          have := hop2 0 (by simp); simp at this
          have e1 : A + (0 + 1 + (2 + 2) + 4 + clen (lower x)) = A + 9 + clen (lower x) := by omega
          rw [e1] at this
          cases g
          · right; rw [this]; rfl
          · left; rw [this]; rfl
        have o5 : u16 code (A + 9 + clen (lower x) + 1) = repMin lo hi := sub_le16 (by omega) (by
          have e1 : A + (0 + 1 + (2 + 2) + 4 + clen (lower x) + (0 + 1)) = A + 9 + clen (lower x) + 1 := by omega
          rw [e1] at hmn2; exact hmn2)
        have o6 : u16 code (A + 9 + clen (lower x) + 3) = repMax lo hi := sub_le16 (by omega) (by
          have e1 : A + (0 + 1 + (2 + 2) + 4 + clen (lower x) + (0 + 1)) + 2 = A + 9 + clen (lower x) + 3 := by omega
          rw [e1] at hmx2; exact hmx2)
        have o7 : i32 code (A + 9 + clen (lower x) + 5) = -((clen (lower x) : Nat) : Int) := by
          apply sub_leI32 (by omega) (by omega)
          have e1 : A + (0 + 1 + (2 + 2) + 4 + clen (lower x) + (0 + 1) + (2 + 2)) = A + 9 + clen (lower x) + 5 := by omega
          rw [e1] at hoff2; exact hoff2
        have := Seg.loop (code := code) (x := lower x) (a := A) (m := A + 9 + clen (lower x)) (lo := repMin lo hi) (hi := repMax lo hi) (g := g)
          o1 o2 (by rw [o3]; unfold addOff; omega) sx o4 o5 o6 (by rw [o7]; unfold addOff; omega) hmin.1 hmin.2.1
        have e3 : A + (0 + 1 + (2 + 2) + 4 + clen (lower x) + (0 + 1) + (2 + 2) + 4) = A + 9 + clen (lower x) + 9 := by omega
        rw [e3]; exact this
      · simp only [c] at h2 ⊢
        exact Seg.eps
    -- section 3: `split ; e` or the plain epilog
    have S3 : Seg code (if emitSplit lo hi then Ir.opt (lower x) g else if emitEpilog lo hi then lower x else .eps)
        (a + (rngC1 x lo s).length + (rngC2 x lo hi g (rngS1 x lo s)).length)
        (a + (rngC1 x lo s).length + (rngC2 x lo hi g (rngS1 x lo s)).length + (rngC3 x lo hi g (rngS2 x lo hi (rngS1 x lo s))).length) := by
      obtain ⟨A, hA⟩ : ∃ A, A = a + (rngC1 x lo s).length + (rngC2 x lo hi g (rngS1 x lo s)).length := ⟨_, rfl⟩
      have hA' : a + ((rngC1 x lo s).length + (rngC2 x lo hi g (rngS1 x lo s)).length) = A := by omega
      simp only [List.length_append] at h3
      rw [hA'] at h3
      rw [← hA]
      unfold rngC3 at h3 ⊢
      by_cases c : emitSplit lo hi = true
      · simp only [c, if_true] at h3 hsz ⊢
        simp only [clen] at hsz
        obtain ⟨h12', hca⟩ := sub_append h3
        obtain ⟨hhead, hoff1⟩ := sub_append h12'
        simp only [List.length_append, List.length_cons, List.length_nil, leI16_length, hL] at hca hoff1 ⊢
        have hop : u8 code A = OP_SPLIT_A ∨ u8 code A = OP_SPLIT_B := by
          have := hhead 0 (by simp); simp at this
          cases g
          · right; rw [this]; rfl
          · left; rw [this]; rfl
        have ho1 : i16 code (A + 2) = ((4 + clen (lower x) : Nat) : Int) := by
          apply sub_leI16 (by omega)
          have e1 : A + (0 + 1 + 1) = A + 2 := by omega
          rw [e1] at hoff1
          have e2 : ((4 + clen (lower x) : Nat) : Int) = 4 + (clen (lower x) : Int) := by omega
          rw [e2]; exact hoff1
        have sx : Seg code (lower x) (A + 4) (A + 4 + clen (lower x)) := by
          apply ih _ code (A + 4) (by omega)
          have e1 : A + (0 + 1 + 1 + 2) = A + 4 := by omega
          rw [e1] at hca; exact hca
        have := Seg.opt (code := code) (x := lower x) (a := A) (m := A + 4 + clen (lower x)) (g := g) hop
          (by rw [ho1]; unfold addOff; omega) sx
        have e3 : A + (0 + 1 + 1 + 2 + clen (lower x)) = A + 4 + clen (lower x) := by omega
        rw [e3]; exact this
      · by_cases c2 : emitEpilog lo hi = true
        · simp only [c, c2, if_true] at h3 hsz ⊢
          simp only [Bool.false_eq_true, if_false] at hsz ⊢
          rw [hL]; exact ih _ code A (by omega) h3
        · simp only [c, c2] at h3 ⊢
          exact Seg.eps
    have := Seg.cat S1 (Seg.cat S2 S3)
    have e1 := S1.len; have e2 := S2.len; have e3 := S3.len
    have ee : a + (clen (if emitProlog lo = true then lower x else Ir.eps) +
        (clen (if emitRepeat lo hi = true then (lower x).loop (repMin lo hi) (repMax lo hi) g else Ir.eps) +
          clen (if emitSplit lo hi = true then (lower x).opt g else if emitEpilog lo hi = true then lower x else Ir.eps))) =
        a + (rngC1 x lo s).length + (rngC2 x lo hi g (rngS1 x lo s)).length + (rngC3 x lo hi g (rngS2 x lo hi (rngS1 x lo s))).length := by omega
    rw [ee]; exact this
  | @cat x y hx hy ih1 ih2 =>
    intro s code a hsz h
    simp only [lower, clen] at hsz ⊢
    simp only [emit, Bool.false_eq_true, if_false] at h
    obtain ⟨h1, h2⟩ := sub_append h
    rw [emit_len hx] at h2
    have := Seg.cat (ih1 s code a (by omega) h1) (ih2 _ code (a + clen (lower x)) (by omega) h2)
    rwa [Nat.add_assoc] at this
  | @alt x y hx hy ih1 ih2 =>
    intro s code a hsz h
    simp only [lower, clen] at hsz ⊢
    simp only [emit] at h
    -- [C0, id] ++ off16 ++ ca ++ [C2] ++ off16' ++ cb
    obtain ⟨h12, hcb⟩ := sub_append h
    obtain ⟨h123, hoff2⟩ := sub_append h12
    obtain ⟨h1234, hjmp⟩ := sub_append h123
    obtain ⟨h12', hca⟩ := sub_append h1234
    obtain ⟨hhead, hoff1⟩ := sub_append h12'
    simp only [List.length_append, List.length_cons, List.length_nil, leI16_length, emit_len hx, emit_len hy] at hcb hoff2 hjmp hca hoff1
    have hop : u8 code a = OP_SPLIT_A := by
      have := hhead 0 (by simp); simp at this; rw [this]; rfl
    have hj : u8 code (a + 4 + clen (lower x)) = OP_JUMP := by
      have := hjmp 0 (by simp)
      simp at this
      have e1 : a + (0 + 1 + 1 + (0 + 1 + 1) + clen (lower x)) = a + 4 + clen (lower x) := by omega
      rw [e1] at this; rw [this]; rfl
    have ho1 : i16 code (a + 2) = ((4 + clen (lower x) + 3 : Nat) : Int) := by
      apply sub_leI16 (by omega)
      have e1 : a + (0 + 1 + 1) = a + 2 := by omega
      rw [e1] at hoff1
      have e2 : ((4 + clen (lower x) + 3 : Nat) : Int) = 4 + (clen (lower x) : Int) + 3 := by omega
      rw [e2]; exact hoff1
    have ho2 : i16 code (a + 4 + clen (lower x) + 1) = ((3 + clen (lower y) : Nat) : Int) := by
      apply sub_leI16 (by omega)
      have e1 : a + (0 + 1 + 1 + (0 + 1 + 1) + clen (lower x) + (0 + 1)) = a + 4 + clen (lower x) + 1 := by omega
      rw [e1] at hoff2
      have e2 : ((3 + clen (lower y) : Nat) : Int) = 3 + (clen (lower y) : Int) := by omega
      rw [e2]; exact hoff2
    have sx : Seg code (lower x) (a + 4) (a + 4 + clen (lower x)) := by
      apply ih1 (s + 1) code (a + 4) (by omega)
      have e1 : a + (0 + 1 + 1 + (0 + 1 + 1)) = a + 4 := by omega
      rw [e1] at hca; exact hca
    have sy : Seg code (lower y) (a + 4 + clen (lower x) + 3) (a + 4 + clen (lower x) + 3 + clen (lower y)) := by
      apply ih2 _ code (a + 4 + clen (lower x) + 3) (by omega)
      have e1 : a + (0 + 1 + 1 + (0 + 1 + 1) + clen (lower x) + (0 + 1) + (0 + 1 + 1)) = a + 4 + clen (lower x) + 3 := by omega
      rw [e1] at hcb; exact hcb
    have := Seg.alt (code := code) (x := lower x) (y := lower y) (a := a) (m := a + 4 + clen (lower x)) (b := a + 4 + clen (lower x) + 3 + clen (lower y)) hop
      (by rw [ho1]; unfold addOff; omega) sx hj (by rw [ho2]; unfold addOff; omega) sy
    have e3 : a + (4 + clen (lower x) + 3 + clen (lower y)) = a + 4 + clen (lower x) + 3 + clen (lower y) := by omega
    rw [e3]; exact this




/-! ### backward code: the forward code of the mirrored expression -/
/-- the expression read right to left -/
def rev : Re → Re
  | .cat a b => .cat (rev b) (rev a)
  | .alt a b => .alt (rev a) (rev b)
  | .star a g => .star (rev a) g
  | .plus a g => .plus (rev a) g
  | .range a lo hi g => .range (rev a) lo hi g
  | r => r

/-- `_yr_re_emit` with EMIT_BACKWARDS writes the forward code of the mirrored expression -/
theorem emit_rev (r : Re) : ∀ s, emit true r s = emit false (rev r) s := by
  induction r with
  | cat a b iha ihb => intro s; simp only [emit, rev, if_true, Bool.false_eq_true, if_false, iha, ihb]
  | alt a b iha ihb => intro s; simp only [emit, rev, iha, ihb]
  | star a g ih => intro s; simp only [emit, rev, ih]
  | plus a g ih => intro s; simp only [emit, rev, ih]
  | range a lo hi g ih => intro s; simp only [emit, rev, ih]
  | _ => intro s; simp only [emit, rev]

theorem rev_wf {r : Re} (h : WF r) : WF (rev r) := by
  induction h with
  | lit b => exact .lit b
  | masked v m => exact .masked v m
  | notLit b => exact .notLit b
  | maskedNot v m => exact .maskedNot v m
  | any => exact .any
  | cls bm neg => exact .cls bm neg
  | wordCh => exact .wordCh
  | nonWordCh => exact .nonWordCh
  | space => exact .space
  | nonSpace => exact .nonSpace
  | digit => exact .digit
  | nonDigit => exact .nonDigit
  | bol => exact .bol
  | eol => exact .eol
  | wordB => exact .wordB
  | nonWordB => exact .nonWordB
  | empty => exact .empty
  | rangeAny lo hi g h1 h2 => exact .rangeAny lo hi g h1 h2
  | range lo hi g _ h1 h2 ih => exact .range lo hi g ih h1 h2
  | star g _ ih => exact .star g ih
  | plus g _ ih => exact .plus g ih
  | cat _ _ ih1 ih2 => exact .cat ih2 ih1
  | alt _ _ ih1 ih2 => exact .alt ih1 ih2

section
variable {fl : Flags} {buf : Bytes}

/-- the mirrored shape of the emit table, read backwards: tail · loop · prolog — still `e{lo,hi}` -/
theorem shapeB_sound (a : Re) (lo hi : Nat) (g : Bool) (hlh : lo ≤ hi) {p q : Nat}
    (hm : Re.Matches fl buf (.cat (.cat (if emitSplit lo hi then .range a 0 1 g else if emitEpilog lo hi then a else .empty)
        (if emitRepeat lo hi then .range a (repMin lo hi) (repMax lo hi) g else .empty)) (if emitProlog lo then a else .empty)) p q) :
    Re.Matches fl buf (.range a lo hi g) p q := by
  obtain ⟨u, h32, h1⟩ := (cat_iff _ _ _ _).1 hm
  obtain ⟨t, h3, h2⟩ := (cat_iff _ _ _ _).1 h32
  rw [range_iff_cnt]
  -- each section is a count interval
  have c3 : Cnt fl buf a (if emitSplit lo hi then 0 else if emitEpilog lo hi then 1 else 0) (if emitSplit lo hi then 1 else if emitEpilog lo hi then 1 else 0) p t := by
    by_cases c : emitSplit lo hi = true
    · simp only [c, if_true] at h3 ⊢; exact (range_iff_cnt a 0 1 g p t).1 h3
    · by_cases c2 : emitEpilog lo hi = true
      · simp only [c, c2, if_true, if_false] at h3 ⊢; exact (one_iff_cnt a p t).1 h3
      · simp only [c, c2, if_false] at h3 ⊢; exact (empty_iff_cnt a p t).1 h3
  have c2 : Cnt fl buf a (if emitRepeat lo hi then repMin lo hi else 0) (if emitRepeat lo hi then repMax lo hi else 0) t u := by
    by_cases c : emitRepeat lo hi = true
    · simp only [c, if_true] at h2 ⊢; exact (range_iff_cnt a _ _ g t u).1 h2
    · simp only [c, if_false] at h2 ⊢; exact (empty_iff_cnt a t u).1 h2
  have c1 : Cnt fl buf a (if emitProlog lo then 1 else 0) (if emitProlog lo then 1 else 0) u q := by
    by_cases c : emitProlog lo = true
    · simp only [c, if_true] at h1 ⊢; exact (one_iff_cnt a u q).1 h1
    · simp only [c, if_false] at h1 ⊢; exact (empty_iff_cnt a u q).1 h1
  obtain ⟨k3, a3, b3, p3⟩ := c3
  obtain ⟨k2, a2, b2, p2⟩ := c2
  obtain ⟨k1, a1, b1, p1⟩ := c1
  refine ⟨k3 + k2 + k1, ?_, ?_, (p3.append p2).append p1⟩
  all_goals
    simp only [emitProlog, emitRepeat, emitSplit, emitEpilog, repMin, repMax] at a1 b1 a2 b2 a3 b3
    by_cases d1 : lo > 0 <;> by_cases d2 : hi > lo <;> by_cases d3 : hi > lo + 1 <;> by_cases d4 : hi > 2 <;> by_cases d5 : hi > 1 <;>
      simp [d1, d2, d3, d4, d5] at a1 b1 a2 b2 a3 b3 <;> omega

theorem lower_range_reB (a : Re) (lo hi : Nat) (g : Bool) : (lower (.range a lo hi g)).reB =
    .cat (.cat (if emitSplit lo hi then .range (lower a).reB 0 1 g else if emitEpilog lo hi then (lower a).reB else .empty)
      (if emitRepeat lo hi then .range (lower a).reB (repMin lo hi) (repMax lo hi) g else .empty)) (if emitProlog lo then (lower a).reB else .empty) := by
  simp only [lower, Ir.reB]
  congr 1
  · congr 1
    · split
      · rfl
      · split <;> rfl
    · split <;> rfl
  · split <;> rfl

/-- the backward reading of the lowered mirrored expression is the expression -/
theorem lowerB_sem {r : Re} (hw : WF r) : ∀ p q, Re.Matches fl buf (lower (rev r)).reB p q → Re.Matches fl buf r p q := by
  induction hw with
  | lit _ | masked _ _ | notLit _ | maskedNot _ _ | any | cls _ _ | wordCh | nonWordCh | space | nonSpace | digit | nonDigit | bol | eol | wordB | nonWordB =>
    intro p q h; exact h
  | empty => intro p q h; exact h
  | rangeAny _ _ _ _ _ => intro p q h; exact h
  | @range a lo hi g _ hlh _ ih =>
    intro p q hm
    simp only [rev] at hm
    rw [lower_range_reB] at hm
    exact range_congr lo hi g ih (shapeB_sound _ lo hi g hlh hm)
  | @star a g _ ih => intro p q hm; exact star_congr g ih hm
  | @plus a g _ ih => intro p q hm; exact plus_congr g ih hm
  | @cat a b _ _ ih1 ih2 =>
    intro p q hm
    simp only [rev, lower, Ir.reB] at hm
    obtain ⟨t, h1, h2⟩ := (cat_iff _ _ _ _).1 hm
    exact .cat (ih1 _ _ h1) (ih2 _ _ h2)
  | @alt a b _ _ ih1 ih2 =>
    intro p q hm
    simp only [rev, lower, Ir.reB] at hm
    cases hm with
    | altL h1 => exact .altL (ih1 _ _ h1)
    | altR h1 => exact .altR (ih2 _ _ h1)

end

end YaraModel.ReEmit
