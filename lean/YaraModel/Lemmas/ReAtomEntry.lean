/-
  Verification starts at the atom: `_yr_scan_verify_re_match` runs the FORWARD code from the instruction of the atom's first
  node (forward_code_ref) and the backward code from the code that follows that node's backward instruction.  For the
  loop-free contexts of hex strings (the hole lies under concatenations and alternatives only):
    `Ctx.pos`        : the code address of the hole
    `lang_hole_fwd`  : what the machine state at that address accepts = the node, then `Ctx.After`
    `vm_sound_from_atom_fwd` : a length reported by the forward run entered there = a match of the node followed by the
                        rest of the pattern after it
-/
import YaraModel.Lemmas.ReEmit
namespace YaraModel.ReEmit
open YaraModel.Re YaraModel.ReVm

/-- the hole lies under concatenations and alternatives of well-formed expressions only -/
def HexCtx : Ctx → Prop
  | .hole => True
  | .catL c r => HexCtx c ∧ WF r
  | .catR l c => WF l ∧ HexCtx c
  | .altL c r => HexCtx c ∧ WF r
  | .altR l c => WF l ∧ HexCtx c
  | .plusIn _ _ => False

/-- forward code address of the hole when the code of `c.fill x` starts at `a` -/
def holePos : Ctx → Nat → Nat
  | .hole, a => a
  | .catL c _, a => holePos c a
  | .catR l c, a => holePos c (a + clen (lower l))
  | .altL c _, a => holePos c (a + 4)
  | .altR l c, a => holePos c (a + 4 + clen (lower l) + 3)
  | .plusIn c _, a => holePos c a

/-- the RE nodes atoms begin at -/
def AtomLeaf (x : Re) : Prop := (∃ b, x = .lit b) ∨ (∃ v m, x = .masked v m) ∨ x = .any

theorem lower_atomLeaf {x : Re} (h : AtomLeaf x) : lower x = .leaf x := by
  rcases h with ⟨b, rfl⟩ | ⟨v, m, rfl⟩ | rfl <;> rfl

theorem atomLeaf_wf {x : Re} (h : AtomLeaf x) : WF x := by
  rcases h with ⟨b, rfl⟩ | ⟨v, m, rfl⟩ | rfl
  · exact .lit b
  · exact .masked v m
  · exact .any

theorem fill_wf {x : Re} (hx : WF x) : ∀ {c : Ctx}, HexCtx c → WF (c.fill x)
  | .hole, _ => hx
  | .catL c r, h => .cat (fill_wf hx h.1) h.2
  | .catR l c, h => .cat h.1 (fill_wf hx h.2)
  | .altL c r, h => .alt (fill_wf hx h.1) h.2
  | .altR l c, h => .alt h.1 (fill_wf hx h.2)
  | .plusIn _ _, h => h.elim

theorem seg_cat_inv {code : Code} {X Y : Ir} {a b : Nat} (h : Seg code (.cat X Y) a b) : ∃ m, Seg code X a m ∧ Seg code Y m b := by
  cases h with | cat h1 h2 => exact ⟨_, h1, h2⟩

theorem seg_alt_inv {code : Code} {X Y : Ir} {a b : Nat} (h : Seg code (.alt X Y) a b) :
    ∃ m, Seg code X (a + 4) m ∧ Seg code Y (m + 3) b := by
  cases h with | alt _ _ h1 _ _ h2 => exact ⟨_, h1, h2⟩

section
variable {code : Code} {x : Re}

/-- the hole's instruction lies inside the segment -/
theorem holePos_range (hx : AtomLeaf x) : ∀ {c : Ctx}, HexCtx c → ∀ {a b : Nat}, Seg code (lower (c.fill x)) a b →
    a ≤ holePos c a ∧ holePos c a + leafLen x ≤ b
  | .hole, _, a, b, hs => by
    simp only [Ctx.fill, lower_atomLeaf hx] at hs
    have := hs.len; simp only [clen] at this
    simp only [holePos]; omega
  | .catL c r, h, a, b, hs => by
    simp only [Ctx.fill, lower] at hs
    obtain ⟨m, h1, h2⟩ := seg_cat_inv hs
    have := holePos_range hx h.1 h1; have := h2.le
    simp only [holePos]; omega
  | .catR l c, h, a, b, hs => by
    simp only [Ctx.fill, lower] at hs
    obtain ⟨m, h1, h2⟩ := seg_cat_inv hs
    have hm := h1.len
    have := holePos_range hx h.2 h2
    simp only [holePos]; rw [← hm]; omega
  | .altL c r, h, a, b, hs => by
    simp only [Ctx.fill, lower] at hs
    obtain ⟨m, h1, h2⟩ := seg_alt_inv hs
    have := holePos_range hx h.1 h1; have := h2.le
    simp only [holePos]; omega
  | .altR l c, h, a, b, hs => by
    simp only [Ctx.fill, lower] at hs
    obtain ⟨m, h1, h2⟩ := seg_alt_inv hs
    have hm := h1.len
    have := holePos_range hx h.2 h2
    simp only [holePos]
    have e : a + 4 + clen (lower l) + 3 = m + 3 := by omega
    rw [e]; omega
  | .plusIn _ _, h, _, _, _ => h.elim

/-- the fiber standing at the hole's instruction is a valid state of the segment -/
theorem valid_hole (hx : AtomLeaf x) : ∀ {c : Ctx}, HexCtx c → ∀ {a b B : Nat} (s : List Nat), s.length = B → Seg code (lower (c.fill x)) a b →
    Valid (lower (c.fill x)) a B (holePos c a) (-1) s .run
  | .hole, _, a, b, B, s, hB, hs => by
    simp only [Ctx.fill, lower_atomLeaf hx, holePos, Valid]; exact ⟨rfl, rfl, rfl, hB⟩
  | .catL c r, h, a, b, B, s, hB, hs => by
    simp only [Ctx.fill, lower] at hs ⊢
    obtain ⟨m, h1, h2⟩ := seg_cat_inv hs
    simp only [holePos, Valid]; exact .inl (valid_hole hx h.1 s hB h1)
  | .catR l c, h, a, b, B, s, hB, hs => by
    simp only [Ctx.fill, lower] at hs ⊢
    obtain ⟨m, h1, h2⟩ := seg_cat_inv hs
    have hm := h1.len
    simp only [holePos, Valid]; right
    rw [← hm]; exact valid_hole hx h.2 s hB h2
  | .altL c r, h, a, b, B, s, hB, hs => by
    simp only [Ctx.fill, lower] at hs ⊢
    obtain ⟨m, h1, h2⟩ := seg_alt_inv hs
    simp only [holePos, Valid]; exact .inr (.inl (valid_hole hx h.1 s hB h1))
  | .altR l c, h, a, b, B, s, hB, hs => by
    simp only [Ctx.fill, lower] at hs ⊢
    obtain ⟨m, h1, h2⟩ := seg_alt_inv hs
    have hm := h1.len
    simp only [holePos, Valid]; right; right; right
    have e : a + 4 + clen (lower l) + 3 = m + 3 := by omega
    rw [e]; exact valid_hole hx h.2 s hB h2
  | .plusIn _ _, h, _, _, _, _, _, _ => h.elim


/-- what the state at the hole's instruction accepts (forwards): the node, then the rest of the pattern after it -/
theorem lang_hole_fwd (fl : Flags) (buf : Bytes) (st : Nat) (hx : AtomLeaf x) : ∀ {c : Ctx}, HexCtx c → ∀ {a b B : Nat} (K : Lang) (s : List Nat) (q q' : Nat), Seg code (lower (c.fill x)) a b →
    lang (fun r q t => Re.Matches fl buf r (st + q) (st + t)) (lower (c.fill x)) a B K (holePos c a) (-1) s .run q q' →
    ∃ e t, Re.Matches fl buf x (st + q) (st + e) ∧ c.After fl buf x (st + e) (st + t) ∧ K t q'
  | .hole, _, a, b, B, K, s, q, q', hs, hl => by
    simp only [Ctx.fill, lower_atomLeaf hx, holePos, lang, if_true] at hl
    obtain ⟨t, h1, h2⟩ := hl
    exact ⟨t, t, h1, rfl, h2⟩
  | .catL c r, h, a, b, B, K, s, q, q', hs, hl => by
    simp only [Ctx.fill, lower] at hs hl
    obtain ⟨m, h1, h2⟩ := seg_cat_inv hs
    have hm := h1.len
    have hr := holePos_range hx h.1 h1
    have hp := leafLen_pos x
    rw [show holePos (c.catL r) a = holePos c a from rfl] at hl
    simp only [lang] at hl
    rw [← hm, if_pos (by omega)] at hl
    obtain ⟨e, t, k1, k2, k3⟩ := lang_hole_fwd fl buf st hx h.1 _ s q q' h1 hl
    obtain ⟨t2, k4, k5⟩ := lang_entry _ h2 B K _ _ _ k3
    have k6 := (lower_sem h.2 _ _).1 (irm_fwdG fl buf st k4)
    exact ⟨e, t2, k1, ⟨_, k2, k6⟩, k5⟩
  | .catR l c, h, a, b, B, K, s, q, q', hs, hl => by
    simp only [Ctx.fill, lower] at hs hl
    obtain ⟨m, h1, h2⟩ := seg_cat_inv hs
    have hm := h1.len
    have hr := holePos_range hx h.2 h2
    rw [show holePos (Ctx.catR l c) a = holePos c (a + clen (lower l)) from rfl, ← hm] at hl
    simp only [lang] at hl
    rw [← hm, if_neg (by omega)] at hl
    exact lang_hole_fwd fl buf st hx h.2 K s q q' h2 hl
  | .altL c r, h, a, b, B, K, s, q, q', hs, hl => by
    simp only [Ctx.fill, lower] at hs hl
    obtain ⟨m, h1, h2⟩ := seg_alt_inv hs
    have hm := h1.len
    have hr := holePos_range hx h.1 h1
    have hp := leafLen_pos x
    rw [show holePos (c.altL r) a = holePos c (a + 4) from rfl] at hl
    simp only [lang] at hl
    have e1 : a + 4 + clen (lower (c.fill x)) = m := by omega
    rw [e1, if_neg (by omega), if_pos (by omega)] at hl
    exact lang_hole_fwd fl buf st hx h.1 K s q q' h1 hl
  | .altR l c, h, a, b, B, K, s, q, q', hs, hl => by
    simp only [Ctx.fill, lower] at hs hl
    obtain ⟨m, h1, h2⟩ := seg_alt_inv hs
    have hm := h1.len
    have hr := holePos_range hx h.2 h2
    have e1 : a + 4 + clen (lower l) = m := by omega
    rw [show holePos (Ctx.altR l c) a = holePos c (a + 4 + clen (lower l) + 3) from rfl, e1] at hl
    simp only [lang] at hl
    rw [e1, if_neg (by omega), if_neg (by omega), if_neg (by omega)] at hl
    exact lang_hole_fwd fl buf st hx h.2 K s q q' h2 hl
  | .plusIn _ _, h, _, _, _, _, _, _, _, _, _ => h.elim

end

/-- **Forward verification from the atom.**  The forward code of a pattern `c.fill x` entered at the instruction of the node
    `x` (a byte / masked byte / `??` under concatenations and alternatives — every atom position of a hex string): every
    length L the model of `yr_re_exec` reports is a match of `x` at the start position followed by the rest of the pattern
    after `x`, ending at start + L. -/
theorem vm_sound_from_atom_fwd (c : Ctx) (hc : HexCtx c) (x : Re) (hx : AtomLeaf x) (hsz : (emit false (c.fill x) 0).1.length < 32000)
    (buf : Bytes) (start : Nat) (hst : start ≤ buf.size) (fl : VmFlags) (hb : fl.backwards = false) (hsc : fl.scan = false)
    (fuel : Nat) (m : Int) (cl : List Nat)
    (h : exec { code := (emitCode false (c.fill x)).toArray, entry := holePos c 0, buf := buf, start := start, fl := fl, syncFuel := fuel } = .done m cl) :
    (∀ L, L ∈ cl → ∃ e, Re.Matches (specFlagsG fl) buf x start (start + e) ∧ c.After (specFlagsG fl) buf x (start + e) (start + L)) ∧
    (0 ≤ m → ∃ e, Re.Matches (specFlagsG fl) buf x start (start + e) ∧ c.After (specFlagsG fl) buf x (start + e) (start + m.toNat)) := by
  obtain ⟨e, he⟩ : ∃ e : Env, e = { code := (emitCode false (c.fill x)).toArray, entry := holePos c 0, buf := buf, start := start, fl := fl, syncFuel := fuel } := ⟨_, rfl⟩
  rw [← he] at h
  have hwf : WF (c.fill x) := fill_wf (atomLeaf_wf hx) hc
  rw [emit_len hwf] at hsz
  have hrun : RunOK e := by subst he; exact ⟨hst, fun hh => by rw [hsc] at hh; simp at hh⟩
  have hb' : e.fl.backwards = false := by subst he; exact hb
  have hsub : Sub e.code 0 ((emit false (c.fill x) 0).1 ++ [0xAD]) := by subst he; exact sub_whole _
  obtain ⟨h1, h2⟩ := sub_append hsub
  have hseg : Seg e.code (lower (c.fill x)) 0 (clen (lower (c.fill x))) := by
    have := seg_of_emit hwf 0 e.code 0 hsz h1
    simpa using this
  have hmatch : u8 e.code (clen (lower (c.fill x))) = OP_MATCH := by
    have := h2 0 (by simp)
    rw [emit_len hwf] at this
    simp at this
    rw [this]; rfl
  have hentry : e.entry = holePos c 0 := by subst he; rfl
  have hstart : ValidF (lower (c.fill x)) 0 0 { ip := e.entry } .run ∨ AtEnd (clen (lower (c.fill x))) 0 { ip := e.entry } .run := by
    left; simp only [ValidF]; rw [hentry]; exact valid_hole hx hc [] rfl hseg
  obtain ⟨g1, g2⟩ := exec_sound e m cl h
  have hsc' : e.fl.scan = false := by subst he; exact hsc
  have key : ∀ (L : Nat) (f : Fiber) (md : Mode), Reach e f md L → u8 e.code f.ip = OP_MATCH →
      ∃ e', Re.Matches (specFlagsG e.fl) e.buf x e.start (e.start + e') ∧ c.After (specFlagsG e.fl) e.buf x (e.start + e') (e.start + L) := by
    intro L f md hr hm
    obtain ⟨s0, _, _, k3, k4⟩ := match_lang_at e (fwdDir e hb' hrun) hseg hmatch hstart hr hm
    rw [k3 hsc', hentry] at k4
    obtain ⟨e', t, m1, m2, m3⟩ := lang_hole_fwd (specFlagsG e.fl) e.buf e.start hx hc Keps [] 0 L hseg k4
    simp only [Keps] at m3
    subst m3
    simp only [Nat.add_zero] at m1
    exact ⟨e', m1, m2⟩
  constructor
  · intro L hL
    obtain ⟨f, md, hr, hm⟩ := g1 L hL
    have := key L f md hr hm
    subst he; exact this
  · intro hm0
    obtain ⟨f, md, hr, hm⟩ := g2 hm0
    have := key _ f md hr hm
    subst he; exact this


/-! ### backwards: the code that follows the node's instruction in the backward code -/
/-- address just after the hole's instruction in the code of the mirrored pattern `rev (c.fill x)` placed at `a` -/
def bwdPos (x : Re) : Ctx → Nat → Nat
  | .hole, a => a + leafLen x
  | .catL c r, a => bwdPos x c (a + clen (lower (rev r)))
  | .catR _ c, a => bwdPos x c a
  | .altL c _, a => bwdPos x c (a + 4)
  | .altR l c, a => bwdPos x c (a + 4 + clen (lower (rev l)) + 3)
  | .plusIn c _, a => bwdPos x c a

theorem rev_atomLeaf {x : Re} (h : AtomLeaf x) : rev x = x := by
  rcases h with ⟨b, rfl⟩ | ⟨v, m, rfl⟩ | rfl <;> rfl

section
variable {code : Code} {x : Re}

theorem bwdPos_range (hx : AtomLeaf x) : ∀ {c : Ctx}, HexCtx c → ∀ {a b : Nat}, Seg code (lower (rev (c.fill x))) a b →
    a + leafLen x ≤ bwdPos x c a ∧ bwdPos x c a ≤ b
  | .hole, _, a, b, hs => by
    simp only [Ctx.fill, rev_atomLeaf hx, lower_atomLeaf hx] at hs
    have := hs.len; simp only [clen] at this
    simp only [bwdPos]; omega
  | .catL c r, h, a, b, hs => by
    simp only [Ctx.fill, rev, lower] at hs
    obtain ⟨m, h1, h2⟩ := seg_cat_inv hs
    have hm := h1.len
    have := bwdPos_range hx h.1 h2
    simp only [bwdPos]; rw [← hm]; omega
  | .catR l c, h, a, b, hs => by
    simp only [Ctx.fill, rev, lower] at hs
    obtain ⟨m, h1, h2⟩ := seg_cat_inv hs
    have := bwdPos_range hx h.2 h1; have := h2.le
    simp only [bwdPos]; omega
  | .altL c r, h, a, b, hs => by
    simp only [Ctx.fill, rev, lower] at hs
    obtain ⟨m, h1, h2⟩ := seg_alt_inv hs
    have := bwdPos_range hx h.1 h1; have := h2.le
    simp only [bwdPos]; omega
  | .altR l c, h, a, b, hs => by
    simp only [Ctx.fill, rev, lower] at hs
    obtain ⟨m, h1, h2⟩ := seg_alt_inv hs
    have hm := h1.len
    have := bwdPos_range hx h.2 h2
    simp only [bwdPos]
    have e : a + 4 + clen (lower (rev l)) + 3 = m + 3 := by omega
    rw [e]; omega
  | .plusIn _ _, h, _, _, _ => h.elim

/-- the fiber standing just after the hole's instruction is a valid state of the mirrored code, or stands at its end -/
theorem valid_after_hole (hx : AtomLeaf x) : ∀ {c : Ctx}, HexCtx c → ∀ {a b B : Nat} (s : List Nat), s.length = B →
    Seg code (lower (rev (c.fill x))) a b →
    Valid (lower (rev (c.fill x))) a B (bwdPos x c a) (-1) s .run ∨ (bwdPos x c a = b)
  | .hole, _, a, b, B, s, hB, hs => by
    right
    simp only [Ctx.fill, rev_atomLeaf hx, lower_atomLeaf hx] at hs
    have := hs.len; simp only [clen] at this
    simp only [bwdPos]; omega
  | .catL c r, h, a, b, B, s, hB, hs => by
    simp only [Ctx.fill, rev, lower] at hs ⊢
    obtain ⟨m, h1, h2⟩ := seg_cat_inv hs
    have hm := h1.len
    simp only [bwdPos, Valid]
    rw [← hm]
    rcases valid_after_hole hx h.1 s hB h2 with h' | h'
    · exact .inl (.inr h')
    · exact .inr h'
  | .catR l c, h, a, b, B, s, hB, hs => by
    simp only [Ctx.fill, rev, lower] at hs ⊢
    obtain ⟨m, h1, h2⟩ := seg_cat_inv hs
    have hm := h1.len
    simp only [bwdPos, Valid]
    rcases valid_after_hole hx h.2 s hB h1 with h' | h'
    · exact .inl (.inl h')
    · rw [h']
      rcases entry_ok h2 B s hB with h'' | h''
      · left; right; rw [← hm]; exact h''
      · right; exact h''
  | .altL c r, h, a, b, B, s, hB, hs => by
    simp only [Ctx.fill, rev, lower] at hs ⊢
    obtain ⟨m, h1, h2⟩ := seg_alt_inv hs
    have hm := h1.len
    simp only [bwdPos, Valid]
    rcases valid_after_hole hx h.1 s hB h1 with h' | h'
    · exact .inl (.inr (.inl h'))
    · left; right; right; left
      rw [h']; exact ⟨by omega, rfl, rfl, hB⟩
  | .altR l c, h, a, b, B, s, hB, hs => by
    simp only [Ctx.fill, rev, lower] at hs ⊢
    obtain ⟨m, h1, h2⟩ := seg_alt_inv hs
    have hm := h1.len
    simp only [bwdPos, Valid]
    have e : a + 4 + clen (lower (rev l)) + 3 = m + 3 := by omega
    rw [e]
    rcases valid_after_hole hx h.2 s hB h2 with h' | h'
    · exact .inl (.inr (.inr (.inr h')))
    · exact .inr h'
  | .plusIn _ _, h, _, _, _, _, _, _ => h.elim

/-- what the state just after the hole's instruction accepts in the mirrored code, run backwards: the part of the pattern
    BEFORE the node -/
theorem lang_after_hole_bwd (fl : Flags) (buf : Bytes) (st : Nat) (hx : AtomLeaf x) : ∀ {c : Ctx}, HexCtx c →
    ∀ {a b B : Nat} (K : Lang) (s : List Nat) (q q' : Nat), s.length = B → Seg code (lower (rev (c.fill x))) a b →
    lang (fun r q t => Re.Matches fl buf r (st - t) (st - q)) (lower (rev (c.fill x))) a B K (bwdPos x c a) (-1) s .run q q' →
    ∃ t, c.Before fl buf x (st - t) (st - q) ∧ K t q'
  | .hole, _, a, b, B, K, s, q, q', hB, hs, hl => by
    simp only [Ctx.fill, rev_atomLeaf hx, lower_atomLeaf hx] at hs hl
    have hb : bwdPos x .hole a = b := by have := hs.len; simp only [clen] at this; simp only [bwdPos]; omega
    rw [hb, lang_end _ hs] at hl
    exact ⟨q, rfl, hl⟩
  | .catL c r, h, a, b, B, K, s, q, q', hB, hs, hl => by
    simp only [Ctx.fill, rev, lower] at hs hl
    obtain ⟨m, h1, h2⟩ := seg_cat_inv hs
    have hm := h1.len
    have hr := bwdPos_range hx h.1 h2
    have hp := leafLen_pos x
    rw [show bwdPos x (c.catL r) a = bwdPos x c (a + clen (lower (rev r))) from rfl, ← hm] at hl
    simp only [lang] at hl
    rw [← hm, if_neg (by omega)] at hl
    exact lang_after_hole_bwd fl buf st hx h.1 K s q q' hB h2 hl
  | .catR l c, h, a, b, B, K, s, q, q', hB, hs, hl => by
    simp only [Ctx.fill, rev, lower] at hs hl
    obtain ⟨m, h1, h2⟩ := seg_cat_inv hs
    have hm := h1.len
    have hr := bwdPos_range hx h.2 h1
    rw [show bwdPos x (Ctx.catR l c) a = bwdPos x c a from rfl] at hl
    simp only [lang] at hl
    rw [← hm] at hl
    have hlow : low s B = s := by rw [← hB]; exact low_self s
    have hl' : lang (fun r q t => Re.Matches fl buf r (st - t) (st - q)) (lower (rev (c.fill x))) a B
        (lang (fun r q t => Re.Matches fl buf r (st - t) (st - q)) (lower (rev l)) m B K m (-1) s .run) (bwdPos x c a) (-1) s .run q q' := by
      by_cases hlt : bwdPos x c a < m
      · rw [if_pos hlt, hlow] at hl; exact hl
      · rw [if_neg hlt] at hl
        have hq : bwdPos x c a = m := by omega
        rw [hq] at hl ⊢
        rw [lang_end _ h1]; exact hl
    obtain ⟨t, k2, k3⟩ := lang_after_hole_bwd fl buf st hx h.2 _ s q q' hB h1 hl'
    obtain ⟨t2, k4, k5⟩ := lang_entry _ h2 B K _ _ _ k3
    have k6 := lowerB_sem h.1 _ _ (irm_bwdG fl buf st k4)
    exact ⟨t2, ⟨_, k6, k2⟩, k5⟩
  | .altL c r, h, a, b, B, K, s, q, q', hB, hs, hl => by
    simp only [Ctx.fill, rev, lower] at hs hl
    obtain ⟨m, h1, h2⟩ := seg_alt_inv hs
    have hm := h1.len
    have hr := bwdPos_range hx h.1 h1
    have hp := leafLen_pos x
    rw [show bwdPos x (c.altL r) a = bwdPos x c (a + 4) from rfl] at hl
    simp only [lang] at hl
    have e1 : a + 4 + clen (lower (rev (c.fill x))) = m := by omega
    rw [e1, if_neg (by omega)] at hl
    have hl' : lang (fun r q t => Re.Matches fl buf r (st - t) (st - q)) (lower (rev (c.fill x))) (a + 4) B K (bwdPos x c (a + 4)) (-1) s .run q q' := by
      by_cases hlt : bwdPos x c (a + 4) < m
      · rw [if_pos hlt] at hl; exact hl
      · rw [if_neg hlt] at hl
        have hq : bwdPos x c (a + 4) = m := by omega
        rw [hq] at hl ⊢
        rw [if_pos rfl] at hl
        rw [lang_end _ h1]; exact hl
    exact lang_after_hole_bwd fl buf st hx h.1 K s q q' hB h1 hl'
  | .altR l c, h, a, b, B, K, s, q, q', hB, hs, hl => by
    simp only [Ctx.fill, rev, lower] at hs hl
    obtain ⟨m, h1, h2⟩ := seg_alt_inv hs
    have hm := h1.len
    have hr := bwdPos_range hx h.2 h2
    have hp := leafLen_pos x
    have e1 : a + 4 + clen (lower (rev l)) = m := by omega
    rw [show bwdPos x (Ctx.altR l c) a = bwdPos x c (a + 4 + clen (lower (rev l)) + 3) from rfl, e1] at hl
    simp only [lang] at hl
    rw [e1, if_neg (by omega), if_neg (by omega), if_neg (by omega)] at hl
    exact lang_after_hole_bwd fl buf st hx h.2 K s q q' hB h2 hl
  | .plusIn _ _, h, _, _, _, _, _, _, _, _, _, _ => h.elim

end

theorem rev_fill_wf {x : Re} (hx : AtomLeaf x) {c : Ctx} (hc : HexCtx c) : WF (rev (c.fill x)) :=
  rev_wf (fill_wf (atomLeaf_wf hx) hc)

/-- **Backward verification from the atom.**  The backward code of `c.fill x` entered just after the instruction of the node
    `x`, run with RE_FLAGS_BACKWARDS from `start`: every reported length L has L ≤ start and the part of the pattern BEFORE
    `x` matches buf[start - L, start). -/
theorem vm_sound_from_atom_bwd (c : Ctx) (hc : HexCtx c) (x : Re) (hx : AtomLeaf x) (hsz : (emit true (c.fill x) 0).1.length < 32000)
    (buf : Bytes) (start : Nat) (hst : start ≤ buf.size) (fl : VmFlags) (hb : fl.backwards = true) (hsc : fl.scan = false)
    (fuel : Nat) (m : Int) (cl : List Nat)
    (h : exec { code := (emitCode true (c.fill x)).toArray, entry := bwdPos x c 0, buf := buf, start := start, fl := fl, syncFuel := fuel } = .done m cl) :
    (∀ L, L ∈ cl → L ≤ start ∧ c.Before (specFlagsG fl) buf x (start - L) start) ∧
    (0 ≤ m → m.toNat ≤ start ∧ c.Before (specFlagsG fl) buf x (start - m.toNat) start) := by
  obtain ⟨e, he⟩ : ∃ e : Env, e = { code := (emitCode true (c.fill x)).toArray, entry := bwdPos x c 0, buf := buf, start := start, fl := fl, syncFuel := fuel } := ⟨_, rfl⟩
  rw [← he] at h
  have hwf : WF (rev (c.fill x)) := rev_fill_wf hx hc
  rw [emit_rev, emit_len hwf] at hsz
  have hrun : RunOK e := by subst he; exact ⟨hst, fun hh => by rw [hsc] at hh; simp at hh⟩
  have hb' : e.fl.backwards = true := by subst he; exact hb
  have hsub : Sub e.code 0 ((emit false (rev (c.fill x)) 0).1 ++ [0xAD]) := by
    subst he; simp only [emitCode, emit_rev]; exact sub_whole _
  obtain ⟨h1, h2⟩ := sub_append hsub
  have hseg : Seg e.code (lower (rev (c.fill x))) 0 (clen (lower (rev (c.fill x)))) := by
    have := seg_of_emit hwf 0 e.code 0 hsz h1
    simpa using this
  have hmatch : u8 e.code (clen (lower (rev (c.fill x)))) = OP_MATCH := by
    have := h2 0 (by simp)
    rw [emit_len hwf] at this
    simp at this
    rw [this]; rfl
  have hentry : e.entry = bwdPos x c 0 := by subst he; rfl
  have hstart : ValidF (lower (rev (c.fill x))) 0 0 { ip := e.entry } .run ∨ AtEnd (clen (lower (rev (c.fill x)))) 0 { ip := e.entry } .run := by
    rw [hentry]
    rcases valid_after_hole hx hc [] rfl hseg with h' | h'
    · exact .inl h'
    · exact .inr ⟨h', rfl, rfl, rfl⟩
  obtain ⟨g1, g2⟩ := exec_sound e m cl h
  have hsc' : e.fl.scan = false := by subst he; exact hsc
  have key : ∀ (L : Nat) (f : Fiber) (md : Mode), Reach e f md L → u8 e.code f.ip = OP_MATCH →
      L ≤ e.start ∧ c.Before (specFlagsG e.fl) e.buf x (e.start - L) e.start := by
    intro L f md hr hm
    obtain ⟨s0, _, k2, k3, k4⟩ := match_lang_at e (bwdDir e hb' hrun) hseg hmatch hstart hr hm
    rw [k3 hsc', hentry] at k4
    obtain ⟨t, m2, m3⟩ := lang_after_hole_bwd (specFlagsG e.fl) e.buf e.start hx hc Keps [] 0 L rfl hseg k4
    simp only [Keps] at m3
    subst m3
    have hle : t ≤ e.start := k2.2
    simp only [Nat.sub_zero] at m2
    exact ⟨hle, m2⟩
  constructor
  · intro L hL
    obtain ⟨f, md, hr, hm⟩ := g1 L hL
    have := key L f md hr hm
    subst he; exact this
  · intro hm0
    obtain ⟨f, md, hr, hm⟩ := g2 hm0
    have := key _ f md hr hm
    subst he; exact this

/-- **Verification around the atom is sound** (`_yr_scan_verify_re_match`, hex strings): if the forward code entered at the
    atom's node reports `lf` and the backward code entered behind that node reports `lb`, the whole pattern matches
    buf[o - lb, o + lf). -/
theorem verify_from_atom_sound (c : Ctx) (hc : HexCtx c) (x : Re) (hx : AtomLeaf x)
    (hszf : (emit false (c.fill x) 0).1.length < 32000) (hszb : (emit true (c.fill x) 0).1.length < 32000)
    (buf : Bytes) (o : Nat) (ho : o ≤ buf.size) (flf flb : VmFlags) (hf1 : flf.backwards = false) (hf2 : flf.scan = false)
    (hb1 : flb.backwards = true) (hb2 : flb.scan = false) (hsame : specFlagsG flf = specFlagsG flb)
    (fuel1 fuel2 : Nat) (m1 m2 : Int) (c1 c2 : List Nat)
    (hfw : exec { code := (emitCode false (c.fill x)).toArray, entry := holePos c 0, buf := buf, start := o, fl := flf, syncFuel := fuel1 } = .done m1 c1)
    (hbw : exec { code := (emitCode true (c.fill x)).toArray, entry := bwdPos x c 0, buf := buf, start := o, fl := flb, syncFuel := fuel2 } = .done m2 c2)
    (lf lb : Nat) (hlf : lf ∈ c1) (hlb : lb ∈ c2) :
    lb ≤ o ∧ Re.Matches (specFlagsG flf) buf (c.fill x) (o - lb) (o + lf) := by
  obtain ⟨e, k1, k2⟩ := (vm_sound_from_atom_fwd c hc x hx hszf buf o ho flf hf1 hf2 fuel1 m1 c1 hfw).1 lf hlf
  obtain ⟨k3, k4⟩ := (vm_sound_from_atom_bwd c hc x hx hszb buf o ho flb hb1 hb2 fuel2 m2 c2 hbw).1 lb hlb
  rw [← hsame] at k4
  exact ⟨k3, through_sound c x _ _ ⟨o, o + e, k4, k1, k2⟩⟩


/-- every node of a hex AST lies under concatenations and alternatives of hex ASTs -/
theorem hexAst_ctx {x : Re} : ∀ {c : Ctx}, HexAst (c.fill x) → HexCtx c
  | .hole, _ => trivial
  | .catL c r, h => by
    simp only [Ctx.fill] at h
    cases h with | seq h1 h2 => exact ⟨hexAst_ctx h1, h2.wf⟩
  | .catR l c, h => by
    simp only [Ctx.fill] at h
    cases h with | seq h1 h2 => exact ⟨h1.wf, hexAst_ctx h2⟩
  | .altL c r, h => by
    simp only [Ctx.fill] at h
    cases h with | alt h1 h2 => exact ⟨hexAst_ctx h1, h2.wf⟩
  | .altR l c, h => by
    simp only [Ctx.fill] at h
    cases h with | alt h1 h2 => exact ⟨h1.wf, hexAst_ctx h2⟩
  | .plusIn c g, h => by
    simp only [Ctx.fill] at h
    cases h

end YaraModel.ReEmit
