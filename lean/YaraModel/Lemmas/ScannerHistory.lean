/- C10 helper lemmas: result codes of the phases, what `_exit` establishes, the fresh-scan branch
   forgets the past, congruence of a call in the fields that are overwritten before being read. -/
import YaraModel.Lemmas.ScannerFrame
import YaraModel.Spec.Scanner
namespace YaraModel.Scan

/-! ### result codes -/

theorem loadModules_result (P : Params) (cb : Nat → CbRet) (pm : Bool) (ms : List Nat) (c : Core) (it : It) (w : World) :
    (loadModules P cb pm ms c it w).result = .success ∨ (loadModules P cb pm ms c it w).result = .callbackError := by
  induction ms generalizing c it w with
  | nil => left; rfl
  | cons m ms ih =>
    simp only [loadModules]
    repeat' split
    all_goals first
      | exact ih _ _ _
      | (right; rfl)

theorem runProg_result (set : Settings) (c : Core) (p : Prog) (it : It) (w : World) (e : Err)
    (h : (runProg set c p it w).1 = .err e) : e ≠ .blockNotReady := by
  induction p generalizing it w with
  | ret v => simp [runProg] at h
  | fail n => simp [runProg] at h; subst h; simp
  | check k ih =>
    simp only [runProg] at h
    split at h
    · simp at h; subst h; simp
    · exact ih _ _ h
  | walk stop k ih =>
    simp only [runProg] at h
    exact ih _ _ _ h

theorem execRules_result (P : Params) (set : Settings) (fs : Option Nat) (stack : Nat) (rs : List (Nat × Rule))
    (c : Core) (it : It) (w : World) : (execRules P set fs stack rs c it w).2.2.2 ≠ .blockNotReady := by
  induction rs generalizing c it w with
  | nil => simp [execRules]
  | cons r rs ih =>
    obtain ⟨i, r⟩ := r
    simp only [execRules]
    split
    · split
      · rename_i e it' w' heq
        have := runProg_result set c _ it w e (by rw [heq])
        simpa using this
      · exact ih _ _ _
    · exact ih _ _ _

theorem exec_result (P : Params) (cb : Nat → CbRet) (set : Settings) (fs : Option Nat) (stack : Nat)
    (c : Core) (it : It) (w : World) : (exec P cb set fs stack c it w).result ≠ .blockNotReady := by
  simp only [exec]
  split
  · rcases loadModules_result P cb set.processMemory P.imports c it w with h | h <;> simp [h]
  · exact execRules_result P set fs stack _ _ _ _

theorem exec_modules (P : Params) (cb : Nat → CbRet) (set : Settings) (fs : Option Nat) (stack : Nat)
    (c : Core) (it : It) (w : World) : (exec P cb set fs stack c it w).core.modules = [] := by
  simp only [exec]
  split <;> rfl

theorem report_result (cb : Nat → CbRet) (set : Settings) (c : Core) (rs : List (Nat × Rule)) (w : World) (e : Err)
    (h : (report cb set c rs w).2.2 = some e) : e ≠ .blockNotReady := by
  induction rs generalizing w with
  | nil => simp [report] at h
  | cons r rs ih =>
    obtain ⟨i, r⟩ := r
    simp only [report] at h
    split at h
    · exact ih _ h
    · split at h
      · cases h; simp
      · cases h; simp
      · exact ih _ h

/-! ### what `_exit` establishes -/

theorem exitClean_clean (c : Core) (rc : Err) (hm : c.modules = []) (h : rc ≠ .blockNotReady) :
    (exitClean c rc).Clean := by
  simp only [exitClean, if_neg h, Core.cleanMatches]
  exact ⟨rfl, rfl, rfl, rfl, rfl, rfl, rfl, hm⟩

theorem exitClean_notReady (c : Core) : exitClean c .blockNotReady = c := by simp [exitClean]

@[simp] theorem CallOut.pre_rc (ms : List Msg) (r : CallOut) : (r.pre ms).rc = r.rc := rfl
@[simp] theorem CallOut.pre_sc (ms : List Msg) (r : CallOut) : (r.pre ms).sc = r.sc := rfl
@[simp] theorem CallOut.pre_it (ms : List Msg) (r : CallOut) : (r.pre ms).it = r.it := rfl
@[simp] theorem CallOut.pre_world (ms : List Msg) (r : CallOut) : (r.pre ms).world = r.world := rfl
@[simp] theorem CallOut.pre_msgs (ms : List Msg) (r : CallOut) : (r.pre ms).msgs = ms ++ r.msgs := rfl

/-- the four exits of `afterLoop`, as one case analysis -/
theorem afterLoop_cases (P : Params) (cb : Nat → CbRet) (stack : Nat) (s : Sc) (it : It) (o : LoopOut) :
    let r := afterLoop P cb stack s it o
    (o.result ≠ .success ∧ r.rc = o.result ∧ r.sc.core = exitClean o.core o.result) ∨
    (o.result = .success ∧ r.rc ≠ .blockNotReady ∧ ∃ c, c.modules = [] ∧ r.sc.core = exitClean c r.rc) := by
  simp only [afterLoop, CallOut.pre_rc, CallOut.pre_sc, afterLoop0]
  split
  · left; rename_i h; exact ⟨h, rfl, rfl⟩
  · right
    rename_i h
    have h0 : o.result = .success := by simpa using h
    refine ⟨h0, ?_⟩
    split
    · exact ⟨exec_result _ _ _ _ _ _ _ _, _, exec_modules _ _ _ _ _ _ _ _, rfl⟩
    · split
      · rename_i w ms e heq
        refine ⟨report_result _ _ _ _ _ e (by rw [heq]), _, exec_modules _ _ _ _ _ _ _ _, rfl⟩
      · exact ⟨by simp, _, exec_modules _ _ _ _ _ _ _ _, rfl⟩

theorem afterLoop_clean (P : Params) (cb : Nat → CbRet) (stack : Nat) (s : Sc) (it : It) (o : LoopOut)
    (hm : o.core.modules = []) (h : (afterLoop P cb stack s it o).rc ≠ .blockNotReady) :
    (afterLoop P cb stack s it o).sc.core.Clean := by
  rcases afterLoop_cases P cb stack s it o with ⟨_, h2, h3⟩ | ⟨_, h2, c, hc, h3⟩
  · rw [h3]; exact exitClean_clean _ _ hm (h2 ▸ h)
  · rw [h3]; exact exitClean_clean _ _ hc h2

theorem afterLoop_notReady (P : Params) (cb : Nat → CbRet) (stack : Nat) (s : Sc) (it : It) (o : LoopOut)
    (h : (afterLoop P cb stack s it o).rc = .blockNotReady) :
    o.result = .blockNotReady ∧ (afterLoop P cb stack s it o).sc.core = o.core := by
  rcases afterLoop_cases P cb stack s it o with ⟨_, h2, h3⟩ | ⟨_, h2, _⟩
  · have : o.result = .blockNotReady := h2 ▸ h
    exact ⟨this, by rw [h3, this, exitClean_notReady]⟩
  · exact absurd h h2

/-! ### invariant of a scanner between calls -/

/-- loaded modules never survive a call; and unless a suspended scan is pending, everything is clean -/
structure Inv (c : Core) : Prop where
  modules : c.modules = []
  clean : c.notebook = false → c.Clean

theorem Inv.fresh : Inv Core.fresh := ⟨rfl, fun _ => ⟨rfl, rfl, rfl, rfl, rfl, rfl, rfl, rfl⟩⟩

theorem freshInit_modules (P : Params) (v : Variant) (c : Core) (w : World) :
    (freshInit P v c w).modules = c.modules := by
  simp only [freshInit]; split <;> rfl

theorem freshInit_notebook (P : Params) (v : Variant) (c : Core) (w : World) :
    (freshInit P v c w).notebook = true := by
  simp only [freshInit]

theorem Core.Clean.inv {c : Core} (h : c.Clean) : Inv c := ⟨h.modules, fun _ => h⟩

theorem scanCall_inv (P : Params) (v : Variant) (cb : Nat → CbRet) (stack : Nat) (s : Sc) (it : It) (w : World)
    (hm : s.core.modules = [])
    (hn : v.resumeNeedsPending = true ∨ (it.lastError = .blockNotReady → s.core.notebook = true)) :
    Inv (scanCall P v cb stack s it w).sc.core ∧
    ((scanCall P v cb stack s it w).rc = .blockNotReady → (scanCall P v cb stack s it w).sc.core.notebook = true) := by
  have key : ∀ (o : LoopOut), o.core.modules = [] → o.core.notebook = true →
      Inv (afterLoop P cb stack s it o).sc.core ∧
      ((afterLoop P cb stack s it o).rc = .blockNotReady → (afterLoop P cb stack s it o).sc.core.notebook = true) := by
    intro o hom hon
    by_cases hrc : (afterLoop P cb stack s it o).rc = .blockNotReady
    · obtain ⟨_, hc⟩ := afterLoop_notReady P cb stack s it o hrc
      rw [hc]
      exact ⟨⟨hom, fun h => by rw [hon] at h; cases h⟩, fun _ => hon⟩
    · exact ⟨(afterLoop_clean P cb stack s it o hom hrc).inv, fun h => absurd h hrc⟩
  simp only [scanCall]
  split
  · exact ⟨(exitClean_clean _ .callbackRequired hm (by simp)).inv, fun h => by cases h⟩
  · split
    · rename_i hle
      have f := blockLoop_frame P cb s.set it.rest it.sched s.core w
      simp only [Bool.and_eq_true, decide_eq_true_eq, Bool.or_eq_true, Bool.not_eq_true'] at hle
      have hnb : s.core.notebook = true := by
        rcases hn with hv | hn
        · rcases hle.2 with h | h
          · exact h
          · rw [hv] at h; cases h
        · exact hn hle.1
      exact key _ (f.modules.trans hm) (f.notebook.trans hnb)
    · have f := blockLoop_frame P cb s.set it.all it.sched (freshInit P v s.core w) w
      exact key _ (f.modules.trans ((freshInit_modules ..).trans hm)) (f.notebook.trans (freshInit_notebook ..))

/-- **every outcome other than "suspended" leaves the scanner clean** -/
theorem scanCall_clean (P : Params) (v : Variant) (cb : Nat → CbRet) (stack : Nat) (s : Sc) (it : It) (w : World)
    (hm : s.core.modules = []) (h : (scanCall P v cb stack s it w).rc ≠ .blockNotReady) :
    (scanCall P v cb stack s it w).sc.core.Clean := by
  revert h
  simp only [scanCall]
  split
  · intro _; exact exitClean_clean _ .callbackRequired hm (by simp)
  · split
    · intro h
      exact afterLoop_clean _ _ _ _ _ _ ((blockLoop_frame ..).modules.trans hm) h
    · intro h
      exact afterLoop_clean _ _ _ _ _ _ ((blockLoop_frame ..).modules.trans ((freshInit_modules ..).trans hm)) h

/-! ### the fresh-scan branch forgets the past (with the fixes) -/

theorem freshInit_forgets (P : Params) (c : Core) (w : World) (h : Inv c) :
    freshInit P .fixed c w = freshInit P .fixed Core.fresh w := by
  obtain ⟨hm, hc⟩ := h
  cases hnb : c.notebook with
  | true =>
    cases c
    simp only [freshInit, Variant.fixed, Core.cleanMatches, Core.fresh] at *
    simp_all
  | false =>
    obtain ⟨h1, h2, h3, h4, h5, h6, h7, h8⟩ := hc hnb
    cases c
    simp only [freshInit, Variant.fixed, Core.cleanMatches, Core.fresh] at *
    simp_all

/-- what a caller can see of a call, and what later calls depend on (`fileSize` is always written
    before it is read, so it is not part of it) -/
def CallOut.obs (o : CallOut) : Settings × Core × It × World × List Msg × Err :=
  (o.sc.set, o.sc.core, o.it, o.world, o.msgs, o.rc)

theorem afterLoop_congr (P : Params) (cb : Nat → CbRet) (stack : Nat) (s s' : Sc) (it : It) (o : LoopOut)
    (h : s.set = s'.set) : (afterLoop P cb stack s it o).obs = (afterLoop P cb stack s' it o).obs := by
  simp only [afterLoop, CallOut.obs, CallOut.pre_rc, CallOut.pre_sc, CallOut.pre_it, CallOut.pre_world, CallOut.pre_msgs,
    afterLoop0, h]
  split
  · simp
  · split
    · simp
    · split <;> simp

theorem scanCall_congr (P : Params) (v : Variant) (cb : Nat → CbRet) (stack : Nat) (s s' : Sc) (it : It) (w : World)
    (h : s.set = s'.set) (hc : s.core = s'.core) :
    (scanCall P v cb stack s it w).obs = (scanCall P v cb stack s' it w).obs := by
  simp only [scanCall, h, hc]
  split
  · simp [CallOut.obs]
  · split <;> exact afterLoop_congr _ _ _ _ _ _ _ h

/-- a scan started on a scanner satisfying the invariant is the scan started on a new scanner -/
theorem scanCall_fresh_eq (P : Params) (cb : Nat → CbRet) (stack : Nat) (s : Sc) (it : It) (w : World)
    (hcb : s.set.hasCallback = true) (hi : Inv s.core)
    (hne : it.lastError ≠ .blockNotReady ∨ s.core.notebook = false) :
    (scanCall P .fixed cb stack s it w).obs = (scanCall P .fixed cb stack (Sc.fresh s.set) it w).obs := by
  have h1 : (decide (it.lastError = .blockNotReady) && (s.core.notebook || !Variant.fixed.resumeNeedsPending)) = false := by
    rcases hne with h | h <;> simp [h, Variant.fixed]
  have h2 : (decide (it.lastError = .blockNotReady) && (Core.fresh.notebook || !Variant.fixed.resumeNeedsPending)) = false := by
    simp [Core.fresh, Variant.fixed]
  simp only [scanCall, Sc.fresh, h1, h2, freshInit_forgets P s.core w hi, hcb]
  exact afterLoop_congr _ _ _ _ _ _ _ rfl

/-- without a callback nothing is ever reported -/
theorem scanCall_no_callback (P : Params) (v : Variant) (cb : Nat → CbRet) (stack : Nat) (s : Sc) (it : It) (w : World)
    (hcb : s.set.hasCallback = false) :
    (scanCall P v cb stack s it w).msgs = [] ∧ (scanCall P v cb stack s it w).rc = .callbackRequired := by
  simp [scanCall, hcb]

/-! ### histories -/

theorem afterLoop_set (P : Params) (cb : Nat → CbRet) (stack : Nat) (s : Sc) (it : It) (o : LoopOut) :
    (afterLoop P cb stack s it o).sc.set = s.set := by
  simp only [afterLoop, CallOut.pre_sc, afterLoop0]
  split
  · rfl
  · split
    · rfl
    · split <;> rfl

theorem scanCall_set (P : Params) (v : Variant) (cb : Nat → CbRet) (stack : Nat) (s : Sc) (it : It) (w : World) :
    (scanCall P v cb stack s it w).sc.set = s.set := by
  simp only [scanCall]
  split
  · rfl
  · split <;> exact afterLoop_set ..

structure HInv (st : HSt) : Prop where
  inv : Inv st.sc.core
  susp : st.lastRc = .blockNotReady → st.sc.core.notebook = true
  idle : st.lastRc ≠ .blockNotReady → st.sc.core.notebook = false

theorem HInv.init (set : Settings) (w : World) : HInv (HSt.init set w) :=
  ⟨Inv.fresh, fun h => (by cases h), fun _ => rfl⟩

theorem scanCall_hinv (P : Params) (v : Variant) (cb : Nat → CbRet) (stack : Nat) (s : Sc) (it : It) (w : World) (st : HSt)
    (hm : s.core.modules = [])
    (hn : v.resumeNeedsPending = true ∨ (it.lastError = .blockNotReady → s.core.notebook = true)) :
    HInv (st.after (scanCall P v cb stack s it w) cb stack) := by
  have := scanCall_inv P v cb stack s it w hm hn
  exact ⟨this.1, this.2, fun h => (scanCall_clean P v cb stack s it w hm h).notebook⟩

theorem stepH_inv (P : Params) (v : Variant) (st : HSt) (op : HOp) (h : HInv st)
    (hv : (∃ x, op = .reuse x) → v.resumeNeedsPending = true) : HInv (stepH P v st op).1 := by
  cases op with
  | start x =>
    simp only [stepH]
    exact scanCall_hinv P v x.cb x.stack st.sc x.it _ st h.inv.modules (Or.inr (fun hh => by cases hh))
  | cont =>
    simp only [stepH]
    split
    · rename_i hl
      exact scanCall_hinv P v st.cb st.stack st.sc st.it _ st h.inv.modules (Or.inr (fun _ => h.susp hl))
    · exact h
  | reuse x =>
    simp only [stepH]
    exact scanCall_hinv P v x.cb x.stack st.sc _ _ st h.inv.modules (Or.inl (hv ⟨x, rfl⟩))
  | config set => exact ⟨h.inv, h.susp, h.idle⟩
  | proc mem =>
    cases mem with
    | none => exact h
    | some x =>
      simp only [stepH, HSt.after]
      have hm : ({ st.sc with set := { st.sc.set with processMemory := true } } : Sc).core.modules = [] := h.inv.modules
      have := scanCall_inv P v x.cb x.stack { st.sc with set := { st.sc.set with processMemory := true } } x.it
        { st.w with nmsg := 0 } hm (Or.inr (fun hh => by cases hh))
      exact ⟨this.1, this.2, fun hne => (scanCall_clean P v x.cb x.stack _ x.it _ hm hne).notebook⟩

/-- **settings survive every call**: only `config` changes them (scan_proc restores what it found) -/
theorem stepH_set (P : Params) (v : Variant) (st : HSt) (op : HOp) :
    (stepH P v st op).1.sc.set = match op with | .config s => s | _ => st.sc.set := by
  cases op with
  | start x => simp only [stepH, HSt.after]; exact scanCall_set ..
  | cont =>
    simp only [stepH]
    split
    · simp only [HSt.after]; exact scanCall_set ..
    · rfl
  | reuse x => simp only [stepH, HSt.after]; exact scanCall_set ..
  | config set => rfl
  | proc mem => cases mem <;> rfl

/-- histories that re-use an iterator object without resetting its `last_error` are only meaningful for the code that
    resumes only when a scan is pending -/
def reuseOk (v : Variant) (ops : List HOp) : Prop := ∀ op ∈ ops, (∃ x, op = .reuse x) → v.resumeNeedsPending = true

theorem reuseOk_fixed (ops : List HOp) : reuseOk .fixed ops := fun _ _ _ => rfl

theorem runH_inv (P : Params) (v : Variant) (st : HSt) (ops : List HOp) (h : HInv st) (hv : reuseOk v ops) :
    HInv (runH P v st ops) := by
  induction ops generalizing st with
  | nil => exact h
  | cons op ops ih =>
    exact ih _ (stepH_inv P v st op h (hv op (by simp))) (fun o ho => hv o (by simp [ho]))

theorem runH_set (P : Params) (v : Variant) (st : HSt) (ops : List HOp) :
    (runH P v st ops).sc.set = settingsAfter st.sc.set ops := by
  induction ops generalizing st with
  | nil => rfl
  | cons op ops ih =>
    simp only [runH]
    rw [ih, stepH_set]
    cases op <;> rfl

/-- two scanner/caller states that differ at most in the stale `file_size` -/
structure HSt.Equiv (a b : HSt) : Prop where
  set : a.sc.set = b.sc.set
  core : a.sc.core = b.sc.core
  it : a.it = b.it
  cb : a.cb = b.cb
  stack : a.stack = b.stack
  w : a.w = b.w
  lastRc : a.lastRc = b.lastRc

theorem obs_equiv {o o' : CallOut} (h : o.obs = o'.obs) (cb : Nat → CbRet) (stack : Nat) (a b : HSt) :
    HSt.Equiv (a.after o cb stack) (b.after o' cb stack) ∧ (o.msgs, o.rc) = (o'.msgs, o'.rc) := by
  simp only [CallOut.obs, Prod.mk.injEq] at h
  obtain ⟨h1, h2, h3, h4, h5, h6⟩ := h
  exact ⟨⟨h1, h2, h3, rfl, rfl, h4, h6⟩, by simp [h5, h6]⟩

theorem stepH_equiv (P : Params) (v : Variant) (a b : HSt) (op : HOp) (h : HSt.Equiv a b) :
    HSt.Equiv (stepH P v a op).1 (stepH P v b op).1 ∧ (stepH P v a op).2 = (stepH P v b op).2 := by
  cases op with
  | start x =>
    simp only [stepH]
    have := scanCall_congr P v x.cb x.stack a.sc b.sc x.it { a.w with nmsg := 0 } h.set h.core
    rw [← h.w]
    have e := obs_equiv this x.cb x.stack a b
    exact ⟨e.1, by rw [e.2]⟩
  | cont =>
    simp only [stepH, ← h.lastRc]
    split
    · have := scanCall_congr P v a.cb a.stack a.sc b.sc a.it a.w h.set h.core
      rw [← h.cb, ← h.stack, ← h.it, ← h.w]
      have e := obs_equiv this a.cb a.stack a b
      exact ⟨e.1, by rw [e.2]⟩
    · exact ⟨h, rfl⟩
  | reuse x =>
    simp only [stepH]
    have := scanCall_congr P v x.cb x.stack a.sc b.sc { x.it with lastError := a.it.lastError } { a.w with nmsg := 0 } h.set h.core
    rw [← h.w, ← h.it]
    have e := obs_equiv this x.cb x.stack a b
    exact ⟨e.1, by rw [e.2]⟩
  | config set => exact ⟨⟨rfl, h.core, h.it, h.cb, h.stack, h.w, h.lastRc⟩, rfl⟩
  | proc mem =>
    cases mem with
    | none => exact ⟨h, rfl⟩
    | some x =>
      simp only [stepH]
      have := scanCall_congr P v x.cb x.stack { a.sc with set := { a.sc.set with processMemory := true } }
        { b.sc with set := { b.sc.set with processMemory := true } } x.it { a.w with nmsg := 0 } (by simp [h.set]) h.core
      rw [← h.w]
      simp only [CallOut.obs, Prod.mk.injEq] at this
      obtain ⟨h1, h2, h3, h4, h5, h6⟩ := this
      exact ⟨⟨h.set, h2, h3, rfl, rfl, h4, h6⟩, by simp [h5, h6]⟩

theorem tracesH_equiv (P : Params) (v : Variant) (a b : HSt) (ops : List HOp) (h : HSt.Equiv a b) :
    tracesH P v a ops = tracesH P v b ops := by
  induction ops generalizing a b with
  | nil => rfl
  | cons op ops ih =>
    simp only [tracesH]
    have := stepH_equiv P v a b op h
    rw [this.2, ih _ _ this.1]

end YaraModel.Scan
