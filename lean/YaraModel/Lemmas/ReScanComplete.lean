/-
  Completeness of the scan of one hex string in one block over the model chain candidates → verification → match callback
  → match list (Model/ReScan.lean): a match that runs through a candidate's atom node at the candidate's offset ends up
  in the match list (its offset; the length is the one the non-exhaustive forward run prefers).
-/
import YaraModel.Lemmas.ReScan
import YaraModel.Lemmas.ReCompleteAtom
namespace YaraModel.ReScan
open YaraModel.Re YaraModel.ReVm YaraModel.ReEmit YaraModel.ReChain

/-! ### the match list only grows, and holds every offset handed to it -/
theorem addConfirmed_keep {y : Nat × Nat} (o l : Nat) : ∀ acc : List (Nat × Nat), y ∈ acc → y ∈ addConfirmed o l acc
  | [], h => by cases h
  | x :: t, h => by
    unfold addConfirmed
    split
    · exact h
    · split
      · exact List.mem_cons_of_mem _ h
      · rcases List.mem_cons.1 h with rfl | h'
        · exact List.mem_cons_self
        · exact List.mem_cons_of_mem _ (addConfirmed_keep o l t h')

theorem addConfirmed_has (o l : Nat) : ∀ acc : List (Nat × Nat), ∃ l', (o, l') ∈ addConfirmed o l acc
  | [] => ⟨l, by simp [addConfirmed]⟩
  | x :: t => by
    unfold addConfirmed
    split
    · rename_i h; exact ⟨x.2, by rw [h]; exact List.mem_cons_self⟩
    · split
      · exact ⟨l, List.mem_cons_self⟩
      · obtain ⟨l', hl'⟩ := addConfirmed_has o l t
        exact ⟨l', List.mem_cons_of_mem _ hl'⟩

theorem inner_keep {y : Nat × Nat} : ∀ (ms acc : List (Nat × Nat)), y ∈ acc →
    y ∈ ms.foldl (fun acc2 m => addConfirmed m.1 m.2 acc2) acc
  | [], _, h => h
  | m :: t, acc, h => inner_keep t _ (addConfirmed_keep m.1 m.2 acc h)

theorem inner_has : ∀ (ms acc : List (Nat × Nat)) (m : Nat × Nat), m ∈ ms →
    ∃ l', (m.1, l') ∈ ms.foldl (fun acc2 m => addConfirmed m.1 m.2 acc2) acc
  | [], _, _, h => by cases h
  | x :: t, acc, m, h => by
    rcases List.mem_cons.1 h with rfl | h'
    · obtain ⟨l', hl'⟩ := addConfirmed_has m.1 m.2 acc
      exact ⟨l', inner_keep t _ hl'⟩
    · exact inner_has t _ m h'

theorem outer_keep (r : Re) (buf : Bytes) (fl : VmFlags) (fuel : Nat) {y : Nat × Nat} : ∀ (cands : List Cand) (acc : List (Nat × Nat)), y ∈ acc →
    y ∈ cands.foldl (fun acc c => (verifyOne r buf fl fuel c).foldl (fun acc2 m => addConfirmed m.1 m.2 acc2) acc) acc
  | [], _, h => h
  | _ :: t, acc, h => outer_keep r buf fl fuel t _ (inner_keep _ acc h)

/-- every offset a candidate's verification hands to the match callback is in the match list of the string -/
theorem scanHex_has (r : Re) (buf : Bytes) (fl : VmFlags) (fuel : Nat) (cands : List Cand) (c : Cand) (hc : c ∈ cands)
    (x : Nat × Nat) (hx : x ∈ verifyOne r buf fl fuel c) : ∃ l', (x.1, l') ∈ scanHex r buf fl fuel cands := by
  unfold scanHex
  generalize ([] : List (Nat × Nat)) = acc
  induction cands generalizing acc with
  | nil => cases hc
  | cons d t ih =>
    simp only [List.foldl_cons]
    rcases List.mem_cons.1 hc with rfl | h'
    · obtain ⟨l', hl'⟩ := inner_has (verifyOne r buf fl fuel c) acc x hx
      exact ⟨l', outer_keep r buf fl fuel t _ hl'⟩
    · exact ih h' _

/-! ### verification of the candidate a match runs through -/
/-- a candidate at offset `o` whose entries are the code positions of the atom node `y` of the pattern: every match that
    runs through `y` at `o` is handed to the match callback with its offset `p` (both verification runs ending without error,
    the parts before and after the atom within the scan window) -/
theorem verifyOne_complete (ctx : Ctx) (y : Re) (hy : AtomLeaf y) (hg : HexG (ctx.fill y)) (hgr : HexG (rev (ctx.fill y)))
    (hszf : (emit false (ctx.fill y) 0).1.length < 32000) (hidf : (emit false (ctx.fill y) 0).2 ≤ 256)
    (hszb : (emit true (ctx.fill y) 0).1.length < 32000) (hidb : (emit true (ctx.fill y) 0).2 ≤ 256)
    (buf : Bytes) (fl : VmFlags) (hw : fl.wide = false) (fuel : Nat) (o : Nat) (ho : o ≤ buf.size)
    (m1 : Int) (c1 : List Nat)
    (hfw : exec { code := (emitCode false (ctx.fill y)).toArray, entry := holePos ctx 0, buf := buf, start := o, fl := fwdFlags fl, syncFuel := fuel } = .done m1 c1)
    (m2 : Int) (c2 : List Nat)
    (hbw : exec { code := (emitCode true (ctx.fill y)).toArray, entry := bwdPos y ctx 0, buf := buf, start := o, fl := bwdFlags fl, syncFuel := fuel } = .done m2 c2)
    (p e1 q' : Nat) (hb : ctx.Before (specFlags fl) buf y p o) (hm : Re.Matches (specFlags fl) buf y o e1)
    (ha : ctx.After (specFlags fl) buf y e1 q') (hwb : o - p ≤ 1024) (hwf : q' - o ≤ 1024) :
    0 ≤ m1 ∧ (p, (o - p) + m1.toNat) ∈ verifyOne (ctx.fill y) buf fl fuel ⟨holePos ctx 0, some (bwdPos y ctx 0), o⟩ := by
  have b1 := before_le hb
  have b2 := Matches.bounds hm
  have b3 := after_le ha
  have hm' : Re.Matches (specFlags (fwdFlags fl)) buf y o (o + (e1 - o)) := by
    rw [show o + (e1 - o) = e1 by omega]; exact hm
  have ha' : ctx.After (specFlags (fwdFlags fl)) buf y (o + (e1 - o)) (o + (q' - o)) := by
    rw [show o + (e1 - o) = e1 by omega, show o + (q' - o) = q' by omega]; exact ha
  obtain ⟨k1, _⟩ := vm_complete_from_atom_fwd ctx y hy hg hszf hidf buf o ho (fwdFlags fl) hw rfl rfl fuel m1 c1 hfw (e1 - o) (q' - o) hwf hm' ha'
  have hb' : ctx.Before (specFlags (bwdFlags fl)) buf y (o - (o - p)) o := by
    rw [show o - (o - p) = p by omega]; exact hb
  obtain ⟨_, k2⟩ := vm_complete_from_atom_bwd ctx y hy hgr hszb hidb buf o ho (bwdFlags fl) hw rfl rfl fuel m2 c2 hbw (o - p) hwb (by omega) hb'
  have k2 := k2 rfl
  refine ⟨k1, ?_⟩
  unfold verifyOne
  simp only [hfw, hbw]
  rw [if_neg (by omega)]
  simp only [List.mem_map]
  exact ⟨o - p, k2, by rw [show o - (o - p) = p by omega]⟩

/-- the zero-length atom (a string without atoms): the candidate at the match's own offset, forward code from its first
    instruction -/
theorem verifyOne_complete_zero (r : Re) (hg : HexG r) (hszf : (emit false r 0).1.length < 32000) (hidf : (emit false r 0).2 ≤ 256)
    (buf : Bytes) (fl : VmFlags) (hw : fl.wide = false) (fuel : Nat) (p : Nat) (hp : p ≤ buf.size) (m1 : Int) (c1 : List Nat)
    (hfw : exec { code := (emitCode false r).toArray, entry := 0, buf := buf, start := p, fl := fwdFlags fl, syncFuel := fuel } = .done m1 c1)
    (q' : Nat) (hm : Re.Matches (specFlags fl) buf r p q') (hwf : q' - p ≤ 1024) :
    0 ≤ m1 ∧ (p, m1.toNat) ∈ verifyOne r buf fl fuel ⟨0, none, p⟩ := by
  have b2 := Matches.bounds hm
  obtain ⟨e, he⟩ : ∃ e : Env, e = { code := (emitCode false r).toArray, entry := 0, buf := buf, start := p, fl := fwdFlags fl, syncFuel := fuel } := ⟨_, rfl⟩
  rw [← he] at hfw
  have hfb : FwdByte e := by subst he; exact ⟨hw, rfl, hp⟩
  have hmax : q' - p ≤ e.maxBytes := by rw [maxBytes_fwd hfb]; subst he; show q' - p ≤ min (buf.size - p) 1024; omega
  have hM : (fwdC e hfb).M r 0 (q' - p) := by
    subst he
    show Re.Matches (specFlags (fwdFlags fl)) buf r (p + 0) (p + (q' - p))
    rw [show p + (q' - p) = q' by omega]; exact hm
  obtain ⟨k1, _⟩ := complete_from_hole (fwdC e hfb) .hole r trivial hg hszf hidf (by subst he; rfl) (by subst he; rfl) (by subst he; rfl)
    m1 c1 hfw (q' - p) (q' - p) hmax hM (Nat.le_refl _) rfl
  refine ⟨k1, ?_⟩
  rw [he] at hfw
  unfold verifyOne
  simp only [hfw]
  rw [if_neg (by omega)]
  simp

end YaraModel.ReScan
