/-
  C04 — specification of YARA's condition language, written from docs/writingrules.rst
  (sections "Conditions", "Counting strings", "String offsets", "Match length", "File size",
  "Accessing data at a given position", "Sets of strings", "Applying the same condition to many
  strings", "Iterating over string occurrences", "Referencing other rules", "Undefined values",
  "External variables").  `eval` works directly on the TRUE match sets and the buffer contents;
  nothing here mentions bytecode, the stack, jumps or the YR_UNDEFINED sentinel.

  Undefined values (manual, "Undefined values"): `and`/`or` treat an undefined operand as false; every
  other operator, `not` included, yields undefined when an operand is undefined; an undefined condition
  is false.

  SPEC DECISIONS (the manual is silent; the specification adopts what libyara does — one line each):
   D1  integer arithmetic is 64-bit two's complement with wrap-around (`YaraModel.C`).
   D2  `\` truncates toward zero, `%` has the sign of the dividend (C semantics).
   D3  `x \ 0`, `x % 0`, `INT64_MIN \ -1`, `INT64_MIN % -1` are undefined.
   D4  a shift by a negative count is undefined; a shift by 64 or more yields 0 (also `>>` of a negative
       number); `>>` is an arithmetic shift.
   D5  `@a[i]` / `!a[i]` with `i < 1` is undefined (the manual only says so for `i > #a`).
   D6  a `for` loop over an empty sequence is false for every quantifier (also `all` and `none`);
       a range with an undefined bound, or with lower bound > upper bound, is empty.
   D7  a loop body / `for..of` body evaluating to undefined counts as "not satisfied".
   D8  `N of S` with negative N holds (at least N); `0 of S` means `none of S` (documented for `of`,
       adopted for `for` loops too).
   D9  string sets and rule sets are multisets: `2 of ($a,$a)` holds when `$a` is found.
   D10 `P% of S` holds iff found*100 >= P*|S| (exact rational arithmetic; see finding on double rounding).
   D11 an intN/uintN read is defined iff offset >= 0 and the whole datum lies inside ONE memory block
       (first such block in iteration order); values are sign- or zero-extended to 64 bits.
   D12 strings compare lexicographically by byte (generator stays within ASCII, where signed/unsigned
       `char` agree); `==` on floats is |a-b| < DBL_EPSILON; integers are converted to double when mixed.
   D13 a string in boolean position is true iff it is non-empty.
   D14 `$a in (lo..hi)`, `#a in (lo..hi)`: both bounds inclusive, compared with the match offset.
-/
import YaraModel.Base.CInt
namespace YaraModel.Cond
open YaraModel

abbrev Bytes := List UInt8

/-! ### floating point: the operations are PARAMETERS

A `double` is carried as the 64-bit pattern that sits in the VM's stack slot (as a signed `Int`, like every VM word).
What `+ - * / unary- < <= > >= == !=` and the int→double conversion DO with those patterns is not specified here: it is a
parameter (`Env.fops`), the same for the specification `eval` and for the VM model (OP_DBL_*, OP_INT_TO_DBL), and every
theorem holds for every choice.  No law is required of the operations.  (libyara's `==` on doubles is
`fabs(a - b) < DBL_EPSILON`, `!=` is `fabs(a - b) >= DBL_EPSILON`: two primitives applied to the difference.) -/
structure FloatOps where
  ofInt : Int → Int                  -- (double) i
  add : Int → Int → Int
  sub : Int → Int → Int
  mul : Int → Int → Int
  div : Int → Int → Int
  neg : Int → Int
  lt : Int → Int → Bool
  le : Int → Int → Bool
  gt : Int → Int → Bool
  ge : Int → Int → Bool
  nearZero : Int → Bool              -- fabs(x) < DBL_EPSILON
  farZero : Int → Bool               -- fabs(x) >= DBL_EPSILON

/-- a placeholder instance (every operation constant) -/
def FloatOps.trivial : FloatOps :=
  { ofInt := fun _ => 0, add := fun _ _ => 0, sub := fun _ _ => 0, mul := fun _ _ => 0, div := fun _ _ => 0, neg := fun _ => 0,
    lt := fun _ _ => false, le := fun _ _ => false, gt := fun _ _ => false, ge := fun _ _ => false,
    nearZero := fun _ => false, farZero := fun _ => false }

instance : Inhabited FloatOps := ⟨FloatOps.trivial⟩

inductive Val
  | undef
  | int (i : Int)
  | bool (b : Bool)
  | str (s : Bytes)
  | flt (w : Int)                     -- a double: its 64-bit pattern (see `FloatOps`)

/-- a string of the rule, or the placeholder `$` / `#` / `@` / `!` of the enclosing `for..of` -/
inductive SRef
  | id (n : Nat)
  | cur
deriving DecidableEq, Repr

inductive RdKind
  | i8 | i16 | i32 | u8 | u16 | u32 | i8be | i16be | i32be | u8be | u16be | u32be
deriving DecidableEq, Repr

inductive ArOp
  | add | sub | mul | div | mod | band | bor | bxor | shl | shr
deriving DecidableEq, Repr

inductive CmpOp
  | eq | neq | lt | le | gt | ge
deriving DecidableEq, Repr

inductive StrOp
  | contains | icontains | startswith | istartswith | endswith | iendswith | iequals
deriving DecidableEq, Repr

/-- quantifier keyword; `num` = "the value of the accompanying expression" -/
inductive QKind
  | all | any | none | num
deriving DecidableEq, Repr

/-- type of a module-provided undefined value (`tests.undefined.i`, `.f`, a missing dictionary string) -/
inductive UTy
  | i | f | s
deriving DecidableEq, Repr

inductive Expr
  -- integer / float / string valued (grammar: primary_expression)
  | int (v : Int)
  | flt (w : Int)                     -- a double: its 64-bit pattern (see `FloatOps`)
  | str (s : Bytes)
  | filesize
  | ext (name : String)
  | var (k : Nat)                       -- loop variable of the loop at nesting depth k (outermost = 0)
  | undefOf (t : UTy)
  | count (s : SRef)
  | countIn (s : SRef) (lo hi : Expr)
  | offset (s : SRef) (i : Expr)
  | length (s : SRef) (i : Expr)
  | read (k : RdKind) (off : Expr)
  | neg (e : Expr)
  | bnot (e : Expr)
  | arith (op : ArOp) (a b : Expr)
  -- boolean valued (grammar: expression)
  | tt
  | ff
  | found (s : SRef)
  | foundAt (s : SRef) (pos : Expr)
  | foundIn (s : SRef) (lo hi : Expr)
  | cmp (op : CmpOp) (a b : Expr)
  | strop (op : StrOp) (a b : Expr)
  | matches (a : Expr) (re : Bytes) (nocase : Bool)   -- literal-only regular expression
  | not (e : Expr)
  | defined (e : Expr)
  | and (a b : Expr)
  | or (a b : Expr)
  | ruleRef (k : Nat)
  | ofStr (q : QKind) (qe : Expr) (set : List Nat)
  | ofStrIn (q : QKind) (qe : Expr) (set : List Nat) (lo hi : Expr)
  | ofStrAt (q : QKind) (qe : Expr) (set : List Nat) (pos : Expr)
  | pctStr (p : Expr) (set : List Nat)
  | ofRules (q : QKind) (qe : Expr) (set : List Nat)
  | pctRules (p : Expr) (set : List Nat)
  | forRange (q : QKind) (qe : Expr) (lo hi : Expr) (body : Expr)
  | forEnum (q : QKind) (qe : Expr) (items : List Expr) (body : Expr)
  | forOf (q : QKind) (qe : Expr) (set : List Nat) (body : Expr)

/-! ### string sets and rule sets as written: which strings / rules an item denotes

`Expr` carries sets already expanded to indices (`List Nat`, one entry per pushed string / rule, duplicates kept:
`2 of ($a, $a*)` counts `$a` twice).  The expansion of the written items is part of the language: an item WITHOUT a
trailing `*` denotes the one string (rule) whose identifier is EXACTLY the item — never the strings whose identifiers
merely start with it (`($a)` does not contain `$ab`); an item `p*` denotes every string (every rule declared earlier)
whose identifier starts with `p`, in declaration order; `them` is `$*`. -/

inductive SetItem
  | exact (ident : String)
  | wild (pfx : String)
  | them
deriving Repr

/-- indices (into the declaration-ordered identifier list `names`) an item denotes -/
def SetItem.denotes (names : List String) : SetItem → List Nat
  | .exact ident => (List.range names.length).filter fun i => names.getD i "" == ident
  | .wild pfx => (List.range names.length).filter fun i => pfx.toList.isPrefixOf (names.getD i "").toList
  | .them => List.range names.length

/-- a written set: item by item, each item's strings in declaration order (the order of the compiler's pushes) -/
def setDenotes (names : List String) (items : List SetItem) : List Nat := items.flatMap (SetItem.denotes names)

/-- what a condition is evaluated against -/
structure Env where
  strs : List (List (Int × Int))      -- per string: all matches (offset, length), ascending by offset
  blocks : List (Nat × Bytes)         -- memory blocks (base, data)
  filesize : Int
  ext : List (String × Val)
  rules : List Bool                   -- verdicts of the rules defined earlier
  disabled : List Nat := []           -- rules switched off through the API (yr_rule_disable): they never match;
                                      -- a direct reference to one is undefined (docs/capi.rst), inside a rule set it counts as not matching
  fops : FloatOps := FloatOps.trivial -- what the double operations do (a parameter: see `FloatOps`)

/-- the rule with index `k` (declared earlier) matched: a disabled rule never does -/
def Env.ruleMatched (env : Env) (k : Nat) : Bool := env.rules.getD k false && !env.disabled.contains k

/-- loop context: variables by nesting depth, and the string the `for..of` placeholder stands for -/
structure LEnv where
  vars : List Val := []
  cur : Option Nat := none

/-! ### values -/

def truthy : Val → Option Bool
  | .undef => none
  | .bool b => some b
  | .int i => some (i != 0)
  | .str s => some (!s.isEmpty)
  | .flt w => some (w != 0)            -- the VM tests the 64-bit slot: every pattern but +0.0 is true

/-- undefined counts as false -/
def asBool (v : Val) : Bool := truthy v == some true

def Val.isUndef : Val → Bool
  | .undef => true
  | _ => false

def vNot (v : Val) : Val :=
  match truthy v with
  | none => .undef
  | some b => .bool (!b)

def vAnd (a b : Val) : Val := .bool (asBool a && asBool b)
def vOr (a b : Val) : Val := .bool (asBool a || asBool b)
def vDefined (v : Val) : Val := .bool (!v.isUndef)

/-! ### integers, floats -/

def arithInt : ArOp → Int → Int → Val
  | .add, a, b => .int (C.add a b)
  | .sub, a, b => .int (C.sub a b)
  | .mul, a, b => .int (C.mul a b)
  | .div, a, b => if b == 0 || (a == C.INT64_MIN && b == -1) then .undef else .int (C.div a b)
  | .mod, a, b => if b == 0 || (a == C.INT64_MIN && b == -1) then .undef else .int (C.mod a b)
  | .band, a, b => .int (C.band a b)
  | .bor, a, b => .int (C.bor a b)
  | .bxor, a, b => .int (C.bxor a b)
  | .shl, a, b => if b < 0 then .undef else if b < 64 then .int (C.shl a b) else .int 0
  | .shr, a, b => if b < 0 then .undef else if b < 64 then .int (C.shr a b) else .int 0

def arithFlt (fo : FloatOps) : ArOp → Int → Int → Val
  | .add, a, b => .flt (fo.add a b)
  | .sub, a, b => .flt (fo.sub a b)
  | .mul, a, b => .flt (fo.mul a b)
  | .div, a, b => .flt (fo.div a b)
  | _, _, _ => .undef                  -- not well-typed (`%` and the bitwise operators reject floats at compile time)

/-- an integer operand next to a double one is promoted (`(double) i`) -/
def vArith (fo : FloatOps) (op : ArOp) : Val → Val → Val
  | .int a, .int b => arithInt op a b
  | .int a, .flt b => arithFlt fo op (fo.ofInt a) b
  | .flt a, .int b => arithFlt fo op a (fo.ofInt b)
  | .flt a, .flt b => arithFlt fo op a b
  | _, _ => .undef

def vNeg (fo : FloatOps) : Val → Val
  | .int a => .int (C.neg a)
  | .flt a => .flt (fo.neg a)
  | _ => .undef

def vBnot : Val → Val
  | .int a => .int (C.bnot a)
  | _ => .undef

def cmpInt : CmpOp → Int → Int → Bool
  | .eq, a, b => a == b
  | .neq, a, b => a != b
  | .lt, a, b => a < b
  | .le, a, b => a ≤ b
  | .gt, a, b => a > b
  | .ge, a, b => a ≥ b

def cmpFlt (fo : FloatOps) : CmpOp → Int → Int → Bool
  | .eq, a, b => fo.nearZero (fo.sub a b)
  | .neq, a, b => fo.farZero (fo.sub a b)
  | .lt, a, b => fo.lt a b
  | .le, a, b => fo.le a b
  | .gt, a, b => fo.gt a b
  | .ge, a, b => fo.ge a b

/-- lexicographic three-way comparison of byte strings: -1 / 0 / 1 -/
def strCompare : Bytes → Bytes → Int
  | [], [] => 0
  | [], _ :: _ => -1
  | _ :: _, [] => 1
  | a :: as, b :: bs => if a == b then strCompare as bs else if a < b then -1 else 1

def cmpStr (op : CmpOp) (a b : Bytes) : Bool := cmpInt op (strCompare a b) 0

def vCmp (fo : FloatOps) (op : CmpOp) : Val → Val → Val
  | .int a, .int b => .bool (cmpInt op a b)
  | .int a, .flt b => .bool (cmpFlt fo op (fo.ofInt a) b)
  | .flt a, .int b => .bool (cmpFlt fo op a (fo.ofInt b))
  | .flt a, .flt b => .bool (cmpFlt fo op a b)
  | .str a, .str b => .bool (cmpStr op a b)
  | _, _ => .undef

/-! ### strings -/

def lower (b : UInt8) : UInt8 := if 65 ≤ b && b ≤ 90 then b + 32 else b
def lowerS (s : Bytes) : Bytes := s.map lower

def isPrefix : Bytes → Bytes → Bool
  | [], _ => true
  | _ :: _, [] => false
  | a :: as, b :: bs => a == b && isPrefix as bs

/-- `needle` occurs somewhere in `hay` (the empty needle occurs in everything) -/
def containsS : Bytes → Bytes → Bool
  | [], needle => needle.isEmpty
  | h :: hs, needle => isPrefix needle (h :: hs) || containsS hs needle

def strOp : StrOp → Bytes → Bytes → Bool
  | .contains, a, b => containsS a b
  | .icontains, a, b => containsS (lowerS a) (lowerS b)
  | .startswith, a, b => isPrefix b a
  | .istartswith, a, b => isPrefix (lowerS b) (lowerS a)
  | .endswith, a, b => isPrefix b.reverse a.reverse
  | .iendswith, a, b => isPrefix (lowerS b).reverse (lowerS a).reverse
  | .iequals, a, b => lowerS a == lowerS b

def vStrOp (op : StrOp) : Val → Val → Val
  | .str a, .str b => .bool (strOp op a b)
  | _, _ => .undef

def vMatches (re : Bytes) (nocase : Bool) : Val → Val
  | .str a => .bool (if nocase then containsS (lowerS a) (lowerS re) else containsS a re)
  | _ => .undef

/-! ### reading the buffer -/

def rdSize : RdKind → Nat
  | .i8 | .u8 | .i8be | .u8be => 1
  | .i16 | .u16 | .i16be | .u16be => 2
  | .i32 | .u32 | .i32be | .u32be => 4

def rdSigned : RdKind → Bool
  | .i8 | .i16 | .i32 | .i8be | .i16be | .i32be => true
  | _ => false

def rdBigEndian : RdKind → Bool
  | .i8be | .i16be | .i32be | .u8be | .u16be | .u32be => true
  | _ => false

/-- the `n` bytes at absolute offset `off`, if they lie inside one block -/
def readBytes : List (Nat × Bytes) → Nat → Nat → Option Bytes
  | [], _, _ => none
  | (base, data) :: rest, off, n =>
    if base ≤ off ∧ n ≤ data.length ∧ off + n ≤ base + data.length
    then some ((data.drop (off - base)).take n)
    else readBytes rest off n

/-- big-endian natural number of a byte list -/
def beNat (bs : Bytes) : Nat := bs.foldl (fun acc b => acc * 256 + b.toNat) 0

def decodeInt (k : RdKind) (bs : Bytes) : Int :=
  let u := beNat (if rdBigEndian k then bs else bs.reverse)
  if rdSigned k && u ≥ 2 ^ (8 * rdSize k - 1) then (u : Int) - 2 ^ (8 * rdSize k) else (u : Int)

def vRead (blocks : List (Nat × Bytes)) (k : RdKind) : Val → Val
  | .int off =>
    if off < 0 then .undef else
    match readBytes blocks off.toNat (rdSize k) with
    | some bs => .int (decodeInt k bs)
    | none => .undef
  | _ => .undef

/-! ### match sets -/

def Env.matchesOf (env : Env) (l : LEnv) : SRef → List (Int × Int)
  | .id n => env.strs.getD n []
  | .cur => match l.cur with
    | some n => env.strs.getD n []
    | none => []

def inRange (lo hi : Int) (m : Int × Int) : Bool := lo ≤ m.1 && m.1 ≤ hi

def vFoundAt (ms : List (Int × Int)) : Val → Val
  | .int x => .bool (ms.any fun m => m.1 == x)
  | _ => .undef

def vFoundIn (ms : List (Int × Int)) : Val → Val → Val
  | .int lo, .int hi => .bool (ms.any (inRange lo hi))
  | _, _ => .undef

def vCountIn (ms : List (Int × Int)) : Val → Val → Val
  | .int lo, .int hi => .int (ms.countP (inRange lo hi))
  | _, _ => .undef

/-- 1-based i-th match -/
def nth (ms : List (Int × Int)) (i : Int) : Option (Int × Int) :=
  if i < 1 then none else ms[(i - 1).toNat]?

def vOffset (ms : List (Int × Int)) : Val → Val
  | .int i => match nth ms i with
    | some m => .int m.1
    | none => .undef
  | _ => .undef

def vLength (ms : List (Int × Int)) : Val → Val
  | .int i => match nth ms i with
    | some m => .int m.2
    | none => .undef
  | _ => .undef

/-! ### quantifiers -/

inductive Quant
  | all
  | none
  | atLeast (k : Int)
  | undef

def quantOf : QKind → Val → Quant
  | .all, _ => .all
  | .any, _ => .atLeast 1
  | .none, _ => .none
  | .num, .int k => if k == 0 then .none else .atLeast k
  | .num, _ => .undef

/-- does the quantifier hold when `t` of `n` candidates are satisfied -/
def quantHolds : Quant → Nat → Nat → Val
  | .all, t, n => .bool (t == n)
  | .none, t, _ => .bool (t == 0)
  | .atLeast k, t, _ => .bool (k ≤ (t : Int))
  | .undef, _, _ => .undef

/-- loops: nothing to iterate over = false (D6) -/
def loopHolds (q : Quant) (t n : Nat) : Val :=
  match q with
  | .undef => .undef
  | _ => if n == 0 then .bool false else quantHolds q t n

def pctHolds (t n : Nat) : Val → Val
  | .int p => .bool (decide ((t : Int) * 100 ≥ p * (n : Int)))
  | _ => .undef

def countTrue (vs : List Val) : Nat := vs.countP asBool

def intRange (lo hi : Val) : List Val :=
  match lo, hi with
  | .int a, .int b => (List.range (b - a + 1).toNat).map fun (i : Nat) => Val.int (a + (i : Int))
  | _, _ => []

def strFound (env : Env) (n : Nat) : Bool := !(env.strs.getD n []).isEmpty

def lookupExt (env : Env) (name : String) : Val :=
  match env.ext.find? (fun p => p.1 == name) with
  | some p => p.2
  | none => .undef

/-! ### evaluation -/

mutual
def eval (env : Env) : LEnv → Expr → Val
  | _, .int v => .int v
  | _, .flt f => .flt f
  | _, .str s => .str s
  | _, .filesize => .int env.filesize
  | _, .ext name => lookupExt env name
  | l, .var k => l.vars.getD k .undef
  | _, .undefOf _ => .undef
  | l, .count s => .int (env.matchesOf l s).length
  | l, .countIn s lo hi => vCountIn (env.matchesOf l s) (eval env l lo) (eval env l hi)
  | l, .offset s i => vOffset (env.matchesOf l s) (eval env l i)
  | l, .length s i => vLength (env.matchesOf l s) (eval env l i)
  | l, .read k off => vRead env.blocks k (eval env l off)
  | l, .neg e => vNeg env.fops (eval env l e)
  | l, .bnot e => vBnot (eval env l e)
  | l, .arith op a b => vArith env.fops op (eval env l a) (eval env l b)
  | _, .tt => .bool true
  | _, .ff => .bool false
  | l, .found s => .bool (!(env.matchesOf l s).isEmpty)
  | l, .foundAt s pos => vFoundAt (env.matchesOf l s) (eval env l pos)
  | l, .foundIn s lo hi => vFoundIn (env.matchesOf l s) (eval env l lo) (eval env l hi)
  | l, .cmp op a b => vCmp env.fops op (eval env l a) (eval env l b)
  | l, .strop op a b => vStrOp op (eval env l a) (eval env l b)
  | l, .matches a re nocase => vMatches re nocase (eval env l a)
  | l, .not e => vNot (eval env l e)
  | l, .defined e => vDefined (eval env l e)
  | l, .and a b => vAnd (eval env l a) (eval env l b)
  | l, .or a b => vOr (eval env l a) (eval env l b)
  | _, .ruleRef k => if env.disabled.contains k then .undef else .bool (env.rules.getD k false)
  | l, .ofStr q qe set =>
      quantHolds (quantOf q (eval env l qe)) (set.countP (strFound env)) set.length
  | l, .ofStrIn q qe set lo hi =>
      match eval env l lo, eval env l hi with
      | .int a, .int b =>
        quantHolds (quantOf q (eval env l qe))
          (set.countP fun n => (env.strs.getD n []).any (inRange a b)) set.length
      | _, _ => .undef
  | l, .ofStrAt q qe set pos =>
      match eval env l pos with
      | .int x =>
        quantHolds (quantOf q (eval env l qe))
          (set.countP fun n => (env.strs.getD n []).any fun m => m.1 == x) set.length
      | _ => .undef
  | l, .pctStr p set => pctHolds (set.countP (strFound env)) set.length (eval env l p)
  | l, .ofRules q qe set =>
      quantHolds (quantOf q (eval env l qe)) (set.countP env.ruleMatched) set.length
  | l, .pctRules p set => pctHolds (set.countP env.ruleMatched) set.length (eval env l p)
  | l, .forRange q qe lo hi body =>
      let items := intRange (eval env l lo) (eval env l hi)
      loopHolds (quantOf q (eval env l qe))
        (countTrue (items.map fun v => eval env { l with vars := l.vars ++ [v] } body)) items.length
  | l, .forEnum q qe items body =>
      let vals := evalList env l items
      loopHolds (quantOf q (eval env l qe))
        (countTrue (vals.map fun v => eval env { l with vars := l.vars ++ [v] } body)) vals.length
  | l, .forOf q qe set body =>
      loopHolds (quantOf q (eval env l qe))
        (countTrue (set.map fun n => eval env { vars := l.vars ++ [.undef], cur := some n } body)) set.length
def evalList (env : Env) : LEnv → List Expr → List Val
  | _, [] => []
  | l, e :: es => eval env l e :: evalList env l es
end

/-- a rule matches iff its condition is defined and true -/
def ruleVerdict (env : Env) (cond : Expr) : Bool := asBool (eval env {} cond)

/-- one rule of a rule set: its strings' match lists and its condition -/
structure Rule where
  strs : List (List (Int × Int))
  cond : Expr

/-- verdicts of the rules of a set, in definition order; a rule sees the verdicts of the earlier ones -/
def evalRules (blocks : List (Nat × Bytes)) (filesize : Int) (ext : List (String × Val)) :
    List Rule → List Bool → List Bool
  | [], acc => acc
  | r :: rs, acc =>
    evalRules blocks filesize ext rs
      (acc ++ [ruleVerdict { strs := r.strs, blocks, filesize, ext, rules := acc } r.cond])

/-- the same with the rules whose indices are in `disabled` switched off (yr_rule_disable): they do not match, whatever
    their condition says; later rules see them as described at `Env.disabled` -/
def evalRulesD (blocks : List (Nat × Bytes)) (filesize : Int) (ext : List (String × Val)) (disabled : List Nat)
    (fops : FloatOps) :
    List Rule → List Bool → List Bool
  | [], acc => acc
  | r :: rs, acc =>
    evalRulesD blocks filesize ext disabled fops rs
      (acc ++ [!disabled.contains acc.length && ruleVerdict { strs := r.strs, blocks, filesize, ext, rules := acc, disabled, fops } r.cond])

end YaraModel.Cond
