/-
  C05 (a rule's result does not depend on what else is compiled with it) — condition level.
  A condition sees the rest of the rule set only through the verdicts of the rules it names (`ruleRef`, `N of (r1, r2*)`,
  `P% of (r*)`): `ruleRefs` lists those indices, `renameRules f` is the same condition compiled inside another rule set, where
  the rule that had index `k` has index `f k` (the compiler resolves identifiers, the index is whatever position the rule got).
  `Embeds pos small big`: rule set `big` contains the rules of `small`, in the same order, at the positions `pos i`,
  among arbitrary other rules.
-/
import YaraModel.Spec.Cond
namespace YaraModel.Cond

mutual
/-- indices of the rules a condition refers to -/
def ruleRefs : Expr → List Nat
  | .int _ | .flt _ | .str _ | .filesize | .ext _ | .var _ | .undefOf _ | .tt | .ff => []
  | .count _ | .found _ => []
  | .countIn _ lo hi | .foundIn _ lo hi => ruleRefs lo ++ ruleRefs hi
  | .offset _ i | .length _ i => ruleRefs i
  | .read _ off => ruleRefs off
  | .neg e | .bnot e | .not e | .defined e => ruleRefs e
  | .arith _ a b | .cmp _ a b | .strop _ a b | .and a b | .or a b => ruleRefs a ++ ruleRefs b
  | .foundAt _ pos => ruleRefs pos
  | .matches a _ _ => ruleRefs a
  | .ruleRef k => [k]
  | .ofStr _ qe _ => ruleRefs qe
  | .ofStrIn _ qe _ lo hi => ruleRefs qe ++ ruleRefs lo ++ ruleRefs hi
  | .ofStrAt _ qe _ pos => ruleRefs qe ++ ruleRefs pos
  | .pctStr p _ => ruleRefs p
  | .ofRules _ qe set => ruleRefs qe ++ set
  | .pctRules p set => ruleRefs p ++ set
  | .forRange _ qe lo hi body => ruleRefs qe ++ ruleRefs lo ++ ruleRefs hi ++ ruleRefs body
  | .forEnum _ qe items body => ruleRefs qe ++ ruleRefsList items ++ ruleRefs body
  | .forOf _ qe _ body => ruleRefs qe ++ ruleRefs body
def ruleRefsList : List Expr → List Nat
  | [] => []
  | e :: es => ruleRefs e ++ ruleRefsList es
end

mutual
/-- the same condition with rule index `k` replaced by `f k` everywhere -/
def renameRules (f : Nat → Nat) : Expr → Expr
  | .int v => .int v
  | .flt x => .flt x
  | .str s => .str s
  | .filesize => .filesize
  | .ext n => .ext n
  | .var k => .var k
  | .undefOf t => .undefOf t
  | .tt => .tt
  | .ff => .ff
  | .count s => .count s
  | .found s => .found s
  | .countIn s lo hi => .countIn s (renameRules f lo) (renameRules f hi)
  | .foundIn s lo hi => .foundIn s (renameRules f lo) (renameRules f hi)
  | .offset s i => .offset s (renameRules f i)
  | .length s i => .length s (renameRules f i)
  | .read k off => .read k (renameRules f off)
  | .neg e => .neg (renameRules f e)
  | .bnot e => .bnot (renameRules f e)
  | .not e => .not (renameRules f e)
  | .defined e => .defined (renameRules f e)
  | .arith op a b => .arith op (renameRules f a) (renameRules f b)
  | .cmp op a b => .cmp op (renameRules f a) (renameRules f b)
  | .strop op a b => .strop op (renameRules f a) (renameRules f b)
  | .and a b => .and (renameRules f a) (renameRules f b)
  | .or a b => .or (renameRules f a) (renameRules f b)
  | .foundAt s pos => .foundAt s (renameRules f pos)
  | .matches a re nc => .matches (renameRules f a) re nc
  | .ruleRef k => .ruleRef (f k)
  | .ofStr q qe set => .ofStr q (renameRules f qe) set
  | .ofStrIn q qe set lo hi => .ofStrIn q (renameRules f qe) set (renameRules f lo) (renameRules f hi)
  | .ofStrAt q qe set pos => .ofStrAt q (renameRules f qe) set (renameRules f pos)
  | .pctStr p set => .pctStr (renameRules f p) set
  | .ofRules q qe set => .ofRules q (renameRules f qe) (set.map f)
  | .pctRules p set => .pctRules (renameRules f p) (set.map f)
  | .forRange q qe lo hi body => .forRange q (renameRules f qe) (renameRules f lo) (renameRules f hi) (renameRules f body)
  | .forEnum q qe items body => .forEnum q (renameRules f qe) (renameRulesList f items) (renameRules f body)
  | .forOf q qe set body => .forOf q (renameRules f qe) set (renameRules f body)
def renameRulesList (f : Nat → Nat) : List Expr → List Expr
  | [] => []
  | e :: es => renameRules f e :: renameRulesList f es
end

/-- `big` contains the rules of `small` in the same order at positions `pos 0 < pos 1 < …`, each with its own strings and
    its condition re-indexed; the other rules of `big` are arbitrary. -/
structure Embeds (pos : Nat → Nat) (small big : List Rule) : Prop where
  mono : ∀ i j, i < j → j < small.length → pos i < pos j
  inside : ∀ i, i < small.length → pos i < big.length
  same : ∀ i (h : i < small.length) (h' : pos i < big.length),
    big[pos i] = { strs := small[i].strs, cond := renameRules pos small[i].cond }

/-- a rule refers only to rules defined before it (the compiler knows no others) -/
def BackRefs (rs : List Rule) : Prop := ∀ i (h : i < rs.length), ∀ k ∈ ruleRefs rs[i].cond, k < i

end YaraModel.Cond
