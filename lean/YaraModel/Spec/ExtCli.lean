/-
  C20 — how the command line (`yara -d name=value`, cli/common.c `define_external_variables`) types a value:
  float  = optional '-', then digits with exactly one '.', not starting with '.';
  integer = optional '-', then one or more digits;  boolean = "true" / "false";  anything else is a string.
  The value of an integer is its decimal value (the property: "behave in conditions like literals of the same type").
-/
namespace YaraModel.ExtCli

inductive CliVal
  | int (v : Int)
  | flt (neg : Bool) (num : Nat) (scale : Nat)      -- ± num / 10^scale
  | bool (b : Bool)
  | str (s : List Char)
deriving DecidableEq, Repr

def isDigit (c : Char) : Bool := '0' ≤ c && c ≤ '9'

def digitsVal (ds : List Char) : Nat := ds.foldl (fun acc c => acc * 10 + (c.toNat - '0'.toNat)) 0

def stripMinus : List Char → Bool × List Char
  | '-' :: t => (true, t)
  | t => (false, t)

def isFloat (v : List Char) : Bool :=
  let body := (stripMinus v).2
  body.head? != some '.' && body.all (fun c => isDigit c || c == '.') && (body.filter (· == '.')).length == 1

def isInteger (v : List Char) : Bool :=
  let body := (stripMinus v).2
  !body.isEmpty && body.all isDigit

def classify (v : List Char) : CliVal :=
  if isFloat v then
    let (neg, body) := stripMinus v
    let ip := body.takeWhile (· != '.')
    let fp := (body.dropWhile (· != '.')).drop 1
    .flt neg (digitsVal (ip ++ fp)) fp.length
  else if isInteger v then
    let (neg, body) := stripMinus v
    .int (if neg then -(digitsVal body : Int) else digitsVal body)
  else if v == "true".toList then .bool true
  else if v == "false".toList then .bool false
  else .str v

end YaraModel.ExtCli
