/-
  C11 — specification of the scan callback protocol, written from the property text
  (no bit sets, no loaded-modules table, no loop with exits):

    "In every scan that is not aborted, each non-private rule is reported exactly once, in
     definition order, as matching or not matching (filtered only by the two report flags),
     private rules are never reported, and a single scan-finished message comes last; a rule is
     reported as matching iff its condition holds and every global rule in its namespace holds.
     Each imported module produces exactly one import and one imported message per scan;
     returning abort or error in response to a rule message stops all further rule messages and
     makes the scan return success or callback-error respectively, and returning error in
     response to a module message fails the scan with callback-error."

  The full message sequence of an undisturbed scan is `protocol` (module messages, rule
  messages, finished); `play` delivers it to the callback and applies the stop rules `verdict`.
-/
import YaraModel.Model.Callback
namespace YaraModel.Cb

/-! ### truth of conditions -/

/-- semantic value of a condition when `env j` says whether the condition of rule `j` holds -/
def Cond.holds (env : Nat → Bool) : Cond → Bool
  | .lit b => b
  | .str f => f
  | .cnt _ gt => gt
  | .rule j => env j
  | .not c => !c.holds env
  | .and a b => a.holds env && b.holds env
  | .or a b => a.holds env || b.holds env

/-- truth values of the rules' own conditions, in definition order; an identifier denotes a rule
    defined earlier -/
def truthTable (rs : List Rule) : List Bool :=
  rs.foldl (fun t r => t ++ [r.cond.holds (fun j => t.getD j false)]) []

/-- "its condition holds" -/
def condHolds (rs : List Rule) (i : Nat) : Bool := (truthTable rs).getD i false

/-- "every global rule in namespace `ns` holds" -/
def globalsHold (rs : List Rule) (ns : Nat) : Bool :=
  (rs.zip (truthTable rs)).all fun gv => !(gv.1.isGlobal && gv.1.ns == ns) || gv.2

/-- rule `i` (which is `r`) is to be reported as matching -/
def specMatching (rs : List Rule) (i : Nat) (r : Rule) : Bool :=
  condHolds rs i && globalsHold rs r.ns

/-! ### the message sequence of an undisturbed scan -/

/-- the message for rule `i`, if it is to be reported at all -/
def ruleMsg (rs : List Rule) (fl : Flags) (ri : Rule × Nat) : Option Msg :=
  if ri.1.isPrivate then none
  else if specMatching rs ri.2 ri.1 then (if fl.matching then some (.ruleMatching ri.2) else none)
  else (if fl.notMatching then some (.ruleNotMatching ri.2) else none)

/-- rule messages, definition order -/
def ruleMsgs (rs : List Rule) (fl : Flags) : List Msg := rs.zipIdx.filterMap (ruleMsg rs fl)

/-- the imported modules, each once, in order of first import -/
def distinctModules : List String → List String
  | [] => []
  | m :: ms => m :: (distinctModules ms).filter (· != m)

/-- one import and one imported message per module -/
def moduleMsgs (imports : List String) : List Msg :=
  (distinctModules imports).flatMap fun m => [.importModule m, .moduleImported m]

def protocol (rs : List Rule) (imports : List String) (fl : Flags) : List Msg :=
  moduleMsgs imports ++ ruleMsgs rs fl ++ [.scanFinished]

/-! ### the effect of the callback's answers -/

def Msg.isModule : Msg → Bool
  | .importModule _ => true | .moduleImported _ => true | _ => false

def Msg.isRule : Msg → Bool
  | .ruleMatching _ => true | .ruleNotMatching _ => true | _ => false

def Msg.isTooMany : Msg → Bool
  | .tooManyMatches _ => true | _ => false

/-- the rule a rule message is about -/
def Msg.ruleIdx : Msg → Nat
  | .ruleMatching i => i | .ruleNotMatching i => i | _ => 0

/-- does answer `a` to message `m` end the scan, and with which return code -/
def verdict (m : Msg) (a : Ret) : Option Rc :=
  if m.isRule then
    match a with
    | .abort => some .success
    | .error => some .callbackError
    | .cont => none
  else if m.isModule then
    match a with
    | .error => some .callbackError
    | _ => none
  else if m.isTooMany then      -- capi.rst: "If your callback returns CALLBACK_CONTINUE, the string will be
    match a with                --  disabled and scanning will continue, otherwise scanning will be halted."
    | .cont => none
    | _ => some .tooManyMatches
  else none

structure Played where
  trace : List Msg
  stopped : Option Rc      -- `some rc`: the answer to the last message of `trace` ended the scan
  rest : List Ret
deriving DecidableEq, Repr

/-- deliver messages in order; the k-th message gets the k-th answer of the script -/
def play : List Msg → List Ret → Played
  | [], s => ⟨[], none, s⟩
  | m :: ms, s =>
    match verdict m (call s).1 with
    | some rc => ⟨[m], some rc, (call s).2⟩
    | none => let p := play ms (call s).2; ⟨m :: p.trace, p.stopped, p.rest⟩

def specScan (rs : List Rule) (imports : List String) (fl : Flags) (script : List Ret) : List Msg × Rc :=
  let p := play (protocol rs imports fl) script
  (p.trace, p.stopped.getD .success)

/-! ### the too-many-matches warning

  "If during the scan a string hits the maximum number of matches, your callback will be called once
   with CALLBACK_MSG_TOO_MANY_MATCHES … message_data points to the string which caused the warning. If
   your callback returns CALLBACK_CONTINUE, the string will be disabled and scanning will continue."
  `events` lists the occurrences found in the data (string index per occurrence, scan order). -/

/-- the warning for a string is due when an occurrence arrives while `limit` occurrences are recorded:
    `seen` are the occurrences before it -/
def tooManyMsgsFrom (limit : Nat) : List Nat → List Nat → List Msg
  | _, [] => []
  | seen, s :: es =>
    (if seen.count s = limit then [Msg.tooManyMatches s] else []) ++ tooManyMsgsFrom limit (seen ++ [s]) es

/-- one warning per overflowing string, in the order in which the strings overflow -/
def tooManyMsgs (limit : Nat) (events : List Nat) : List Msg := tooManyMsgsFrom limit [] events

/-- matches recorded for a string once the scan of the data is over: the string stops matching at
    the limit, nothing else changes -/
def specCount (limit : Nat) (events : List Nat) (s : Nat) : Nat := min (events.count s) limit

/-- the whole message sequence of an undisturbed scan -/
def fullProtocol (limit : Nat) (events : List Nat) (rs : List SRule) (imports : List String) (fl : Flags) : List Msg :=
  tooManyMsgs limit events ++ protocol (rs.map (SRule.resolve (specCount limit events))) imports fl

def specFullScan (limit : Nat) (events : List Nat) (rs : List SRule) (imports : List String) (fl : Flags)
    (script : List Ret) : List Msg × Rc :=
  let p := play (fullProtocol limit events rs imports fl) script
  (p.trace, p.stopped.getD .success)

/-- the answer the callback gives to the k-th message -/
def answer (script : List Ret) (k : Nat) : Ret := script.getD k .cont

/-- no answer ended the scan -/
def NotStopped (tr : List Msg) (script : List Ret) : Prop :=
  ∀ (k : Nat) (m : Msg), tr[k]? = some m → verdict m (answer script k) = none

end YaraModel.Cb
