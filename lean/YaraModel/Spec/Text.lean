/-
  C01 — specification of text-string matching, written from the manual (docs/writingrules.rst,
  "Text strings" and its modifier sections). Core Lean only.

  Spec decisions where the manual is silent (DESIGN.md §3): one match per offset; when several
  encodings match at one offset the order is ascii, wide (plain), then xor-wide, xor-ascii;
  `fullword` looks at the raw neighbouring bytes (for wide matches: at the neighbouring 16-bit units
  whose high byte is 0).
-/
namespace YaraModel.Text

abbrev Bytes := List UInt8

structure Mods where
  ascii : Bool
  wide : Bool
  nocase : Bool
  fullword : Bool
  xor : Option (UInt8 × UInt8)      -- inclusive key range
deriving DecidableEq, Repr

/-- modifier sets the compiler accepts for a literal text string (no base64 here) -/
def Mods.legal (m : Mods) : Bool :=
  (m.ascii || m.wide) && !(m.nocase && m.xor.isSome) &&
  (match m.xor with | some (lo, hi) => lo ≤ hi | none => true)

def lower (c : UInt8) : UInt8 := if 65 ≤ c ∧ c ≤ 90 then c + 32 else c

def isAlnum (c : UInt8) : Bool := (48 ≤ c && c ≤ 57) || (65 ≤ c && c ≤ 90) || (97 ≤ c && c ≤ 122)

/-- UTF-16LE-style widening: every byte followed by 0x00 -/
def widen : Bytes → Bytes
  | [] => []
  | c :: t => c :: 0 :: widen t

/-- bytes `[o, o+n)` of the buffer, or `none` if they do not all exist -/
def window (buf : Bytes) (o n : Nat) : Option Bytes :=
  if o + n ≤ buf.length then some ((buf.drop o).take n) else none

def eqBytes (nocase : Bool) (a b : Bytes) : Bool :=
  if nocase then a.map lower == b.map lower else a == b

/-- does `pat` (already encoded) occur at `o`, possibly case-insensitively? -/
def occursAt (nocase : Bool) (pat buf : Bytes) (o : Nat) : Bool :=
  match window buf o pat.length with
  | some w => eqBytes nocase w pat
  | none => false

/-- the xor key under which `pat` occurs at `o`, if any (the key is forced by the first byte) -/
def xorKeyAt (pat buf : Bytes) (o : Nat) : Option UInt8 :=
  match pat, window buf o pat.length with
  | p0 :: _, some (w0 :: wt) =>
      if (w0 :: wt) == pat.map (· ^^^ (p0 ^^^ w0)) then some (p0 ^^^ w0) else none
  | _, _ => none

def inRange (r : UInt8 × UInt8) (k : UInt8) : Bool := r.1 ≤ k && k ≤ r.2

/-- ALL raw occurrences at `o` (before `fullword`): (length, xor key, isWide).
    An offset can carry several (e.g. a one-byte string that matches both as ascii and as wide). -/
def variantsAt (m : Mods) (s buf : Bytes) (o : Nat) : List (Nat × UInt8 × Bool) :=
  if s.isEmpty then [] else
  let plainOK := match m.xor with | none => true | some r => inRange r 0
  (if m.ascii && plainOK && occursAt m.nocase s buf o then [(s.length, 0, false)] else []) ++
  (if m.wide && plainOK && occursAt m.nocase (widen s) buf o then [(2 * s.length, 0, true)] else []) ++
  (match m.xor with
   | none => []
   | some r =>
     (if m.ascii then
        ((xorKeyAt s buf o).filter (fun k => inRange r k && k != 0)).toList.map (fun k => (s.length, k, false))
      else []) ++
     (if m.wide then
        ((xorKeyAt (widen s) buf o).filter (fun k => inRange r k && k != 0)).toList.map (fun k => (2 * s.length, k, true))
      else []))

def byteAt (buf : Bytes) (i : Nat) : Option UInt8 := buf[i]?

/-- `fullword`: the match is delimited by non-alphanumeric characters -/
def fullwordOK (buf : Bytes) (o len : Nat) (wide : Bool) : Bool :=
  if wide then
    !(o ≥ 2 && byteAt buf (o - 1) == some 0 && ((byteAt buf (o - 2)).map isAlnum == some true)) &&
    !(o + len + 1 < buf.length && byteAt buf (o + len + 1) == some 0 && ((byteAt buf (o + len)).map isAlnum == some true))
  else
    !(o ≥ 1 && ((byteAt buf (o - 1)).map isAlnum == some true)) &&
    !(o + len < buf.length && ((byteAt buf (o + len)).map isAlnum == some true))

/-- admissible (length, key) pairs at `o`: raw occurrences that also satisfy `fullword` -/
def admissibleAt (m : Mods) (s buf : Bytes) (o : Nat) : List (Nat × UInt8) :=
  ((variantsAt m s buf o).filter fun v => !m.fullword || fullwordOK buf o v.1 v.2.2).map fun v => (v.1, v.2.1)

/-- THE specification: the offsets at which the string occurs, ascending, each with the set of
    admissible (length, key) pairs. A correct engine reports exactly these offsets, once each,
    each with one admissible pair. -/
def occurrences (m : Mods) (s buf : Bytes) : List (Nat × List (Nat × UInt8)) :=
  (List.range (buf.length + 1)).filterMap fun o =>
    match admissibleAt m s buf o with
    | [] => none
    | l => some (o, l)

/-- classification aid for known finding F19 only: the occurrences if the declared xor range is
    ignored (all 256 keys admitted). Not part of the specification. -/
def occurrencesAnyKey (m : Mods) (s buf : Bytes) : List (Nat × List (Nat × UInt8)) :=
  occurrences { m with xor := m.xor.map fun _ => (0, 255) } s buf

/-- classification aid for known finding F20 only: offsets at which one raw occurrence fails
    `fullword` while another one (the other encoding) passes. Not part of the specification. -/
def mixedFullword (m : Mods) (s buf : Bytes) : List Nat :=
  (List.range (buf.length + 1)).filter fun o =>
    let vs := variantsAt m s buf o
    m.fullword && vs.any (fun v => fullwordOK buf o v.1 v.2.2) && vs.any (fun v => !fullwordOK buf o v.1 v.2.2)

end YaraModel.Text
