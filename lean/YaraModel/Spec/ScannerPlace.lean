/-
  C13 — place-dependent string operators. What the property text talks about are occurrences at ABSOLUTE offsets of
  the scanned data; what the scanner stores is, per match, the base of the block it was found in and the offset inside
  that block. This file gives the specification of the operators over absolute occurrences (`AbsTable`), the
  operators as exec.c computes them from the scanner's match lists, and the part of the block loop that collects
  matches over a sequence of blocks (`collect`).
-/
import YaraModel.Model.Scanner
namespace YaraModel.Scan

/-- per string: its occurrences (absolute offset, length), in the order of the scanner's list -/
abbrev AbsTable := List (Nat × List (Nat × Nat))

def Match.pos (m : Match) : Nat := m.base + m.off
def absM (m : Match) : Nat × Nat := (m.pos, m.len)
/-- absolute view of the scanner's match table: offset = block base + offset in the block -/
def absT (t : MatchTable) : AbsTable := t.map fun p => (p.1, p.2.map absM)

def aget (t : AbsTable) (s : Nat) : List (Nat × Nat) :=
  match t.find? (fun p => p.1 == s) with
  | some p => p.2
  | none => []

/-! ### specification over absolute occurrences -/
namespace PlaceSpec
def found (t : AbsTable) (s : Nat) : Bool := !(aget t s).isEmpty
def count (t : AbsTable) (s : Nat) : Nat := (aget t s).length
def foundAt (t : AbsTable) (s off : Nat) : Bool := (aget t s).any fun o => o.1 == off
def foundIn (t : AbsTable) (s lo hi : Nat) : Bool := (aget t s).any fun o => decide (lo ≤ o.1 ∧ o.1 ≤ hi)
def countIn (t : AbsTable) (s lo hi : Nat) : Nat := ((aget t s).filter fun o => decide (lo ≤ o.1 ∧ o.1 ≤ hi)).length
/-- `@s[i]`, `i` counted from 1; `none` = undefined -/
def offset (t : AbsTable) (s i : Nat) : Option Nat := if i = 0 then none else ((aget t s)[i - 1]?).map (·.1)
/-- `!s[i]` -/
def length (t : AbsTable) (s i : Nat) : Option Nat := if i = 0 then none else ((aget t s)[i - 1]?).map (·.2)
def ofAt (t : AbsTable) (ss : List Nat) (off : Nat) : Nat := (ss.filter fun s => foundAt t s off).length
def ofIn (t : AbsTable) (ss : List Nat) (lo hi : Nat) : Nat := (ss.filter fun s => foundIn t s lo hi).length
end PlaceSpec

/-! ### the operators as the evaluator computes them from the match lists (exec.c OP_FOUND_AT, OP_FOUND_IN, OP_COUNT_IN,
    OP_OFFSET, OP_LENGTH, OP_OF_FOUND_AT, OP_OF_FOUND_IN): always `match->base + match->offset` -/
namespace PlaceOps
def found (t : MatchTable) (s : Nat) : Bool := !(tget t s).isEmpty
def count (t : MatchTable) (s : Nat) : Nat := (tget t s).length
def foundAt (t : MatchTable) (s off : Nat) : Bool := (tget t s).any fun m => m.base + m.off == off
def foundIn (t : MatchTable) (s lo hi : Nat) : Bool := (tget t s).any fun m => decide (lo ≤ m.base + m.off ∧ m.base + m.off ≤ hi)
def countIn (t : MatchTable) (s lo hi : Nat) : Nat :=
  ((tget t s).filter fun m => decide (lo ≤ m.base + m.off ∧ m.base + m.off ≤ hi)).length
def offset (t : MatchTable) (s i : Nat) : Option Nat := if i = 0 then none else ((tget t s)[i - 1]?).map fun m => m.base + m.off
def length (t : MatchTable) (s i : Nat) : Option Nat := if i = 0 then none else ((tget t s)[i - 1]?).map (·.len)
def ofAt (t : MatchTable) (ss : List Nat) (off : Nat) : Nat := (ss.filter fun s => foundAt t s off).length
def ofIn (t : MatchTable) (ss : List Nat) (lo hi : Nat) : Nat := (ss.filter fun s => foundIn t s lo hi).length
end PlaceOps

/-- the match-collecting part of the block loop over blocks with their candidates, in order, stopping at the
    first error (too many matches refused by the callback) -/
def collect (P : Params) (cb : Nat → CbRet) (fast : Bool) : List (Block × List Cand) → Core → World → Core × World × List Msg × Err
  | [], c, w => (c, w, [], .success)
  | (b, ks) :: rest, c, w =>
    match addCands P cb fast b ks { c with unconfirmed := [] } w with     -- every block starts without pending chain pieces
    | (c', w', ms, .success) =>
      let (c'', w'', ms', e) := collect P cb fast rest c' w'
      (c'', w'', ms ++ ms', e)
    | r => r

/-- one chained string of two pieces: string 0 = head, string 1 = tail with gap `[gmin-gmax]` -/
def chainP (gmin gmax : Nat) : Params :=
  { rules := [], imports := [], strRule := fun _ => 0, maxMatches := 1000, cands := fun _ => [],
    ep := fun _ _ _ _ => none, singleMatch := fun _ => false, scanErr := fun _ => none,
    chain := fun s => if s = 0 then some ⟨none, 0, 0, false⟩ else if s = 1 then some ⟨some 0, gmin, gmax, true⟩ else none,
    pruneSlack := 1028, cond := fun _ _ => .ret false, modParse := fun _ _ => none }

/-- candidates of a block at their absolute offsets -/
def absCands (b : Block) (ks : List Cand) : List (Nat × Nat × Nat) := ks.map fun k => (k.str, b.base + k.off, k.len)

/-- two scanner states that agree up to how the position of a match is split into base + offset -/
structure Core.AbsEq (c c' : Core) : Prop where
  found : absT c.found = absT c'.found
  rest : { c with found := [] } = { c' with found := [] }

end YaraModel.Scan
