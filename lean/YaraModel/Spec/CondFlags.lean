/-
  C12 (shortcuts never change a verdict) — the three string flags the compiler derives from a condition, stated over
  the condition language of Spec/Cond.lean:
   * STRING_FLAGS_FIXED_OFFSET (parser.c yr_parser_reduce_string_identifier, scan.c yr_scan_verify_match): when every use
     of a string is `$a at K` with one constant K, matches of `$a` at other offsets are not recorded  — `restrictAt`;
   * STRING_FLAGS_SINGLE_MATCH + fast mode: when a string is only tested for presence, only its first match is
     recorded — `firstOnly`;
   * required_strings > 0 (grammar.y, exec.c OP_INIT_RULE): a rule whose condition needs some string is not evaluated
     when none of its strings matched — `needsMatch`.
  `usesOk` is the syntactic side condition (a Bool function): which uses of string `n` are harmless for a given way of
  pruning its match list.
-/
import YaraModel.Spec.Cond
namespace YaraModel.Cond

/-- apply `f` to the `n`-th element -/
def mapAt {α : Type} (f : α → α) : Nat → List α → List α
  | _, [] => []
  | 0, x :: xs => f x :: xs
  | n + 1, x :: xs => x :: mapAt f n xs

/-- keep of string `n`'s match list only the matches at offset `k` -/
def restrictAt (env : Env) (n : Nat) (k : Int) : Env :=
  { env with strs := mapAt (fun ms => ms.filter fun m => m.1 == k) n env.strs }

/-- keep only the first match of string `n` -/
def firstOnly (env : Env) (n : Nat) : Env :=
  { env with strs := mapAt (fun ms => ms.take 1) n env.strs }

/-- may this reference denote string `n`? (`curN`: the `for..of` placeholder may stand for `n`) -/
def mayBe (n : Nat) (curN : Bool) : SRef → Bool
  | .id m => m == n
  | .cur => curN

/-- is the expression the integer literal accepted by `okAt`? -/
def litOk (okAt : Int → Bool) : Expr → Bool
  | .int v => okAt v
  | _ => false

mutual
/-- every use of string `n` is of a kind that the pruning tolerates:
    `okFound` — presence tests (`$a`, membership in a plain `of` / `P% of` set, `$` in a `for..of` over a set containing it);
    `okAt x`  — `$a at x` with the integer literal `x`.
    Any other use of `n` (count, offset, length, `in`, `of … in/at` sets) is rejected. -/
def usesOk (n : Nat) (okFound : Bool) (okAt : Int → Bool) : Bool → Expr → Bool
  | _, .int _ | _, .flt _ | _, .str _ | _, .filesize | _, .ext _ | _, .var _ | _, .undefOf _
  | _, .tt | _, .ff | _, .ruleRef _ => true
  | cn, .count s => !mayBe n cn s
  | cn, .countIn s lo hi => !mayBe n cn s && usesOk n okFound okAt cn lo && usesOk n okFound okAt cn hi
  | cn, .offset s i => !mayBe n cn s && usesOk n okFound okAt cn i
  | cn, .length s i => !mayBe n cn s && usesOk n okFound okAt cn i
  | cn, .read _ e => usesOk n okFound okAt cn e
  | cn, .neg e => usesOk n okFound okAt cn e
  | cn, .bnot e => usesOk n okFound okAt cn e
  | cn, .arith _ a b => usesOk n okFound okAt cn a && usesOk n okFound okAt cn b
  | cn, .found s => !mayBe n cn s || okFound
  | cn, .foundAt s pos => if mayBe n cn s then litOk okAt pos else usesOk n okFound okAt cn pos
  | cn, .foundIn s lo hi => !mayBe n cn s && usesOk n okFound okAt cn lo && usesOk n okFound okAt cn hi
  | cn, .cmp _ a b => usesOk n okFound okAt cn a && usesOk n okFound okAt cn b
  | cn, .strop _ a b => usesOk n okFound okAt cn a && usesOk n okFound okAt cn b
  | cn, .matches a _ _ => usesOk n okFound okAt cn a
  | cn, .not e => usesOk n okFound okAt cn e
  | cn, .defined e => usesOk n okFound okAt cn e
  | cn, .and a b => usesOk n okFound okAt cn a && usesOk n okFound okAt cn b
  | cn, .or a b => usesOk n okFound okAt cn a && usesOk n okFound okAt cn b
  | cn, .ofStr _ qe set => (!set.contains n || okFound) && usesOk n okFound okAt cn qe
  | cn, .ofStrIn _ qe set lo hi =>
      !set.contains n && usesOk n okFound okAt cn qe && usesOk n okFound okAt cn lo && usesOk n okFound okAt cn hi
  | cn, .ofStrAt _ qe set pos => !set.contains n && usesOk n okFound okAt cn qe && usesOk n okFound okAt cn pos
  | cn, .pctStr p set => (!set.contains n || okFound) && usesOk n okFound okAt cn p
  | cn, .ofRules _ qe _ => usesOk n okFound okAt cn qe
  | cn, .pctRules p _ => usesOk n okFound okAt cn p
  | cn, .forRange _ qe lo hi body =>
      usesOk n okFound okAt cn qe && usesOk n okFound okAt cn lo && usesOk n okFound okAt cn hi &&
      usesOk n okFound okAt cn body
  | cn, .forEnum _ qe items body =>
      usesOk n okFound okAt cn qe && usesOkList n okFound okAt cn items && usesOk n okFound okAt cn body
  | cn, .forOf _ qe set body =>
      usesOk n okFound okAt cn qe && usesOk n okFound okAt (set.contains n) body
def usesOkList (n : Nat) (okFound : Bool) (okAt : Int → Bool) : Bool → List Expr → Bool
  | _, [] => true
  | cn, e :: es => usesOk n okFound okAt cn e && usesOkList n okFound okAt cn es
end

/-- every use of string `n` is `$n at k` with this one integer literal `k` (also as `$ at k` inside a `for..of` over a
    set containing it) -/
def onlyAt (n : Nat) (k : Int) (e : Expr) : Bool := usesOk n false (fun x => x == k) false e

/-- string `n` is only tested for presence: `$n`, member of a plain `N of` / `P% of` set, `$` in a `for..of` body -/
def onlyFound (n : Nat) (e : Expr) : Bool := usesOk n true (fun _ => false) false e

/-- a conservative mirror of grammar.y's `required_strings.count > 0`: the condition cannot hold when no string matched.
    `$a`, `$a at e`, `$a in (..)`: 1;  `all/any/N of S [in/at]` with the integer LITERAL N > 0 and S non-empty: 1;
    `P% of S` with the literal P >= 1: 1;  `and`: sum;  `or`: minimum;  everything else: 0. -/
def needsMatch : Expr → Bool
  | .found _ | .foundAt _ _ | .foundIn _ _ _ => true
  | .ofStr q qe set | .ofStrIn q qe set _ _ | .ofStrAt q qe set _ =>
      !set.isEmpty && (match q, qe with
        | .all, _ => true
        | .any, _ => true
        | .num, .int k => decide (k > 0)
        | _, _ => false)
  | .pctStr (.int p) set => !set.isEmpty && decide (p ≥ 1)
  | .and a b => needsMatch a || needsMatch b
  | .or a b => needsMatch a && needsMatch b
  | _ => false

end YaraModel.Cond
