/-
  C14 specification — written from the property text, independent of how the C code computes:
  "hash.* return the standard digest of exactly the addressed bytes (clipped at the end of the
  buffer, undefined when the offset lies outside it) … the math statistics and conversions …
  equal their mathematical definitions".  Bytes are numbers 0..255.  Core Lean only.
-/
namespace YaraModel.HM.Spec

abbrev Bytes := List UInt8

/-- The addressed bytes of a buffer: `buf[off, min(off+len, |buf|))`. -/
def slice (buf : Bytes) (off len : Nat) : Bytes := (buf.drop off).take len

/-- Range semantics on one buffer placed at address `base`: defined exactly when
    `0 ≤ len`, `base ≤ off < base + |buf|`. -/
def addressed (base : Nat) (buf : Bytes) (off len : Int) : Option Bytes :=
  if 0 ≤ len ∧ (base : Int) ≤ off ∧ off < (base : Int) + buf.length
  then some (slice buf (off.toNat - base) len.toNat) else none

/-! Range semantics over several mapped regions (memory blocks): the scanned memory is a partial
    map address → byte; "clipped at the end of the buffer" = at the highest mapped address;
    a range that starts at an unmapped address or needs an unmapped address before that end
    (a gap) is undefined. -/

/-- byte at address `a` -/
def memAt : List (Nat × Bytes) → Nat → Option UInt8
  | [], _ => none
  | (base, d) :: rest, a => if base ≤ a ∧ a < base + d.length then d[a - base]? else memAt rest a

/-- end of the mapped memory -/
def memEnd : List (Nat × Bytes) → Nat
  | [] => 0
  | (base, d) :: rest => max (base + d.length) (memEnd rest)

/-- `n` consecutive bytes from address `a`; none if one of them is unmapped -/
def readFrom (mem : List (Nat × Bytes)) : Nat → Nat → Option Bytes
  | _, 0 => some []
  | a, n + 1 =>
    match memAt mem a, readFrom mem (a + 1) n with
    | some b, some r => some (b :: r)
    | _, _ => none

def addressedMem (mem : List (Nat × Bytes)) (off len : Int) : Option Bytes :=
  if off < 0 ∨ len < 0 then none
  else if (memAt mem off.toNat).isNone then none
  else readFrom mem off.toNat (min (off.toNat + len.toNat) (memEnd mem) - off.toNat)

/-! ### CRC-32 (IEEE 802.3, reflected, polynomial 0xEDB88320, init and final xor 0xFFFFFFFF) -/

/-- One bit: shift right, xor the polynomial when the bit shifted out is 1. -/
def crcStep (c : UInt32) : UInt32 :=
  if c &&& 1 = 1 then (c >>> 1) ^^^ 0xEDB88320 else c >>> 1

def crcBit8 (c : UInt32) : UInt32 :=
  crcStep (crcStep (crcStep (crcStep (crcStep (crcStep (crcStep (crcStep c)))))))

/-- The table entry for index `i` by definition. -/
def crcBit (i : Nat) : UInt32 := crcBit8 (UInt32.ofNat i)

/-- Bitwise CRC-32 of a byte string. -/
def bitwiseCrc (bs : Bytes) : UInt32 :=
  (bs.foldl (fun c b => crcBit8 (c ^^^ b.toUInt32)) 0xFFFFFFFF) ^^^ 0xFFFFFFFF

/-! ### checksum32 -/

def sumBytes (bs : Bytes) : Nat := (bs.map (·.toNat)).sum

def checksum32 (bs : Bytes) : Nat := sumBytes bs % 4294967296

/-! ### statistics -/

def count (bs : Bytes) (v : Nat) : Nat := bs.countP (fun b => b.toNat = v)

def absRat (q : Rat) : Rat := if q < 0 then -q else q

def sumRat (xs : List Rat) : Rat := xs.foldr (· + ·) 0

/-- arithmetic mean of the byte values; undefined for the empty string -/
def mean (bs : Bytes) : Option Rat :=
  if bs.length = 0 then none else some (sumRat (bs.map fun b => (b.toNat : Rat)) / (bs.length : Rat))

/-- mean absolute deviation from `m` -/
def deviation (bs : Bytes) (m : Rat) : Option Rat :=
  if bs.length = 0 then none
  else some (sumRat (bs.map fun b => absRat ((b.toNat : Rat) - m)) / (bs.length : Rat))

/-- fraction of bytes equal to `v` -/
def percentage (bs : Bytes) (v : Nat) : Option Rat :=
  if bs.length = 0 then none else some ((count bs v : Rat) / (bs.length : Rat))

/-- `m` is the mode: the smallest byte value among the most frequent ones. -/
def IsMode (bs : Bytes) (m : Nat) : Prop :=
  m < 256 ∧ (∀ v, v < 256 → count bs v ≤ count bs m) ∧ (∀ v, v < m → count bs v < count bs m)

/-- Σ of products of cyclically adjacent values: x0·x1 + x1·x2 + … (without the closing term). -/
def pairSum : List Int → Int
  | a :: b :: t => a * b + pairSum (b :: t)
  | _ => 0

def sumInt (xs : List Int) : Int := xs.foldr (· + ·) 0

/-- (n·t1 − s²) / (n·t3 − s²), and −100000 when the denominator is 0 -/
def sccFormula (n : Nat) (t1 s t3 : Int) : Rat :=
  if (n : Int) * t3 - s * s = 0 then -100000
  else (((n : Int) * t1 - s * s : Int) : Rat) / (((n : Int) * t3 - s * s : Int) : Rat)

/-- Serial correlation coefficient (ent's definition): with n values x_i and cyclic neighbour,
    (n·Σ x_i·x_{i+1} − (Σx)²) / (n·Σ x_i² − (Σx)²), and −100000 when the denominator is 0. -/
def serialCorrelationOf (xs : List Int) : Rat :=
  sccFormula xs.length (pairSum xs + (xs.getLast?.getD 0) * (xs.head?.getD 0)) (sumInt xs)
    (sumInt (xs.map fun x => x * x))

def serialCorrelation (bs : Bytes) : Rat := serialCorrelationOf (bs.map fun b => (b.toNat : Int))

/-- Monte-Carlo pi: successive groups of 6 bytes of the addressed range are two 24-bit
    coordinates; (hits, groups). -/
def mcCount : Bytes → Nat × Nat
  | a :: b :: c :: d :: e :: f :: rest =>
    let mx : Int := ((a.toNat : Int) * 256 + b.toNat) * 256 + c.toNat
    let my : Int := ((d.toNat : Int) * 256 + e.toNat) * 256 + f.toNat
    let r := mcCount rest
    (r.1 + 1, r.2 + (if mx * mx + my * my ≤ (16777216 - 1) * (16777216 - 1) then 1 else 0))
  | _ => (0, 0)

def piRat : Rat := (3141592653589793 : Rat) / (1000000000000000 : Rat)

/-- |4·hits/groups − π| / π; undefined without a complete group -/
def monteCarloPi (bs : Bytes) : Option Rat :=
  let r := mcCount bs
  if r.1 = 0 then none
  else some (absRat (((4 : Rat) * ((r.2 : Rat) / (r.1 : Rat)) - piRat) / piRat))

end YaraModel.HM.Spec
