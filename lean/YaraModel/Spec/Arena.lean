/-
  Specification-level notions for the arena properties (C08, C17, C19), written from the property
  texts: what "the same compiled rules" means independently of addresses (`abs`, in Model/Arena.lean,
  is what every save writes), the protocol under which clients use an arena (`WF`), what an allocator
  may return (`Fresh`), and address-space changes (`rebase`).
-/
import YaraModel.Model.Arena
namespace YaraModel.Arena
open YaraModel.Gen.ArenaLayout

/-- two 8-byte slots do not share a byte -/
def NoOverlap (r s : Ref) : Prop := r.buf ≠ s.buf ∨ r.off + 8 ≤ s.off ∨ s.off + 8 ≤ r.off

/-- the slots of a list are pairwise disjoint and inside the used bytes -/
def SlotsOk (a : Arena) (rs : List Ref) : Prop := rs.Pairwise NoOverlap ∧ ∀ r ∈ rs, InB a r

/-- address `p` lies in the used bytes of buffer `b` (which is allocated) -/
def Hits (b : Buf) (p : Nat) : Prop := b.base ≠ 0 ∧ b.base ≤ p ∧ p < b.base + b.data.length

instance (b : Buf) (p : Nat) : Decidable (Hits b p) := by unfold Hits; exact inferInstance

/-- two buffers occupy disjoint address ranges (unallocated buffers occupy nothing) -/
def Apart (b c : Buf) : Prop := b.base = 0 ∨ c.base = 0 ∨ b.base + b.cap ≤ c.base ∨ c.base + c.cap ≤ b.base

/-- the heap picture: used bytes within capacity, every block inside the 64-bit address space,
    blocks pairwise disjoint, unallocated buffers empty -/
structure RangesOk (bufs : List Buf) : Prop where
  fits : ∀ b ∈ bufs, b.data.length ≤ b.cap ∧ b.base + b.cap ≤ 2 ^ 64
  null : ∀ b ∈ bufs, b.base = 0 → b.cap = 0
  apart : bufs.Pairwise Apart

/-- a relocatable pointer is null or points to a used byte of some buffer -/
def ValidPtr (bufs : List Buf) (v : Nat) : Prop :=
  v = 0 ∨ ∃ i, i < bufs.length ∧ Hits (bufs.getD i {}) v

/-- the protocol under which the arena is used (the part the correspondence checks on the real
    compiler): registered slots are distinct 8-byte fields inside used bytes, each holds null or a
    pointer into used bytes of the arena, blocks are where the allocator put them, and the sizes
    fit the file format (at most `maxBuffers` buffers, each below 4 GB) -/
structure WF (a : Arena) : Prop where
  slots : SlotsOk a a.relocs
  ranges : RangesOk a.bufs
  valid : ∀ r ∈ a.relocs, ValidPtr a.bufs (getSlot a r)
  count : a.bufs.length ≤ maxBuffers
  sizes : ∀ b ∈ a.bufs, b.data.length < 2 ^ 32

/-- what realloc may answer when buffer `b` grows to capacity `nc`: a non-null block inside the
    address space, big enough, not overlapping any other buffer, and either the old block extended
    in place or a block disjoint from the old one -/
structure Fresh (a : Arena) (b newBase nc : Nat) : Prop where
  nonnull : newBase ≠ 0
  fits : (a.bufAt b).data.length ≤ nc ∧ newBase + nc ≤ 2 ^ 64
  others : ∀ j, j < a.bufs.length → j ≠ b → (a.bufAt j).base = 0 ∨
      newBase + nc ≤ (a.bufAt j).base ∨ (a.bufAt j).base + (a.bufAt j).cap ≤ newBase
  old : newBase = (a.bufAt b).base ∨ (a.bufAt b).base = 0 ∨
      newBase + nc ≤ (a.bufAt b).base ∨ (a.bufAt b).base + (a.bufAt b).cap ≤ newBase

/-- the capacity `_yr_arena_allocate_memory` works with (the always-move hook pretends the buffer is full) -/
def effCap (cfg : Cfg) (a : Arena) (b size : Nat) : Nat :=
  if cfg.alwaysMove ∧ (a.bufAt b).base ≠ 0 ∧ size > 0 then (a.bufAt b).data.length else (a.bufAt b).cap

/-- the request makes buffer `b` grow -/
def Grows (cfg : Cfg) (a : Arena) (b size : Nat) : Prop := effCap cfg a b size - (a.bufAt b).data.length < size

/-- the allocator's answer `newBase` is admissible for this request (it is only looked at if the buffer grows) -/
def AllocFresh (cfg : Cfg) (newBase : Nat) (a : Arena) (b size : Nat) : Prop :=
  Grows cfg a b size → Fresh a b newBase (newCap a.init (effCap cfg a b size) (a.bufAt b).data.length size)

/-- an allocation request: `yr_arena_write_data(b, fill)` or, with `zero`, an allocation of zeroed memory -/
structure Req where
  b : Nat
  zero : Bool
  fill : Bytes

/-- a sequence of allocations; the i-th one gets the i-th answer of the allocator -/
def runAllocs (cfg : Cfg) : List Nat → Arena → List Req → Except Err Arena
  | _, a, [] => .ok a
  | [], _, _ :: _ => .error .invalidArgument
  | nb :: nbs, a, q :: qs =>
    match allocMem cfg nb a q.b q.zero q.fill with
    | .ok (a1, _) => runAllocs cfg nbs a1 qs
    | .error e => .error e

/-- every answer of the allocator along the run is admissible (`AllocFresh`) and buffers stay below 4 GB -/
def Admissible (cfg : Cfg) : List Nat → Arena → List Req → Prop
  | _, _, [] => True
  | [], _, _ :: _ => False
  | nb :: nbs, a, q :: qs =>
    AllocFresh cfg nb a q.b q.fill.length ∧ (a.bufAt q.b).data.length + q.fill.length < 2 ^ 32 ∧
      ∀ a1 r, allocMem cfg nb a q.b q.zero q.fill = .ok (a1, r) → Admissible cfg nbs a1 qs

instance (bufs : List Buf) (v : Nat) : Decidable (ValidPtr bufs v) := by unfold ValidPtr; exact inferInstance
instance (b c : Buf) : Decidable (Apart b c) := by unfold Apart; exact inferInstance
instance (r s : Ref) : Decidable (NoOverlap r s) := by unfold NoOverlap; exact inferInstance
instance (a : Arena) (rs : List Ref) : Decidable (SlotsOk a rs) := by unfold SlotsOk; exact inferInstance

/-- buffer `i` placed at address `f i` (unallocated buffers stay unallocated) -/
def setBases (f : Nat → Nat) (bufs : List Buf) : List Buf :=
  bufs.mapIdx (fun i b => if b.base = 0 then b else { b with base := f i })

/-- the same arena at other addresses: every block moved to `f i`, registered pointers follow -/
def rebase (a : Arena) (f : Nat → Nat) : Arena :=
  let moved := a.relocs.foldl (fun x r =>
      setSlot x r (match (ptrToRef a.bufs (getSlot x r)).2 with
                   | none => getSlot x r
                   | some t => f t.buf + t.off)) a
  { moved with bufs := setBases f moved.bufs }

/-- the bytes of a saved image as a function of the abstract arena only -/
def saveOfAbs (x : List Bytes × List Ref) : Bytes :=
  let n := x.1.length
  header n ++ table (headerSize + tableEntrySize * n) (x.1.map (·.length)) ++ x.1.flatten ++ relocBytes x.2

/-- file offset where the buffer bodies start / end (= where the relocation entries start) -/
def bodiesStart (a : Arena) : Nat := headerSize + tableEntrySize * a.bufs.length
def bodiesEnd (a : Arena) : Nat := bodiesStart a + ((bodies a).map (·.length)).sum

end YaraModel.Arena
