/-
  Specification-level notions for the arena properties (C08, C17, C19), written from the property
  texts: what "the same compiled rules" means independently of addresses (`abs`, in Model/Arena.lean,
  is what every save writes), the protocol under which clients use an arena (`WF`), what an allocator
  may return (`Fresh`), and address-space changes (`rebase`).
-/
import YaraModel.Model.Arena
namespace YaraModel.Arena
open YaraModel.Gen.ArenaLayout

/-- two 8-byte slots do not share a byte -/
def NoOverlap (r s : Ref) : Prop := r.buf ≠ s.buf ∨ r.off + 8 ≤ s.off ∨ s.off + 8 ≤ r.off

/-- the slots of a list are pairwise disjoint and inside the used bytes -/
def SlotsOk (a : Arena) (rs : List Ref) : Prop := rs.Pairwise NoOverlap ∧ ∀ r ∈ rs, InB a r

/-- address `p` lies in the used bytes of buffer `b` (which is allocated) -/
def Hits (b : Buf) (p : Nat) : Prop := b.base ≠ 0 ∧ b.base ≤ p ∧ p < b.base + b.data.length

instance (b : Buf) (p : Nat) : Decidable (Hits b p) := by unfold Hits; exact inferInstance

/-- two buffers occupy disjoint address ranges (unallocated buffers occupy nothing) -/
def Apart (b c : Buf) : Prop := b.base = 0 ∨ c.base = 0 ∨ b.base + b.cap ≤ c.base ∨ c.base + c.cap ≤ b.base

/-- the heap picture: used bytes within capacity, every block inside the 64-bit address space,
    blocks pairwise disjoint, unallocated buffers empty -/
structure RangesOk (bufs : List Buf) : Prop where
  fits : ∀ b ∈ bufs, b.data.length ≤ b.cap ∧ b.base + b.cap ≤ 2 ^ 64
  null : ∀ b ∈ bufs, b.base = 0 → b.cap = 0
  apart : bufs.Pairwise Apart

/-- a relocatable pointer is null or points to a used byte of some buffer -/
def ValidPtr (bufs : List Buf) (v : Nat) : Prop :=
  v = 0 ∨ ∃ i, i < bufs.length ∧ Hits (bufs.getD i {}) v

/-- the protocol under which the arena is used (the part the correspondence checks on the real
    compiler): registered slots are distinct 8-byte fields inside used bytes, each holds null or a
    pointer into used bytes of the arena, blocks are where the allocator put them, and the sizes
    fit the file format (at most `maxBuffers` buffers, each below 4 GB) -/
structure WF (a : Arena) : Prop where
  slots : SlotsOk a a.relocs
  ranges : RangesOk a.bufs
  valid : ∀ r ∈ a.relocs, ValidPtr a.bufs (getSlot a r)
  count : a.bufs.length ≤ maxBuffers
  sizes : ∀ b ∈ a.bufs, b.data.length < 2 ^ 32

/-- what realloc may answer when buffer `b` grows to capacity `nc`: a non-null block inside the
    address space, big enough, not overlapping any other buffer, and either the old block extended
    in place or a block disjoint from the old one -/
structure Fresh (a : Arena) (b newBase nc : Nat) : Prop where
  nonnull : newBase ≠ 0
  fits : (a.bufAt b).data.length ≤ nc ∧ newBase + nc ≤ 2 ^ 64
  others : ∀ j, j < a.bufs.length → j ≠ b → (a.bufAt j).base = 0 ∨
      newBase + nc ≤ (a.bufAt j).base ∨ (a.bufAt j).base + (a.bufAt j).cap ≤ newBase
  old : newBase = (a.bufAt b).base ∨ (a.bufAt b).base = 0 ∨
      newBase + nc ≤ (a.bufAt b).base ∨ (a.bufAt b).base + (a.bufAt b).cap ≤ newBase

/-- the capacity `_yr_arena_allocate_memory` works with (the always-move hook pretends the buffer is full) -/
def effCap (cfg : Cfg) (a : Arena) (b size : Nat) : Nat :=
  if cfg.alwaysMove ∧ (a.bufAt b).base ≠ 0 ∧ size > 0 then (a.bufAt b).data.length else (a.bufAt b).cap

/-- the request makes buffer `b` grow -/
def Grows (cfg : Cfg) (a : Arena) (b size : Nat) : Prop := effCap cfg a b size - (a.bufAt b).data.length < size

/-- the allocator's answer `newBase` is admissible for this request (it is only looked at if the buffer grows) -/
def AllocFresh (cfg : Cfg) (newBase : Nat) (a : Arena) (b size : Nat) : Prop :=
  Grows cfg a b size → Fresh a b newBase (newCap a.init (effCap cfg a b size) (a.bufAt b).data.length size)

/-- an allocation request: `yr_arena_write_data(b, fill)` or, with `zero`, an allocation of zeroed memory -/
structure Req where
  b : Nat
  zero : Bool
  fill : Bytes

/-- a sequence of allocations; the i-th one gets the i-th answer of the allocator -/
def runAllocs (cfg : Cfg) : List Nat → Arena → List Req → Except Err Arena
  | _, a, [] => .ok a
  | [], _, _ :: _ => .error .invalidArgument
  | nb :: nbs, a, q :: qs =>
    match allocMem cfg nb a q.b q.zero q.fill with
    | .ok (a1, _) => runAllocs cfg nbs a1 qs
    | .error e => .error e

/-- every answer of the allocator along the run is admissible (`AllocFresh`) and buffers stay below 4 GB -/
def Admissible (cfg : Cfg) : List Nat → Arena → List Req → Prop
  | _, _, [] => True
  | [], _, _ :: _ => False
  | nb :: nbs, a, q :: qs =>
    AllocFresh cfg nb a q.b q.fill.length ∧ (a.bufAt q.b).data.length + q.fill.length < 2 ^ 32 ∧
      ∀ a1 r, allocMem cfg nb a q.b q.zero q.fill = .ok (a1, r) → Admissible cfg nbs a1 qs

/-! ## the address-free abstract machine (C19)

An abstract arena is what `abs` extracts from a concrete one: every buffer's bytes, with each registered
8-byte slot holding the *reference* (buffer, offset) its pointer denotes, and the list of registered
slots.  No address, capacity, initial size or allocator answer appears.  `astep` is the effect of one
client operation on it and what the client observes; it is *undefined* (none) exactly when the
operation leaves the protocol under which clients use an arena:

* allocations go to existing buffers and keep them below 4 GB;
* a slot is registered (make_ptr_relocatable) only if it lies inside used bytes, overlaps no registered
  slot and currently holds NULL — or a valid pointer is stored into it right before / after the
  registration with no allocation in between (`regPtr`); a pointer is written and registered in one step
  by `ptr` (write_data(&p) + make_ptr_relocatable) and must then point into another buffer (no raw
  pointer is kept across an allocation of the buffer it points into);
* a pointer stored into a registered slot is NULL or points to a used byte;
* memcpy into allocated memory (`poke`) stays inside used bytes and touches no registered slot;
* queries are made on registered slots / on references to used bytes. -/

abbrev AArena := List Bytes × List Ref

def aBody (x : AArena) (b : Nat) : Bytes := x.1.getD b []

/-- what an allocation does to the abstract arena: the bytes are appended to the buffer's body -/
def absAppend (x : AArena) (b : Nat) (f : Bytes) : AArena := (x.1.modify b (· ++ f), x.2)

/-- the 8 bytes of slot `s` become the image of `v` -/
def aSet (x : AArena) (s : Ref) (v : Nat) : AArena := (x.1.modify s.buf (fun d => wr64 d s.off v), x.2)

/-- `s` is appended to the list of registered slots -/
def aReg (x : AArena) (s : Ref) : AArena := (x.1, x.2 ++ [s])

/-- null, or a reference to a used byte of an existing buffer -/
def ATarget (x : AArena) : Option Ref → Bool
  | none => true
  | some t => decide (t.buf < x.1.length) && decide (t.off < (aBody x t.buf).length)

/-- the bytes [off, off+len) of buffer `b` touch no registered slot -/
def aFree (x : AArena) (b off len : Nat) : Bool :=
  x.2.all (fun r => decide (r.buf ≠ b) || decide (r.off + 8 ≤ off) || decide (off + len ≤ r.off))

def aAlloc (x : AArena) (b : Nat) (fill : Bytes) : Option (AArena × Ref) :=
  if b < x.1.length ∧ (aBody x b).length + fill.length < 2 ^ 32 then
    some (absAppend x b fill, ⟨b, (aBody x b).length⟩)
  else none

/-- registering the slot at offset `o` of buffer `b`, which holds NULL: it now holds the null reference -/
def aReloc (x : AArena) (b o : Nat) : Option AArena :=
  if b < x.1.length ∧ o + 8 ≤ (aBody x b).length ∧ aFree x b o 8 = true ∧ rd64 (aBody x b) o = 0 then
    some (aReg (aSet x ⟨b, o⟩ nullRefVal) ⟨b, o⟩)
  else none

def aRelocs (b base : Nat) : AArena → List Nat → Option AArena
  | x, [] => some x
  | x, o :: os =>
    match aReloc x b (base + o) with
    | some x1 => aRelocs b base x1 os
    | none => none

/-- one client operation on the abstract arena: (arena afterwards, what the client observes), or none if
    the operation is outside the protocol -/
def astep (x : AArena) : Op → Option (AArena × Out)
  | .write b bytes =>
      match aAlloc x b bytes with
      | some (x1, r) => some (x1, .ref r)
      | none => none
  | .zalloc b size =>
      match aAlloc x b (zeros size) with
      | some (x1, r) => some (x1, .ref r)
      | none => none
  | .struct b size offs =>
      match aAlloc x b (zeros size) with
      | some (x1, r) =>
        match aRelocs b r.off x1 offs with
        | some x2 => some (x2, .ref r)
        | none => none
      | none => none
  | .reloc b off =>
      match aReloc x b off with
      | some x1 => some (x1, .unit)
      | none => none
  | .setPtr slot target =>
      if slot ∈ x.2 ∧ ATarget x target = true then some (aSet x slot (encRef target), .unit) else none
  | .ptr b target =>
      if ATarget x target = true ∧ (∀ t, target = some t → t.buf ≠ b) then
        match aAlloc x b (leBytes 8 (encRef target)) with
        | some (x1, r) => some (aReg x1 r, .ref r)
        | none => none
      else none
  | .poke at_ bytes =>
      if at_.buf < x.1.length ∧ at_.off + bytes.length ≤ (aBody x at_.buf).length ∧ aFree x at_.buf at_.off bytes.length = true then
        some ((x.1.modify at_.buf (fun d => wrBytes d at_.off bytes), x.2), .unit)
      else none
  | .ref slot =>
      if slot ∈ x.2 then some (x, .found (decRef (rd64 (aBody x slot.buf) slot.off))) else none
  | .rt target =>
      if ATarget x target = true then some (x, .found target) else none
  | .regPtr slot target =>
      if slot.buf < x.1.length ∧ slot.off + 8 ≤ (aBody x slot.buf).length ∧ aFree x slot.buf slot.off 8 = true ∧ ATarget x target = true then
        some (aReg (aSet x slot (encRef target)) slot, .unit)
      else none

/-- a sequence of operations on the abstract arena with everything the client observes -/
def arun : AArena → List Op → Option (AArena × List Out)
  | x, [] => some (x, [])
  | x, op :: ops =>
    match astep x op with
    | none => none
    | some (x1, o) =>
      match arun x1 ops with
      | none => none
      | some (x2, os) => some (x2, o :: os)

/-- **the protocol**, as a decidable predicate on an operation sequence (given the abstract content it starts from) -/
def OpsOK (x : AArena) (ops : List Op) : Bool := (arun x ops).isSome

/-- the abstract content of a freshly created arena of `n` buffers -/
def aCreate (n : Nat) : AArena := (List.replicate n [], [])

/-- (buffer, size) of the allocation an operation performs, if any -/
def opAlloc : Op → Option (Nat × Nat)
  | .write b bytes => some (b, bytes.length)
  | .zalloc b size => some (b, size)
  | .struct b size _ => some (b, size)
  | .ptr b _ => some (b, 8)
  | _ => none

/-- the allocator's answer to this operation (looked at only if the operation allocates and the buffer grows) is admissible -/
def StepFresh (cfg : Cfg) (nb : Nat) (a : Arena) (op : Op) : Prop :=
  match opAlloc op with
  | some (b, size) => AllocFresh cfg nb a b size
  | none => True

/-- every answer of the allocator along the concrete run is admissible: an **arbitrary admissible realloc schedule** -/
def AdmRun (cfg : Cfg) : List Nat → Arena → List Op → Prop
  | _, _, [] => True
  | nbs, a, op :: ops =>
    StepFresh cfg (nbs.headD 0) a op ∧
      ∀ a1 o, exec cfg (nbs.headD 0) a op = .ok (a1, o) → AdmRun cfg nbs.tail a1 ops

/-! ## never-cleared memory

`_yr_arena_allocate_memory` clears memory only on the growth path, so a zeroed allocation served from spare
capacity left by a *raw* growth returns whatever realloc left there: the model flags this (`unspec`) instead of
inventing contents.  The side condition under which it cannot happen is a property of the op list alone. -/

/-- the buffer that receives a raw (not zeroed) allocation -/
def opRaw : Op → Option Nat
  | .write b _ => some b
  | .ptr b _ => some b
  | _ => none

def opZeroed : Op → Option Nat
  | .zalloc b _ => some b
  | .struct b _ _ => some b
  | _ => none

/-- no zeroed allocation goes to a buffer that earlier received a raw allocation (`raws`: those so far) -/
def KindsOK : List Nat → List Op → Bool
  | _, [] => true
  | raws, op :: ops =>
    (match opZeroed op with
     | some b => !raws.contains b
     | none => true) &&
    KindsOK (match opRaw op with | some b => b :: raws | none => raws) ops

def DirtyIn (a : Arena) (raws : List Nat) : Prop := ∀ j, (a.bufAt j).dirty = true → j ∈ raws

instance (a : Arena) (b newBase nc : Nat) : Decidable (Fresh a b newBase nc) :=
  decidable_of_iff
    (newBase ≠ 0 ∧ ((a.bufAt b).data.length ≤ nc ∧ newBase + nc ≤ 2 ^ 64) ∧
      (∀ j, j < a.bufs.length → j ≠ b → (a.bufAt j).base = 0 ∨ newBase + nc ≤ (a.bufAt j).base ∨ (a.bufAt j).base + (a.bufAt j).cap ≤ newBase) ∧
      (newBase = (a.bufAt b).base ∨ (a.bufAt b).base = 0 ∨ newBase + nc ≤ (a.bufAt b).base ∨ (a.bufAt b).base + (a.bufAt b).cap ≤ newBase))
    ⟨fun ⟨h1, h2, h3, h4⟩ => ⟨h1, h2, h3, h4⟩, fun h => ⟨h.nonnull, h.fits, h.others, h.old⟩⟩

instance (cfg : Cfg) (a : Arena) (b size : Nat) : Decidable (Grows cfg a b size) := by unfold Grows; exact inferInstance
instance (cfg : Cfg) (nb : Nat) (a : Arena) (b size : Nat) : Decidable (AllocFresh cfg nb a b size) := by
  unfold AllocFresh; exact inferInstance
instance (cfg : Cfg) (nb : Nat) (a : Arena) (op : Op) : Decidable (StepFresh cfg nb a op) := by
  unfold StepFresh
  cases opAlloc op with
  | none => exact inferInstance
  | some p => exact inferInstance

/-- executable form of `AdmRun` (sound: Lemmas/ArenaExec.lean `admRun_of_check`) -/
def admCheck (cfg : Cfg) : List Nat → Arena → List Op → Bool
  | _, _, [] => true
  | nbs, a, op :: ops =>
    decide (StepFresh cfg (nbs.headD 0) a op) &&
      match exec cfg (nbs.headD 0) a op with
      | .ok (a1, _) => admCheck cfg nbs.tail a1 ops
      | .error _ => true

instance (bufs : List Buf) (v : Nat) : Decidable (ValidPtr bufs v) := by unfold ValidPtr; exact inferInstance
instance (b c : Buf) : Decidable (Apart b c) := by unfold Apart; exact inferInstance
instance (r s : Ref) : Decidable (NoOverlap r s) := by unfold NoOverlap; exact inferInstance
instance (bufs : List Buf) : Decidable (RangesOk bufs) :=
  decidable_of_iff
    ((∀ b ∈ bufs, b.data.length ≤ b.cap ∧ b.base + b.cap ≤ 2 ^ 64) ∧ (∀ b ∈ bufs, b.base = 0 → b.cap = 0) ∧ bufs.Pairwise Apart)
    ⟨fun ⟨h1, h2, h3⟩ => ⟨h1, h2, h3⟩, fun h => ⟨h.fits, h.null, h.apart⟩⟩
instance (a : Arena) (rs : List Ref) : Decidable (SlotsOk a rs) := by unfold SlotsOk; exact inferInstance

/-- buffer `i` placed at address `f i` (unallocated buffers stay unallocated) -/
def setBases (f : Nat → Nat) (bufs : List Buf) : List Buf :=
  bufs.mapIdx (fun i b => if b.base = 0 then b else { b with base := f i })

/-- the same arena at other addresses: every block moved to `f i`, registered pointers follow -/
def rebase (a : Arena) (f : Nat → Nat) : Arena :=
  let moved := a.relocs.foldl (fun x r =>
      setSlot x r (match (ptrToRef a.bufs (getSlot x r)).2 with
                   | none => getSlot x r
                   | some t => f t.buf + t.off)) a
  { moved with bufs := setBases f moved.bufs }

/-- the bytes of a saved image as a function of the abstract arena only -/
def saveOfAbs (x : List Bytes × List Ref) : Bytes :=
  let n := x.1.length
  header n ++ table (headerSize + tableEntrySize * n) (x.1.map (·.length)) ++ x.1.flatten ++ relocBytes x.2

/-! ## single-field corruption of a compiled-rules file (C17) -/

/-- the file `img` with the `bs.length` bytes at offset `off` overwritten by `bs` -/
def patch (img : Bytes) (off : Nat) (bs : Bytes) : Bytes := img.take off ++ bs ++ img.drop (off + bs.length)

/-- file offsets of the fields of the header and of the `i`-th buffer-table entry -/
def offsetFieldAt (i : Nat) : Nat := headerSize + tableEntrySize * i + tblOffsetOff
def sizeFieldAt (i : Nat) : Nat := headerSize + tableEntrySize * i + tblSizeOff

/-- the loader with every validation of the current source tree (offset cross-check, guarded relocation bounds test,
    reference-target test with `>=`, trailing partial entry refused) -/
structure Hardened (cfg : LoaderCfg) : Prop where
  offs : cfg.checksOffsets = true
  guarded : cfg.relocGuarded = true
  refs : cfg.validatesRefs = true
  strict : cfg.refStrict = true
  part : cfg.rejectsPartial = true

/-- file offset where the buffer bodies start / end (= where the relocation entries start) -/
def bodiesStart (a : Arena) : Nat := headerSize + tableEntrySize * a.bufs.length
def bodiesEnd (a : Arena) : Nat := bodiesStart a + ((bodies a).map (·.length)).sum

end YaraModel.Arena
