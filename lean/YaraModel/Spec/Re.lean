/-
  D6 — Specification of YARA regular expressions / hex patterns (C02, C03).  Core Lean only.

  `Re` has exactly the node kinds `RE_NODE_*` of libyara/include/yara/re.h (n-ary RE_NODE_CONCAT is
  folded to a binary `cat`).  The meaning of an expression is the *set of end positions* reachable
  from a start position in a buffer:

      Re.ends fl buf r p : List Nat

  defined by structural recursion on `r` over sets of positions (no backtracking, no fuel in the
  statement: `star`/`plus` are a closure over the finite position set, `range` a bounded closure).
  An independent relational formulation `Re.Matches` is given below; `Lemmas/Re.lean` proves
  `q ∈ r.ends fl buf p ↔ Re.Matches fl buf r p q` for every node kind.

  The spec is written from the documentation (docs/writingrules.rst, "Regular expressions",
  "Hexadecimal strings"):  `.` any byte except newline unless /s;  \w = alphanumeric or `_`;
  \s = space \t \r \n \v \f;  \d = 0-9;  \b word boundary;  ^ / $ start / end of the scanned data;
  nocase / `/i` = ASCII case folding;  wide = every character is followed by a 0x00 byte.
  Greedy flags are carried by the nodes but do not change the SET of possible matches.
-/
namespace YaraModel.Re

abbrev Bytes := Array UInt8

structure Flags where
  wide : Bool := false
  nocase : Bool := false
  dotall : Bool := false
  deriving DecidableEq, Repr, Inhabited

/-- character size in bytes -/
def Flags.cs (fl : Flags) : Nat := if fl.wide then 2 else 1

/-! ### byte classes -/
def isAlnum (c : UInt8) : Bool := (48 ≤ c && c ≤ 57) || (65 ≤ c && c ≤ 90) || (97 ≤ c && c ≤ 122)
def isWordByte (c : UInt8) : Bool := isAlnum c || c == 95
def isSpaceByte (c : UInt8) : Bool := c == 32 || c == 9 || c == 13 || c == 10 || c == 11 || c == 12
def isDigitByte (c : UInt8) : Bool := 48 ≤ c && c ≤ 57
def lower (c : UInt8) : UInt8 := if 65 ≤ c && c ≤ 90 then c + 32 else c
def altercase (c : UInt8) : UInt8 :=
  if 97 ≤ c && c ≤ 122 then c - 32 else if 65 ≤ c && c ≤ 90 then c + 32 else c

/-- membership in a 256-bit class bitmap (bit `c` of the number) -/
def inBitmap (bm : Nat) (c : UInt8) : Bool := bm.testBit c.toNat

inductive Re where
  | lit (b : UInt8)
  | masked (v m : UInt8)
  | notLit (b : UInt8)
  | maskedNot (v m : UInt8)
  | any
  | cls (bitmap : Nat) (neg : Bool)
  | wordCh | nonWordCh | space | nonSpace | digit | nonDigit
  | empty
  | cat (a b : Re)
  | alt (a b : Re)
  | star (a : Re) (greedy : Bool)
  | plus (a : Re) (greedy : Bool)
  | range (a : Re) (lo hi : Nat) (greedy : Bool)
  | rangeAny (lo hi : Nat) (greedy : Bool)
  | bol | eol | wordB | nonWordB
  deriving Repr, Inhabited, DecidableEq

/-! ### one-character tests (a node that consumes exactly one character) -/
def testLit (fl : Flags) (b c : UInt8) : Bool := if fl.nocase then lower c == lower b else c == b
def testMasked (v m c : UInt8) : Bool := (c &&& m) == v
def testAny (fl : Flags) (c : UInt8) : Bool := fl.dotall || c != 10
def testCls (fl : Flags) (bm : Nat) (neg : Bool) (c : UInt8) : Bool :=
  (inBitmap bm c || (fl.nocase && inBitmap bm (altercase c))) != neg

/-- the character starting at byte position `p` exists (in wide mode: its high byte is 0) and passes `t` -/
def charOk (fl : Flags) (buf : Bytes) (t : UInt8 → Bool) (p : Nat) : Bool :=
  match buf[p]? with
  | none => false
  | some c =>
    if fl.wide then (match buf[p+1]? with | some z => z == 0 && t c | none => false) else t c

/-- end positions of a one-character node -/
def step (fl : Flags) (buf : Bytes) (t : UInt8 → Bool) (p : Nat) : List Nat :=
  if charOk fl buf t p then [p + fl.cs] else []

/-- a word character starts at byte position `p` -/
def wordAt (fl : Flags) (buf : Bytes) (p : Nat) : Bool := charOk fl buf isWordByte p
/-- a word character ends at byte position `p` -/
def wordBefore (fl : Flags) (buf : Bytes) (p : Nat) : Bool := fl.cs ≤ p && wordAt fl buf (p - fl.cs)
def isBoundary (fl : Flags) (buf : Bytes) (p : Nat) : Bool := wordBefore fl buf p != wordAt fl buf p

/-! ### closures over position sets -/

/-- exactly `n` applications of `f` to every member of the set -/
def iterN (f : Nat → List Nat) : Nat → List Nat → List Nat
  | 0, s => s
  | n+1, s => iterN f n (s.flatMap f).eraseDups

/-- `acc` plus everything reachable from the frontier `fr ⊆ acc` by at most `n` further applications of `f`
    (breadth-first levels; stops as soon as a level adds nothing) -/
def upTo (f : Nat → List Nat) : Nat → List Nat → List Nat → List Nat
  | 0, _, acc => acc
  | n+1, fr, acc =>
    let new := ((fr.flatMap f).filter (fun x => !acc.contains x)).eraseDups
    if new.isEmpty then acc else upTo f n new (acc ++ new)

/-- the set of end positions of `r` started at position `p` -/
def Re.ends (fl : Flags) (buf : Bytes) : Re → Nat → List Nat
  | .lit b, p => step fl buf (testLit fl b) p
  | .masked v m, p => step fl buf (testMasked v m) p
  | .notLit b, p => step fl buf (fun c => c != b) p
  | .maskedNot v m, p => step fl buf (fun c => !testMasked v m c) p
  | .any, p => step fl buf (testAny fl) p
  | .cls bm neg, p => step fl buf (testCls fl bm neg) p
  | .wordCh, p => step fl buf isWordByte p
  | .nonWordCh, p => step fl buf (fun c => !isWordByte c) p
  | .space, p => step fl buf isSpaceByte p
  | .nonSpace, p => step fl buf (fun c => !isSpaceByte c) p
  | .digit, p => step fl buf isDigitByte p
  | .nonDigit, p => step fl buf (fun c => !isDigitByte c) p
  | .empty, p => [p]
  | .cat a b, p => ((a.ends fl buf p).flatMap (fun q => b.ends fl buf q)).eraseDups
  | .alt a b, p => (a.ends fl buf p ++ b.ends fl buf p).eraseDups
  | .star a _, p => upTo (fun x => a.ends fl buf x) (buf.size + 1) [p] [p]
  | .plus a _, p =>
      let s := (a.ends fl buf p).eraseDups
      upTo (fun x => a.ends fl buf x) (buf.size + 1) s s
  | .range a lo hi _, p =>
      if lo ≤ hi then
        let s := iterN (fun x => a.ends fl buf x) lo [p]
        upTo (fun x => a.ends fl buf x) (hi - lo) s s
      else []
  | .rangeAny lo hi _, p =>
      if lo ≤ hi then
        let s := iterN (step fl buf (testAny fl)) lo [p]
        upTo (step fl buf (testAny fl)) (hi - lo) s s
      else []
  | .bol, p => if p = 0 then [p] else []
  | .eol, p => if p = buf.size then [p] else []
  | .wordB, p => if isBoundary fl buf p then [p] else []
  | .nonWordB, p => if isBoundary fl buf p then [] else [p]

/-- set of match lengths at offset `o` -/
def Re.lens (fl : Flags) (buf : Bytes) (r : Re) (o : Nat) : List Nat := (r.ends fl buf o).map (· - o)

/-! ### independent relational formulation -/
inductive Re.Matches (fl : Flags) (buf : Bytes) : Re → Nat → Nat → Prop
  | lit {b p} : charOk fl buf (testLit fl b) p = true → Matches fl buf (.lit b) p (p + fl.cs)
  | masked {v m p} : charOk fl buf (testMasked v m) p = true → Matches fl buf (.masked v m) p (p + fl.cs)
  | notLit {b p} : charOk fl buf (fun c => c != b) p = true → Matches fl buf (.notLit b) p (p + fl.cs)
  | maskedNot {v m p} : charOk fl buf (fun c => !testMasked v m c) p = true → Matches fl buf (.maskedNot v m) p (p + fl.cs)
  | any {p} : charOk fl buf (testAny fl) p = true → Matches fl buf .any p (p + fl.cs)
  | cls {bm neg p} : charOk fl buf (testCls fl bm neg) p = true → Matches fl buf (.cls bm neg) p (p + fl.cs)
  | wordCh {p} : charOk fl buf isWordByte p = true → Matches fl buf .wordCh p (p + fl.cs)
  | nonWordCh {p} : charOk fl buf (fun c => !isWordByte c) p = true → Matches fl buf .nonWordCh p (p + fl.cs)
  | space {p} : charOk fl buf isSpaceByte p = true → Matches fl buf .space p (p + fl.cs)
  | nonSpace {p} : charOk fl buf (fun c => !isSpaceByte c) p = true → Matches fl buf .nonSpace p (p + fl.cs)
  | digit {p} : charOk fl buf isDigitByte p = true → Matches fl buf .digit p (p + fl.cs)
  | nonDigit {p} : charOk fl buf (fun c => !isDigitByte c) p = true → Matches fl buf .nonDigit p (p + fl.cs)
  | empty {p} : Matches fl buf .empty p p
  | cat {a b p q r} : Matches fl buf a p q → Matches fl buf b q r → Matches fl buf (.cat a b) p r
  | altL {a b p q} : Matches fl buf a p q → Matches fl buf (.alt a b) p q
  | altR {a b p q} : Matches fl buf b p q → Matches fl buf (.alt a b) p q
  | starNil {a g p} : Matches fl buf (.star a g) p p
  | starStep {a g p q r} : Matches fl buf a p q → Matches fl buf (.star a g) q r → Matches fl buf (.star a g) p r
  | plusOne {a g p q} : Matches fl buf a p q → Matches fl buf (.plus a g) p q
  | plusStep {a g p q r} : Matches fl buf a p q → Matches fl buf (.plus a g) q r → Matches fl buf (.plus a g) p r
  | rangeStop {a hi g p} : Matches fl buf (.range a 0 hi g) p p
  | rangeStep {a lo hi g p q r} : 0 < hi → Matches fl buf a p q → Matches fl buf (.range a (lo - 1) (hi - 1) g) q r →
      Matches fl buf (.range a lo hi g) p r
  | rangeAnyStop {hi g p} : Matches fl buf (.rangeAny 0 hi g) p p
  | rangeAnyStep {lo hi g p r} : 0 < hi → charOk fl buf (testAny fl) p = true →
      Matches fl buf (.rangeAny (lo - 1) (hi - 1) g) (p + fl.cs) r → Matches fl buf (.rangeAny lo hi g) p r
  | bol : Matches fl buf .bol 0 0
  | eol : Matches fl buf .eol buf.size buf.size
  | wordB {p} : isBoundary fl buf p = true → Matches fl buf .wordB p p
  | nonWordB {p} : isBoundary fl buf p = false → Matches fl buf .nonWordB p p

/-! ### fullword (shared with text strings): the match `[o, o+L)` is delimited by non-alphanumeric characters -/
def fullwordOk (wide : Bool) (buf : Bytes) (o L : Nat) : Bool :=
  if wide then
    !(2 ≤ o && buf[o-1]? == some 0 && (buf[o-2]?.map isAlnum).getD false) &&
    !(o + L + 1 < buf.size && buf[o+L+1]? == some 0 && (buf[o+L]?.map isAlnum).getD false)
  else
    !(1 ≤ o && (buf[o-1]?.map isAlnum).getD false) &&
    !(o + L < buf.size && (buf[o+L]?.map isAlnum).getD false)

end YaraModel.Re
