/-
  C20 — history-based specification of external variables: the three-level
  environment of the property statement, written directly over the history of
  operations (`past`, most recent operation FIRST), with no tables and no state.
-/
import YaraModel.Model.Externals
namespace YaraModel.Ext

/-- has the rule set been produced? -/
def compiled : List Op → Bool
  | [] => false
  | .compile :: _ => true
  | _ :: past => compiled past

/-- compile-time declaration of `n`: the FIRST definition given to the compiler wins
    (later ones are rejected as duplicates), definitions after compilation do not count. -/
def specC : List Op → String → Option (Ty × Val)
  | [], _ => none
  | .cdef ty n' v :: past, n =>
      match specC past n with
      | some x => some x
      | none => if n' = n ∧ compiled past = false then some (ty, v) else none
  | _ :: past, n => specC past n

/-- value held by the rule set: the compile-time value, overridden by the latest
    rule-set-level definition of the same declared type. -/
def specR : List Op → String → Option (Ty × Val)
  | [], _ => none
  | .compile :: past, n => if compiled past then specR past n else specC past n
  | .rdef ty n' v :: past, n =>
      match specR past n with
      | some (t, x) => if n' = n ∧ t = ty then some (t, v) else some (t, x)
      | none => none
  | _ :: past, n => specR past n

/-- value seen by scanner `k`: its own latest accepted definition, otherwise the
    rule-set value in force when it was created. -/
def specS : List Op → Nat → String → Option (Ty × Val)
  | [], _, _ => none
  | .screate k' :: past, k, n => if k' = k ∧ compiled past then specR past n else specS past k n
  | .sdestroy k' :: past, k, n => if k' = k then none else specS past k n
  | .sdef k' ty n' v :: past, k, n =>
      match specS past k n with
      | some (t, x) => if k' = k ∧ n' = n ∧ objTy t = objTy ty then some (t, v) else some (t, x)
      | none => none
  | _ :: past, k, n => specS past k n

/-- the state reached after the history `past` (most recent first) -/
def runRev : List Op → St
  | [] => init
  | op :: past => (step (runRev past) op).1

def tv (v : Var) : Ty × Val := (v.ty, v.val)

end YaraModel.Ext
