/-
  C10 / C13 — formulation of the properties over the scanner state machine:
  histories of scan calls on one scanner (C10), running an interrupted scan to completion (C13).
-/
import YaraModel.Model.Scanner
namespace YaraModel.Scan

/-- what the caller fixes when it starts a scan: the iterator (blocks, behaviour of each call,
    `file_size`), its callback's reactions and the stack size configured at that time -/
structure Start where
  blocks : List Block
  sched : List Act
  fileSize : Option Nat
  cb : Nat → CbRet
  stack : Nat

/-- a new iterator; as every wrapper does (and types.h demands) `last_error` starts as ERROR_SUCCESS -/
def Start.it (x : Start) : It :=
  { all := x.blocks, rest := x.blocks, sched := x.sched, lastError := .success, fileSize := x.fileSize }

/-- one API call in the life of a scanner: start a scan with a new iterator (abandoning whatever was
    suspended), or repeat the call with the same iterator — which callers do exactly when the
    previous call returned ERROR_BLOCK_NOT_READY -/
inductive HOp
  | start (x : Start)
  | cont

structure HSt where
  sc : Sc
  it : It
  cb : Nat → CbRet
  stack : Nat
  w : World
  lastRc : Err

abbrev Trace := List Msg × Err

def HSt.init (set : Settings) (w : World) : HSt :=
  { sc := Sc.fresh set, it := ⟨[], [], [], .success, none⟩, cb := fun _ => .cont, stack := 0, w := w, lastRc := .success }

def HSt.after (_st : HSt) (o : CallOut) (cb : Nat → CbRet) (stack : Nat) : HSt :=
  { sc := o.sc, it := o.it, cb := cb, stack := stack, w := o.world, lastRc := o.rc }

def stepH (P : Params) (v : Variant) (st : HSt) : HOp → HSt × Option Trace
  | .start x =>
    let o := scanCall P v x.cb x.stack st.sc x.it { st.w with nmsg := 0 }
    (st.after o x.cb x.stack, some (o.msgs, o.rc))
  | .cont =>
    if st.lastRc = .blockNotReady then
      let o := scanCall P v st.cb st.stack st.sc st.it st.w
      (st.after o st.cb st.stack, some (o.msgs, o.rc))
    else (st, none)

def runH (P : Params) (v : Variant) : HSt → List HOp → HSt
  | st, [] => st
  | st, op :: ops => runH P v (stepH P v st op).1 ops

def tracesH (P : Params) (v : Variant) : HSt → List HOp → List (Option Trace)
  | _, [] => []
  | st, op :: ops => (stepH P v st op).2 :: tracesH P v (stepH P v st op).1 ops

/-- `Clean`: every field that `_exit` is responsible for has the value it has in a new scanner -/
structure Core.Clean (c : Core) : Prop where
  notebook : c.notebook = false
  found : c.found = []
  unconfirmed : c.unconfirmed = []
  ruleFlags : c.ruleFlags = []
  reqEval : c.reqEval = []
  nsUnsat : c.nsUnsat = []
  strDisabled : c.strDisabled = []
  modules : c.modules = []

/-! ### C13: interrupted scans -/

def isNR : Act → Bool
  | .notReady => true
  | _ => false

/-- the schedule of the uninterrupted run: the same calls without the not-ready answers -/
def dropNR (sched : List Act) : List Act := sched.filter (fun a => !isNR a)

def countNR (sched : List Act) : Nat := (sched.filter isNR).length

/-- repeat the call while it returns ERROR_BLOCK_NOT_READY (at most `fuel` calls); messages concatenated -/
def runToEnd (P : Params) (v : Variant) (cb : Nat → CbRet) (stack : Nat) : Nat → Sc → It → World → CallOut
  | 0, s, it, w => ⟨s, it, w, [], .blockNotReady⟩
  | n + 1, s, it, w =>
    let o := scanCall P v cb stack s it w
    if o.rc = .blockNotReady then
      let o' := runToEnd P v cb stack n o.sc o.it o.world
      { o' with msgs := o.msgs ++ o'.msgs }
    else o

end YaraModel.Scan
