/-
  C10 / C13 — formulation of the properties over the scanner state machine:
  histories of scan calls on one scanner (C10), running an interrupted scan to completion (C13).
-/
import YaraModel.Model.Scanner
namespace YaraModel.Scan

/-- what the caller fixes when it starts a scan: the iterator (blocks, behaviour of each call,
    `file_size`), its callback's reactions and the stack size configured at that time -/
structure Start where
  blocks : List Block
  sched : List Act
  fileSize : Option Nat
  cb : Nat → CbRet
  stack : Nat

/-- a new iterator; as every wrapper does (and types.h demands) `last_error` starts as ERROR_SUCCESS -/
def Start.it (x : Start) : It :=
  { all := x.blocks, rest := x.blocks, sched := x.sched, lastError := .success, fileSize := x.fileSize }

/-- one API call in the life of a scanner: start a scan with a new iterator (abandoning whatever was
    suspended), or repeat the call with the same iterator — which callers do exactly when the
    previous call returned ERROR_BLOCK_NOT_READY -/
inductive HOp
  | start (x : Start)
  | cont
  | reuse (x : Start)             -- start a scan of other data with the SAME iterator object re-pointed by the caller: its
                                  -- `last_error` is whatever the previous scan left there (not reset)
  | config (set : Settings)       -- yr_scanner_set_flags / set_timeout / set_callback: any new settings
  | proc (mem : Option Start)     -- yr_scanner_scan_proc: `none` = the process cannot be attached; otherwise the iterator over
                                  -- its memory (any blocks, any behaviour) and the callback's reactions

structure HSt where
  sc : Sc
  it : It
  cb : Nat → CbRet
  stack : Nat
  w : World
  lastRc : Err

abbrev Trace := List Msg × Err

def HSt.init (set : Settings) (w : World) : HSt :=
  { sc := Sc.fresh set, it := ⟨[], [], [], .success, none⟩, cb := fun _ => .cont, stack := 0, w := w, lastRc := .success }

def HSt.after (_st : HSt) (o : CallOut) (cb : Nat → CbRet) (stack : Nat) : HSt :=
  { sc := o.sc, it := o.it, cb := cb, stack := stack, w := o.world, lastRc := o.rc }

def stepH (P : Params) (v : Variant) (st : HSt) : HOp → HSt × Option Trace
  | .start x =>
    let o := scanCall P v x.cb x.stack st.sc x.it { st.w with nmsg := 0 }
    (st.after o x.cb x.stack, some (o.msgs, o.rc))
  | .cont =>
    if st.lastRc = .blockNotReady then
      let o := scanCall P v st.cb st.stack st.sc st.it st.w
      (st.after o st.cb st.stack, some (o.msgs, o.rc))
    else (st, none)
  | .reuse x =>
    let o := scanCall P v x.cb x.stack st.sc { x.it with lastError := st.it.lastError } { st.w with nmsg := 0 }
    (st.after o x.cb x.stack, some (o.msgs, o.rc))
  | .config set => ({ st with sc := { st.sc with set := set } }, none)
  | .proc none => (st, some ([], .couldNotAttach))
  | .proc (some x) =>
    -- scanner.c :815-823: save flags, set SCAN_FLAGS_PROCESS_MEMORY, scan, restore flags
    let s1 : Sc := { st.sc with set := { st.sc.set with processMemory := true } }
    let o := scanCall P v x.cb x.stack s1 x.it { st.w with nmsg := 0 }
    (st.after { o with sc := { o.sc with set := st.sc.set } } x.cb x.stack, some (o.msgs, o.rc))

/-- the settings in force after a history: the last `config`, else the initial ones -/
def settingsAfter (set : Settings) : List HOp → Settings
  | [] => set
  | .config s :: ops => settingsAfter s ops
  | _ :: ops => settingsAfter set ops

def runH (P : Params) (v : Variant) : HSt → List HOp → HSt
  | st, [] => st
  | st, op :: ops => runH P v (stepH P v st op).1 ops

def tracesH (P : Params) (v : Variant) : HSt → List HOp → List (Option Trace)
  | _, [] => []
  | st, op :: ops => (stepH P v st op).2 :: tracesH P v (stepH P v st op).1 ops

/-- `Clean`: every field that `_exit` is responsible for has the value it has in a new scanner -/
structure Core.Clean (c : Core) : Prop where
  notebook : c.notebook = false
  found : c.found = []
  unconfirmed : c.unconfirmed = []
  ruleFlags : c.ruleFlags = []
  reqEval : c.reqEval = []
  nsUnsat : c.nsUnsat = []
  strDisabled : c.strDisabled = []
  modules : c.modules = []

/-! ### C13: interrupted scans -/

def isNR : Act → Bool
  | .notReady => true
  | _ => false

/-- the schedule of the uninterrupted run: the same calls without the not-ready answers -/
def dropNR (sched : List Act) : List Act := sched.filter (fun a => !isNR a)

def countNR (sched : List Act) : Nat := (sched.filter isNR).length

/-- repeat the call while it returns ERROR_BLOCK_NOT_READY (at most `fuel` calls); messages concatenated -/
def runToEnd (P : Params) (v : Variant) (cb : Nat → CbRet) (stack : Nat) : Nat → Sc → It → World → CallOut
  | 0, s, it, w => ⟨s, it, w, [], .blockNotReady⟩
  | n + 1, s, it, w =>
    let o := scanCall P v cb stack s it w
    if o.rc = .blockNotReady then
      let o' := runToEnd P v cb stack n o.sc o.it o.world
      { o' with msgs := o.msgs ++ o'.msgs }
    else o

/-- `nrWithin n sched`: every not-ready answer in `sched` comes before the `n`-th answer of another kind,
    i.e. (with `n` = number of blocks + 1) it is given to the block loop, never to rule evaluation. -/
def nrWithin : Nat → List Act → Bool
  | _, [] => true
  | 0, a :: t => !isNR a && nrWithin 0 t
  | n + 1, a :: t => if isNR a then nrWithin (n + 1) t else nrWithin n t

/-! ### C13: the other entry points (scanner.c :705-790, rules.c :172-285)

    `mem`: the bytes of the buffer as the model sees them (key of the data, size). A file or a
    descriptor is mapped (`filemap.c`) and then scanned as memory. -/

/-- the iterator `yr_scanner_scan_mem` builds on its stack: one block, `file_size` = buffer size -/
def memIt (data : Option Nat) (size : Nat) : It :=
  { all := [⟨0, size, data⟩], rest := [⟨0, size, data⟩], sched := [], lastError := .success, fileSize := some size }

/-- `yr_scanner_scan_mem` (for buffers below YR_FILE_SIZE_THRESHOLD or rule sets without zero-length atoms,
    where the "too slow" pre-check does not fire) -/
def scannerScanMem (P : Params) (v : Variant) (cb : Nat → CbRet) (stack : Nat) (s : Sc) (data : Option Nat) (size : Nat) (w : World) : CallOut :=
  scanCall P v cb stack s (memIt data size) w

/-- `yr_scanner_scan_file` / `yr_scanner_scan_fd`: `map` is the outcome of yr_filemap_map(_fd): an error, or
    the mapped bytes (an empty file is "mapped" as a NULL pointer of size 0: `none`) -/
def scannerScanMapped (P : Params) (v : Variant) (cb : Nat → CbRet) (stack : Nat) (s : Sc)
    (map : Except Err (Option Nat × Nat)) (w : World) : CallOut :=
  match map with
  | .error e => ⟨s, memIt none 0, w, [], e⟩
  | .ok (key, size) => scannerScanMem P v cb stack s key size w

/-- `yr_rules_scan_mem`: create a scanner, set callback / timeout / flags, scan, destroy -/
def rulesScanMem (P : Params) (v : Variant) (cb : Nat → CbRet) (stack : Nat) (set : Settings) (data : Option Nat) (size : Nat) (w : World) : CallOut :=
  scannerScanMem P v cb stack (Sc.fresh set) data size w

/-- `yr_rules_scan_file` / `yr_rules_scan_fd` -/
def rulesScanMapped (P : Params) (v : Variant) (cb : Nat → CbRet) (stack : Nat) (set : Settings)
    (map : Except Err (Option Nat × Nat)) (w : World) : CallOut :=
  match map with
  | .error e => ⟨Sc.fresh set, memIt none 0, w, [], e⟩
  | .ok (key, size) => rulesScanMem P v cb stack set key size w

/-- `yr_rules_scan_mem_blocks` with a user iterator -/
def rulesScanBlocks (P : Params) (v : Variant) (cb : Nat → CbRet) (stack : Nat) (set : Settings) (it : It) (w : World) : CallOut :=
  scanCall P v cb stack (Sc.fresh set) it w

end YaraModel.Scan
