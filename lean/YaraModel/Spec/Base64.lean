/-
  C01 — specification of the `base64` / `base64wide` modifiers (manual: "Base64 strings"):
  the string is searched as its three base64 "permutations": for i ∈ {0,1,2} prepend i bytes, encode,
  and strip the characters influenced by the prepended bytes and by the padding; `base64wide` widens the
  result; `ascii`/`wide` are applied to the plaintext first. Core Lean only.
-/
import YaraModel.Spec.Text
namespace YaraModel.B64
open YaraModel.Text

def stdAlphabet : Bytes :=
  "ABCDEFGHIJKLMNOPQRSTUVWXYZabcdefghijklmnopqrstuvwxyz0123456789+/".toUTF8.toList

def sym (alphabet : Bytes) (i : UInt8) : UInt8 := alphabet.getD i.toNat 0

/-- standard base64 with '=' padding over an arbitrary 64-symbol alphabet -/
def encode (alphabet : Bytes) : Bytes → Bytes
  | a :: b :: c :: t =>
      sym alphabet (a >>> 2) :: sym alphabet (((a &&& 3) <<< 4) ||| (b >>> 4)) ::
      sym alphabet (((b &&& 15) <<< 2) ||| (c >>> 6)) :: sym alphabet (c &&& 63) :: encode alphabet t
  | [a, b] =>
      [sym alphabet (a >>> 2), sym alphabet (((a &&& 3) <<< 4) ||| (b >>> 4)), sym alphabet ((b &&& 15) <<< 2), 61]
  | [a] => [sym alphabet (a >>> 2), sym alphabet ((a &&& 3) <<< 4), 61, 61]
  | [] => []

/-- the i-th permutation (i = number of unknown bytes before the string, 0..2) -/
def permutation (alphabet s : Bytes) (i : Nat) : Bytes :=
  let enc := encode alphabet (List.replicate i 65 ++ s)
  let pad := if (i + s.length) % 3 = 0 then 0 else 3 - (i + s.length) % 3
  let leading := if i = 0 then 0 else i + 1
  let trailing := if pad = 0 then 0 else pad + 1
  (enc.drop leading).take (enc.length - (leading + trailing))

/-- the permutations searched for one plaintext (`i = 1` is dropped for one-byte strings: it would be empty) -/
def permutations (alphabet s : Bytes) (wideOut : Bool) : List Bytes :=
  ([0, 1, 2].filter fun i => !(i == 1 && s.length == 1)).map fun i =>
    let p := permutation alphabet s i
    if wideOut then widen p else p

structure Mods where
  ascii : Bool
  wide : Bool
  base64 : Bool
  base64wide : Bool
deriving DecidableEq, Repr

/-- all byte patterns the declaration stands for -/
def patterns (m : Mods) (alphabet s : Bytes) : List Bytes :=
  let forPlain (p : Bytes) : List Bytes :=
    (if m.base64 then permutations alphabet p false else []) ++
    (if m.base64wide then permutations alphabet p true else [])
  (if m.wide then forPlain (widen s) else []) ++
  (if m.ascii || !m.wide then forPlain s else [])

/-- admissible lengths at `o` -/
def lensAt (m : Mods) (alphabet s buf : Bytes) (o : Nat) : List Nat :=
  ((patterns m alphabet s).filter fun p => !p.isEmpty && occursAt false p buf o).map (·.length) |>.eraseDups

def occurrences (m : Mods) (alphabet s buf : Bytes) : List (Nat × List Nat) :=
  (List.range (buf.length + 1)).filterMap fun o =>
    match lensAt m alphabet s buf o with
    | [] => none
    | l => some (o, l)

end YaraModel.B64
