import YaraModel.Model.Externals
import YaraModel.Spec.Externals
import YaraModel.Lemmas.Externals
import YaraModel.Thm.C20
