#!/usr/bin/env python3
"""Update known_findings.json after notes/C16-NN-*.diff patches were applied to /repo as `fix:` commits.

usage:  python3 notes/C16-known-after-patches.py 01=<sha> 04=<sha> ...      (only the patches actually applied)

For each given patch: removes exactly the C16 entries whose signature the patch eliminates and appends the
`fixed: property=C16 <sha> ...` line. Patch 04 turns a crash into a swallowed error of the tests module, which
is recorded as one more signature of F33 (module code ignores the result of the yr_set_* setters)."""
import json, os, sys

P = {
 "01": ([("crash", "yr_parser_emit_pushes_for_rules", None)],
        "grammar.y fail_if_error(e) evaluated its argument up to four times: with `fail_if_error(yr_parser_reduce_rule_declaration_phase_1(...))` an "
        "allocation failure in the first call was followed by a second call that declared the rule again on top of a half-initialised YR_RULE "
        "(NULL identifier, later strncmp(NULL) in yr_parser_emit_pushes_for_rules) and reported DUPLICATED_IDENTIFIER/WRONG_TYPE instead of "
        "INSUFFICIENT_MEMORY (scenario compile_cond of vf/checks/c16.py)"),
 "02": ([("crash", "yr_parser_check_types", None)],
        "grammar.y `arguments: /* empty */` used yr_strdup(\"\") unchecked: strcmp(NULL) in yr_parser_check_types for a call without arguments (compile_mod_*)"),
 "03": ([("crash", "_yr_modified_base64_encode", None)],
        "grammar.y base64/base64wide without alphabet used ss_new(DEFAULT_BASE64_ALPHABET) unchecked: NULL alphabet dereferenced in _yr_modified_base64_encode (compile_text)"),
 "04": ([("crash", "yr_object_dict_get_item", None), ("leak", "yr_object_array_set_item", None)],
        "object.c yr_object_dict_set_item stored a NULL key when ss_new failed (NULL dereference in yr_object_dict_get_item) and, like "
        "yr_object_array_set_item, assigned yr_realloc's result directly to ->items, losing the old vector on failure (scan_mod_tests_mv, scan_mod_pe)"),
 "05": ([("silent-wrong-result", "ss_dup", "yr_execute_code")],
        "object.c yr_object_copy ignored a failed ss_dup: a function's string result became undefined and the scan returned success with a different verdict (scan_mod_hash_mv)"),
 "06": ([("crash", "pe_imports_dll", None)],
        "pe.c pe_parse_imports kept an IMPORTED_DLL whose name could not be duplicated: strcasecmp(NULL) in pe.imports()/imphash (scan_mod_pe*)"),
 "07": ([("silent-wrong-result", "_yr_compiler_push_file_name", None)],
        "lexer.l include: ERROR_INSUFFICIENT_MEMORY from _yr_compiler_push_file_name ended the scan of the file without reporting any error, compilation succeeded with the remaining rules missing (compile_include)"),
 "08": ([("silent-wrong-result", "log_string", None), ("silent-wrong-result", "yr_vasprintf", "log_integer_msg"), ("silent-wrong-result", "yr_vasprintf", "hex_integer")],
        "console module returned undefined instead of ERROR_INSUFFICIENT_MEMORY when the message buffer could not be allocated (scan_mod_console)"),
 "09": ([("leak-foreign", "imphash", "yr_execute_code"), ("leak", "yr_hash_table_add_raw_key", "imphash")],
        "pe.c imphash: early returns skipped yr_md5_final (digest context leaked), a failed allocation of a function name silently truncated the hash, "
        "and the digest string leaked when it could not be cached (scan_mod_pe*)"),
 "10": ([("leak", "yr_hash_table_add_raw_key", "yr_execute_code")],
        "hash module add_to_cache leaked the copied digest when yr_hash_table_add_raw_key failed (scan_mod_hash*)"),
 "11": ([("leak", "yr_hash_table_add_raw_key", "yr_parser_reduce_import")],
        "parser.c yr_parser_reduce_import leaked the module structure when it could not be added to objects_table (compile_mod_*)"),
 "12": ([("leak", "yr_re_node_create", None)],
        "re_grammar.y _CLASS_: the RE_CLASS allocated by the lexer leaked when yr_re_node_create failed (bison does not destroy the symbols of the aborting rule) (compile_regex)"),
 "13": ([("leak", "_yr_atoms_choose", None)],
        "atoms.c _yr_atoms_choose leaked the atoms chosen so far when a recursive call failed (compile_text/hex/regex)"),
 "14": ([("leak", "pe_parse_delayed_imports", None)],
        "pe.c pe_parse_delayed_imports leaked the function name when the IMPORT_FUNCTION could not be allocated (scan_mod_pe_imports)"),
 "15": ([("leak", "_yr_ac_find_suitable_transition_table_slot", None)],
        "ahocorasick.c _yr_ac_build_transition_table left the BFS queue populated when the slot search failed, and the slot search lost the bitmask on a failed yr_realloc (compile_many)"),
 "16": ([("leak", "_yr_arena_allocate_memory", "*"), ("leak", "_yr_arena_make_ptr_relocatable", "yr_parser_emit_with_arg_reloc"), ("leak", "yara_yyparse", None)],
        "a parse aborted by ERROR_INSUFFICIENT_MEMORY inside a `for` loop left the loop variables' identifiers allocated: yr_compiler_destroy now releases them (compile_cond, compile_cond_mv)"),
}
NEW_AFTER = {"04": {"property": "C16", "id": "F33", "signature": {"kind": "silent-wrong-result", "site": "ss_new", "ctx": "tests__load"},
                    "text": "value set on a dictionary item whose key could not be allocated is lost: tests__load ignores the result of yr_set_* (was the crash F34 before notes/C16-04)"}}


def main():
    args = dict(a.split("=", 1) for a in sys.argv[1:])
    path = os.path.join(os.path.dirname(os.path.dirname(os.path.abspath(__file__))), "known_findings.json")
    k = json.load(open(path))
    for n, sha in sorted(args.items()):
        sigs, text = P[n]

        def hit(f):
            s = f.get("signature", {})
            return f.get("property") == "C16" and any(s.get("kind") == kd and s.get("site") == st and (cx in (None, "*") or s.get("ctx") == cx) and
                                                       (cx == "*" or cx is not None or "ctx" not in s or kd == "crash") for kd, st, cx in sigs)
        removed = [f for f in k["findings"] if hit(f)]
        k["findings"] = [f for f in k["findings"] if not hit(f)]
        k.setdefault("fixed", []).append("fixed: property=C16 %s %s %s" % (sha, "/".join(sorted({f["id"] for f in removed})), text))
        if n in NEW_AFTER and NEW_AFTER[n] not in k["findings"]:
            k["findings"].append(NEW_AFTER[n])
        print("patch %s: removed %d entries %s" % (n, len(removed), [(f["id"], f["signature"]) for f in removed]))
    json.dump(k, open(path, "w"), indent=1)


if __name__ == "__main__":
    main()
