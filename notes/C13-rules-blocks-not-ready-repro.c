#include <yara.h>
#include <stdio.h>
#include <stdlib.h>
#include <string.h>
typedef struct { const uint8_t* buf; size_t size; size_t bs; size_t pos; YR_MEMORY_BLOCK blk; int calls; unsigned long long nr_mask;} IT;
static const uint8_t* fetch(YR_MEMORY_BLOCK* b){ return (const uint8_t*) b->context; }
static YR_MEMORY_BLOCK* it_next(YR_MEMORY_BLOCK_ITERATOR* it){
  IT* c = it->context; int k = c->calls++;
  if ((c->nr_mask >> k) & 1) { it->last_error = ERROR_BLOCK_NOT_READY; return NULL; }
  it->last_error = ERROR_SUCCESS;
  if (c->pos >= c->size) return NULL;
  size_t n = c->size - c->pos; if (n > c->bs) n = c->bs;
  c->blk.base = c->pos; c->blk.size = n; c->blk.context = (void*)(c->buf + c->pos); c->blk.fetch_data = fetch; c->pos += n; return &c->blk; }
static YR_MEMORY_BLOCK* it_first(YR_MEMORY_BLOCK_ITERATOR* it){ ((IT*)it->context)->pos = 0; return it_next(it); }
static uint64_t it_fs(YR_MEMORY_BLOCK_ITERATOR* it){ return ((IT*)it->context)->size; }
static int cb(YR_SCAN_CONTEXT* ctx, int msg, void* data, void* ud){
  if (msg == CALLBACK_MSG_RULE_MATCHING || msg == CALLBACK_MSG_RULE_NOT_MATCHING){ YR_RULE* r = data; printf("  %c%s\n", msg==CALLBACK_MSG_RULE_MATCHING?'+':'-', r->identifier);}
  else if (msg == CALLBACK_MSG_SCAN_FINISHED) printf("  FIN\n");
  fflush(stdout); return CALLBACK_CONTINUE; }
int main(int argc, char** argv){
  yr_initialize();
  YR_COMPILER* c; YR_RULES* rules; yr_compiler_create(&c);
  yr_compiler_add_string(c, argc > 1 ? "rule a { strings: $a = \"world\" condition: $a } rule t { condition: true }" : "rule a { strings: $a = \"hello\" condition: $a } rule t { condition: true }", NULL); yr_compiler_get_rules(c,&rules);
  IT ic = { (const uint8_t*)"hello world", 11, 6, 0, {0}, 0, 1ull<<1}; YR_MEMORY_BLOCK_ITERATOR it = { &ic, it_first, it_next, it_fs, ERROR_SUCCESS };
  int rc, n = 0;
  do { rc = yr_rules_scan_mem_blocks(rules, &it, 0, cb, NULL, 0); printf("call %d rc=%d\n", ++n, rc); fflush(stdout);} while (rc == ERROR_BLOCK_NOT_READY && n < 4);
  return 0; }
