#include <yara.h>
#include <stdio.h>
#include <stdlib.h>
#include <string.h>
#include <unistd.h>
#include <fcntl.h>
static const char* path = "/tmp/yara_obs_trunc.bin";
static int do_trunc = 0;
static int cb(YR_SCAN_CONTEXT* ctx, int msg, void* data, void* ud){
  if (msg == CALLBACK_MSG_RULE_MATCHING || msg == CALLBACK_MSG_RULE_NOT_MATCHING){ YR_RULE* r = data; printf("  %c%s\n", msg==CALLBACK_MSG_RULE_MATCHING?'+':'-', r->identifier);}
  else if (msg == CALLBACK_MSG_IMPORT_MODULE) { printf("  IMP %s\n", ((YR_MODULE_IMPORT*)data)->module_name); }
  else if (msg == CALLBACK_MSG_MODULE_IMPORTED) { printf("  MOD\n"); if (do_trunc) { truncate(path, 0); do_trunc = 0; printf("  (file truncated under the mapping)\n"); } }
  else if (msg == CALLBACK_MSG_SCAN_FINISHED) printf("  FIN\n");
  fflush(stdout);
  return CALLBACK_CONTINUE;
}
static YR_RULES* compile(const char* src){ YR_COMPILER* c; YR_RULES* r; yr_compiler_create(&c); if (yr_compiler_add_string(c, src, NULL)) { printf("compile error\n"); exit(1);} yr_compiler_get_rules(c,&r); yr_compiler_destroy(c); return r; }
int main(){
  yr_initialize();
  YR_RULES* rules = compile("import \"pe\"\n rule u { condition: uint8(100) == 0 } rule is_pe { condition: pe.number_of_sections == 7 }\n rule t { condition: true }");
  // copy tiny to the scratch file
  FILE* f = fopen("/repo/tests/data/tiny","rb"); static char buf[40000]; size_t n = fread(buf,1,sizeof buf,f); fclose(f);
  f = fopen(path,"wb"); fwrite(buf,1,n,f); fclose(f);
  YR_SCANNER* s; yr_scanner_create(rules,&s); yr_scanner_set_callback(s, cb, NULL);
  printf("== scan 1: PE file, truncated during IMPORT callback (SIGBUS inside yr_execute_code)\n");
  do_trunc = 1;
  printf(" rc=%d\n", yr_scanner_scan_file(s, path));
  printf("== scan 2: same scanner, plain text\n");
  printf(" rc=%d\n", yr_scanner_scan_mem(s, (const uint8_t*)"hello world", 11));
  printf("== fresh scanner, plain text\n");
  YR_SCANNER* s2; yr_scanner_create(rules,&s2); yr_scanner_set_callback(s2, cb, NULL);
  printf(" rc=%d\n", yr_scanner_scan_mem(s2, (const uint8_t*)"hello world", 11));
  yr_scanner_destroy(s); yr_scanner_destroy(s2); yr_rules_destroy(rules); yr_finalize(); unlink(path); return 0; }
