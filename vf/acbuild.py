"""Correspondence tie of the Aho-Corasick CONSTRUCTION model (lean/YaraModel/Model/AcBuild.lean, theorems in
Thm/AcBuild.lean) — a helper of C01 and C05, not a property check of its own.

The real automaton is dumped by harness/h_scan.c (`atoms=1 actab=1`: the atoms in insertion order as hook
yr_verif_on_atom saw them, then ac_transition_table / ac_match_table / ac_match_pool); the driver engine `acbuild`
builds the tables from the same atom list with the Lean model of ahocorasick.c and prints them in the same format.
They must be EQUAL token for token (slots, failure entries, match-table indexes, pool `next` links).

  compare(cases)            cases: h_scan output lines (or dicts with atoms/act/acm/acp) -> list of mismatches
  rulesets(r, kind, tier)   generated rule sets that stress the construction (1..300+ atoms, shared prefixes and
                            suffixes, 1-4 byte atoms, bytes 0x00/0xFF, all modifiers, hex, regex, zero-length atoms,
                            enough states to make the tables grow several times)
  run_extra(chk, b, r, kind, tier)   run those through h_scan + compare, file violations, fill evidence
"""
import binascii
from vf import core

ALPHA = [0x61, 0x62, 0x63, 0x41, 0x42, 0x00, 0xFF, 0x30, 0x7A, 0x20, 0x01, 0xFE]


def hx(b):
    return binascii.hexlify(bytes(b)).decode() or "-"


def esc(s):
    return "".join("\\x%02x" % c for c in s)


def tokens(line):
    return {x.split("=", 1)[0]: x.split("=", 1)[1] for x in line.split()[2:] if "=" in x}


def atoms_arg(tok):
    """h_scan `atoms=` token body (sidx:bytes:mask:backtrack,…) -> driver form (sidx:bytes:backtrack,…)"""
    if tok == "-":
        return "-"
    return ",".join("%s:%s:%s" % (a.split(":")[0], a.split(":")[1], a.split(":")[3]) for a in tok.split(","))


def first_diff(a, b):
    x, y = a.split(","), b.split(",")
    for i, (p, q) in enumerate(zip(x, y)):
        if p != q:
            return {"index": i, "implementation": p, "model": q, "lengths": [len(x), len(y)]}
    return {"index": min(len(x), len(y)), "implementation": None, "model": None, "lengths": [len(x), len(y)]}


def compare(cases, bufs=None):
    """cases: h_scan output lines containing atoms=/act=/acm=/acp= (others are skipped), or dicts with those keys + id.
    bufs: {case id: hex buffer}; for a case that has a buffer here and a `cands=` token (the real candidate sequence from hook
    yr_verif_on_candidate) the SEQUENCE is compared too, order included: Model.AcScan.scan over the model-built tables and the
    specification `expectedScan` of Thm/AcBuild.build_scan_exact must both equal it.
    Returns the list of mismatches (dicts with id, table, first difference, driver_line)."""
    bufs = bufs or {}
    items = []
    for c in cases:
        if isinstance(c, str):
            t = tokens(c)
            if "act" not in t or "atoms" not in t:
                continue
            t["id"] = c.split(" ", 1)[0]
        else:
            t = c
        items.append(t)
    if not items:
        compare.last = {"tables_compared": 0}
        return []
    dl = []
    for t in items:
        d = "%s atoms=%s" % (t["id"], atoms_arg(t["atoms"]))
        if t["id"] in bufs and "cands" in t:
            d += " buf=%s cands=%s" % (bufs[t["id"]], t["cands"])
        dl.append(d)
    out, rc, err = core.run_parallel([core.driver_path(), "acbuild"], dl)
    mo = {l.split(" ", 1)[0]: l for l in out}
    bad = []
    hist = {"tables_compared": len(items), "max_table": 0, "max_atoms": 0, "grown": 0, "zero_length_atom": 0, "growth_steps": {},
            "sequences_compared": 0, "candidates_compared": 0, "sequences_with_root_matches": 0}
    for t, d in zip(items, dl):
        ml = mo.get(t["id"])
        nt = t["act"].count(",") + 1
        hist["max_table"] = max(hist["max_table"], nt)
        hist["max_atoms"] = max(hist["max_atoms"], 0 if t["atoms"] == "-" else t["atoms"].count(",") + 1)
        g = (nt - 512) // 257
        hist["grown"] += 1 if g > 0 else 0
        hist["growth_steps"][min(g, 8)] = hist["growth_steps"].get(min(g, 8), 0) + 1
        hist["zero_length_atom"] += 1 if "::" in t["atoms"] else 0
        acl = "%s atoms=%s act=%s acm=%s acp=%s buf=- cands=-" % (t["id"], atoms_arg(t["atoms"]), t["act"], t["acm"], t["acp"])
        if ml is None or len(ml.split()) < 4:
            bad.append({"id": t["id"], "table": "none", "why": "model produced no tables: %r" % (ml or err[:200]), "driver_line": d, "ac_line": acl})
            continue
        mt = {x.split("=", 1)[0]: x.split("=", 1)[1] for x in ml.split()[1:]}
        for k, name in (("act", "transition table"), ("acm", "match table"), ("acp", "match pool")):
            if mt.get(k) != t[k]:
                bad.append({"id": t["id"], "table": name, "first_difference": first_diff(t[k], mt.get(k, "")), "driver_line": d, "ac_line": acl})
                break
        else:
            if " cands=" in d:
                hist["sequences_compared"] += 1
                hist["candidates_compared"] += 0 if t["cands"] == "-" else t["cands"].count(",") + 1
                hist["sequences_with_root_matches"] += 1 if ("::" in t["atoms"] and t["cands"] != "-") else 0
                if mt.get("seq") != "same" or mt.get("spec") != "same":
                    acl2 = acl.replace(" buf=- cands=-", " buf=%s cands=%s" % (bufs[t["id"]], t["cands"]))
                    bad.append({"id": t["id"], "table": "candidate sequence (scan over the built tables: %s, specification expectedScan: %s)" %
                                (mt.get("seq"), mt.get("spec")), "driver_line": d, "ac_line": acl2})
    compare.last = hist
    return bad


compare.last = {}

STEMS = [b"abcd", b"bcda", b"cdab", b"abab", b"aaaa", b"\x00\x00\x00\x00", b"\xff\xff\xff\xff", b"a\x00b\x00", b"\xffabc", b"abc\xff", b"zabc", b"0000"]


def gen_bytes(r, dense):
    """a string sharing prefixes/suffixes with the others; `dense` packs many different bytes after a common stem"""
    u = r.random()
    if u < 0.15:
        n = r.choice([1, 1, 2, 2, 3, 3])
        return bytes(r.choice(ALPHA) for _ in range(n))                      # atoms shorter than 4 bytes
    stem = r.choice(STEMS)
    k = r.choice([1, 2, 3, 3, 4])
    if dense:
        tail = bytes(r.randrange(256) for _ in range(r.choice([1, 1, 2, 3])))
    else:
        tail = bytes(r.choice(ALPHA) for _ in range(r.choice([0, 1, 1, 2, 4])))
    if u < 0.6:
        return stem[:k] + tail                                               # common prefix
    if u < 0.85:
        return tail + stem[4 - k:]                                           # common suffix
    return stem[r.randrange(4):] + tail + stem[:r.randrange(1, 5)]


PLANT = []


def gen_text(r, dense):
    w = gen_bytes(r, dense)
    PLANT.append(w)
    mods = r.choice(["", "", "ascii", "nocase", "wide", "ascii wide", "wide nocase", "fullword", "xor", "xor(1-3)", "xor(%d)" % r.randrange(256),
                     "xor(250-255) wide", "private", "base64", "base64wide", "ascii wide nocase fullword"])
    if mods.startswith("base64") and len(w) < 3:
        w = w + b"abc"
    return '"%s" %s' % (esc(w), mods)


def gen_hex(r, dense):
    w = gen_bytes(r, dense)
    PLANT.append(w)
    parts = ["%02X" % c for c in w]
    u = r.random()
    if len(parts) >= 3 and u < 0.25:
        parts[r.randrange(1, len(parts) - 1)] = "??"
    elif len(parts) >= 2 and u < 0.45:
        i = r.randrange(len(parts))
        parts[i] = r.choice(["%X?" % (w[i] >> 4), "?%X" % (w[i] & 15)])      # nibble mask: 16 atoms
    elif len(parts) >= 3 and u < 0.55:
        parts.insert(r.randrange(1, len(parts) - 1), "[%d-%d]" % (r.choice([0, 1, 2]), r.choice([2, 3, 4])))
    elif len(parts) >= 2 and u < 0.7:
        i = r.randrange(1, len(parts))
        parts.insert(i, "( %02X | %02X %02X )" % (r.choice(ALPHA), r.choice(ALPHA), r.choice(ALPHA)))
    return "{ %s }" % " ".join(parts)


def re_esc(b):
    return "".join("\\x%02x" % c for c in b)


def gen_regex(r, dense):
    w = gen_bytes(r, dense)
    PLANT.append(w)
    a, b = w[:len(w) // 2], w[len(w) // 2:]
    u = r.random()
    if u < 0.08:
        PLANT.append(None)                                                   # marks: this rule set has a zero-length atom
        return r.choice(["/[a-z]+x?/", "/.{2}y?/", "/\\w\\w/"])               # no usable atom: zero-length atom in the root state
    if not a or not b:
        return "/%s/" % re_esc(w)
    form = r.choice(["/%s.?%s/", "/%s[a-c]%s/", "/(%s|zz)%s/", "/%s%s/ nocase", "/%s%s/ wide", "/%s.*%s/", "/%s(a|b|c)%s/", "/%s%s/ ascii wide fullword"])
    return form % (re_esc(a), re_esc(b))


def gen_ruleset(r, kind, natoms_target, dense):
    """source text of one or more rules; strings are added until roughly `natoms_target` atoms are expected"""
    rules, strs, est = [], [], 0
    k = 0
    while est < natoms_target and k < 400:
        u = r.random()
        if kind == "text" or u < 0.4:
            s = gen_text(r, dense)
            e = 256 if ("xor" in s and "xor(" not in s) else (6 if "xor(250" in s else (3 if "xor(1-3)" in s else 1))
            e *= (6 if "nocase" in s else 1) * (2 if "ascii wide" in s else 1) * (3 if "base64" in s else 1)
            est += e
        elif u < 0.75:
            s = gen_hex(r, dense)
            est += 8 if "?" in s.replace("??", "") else 1
        else:
            s = gen_regex(r, dense)
            est += 2
        strs.append("$s%d = %s" % (k, s))
        k += 1
        if len(strs) >= r.choice([1, 2, 5, 12, 40]):
            rules.append("rule r%d { strings: %s condition: any of them }" % (len(rules), " ".join(strs)))
            strs = []
    if strs:
        rules.append("rule r%d { strings: %s condition: any of them }" % (len(rules), " ".join(strs)))
    return "\n".join(rules)


def sweep(r, tag, nparents, base, count, shuffle=False):
    """`count` rule sets with base, base+1, … two-byte atoms of a dense family (few first bytes x every second byte): every
    further atom adds one leaf state, so the lowest free slot creeps over each growth boundary of the tables one slot at a
    time and some rule set of the sweep puts its last state EXACTLY on `tables_size - 256` / `- 257` (the growth guard)"""
    A = r.sample(range(256), nparents)
    seq = [(a, b) for a in A for b in range(256)]
    if shuffle:
        r.shuffle(seq)
    lines = []
    for n in range(base, base + count):
        strs = " ".join("$s%d = { %02X %02X }" % (i, a, b) for i, (a, b) in enumerate(seq[:n]))
        buf = bytes(x for a, b in seq[max(0, n - 3):n] for x in (a, b)) + bytes([A[0]])
        lines.append("%s%d src=%s atoms=1 cands=1 actab=1 buf=%s" % (tag, n, hx(("rule r { strings: %s condition: any of them }" % strs).encode()), hx(buf)))
    return lines


def gen_buf(r, words, maxlen):
    """a buffer with planted (pieces of) the strings of the rule set, overlapping, plus filler; also the empty buffer"""
    if r.random() < 0.05 or not words:
        return b""
    if r.random() < 0.2:
        return r.choice(words)[:maxlen]                     # the buffer IS one string: backtrack == position == |buf| in the pass after the loop
    b = bytearray()
    while len(b) < maxlen:
        w = r.choice(words)
        u = r.random()
        b += w if u < 0.5 else (w[r.randrange(len(w)):] + w[:r.randrange(1, len(w) + 1)] if u < 0.8 else bytes(r.choice(ALPHA) for _ in range(r.randrange(1, 4))))
    b = b[:r.randrange(1, maxlen + 1)]
    if r.random() < 0.3:
        b += b"~"                                            # ends in the root state: root matches (zero-length atoms) in the pass after the loop
    return bytes(b)


def shared_atom_cases(r, count):
    """two rules whose strings share ONE atom (hence one automaton state and one match list) with DIFFERENT backtracks: a plain
    word, and the same word behind 1..8 low-quality bytes (00 / 20), in both declaration orders; the buffer puts the word at every
    offset from 0 to backtrack+1, so that list entries whose backtrack exceeds the position must be SKIPPED, not end the walk"""
    lines = []
    for i in range(count):
        w = bytes(r.choice(b"%PDFMZqxjkvw#@!&") for _ in range(4))
        pad = r.randint(1, 8)
        fill = r.choice([0x00, 0x20])
        a = '$a = { %s %s }' % (" ".join("%02X" % c for c in w), "%02X" % r.randrange(0x30, 0x7b))
        b = '$b = { %s %s }' % (" ".join(["%02X" % fill] * pad), " ".join("%02X" % c for c in w))
        rules = ['rule ra { strings: %s condition: $a }' % a.replace(a.split()[-2] + " }", "}") if r.random() < 0.5 else 'rule ra { strings: $a = { %s } condition: $a }' % " ".join("%02X" % c for c in w),
                 'rule rb { strings: %s condition: $b }' % b]
        if i % 2:
            rules.reverse()
        off = r.choice(list(range(0, pad + 2)))
        buf = bytes([0x2e]) * off + w + b"." + bytes([fill]) * pad + w + b"~"
        lines.append("sa%d src=%s atoms=1 cands=1 actab=1 buf=%s" % (i, hx("\n".join(rules).encode()), hx(buf)))
    return lines


def rulesets(r, kind, tier):
    """h_scan case lines (compile only, empty buffer) dumping atoms + tables"""
    if tier == "quick":
        targets = [1, 1, 2, 3, 5, 8, 12, 20, 30, 50, 80, 120, 200, 300, 300, 300] * 2 + [500, 700]
    else:
        targets = ([1, 2, 3, 5, 8, 12, 20, 30, 50, 80, 120, 200, 300] * 60) + [300, 500, 800, 1200, 2000, 3000] * 8
    lines = []
    for i, n in enumerate(targets):
        dense = r.random() < 0.5
        del PLANT[:]
        src = gen_ruleset(r, kind, n, dense)
        zero = None in PLANT
        words = [w for w in PLANT if w]
        lines.append("ab%d src=%s atoms=1 cands=1 actab=1 buf=%s" % (i, hx(src.encode()), hx(gen_buf(r, words, 24 if n > 400 else 64))))
        if zero:                                 # root matches: also the empty buffer (only the pass after the loop runs, in the root state)
            lines.append("ab%dz src=%s atoms=1 cands=1 actab=1 buf=-" % (i, hx(src.encode())))
    lines += shared_atom_cases(r, 12 if tier == "quick" else 200)
    if tier == "quick":
        lines += sweep(r, "sw", r.choice([2, 3, 4]), r.randrange(20, 240), 260)
    else:
        for j in range(6):
            np_ = r.choice([1, 2, 3, 4, 8, 20])
            lines += sweep(r, "sw%d_" % j, np_, r.randrange(1, 200 * min(np_, 4)), 520, shuffle=(j >= 4))
    return lines


def report(chk, bad, lines_by_id, tag):
    """file (at most 5) violations with a replay: the h_scan line of the rule set and the driver line.
    For each mismatch the AC certificate (Thm/AcCert) is evaluated on the REAL tables: if it fails the rule set is a concrete
    input on which the automaton is wrong; if it holds, the automaton of this rule set is still correct but is no longer the one
    the proved model builds — the tie of Thm/AcBuild to the code is broken (reported as `no-failing-input-found`)."""
    for i, m in enumerate(bad[:5]):
        cert = None
        if m.get("ac_line"):
            out, _, _ = core.run_lines([core.driver_path(), "ac"], [m["ac_line"]])
            cert = bool(out) and "cert=1" in out[0]
        if m["table"].startswith("candidate sequence"):
            chk.violation("acbuild_%s_%d.json" % (tag, i), {
                "kind": "Aho-Corasick scan: on this rule set and buffer the real candidate sequence (hook yr_verif_on_candidate) differs from the sequence "
                        "Thm/AcBuild.build_scan_exact proves for the model (%s)" % m["table"],
                "acbuild": True, "harness": "h_scan", "engine": "acbuild", "harness_line": lines_by_id.get(m["id"]),
                "driver_line": m["driver_line"], "real_tables_certificate": cert})
            continue
        chk.violation("acbuild_%s_%d.json" % (tag, i), {
            "kind": "Aho-Corasick construction: the tables of the real automaton differ from the tables the Lean model of ahocorasick.c "
                    "builds from the same atoms (%s); the certificate of Thm/AcCert on the real tables %s" %
                    (m["table"], "still HOLDS (automaton correct for this rule set, but not the one covered by Thm/AcBuild: model/code tie broken)" if cert
                     else "FAILS (the candidates are not the atom occurrences for some buffer)"),
            "acbuild": True, "harness": "h_scan", "engine": "acbuild", "harness_line": lines_by_id.get(m["id"]),
            "driver_line": m["driver_line"], "real_tables_certificate": cert,
            "mismatch": {k: v for k, v in m.items() if k not in ("driver_line", "ac_line")}}, no_input=bool(cert))
    return bool(bad)


def run_extra(chk, b, r, kind, tier):
    """generated rule sets: compile with the real compiler, build with the model, compare. Returns True if a violation was filed."""
    lines = rulesets(r, kind, tier)
    outs, rc, err = core.run_parallel([b["h_scan"]], lines)
    found = False
    if rc != 0:
        chk.violation("acbuild_crash.json", {"kind": "crash/sanitizer while compiling a generated rule set (construction campaign)", "rc": rc,
                                             "stderr": err, "harness": "h_scan", "acbuild": True})
        found = True
    ok = [l for l in outs if " act=" in l]
    bad = compare(ok, {l.split(" ", 1)[0]: l.rsplit("buf=", 1)[1] for l in lines})
    hist = dict(compare.last)
    hist["rule_sets"] = len(lines)
    hist["compiled"] = len(ok)
    hist["not_compared"] = {}
    for l in outs:
        if " act=" not in l:
            k = " ".join(l.split()[1:3]) if "TOOBIG" not in l else "TOOBIG"
            hist["not_compared"][k] = hist["not_compared"].get(k, 0) + 1
    hist["mismatches"] = len(bad)
    chk.cov["ac_construction_generated"] = hist
    found = report(chk, bad, {l.split(" ", 1)[0]: l for l in lines}, "gen") or found
    return found


def replay(chk, b, obj):
    """re-run one filed case: compile the rule set again (or reuse the stored tables) and compare"""
    if obj.get("harness_line"):
        outs, rc, err = core.run_lines([b["h_scan"]], [obj["harness_line"]])
        hl = obj["harness_line"]
        bad = compare(outs, {hl.split(" ", 1)[0]: hl.rsplit("buf=", 1)[1].split()[0]} if "buf=" in hl else None)
        return report(chk, bad, {obj["harness_line"].split(" ", 1)[0]: obj["harness_line"]}, "replay") or rc != 0
    return False
