"""./check setup — build everything once from files on disk."""
import subprocess, os
from vf import core


def run():
    core.gen_roots()
    r = subprocess.run(["lake", "build"], cwd=core.LEAN)
    if r.returncode != 0:
        return 1
    core.build("asan")
    core.build("plain", cli=True)
    print("setup ok")
    return 0
