"""./check setup — build everything once from files on disk. Never fails because of one theorem file: a proof that no longer
checks is reported by the check that owns it (with the VIOLATION / no-failing-input-found protocol), not by the setup."""
import subprocess, os
from vf import core


def run():
    with core.Lock("lake"):
        core.run_translators(core.all_translators())      # Gen/*.lean from /repo as it is now
        core.gen_roots()
        r = subprocess.run(["lake", "build", "yvdriver"], cwd=core.LEAN)
        if r.returncode != 0:
            print("setup: the model driver does not build; the checks will report it")
        thm = sorted(f[:-5] for f in os.listdir(os.path.join(core.LEAN, "YaraModel", "Thm")) if f.endswith(".lean"))
        r = subprocess.run(["lake", "build"] + ["YaraModel.Thm." + t for t in thm], cwd=core.LEAN, stdout=subprocess.PIPE, stderr=subprocess.STDOUT, text=True)
        if r.returncode != 0:
            # build the modules one by one so that everything that does check is compiled; the owner check reports the rest
            for t in thm:
                r1 = subprocess.run(["lake", "build", "YaraModel.Thm." + t], cwd=core.LEAN, stdout=subprocess.PIPE, stderr=subprocess.STDOUT, text=True)
                if r1.returncode != 0:
                    print("setup: YaraModel.Thm.%s does not check at the moment (its check will report it)" % t)
    core.build("asan")
    core.build("plain", cli=True)
    print("setup ok")
    return 0
