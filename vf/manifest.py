"""Regenerates /verif/MANIFEST.json from the table below (python3 -m vf.manifest)."""
import json, os, sys
VERIF = os.path.dirname(os.path.dirname(os.path.abspath(__file__)))

def load_checks():
    """Every vf/checks/cNN.py exports MANIFEST = dict(technique, text, design_ref, note[, category])."""
    import importlib
    out = {}
    d = os.path.join(VERIF, "vf", "checks")
    for f in sorted(os.listdir(d)):
        if f.startswith("c") and f.endswith(".py"):
            m = importlib.import_module("vf.checks." + f[:-3])
            if hasattr(m, "MANIFEST"):
                out[f[:-3].upper()] = m.MANIFEST
    return out


sys.path.insert(0, VERIF)
CHECKS = load_checks()

PENDING_REASON = "check not built yet in this round (planned, see DESIGN.md §8); not claimed until its machinery exists"


def main():
    props = [json.loads(l)["id"] for l in open(os.path.join(VERIF, "properties.jsonl"))]
    checks = []
    for pid in props:
        if pid not in CHECKS:
            continue
        c = CHECKS[pid]
        checks.append({
            "property_id": pid,
            "quick_cmd": "./check %s --tier quick" % pid,
            "thorough_cmd": "./check %s --tier thorough" % pid,
            "evidence_file": "evidence/%s.json" % pid,
            "replay_cmd_template": "./check %s --replay {path}" % pid,
            "engine": c.get("engine", "lean+harness"),
            "level_claimed": {"category": c.get("category", "proof"), "text": c["text"], "design_ref": c["design_ref"]},
            "level_note": c["note"],
            "technique": c["technique"],
        })
    hooks_commits = []
    hp = os.path.join(VERIF, "hooks_commits.txt")
    if os.path.exists(hp):
        hooks_commits = [l.split()[0] for l in open(hp) if l.strip()]
    m = {
        "version": 1,
        "setup_cmd": "./check setup",
        "hooks": {"guard": "YARA_VERIF",
                  "enable": "vf/build.py compiles every libyara source of /repo's working tree with -DYARA_VERIF (plus -DMACHO_MODULE -DDEX_MODULE) into /verif/.build/<flavour>/",
                  "baseline_off_cmd": "scripts/baseline_off.sh",
                  "source_commits": hooks_commits, "add_only": True},
        "engines": [
            {"name": "lean-library", "path": "lean/YaraModel", "serves_properties": sorted(CHECKS), "kind_free_text": "Lean 4 models, specs and property theorems (lake build + axiom audit on every run)"},
            {"name": "yvdriver", "path": "lean/Driver", "serves_properties": sorted(CHECKS), "kind_free_text": "compiled Lean driver evaluating the model/spec on the case lines"},
            {"name": "harness", "path": "harness", "serves_properties": sorted(CHECKS), "kind_free_text": "C harnesses calling the real libyara (rebuilt from /repo) on the same case lines"},
            {"name": "translators", "path": "translators", "serves_properties": sorted(CHECKS), "kind_free_text": "regenerate lean/YaraModel/Gen/*.lean from /repo sources on every run"},
        ],
        "checks": checks,
        "notes": "Entry point ./check <Cnn> --tier quick|thorough; see DESIGN.md. known_findings.json lists genuine defects recorded rather than repaired.",
        "not_applicable": [{"property_id": p, "reason": PENDING_REASON} for p in props if p not in CHECKS],
    }
    json.dump(m, open(os.path.join(VERIF, "MANIFEST.json"), "w"), indent=1)
    try:
        import jsonschema
        jsonschema.validate(m, json.load(open("/root/.vp/MANIFEST.schema.json")))
        print("MANIFEST valid,", len(checks), "checks")
    except ImportError:
        print("MANIFEST written (jsonschema not available),", len(checks), "checks")


if __name__ == "__main__":
    main()
