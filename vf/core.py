"""Shared machinery of the checks: Lean build + audit, running harness and driver on the
same case lines, diffing, known findings, evidence, verdict lines."""
import os, sys, json, subprocess, time, re, fcntl, hashlib, random, shutil

VERIF = os.path.dirname(os.path.dirname(os.path.abspath(__file__)))
LEAN = os.path.join(VERIF, "lean")
OUT = os.path.join(VERIF, "out")
EVID = os.path.join(VERIF, "evidence")
REPO = os.environ.get("VERIF_REPO", "/repo")
sys.path.insert(0, VERIF)
from vf import build as vbuild

ACCEPTED_AXIOMS = {"propext", "Classical.choice", "Quot.sound"}
FORBIDDEN = re.compile(r"\b(sorry|admit|native_decide|bv_decide|implemented_by|unsafe)\b|^\s*axiom\s|maxHeartbeats\s+0")


class Lock:
    def __init__(self, name):
        os.makedirs(vbuild.BUILD, exist_ok=True)
        self.path = os.path.join(vbuild.BUILD, name + ".lock")

    def __enter__(self):
        self.f = open(self.path, "w")
        fcntl.flock(self.f, fcntl.LOCK_EX)

    def __exit__(self, *a):
        fcntl.flock(self.f, fcntl.LOCK_UN)
        self.f.close()


def seed():
    try:
        return int(os.environ.get("VERIF_SEED", "1"))
    except ValueError:
        return 1


def rng(tag=""):
    return random.Random("%d/%s" % (seed(), tag))


def build(flavour="asan", harness=(), cli=False, extra_defs="", tag=None):
    with Lock("make-" + (flavour if not tag else flavour + "-" + tag)):
        return vbuild.build(flavour, harness=harness, cli=cli, extra_defs=extra_defs, tag=tag)


# ---------------------------------------------------------------- Lean side

def strip_comments(text):
    text = re.sub(r"/-.*?-/", "", text, flags=re.S)
    return re.sub(r"--.*", "", text)


def grep_forbidden():
    hits = []
    for root, _, files in os.walk(LEAN):
        if ".lake" in root:
            continue
        for fn in files:
            if fn.endswith(".lean"):
                p = os.path.join(root, fn)
                for i, l in enumerate(strip_comments(open(p).read()).splitlines()):
                    if FORBIDDEN.search(l):
                        hits.append("%s:%d: %s" % (os.path.relpath(p, LEAN), i + 1, l.strip()))
    return hits


AUDIT_TMPL = """import Lean
import %(mod)s
open Lean Elab Command
run_cmd do
  let env ← getEnv
  let some idx := env.getModuleIdx? `%(mod)s | throwError "module not found"
  for (n, ci) in env.constants.map₁.toList do
    if env.getModuleIdxFor? n == some idx then
      if let .thmInfo _ := ci then
        if !n.isInternalDetail then
          let axs ← Lean.collectAxioms n
          IO.println s!"AUDIT {n} {axs.toList}"
"""


def run_translators(names):
    """names: list of translator module names under /verif/translators; returns {name: sha}."""
    hashes = {}
    for n in names:
        mod = __import__("translators." + n, fromlist=["run"])
        hashes[n] = mod.run(REPO, os.path.join(LEAN, "YaraModel", "Gen"))
    return hashes


def lean_check(thm_modules, need_driver=True):
    """Re-check the property theorems. Returns dict(ok, obligations, discharged, theorems, log, forbidden)."""
    res = {"ok": False, "obligations": 0, "discharged": 0, "theorems": {}, "log": "", "forbidden": []}
    with Lock("lake"):
        targets = list(thm_modules) + (["yvdriver"] if need_driver else [])
        t0 = time.time()
        r = subprocess.run(["lake", "build"] + targets, cwd=LEAN, stdout=subprocess.PIPE, stderr=subprocess.STDOUT, text=True)
        res["build_s"] = round(time.time() - t0, 1)
        if r.returncode != 0:
            res["log"] = "\n".join(l for l in r.stdout.splitlines() if "warning" not in l)[-4000:]
            # driver may still be buildable even if a theorem broke
            if need_driver:
                r2 = subprocess.run(["lake", "build", "yvdriver"], cwd=LEAN, stdout=subprocess.PIPE, stderr=subprocess.STDOUT, text=True)
                res["driver_ok"] = r2.returncode == 0
            return res
        res["driver_ok"] = True
        res["forbidden"] = grep_forbidden()
        for mod in thm_modules:
            src = AUDIT_TMPL % {"mod": mod}
            apath = os.path.join(vbuild.BUILD, "audit_%s.lean" % mod.replace(".", "_"))
            open(apath, "w").write(src)
            r = subprocess.run(["lake", "env", "lean", apath], cwd=LEAN, stdout=subprocess.PIPE, stderr=subprocess.STDOUT, text=True)
            if r.returncode != 0:
                res["log"] = r.stdout[-3000:]
                return res
            for l in r.stdout.splitlines():
                m = re.match(r"AUDIT (\S+) \[(.*)\]", l)
                if m:
                    axs = [a.strip() for a in m.group(2).split(",") if a.strip()]
                    res["theorems"][m.group(1)] = axs
    res["obligations"] = len(res["theorems"])
    res["discharged"] = sum(1 for a in res["theorems"].values() if set(a) <= ACCEPTED_AXIOMS)
    res["ok"] = (res["obligations"] > 0 and res["discharged"] == res["obligations"] and not res["forbidden"])
    return res


def driver_path():
    return os.path.join(LEAN, ".lake", "build", "bin", "yvdriver")


def run_lines(cmd, lines, timeout=600, env=None):
    """Feed case lines to a process; return (list of output lines, returncode, stderr tail)."""
    e = dict(os.environ)
    e.setdefault("ASAN_OPTIONS", "detect_leaks=1:abort_on_error=0:exitcode=99")
    e.setdefault("UBSAN_OPTIONS", "print_stacktrace=1:halt_on_error=1")
    if env:
        e.update(env)
    p = subprocess.run(cmd, input="".join(l + "\n" for l in lines), stdout=subprocess.PIPE, stderr=subprocess.PIPE,
                       text=True, timeout=timeout, env=e, errors="replace")
    return p.stdout.splitlines(), p.returncode, p.stderr[-3000:]


def run_parallel(cmd, lines, jobs=None, timeout=900, env=None):
    """Split case lines over `jobs` processes (cases are independent); keep order."""
    jobs = jobs or min(16, os.cpu_count() or 4)
    if len(lines) < 4 * jobs:
        return run_lines(cmd, lines, timeout, env)
    from concurrent.futures import ThreadPoolExecutor
    chunks = [lines[i::jobs] for i in range(jobs)]
    with ThreadPoolExecutor(jobs) as ex:
        rs = list(ex.map(lambda c: run_lines(cmd, c, timeout, env), chunks))
    outs = {}
    rc, err = 0, ""
    for c, (o, r, e) in zip(chunks, rs):
        if r != 0:
            rc, err = r, e
        for l in o:
            outs[l.split(" ", 1)[0]] = l
    ordered = [outs[l.split(" ", 1)[0]] for l in lines if l.split(" ", 1)[0] in outs]
    return ordered, rc, err


def diff_outputs(lines, impl, model):
    """All three keyed by first token (case id). Returns list of (case_line, impl_line, model_line)."""
    mi = {l.split(" ", 1)[0]: l for l in impl}
    mm = {l.split(" ", 1)[0]: l for l in model}
    bad = []
    for c in lines:
        k = c.split(" ", 1)[0]
        if mi.get(k) != mm.get(k):
            bad.append((c, mi.get(k), mm.get(k)))
    return bad


# ---------------------------------------------------------------- findings / evidence / verdict

def known_findings(pid):
    p = os.path.join(VERIF, "known_findings.json")
    if not os.path.exists(p):
        return []
    return [f for f in json.load(open(p)).get("findings", []) if f.get("property") == pid]


class Check:
    """Book-keeping for one run of one property's check."""

    def __init__(self, pid, tier):
        self.pid, self.tier = pid, tier
        self.t0 = time.time()
        self.violations = []      # (replay_path, suffix)
        self.known_hit = []
        self.cov = {}
        self.assumptions = []
        os.makedirs(os.path.join(OUT, pid), exist_ok=True)
        os.makedirs(EVID, exist_ok=True)

    def replay_file(self, name, obj):
        p = os.path.join(OUT, self.pid, name)
        json.dump(obj, open(p, "w"), indent=1)
        return p

    def violation(self, name, obj, no_input=False):
        obj = dict(obj)
        obj["property"] = self.pid
        p = self.replay_file(name, obj)
        self.violations.append((p, " no-failing-input-found" if no_input else ""))

    def known(self, finding, what):
        self.known_hit.append((finding, what))

    def finish(self, level="proof"):
        wall = round(time.time() - self.t0, 2)
        ev = {"property_id": self.pid, "tier": self.tier, "seed": seed(), "level": level,
              "coverage": self.cov, "assumptions": self.assumptions, "wall_s": wall,
              "violations": len(self.violations)}
        json.dump(ev, open(os.path.join(EVID, self.pid + ".json"), "w"), indent=1)
        for f, what in self.known_hit:
            print("KNOWN-FINDING: property=%s %s" % (self.pid, what))
        for p, suf in self.violations[:5]:
            print("VIOLATION property=%s replay=%s%s" % (self.pid, p, suf))
        if not self.violations:
            print("OK property=%s tier=%s wall=%.1fs" % (self.pid, self.tier, wall))
        return 1 if self.violations else 0


def proof_coverage(chk, lres, thm_modules, translators=None):
    """Fill the proof-level keys of the evidence from a lean_check result."""
    chk.cov.update({
        "obligations": lres["obligations"], "discharged": lres["discharged"],
        "checker_cmd": "cd /verif/lean && lake build %s && lake env lean <audit: collectAxioms over every theorem of the module>" % " ".join(thm_modules),
        "trusted_base": ["Lean 4.33.0 kernel", "axioms: propext, Classical.choice, Quot.sound (only those reported per theorem below)",
                         "correspondence harness /verif/harness + generator /verif/vf (ties the model to /repo)"],
        "theorems": lres["theorems"], "lean_build_s": lres.get("build_s"),
    })
    if translators:
        chk.cov["translator_output_sha"] = translators


def handle_broken_proof(chk, lres, found_input):
    """R4: the proof layer no longer checks. `found_input` says whether the search already reported one."""
    if lres["ok"]:
        return
    if not found_input:
        chk.violation("proof_broken.json", {"kind": "proof-obligation-broken",
                                            "lean_log": lres["log"], "forbidden": lres["forbidden"],
                                            "theorems": lres["theorems"]}, no_input=True)
