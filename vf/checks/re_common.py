"""Shared pieces of the C02 / C03 checks: canonical AST text (the format read by lean/Driver/Re.lean and written by
harness/h_re.c), parsing of harness / driver outputs, and the oracle taken from the property text.

Trusted (tiny, exercised by every case through the AST tie): `ast_text`, `norm`.  The AST tie compares the text the
generator hands to the Lean specification with the text h_re.c prints for the RE_AST the real lexer+grammar built."""
import binascii

import re as re_mod
INT_MAX = 2147483647
RE_MAX_RANGE = 32767


def hx(s):
    b = s if isinstance(s, (bytes, bytearray)) else s.encode("latin1")
    return binascii.hexlify(bytes(b)).decode() or "-"


# ---------------------------------------------------------------- canonical AST
# binary nodes: ('lit',v) ('masked',v,m) ('notlit',v) ('maskednot',v,m) ('any',) ('cls',bitmap:int,neg:bool)
#  ('w',) ('W',) ('s',) ('S',) ('d',) ('D',) ('empty',) ('bol',) ('eol',) ('wb',) ('nwb',)
#  ('cat',a,b) ('alt',a,b) ('star',a,g) ('plus',a,g) ('range',a,lo,hi,g) ('rangeany',lo,hi,g)
#  n-ary ('concat',[x1..xn]) is normalised by norm(): right-nested cat, a one-child concat is its child.

def norm(n):
    k = n[0]
    if k == "concat":
        xs = [norm(x) for x in n[1]]
        assert xs
        acc = xs[-1]
        for x in reversed(xs[:-1]):
            acc = ("cat", x, acc)
        return acc
    if k in ("cat", "alt"):
        return (k, norm(n[1]), norm(n[2]))
    if k in ("star", "plus"):
        return (k, norm(n[1]), n[2])
    if k == "range":
        return (k, norm(n[1]), n[2], n[3], n[4])
    return n


def bitmap_hex(bm):
    return "".join("%02x" % ((bm >> (8 * i)) & 0xFF) for i in range(32))


def ast_text(n):
    k = n[0]
    g = lambda b: "g" if b else "l"
    if k == "lit": return "l%02x" % n[1]
    if k == "masked": return "m%02x%02x" % (n[1], n[2])
    if k == "notlit": return "n%02x" % n[1]
    if k == "maskednot": return "k%02x%02x" % (n[1], n[2])
    if k == "any": return "."
    if k == "cls": return "c%d%s" % (1 if n[2] else 0, bitmap_hex(n[1]))
    if k in ("w", "W", "s", "S", "d", "D"): return k
    if k == "empty": return "e"
    if k == "bol": return "^"
    if k == "eol": return "$"
    if k == "wb": return "b"
    if k == "nwb": return "B"
    if k == "cat": return "C(%s,%s)" % (ast_text(n[1]), ast_text(n[2]))
    if k == "alt": return "A(%s,%s)" % (ast_text(n[1]), ast_text(n[2]))
    if k == "star": return "*%s(%s)" % (g(n[2]), ast_text(n[1]))
    if k == "plus": return "+%s(%s)" % (g(n[2]), ast_text(n[1]))
    if k == "range": return "R%s%d,%d(%s)" % (g(n[4]), n[2], n[3], ast_text(n[1]))
    if k == "rangeany": return "J%s%d,%d" % (g(n[3]), n[1], n[2])
    raise ValueError(k)


def count_nodes(n):
    k = n[0]
    if k in ("cat", "alt"): return 1 + count_nodes(n[1]) + count_nodes(n[2])
    if k in ("star", "plus", "range"): return 1 + count_nodes(n[1])
    return 1


# ---------------------------------------------------------------- outputs
def parse_scan(line):
    """h_scan line -> dict(status, rules{name:0/1}, matches{'$a': [(off,len)]}, info)"""
    t = line.split()
    d = {"status": t[1] if len(t) > 1 else "?", "rules": {}, "matches": {}, "raw": line}
    if d["status"] != "OK":
        d["err"] = t[2] if len(t) > 2 else ""
        return d
    for tok in t[2:]:
        if tok.startswith("rules=") and tok != "rules=-":
            for it in tok[6:].split(","):
                nm, v = it.rsplit("=", 1)
                d["rules"][nm.split(":", 1)[1]] = int(v)
        elif tok.startswith("m=") and tok != "m=-":
            for it in tok[2:].split(";"):
                name, rest = it.split("@", 1)
                off, ln, _ = rest.split(":", 2)
                d["matches"].setdefault(name.split(".", 1)[1], []).append((int(off), int(ln)))
        elif tok.startswith("info="):
            d["info"] = tok[5:]
    return d


def parse_sets(tok):
    """'<o>:<l>,<l>;<o>:...' -> {o: set(l)}"""
    out = {}
    if tok in ("-", ""):
        return out
    for it in tok.split(";"):
        o, ls = it.split(":")
        out[int(o)] = set(int(x) for x in ls.split(","))
    return out


def parse_spec(line):
    """driver line `<id> S a=.. w=.. af=.. wf=..` -> dict of sets;  `<id> M m` -> dict(M=)"""
    t = line.split()
    if len(t) >= 2 and t[1] == "S":
        d = {"kind": "S"}
        for tok in t[2:]:
            k, v = tok.split("=", 1)
            d[k] = parse_sets(v)
        return d
    if len(t) >= 3 and t[1] == "M":
        return {"kind": "M", "M": int(t[2])}
    return {"kind": "BAD", "raw": line}


# ---------------------------------------------------------------- oracle (from the property text)
def judge(matches, spec, ascii_, wide, fullword, buflen):
    """matches: reported [(off,len)] of the string, in reported order.  spec: parse_spec() dict.
    Returns (violations [str], known [str]) where known are instances of the listed finding C03-empty-match.

    Oracle:  (1) offsets strictly ascending (so no duplicates);
             (2) every reported (o,L): L is an admissible length at o (in the mode(s) of the string, passing fullword);
             (3) every offset o < |buf| with an admissible NON-EMPTY sequence is reported
                 [fullword: required only when every admissible length of some mode passes the delimiter test,
                  forbidden when none passes; in between the engine's choice of the tested length is a spec decision];
             (4) an offset whose only admissible sequence is empty: the property says "non-empty", the engine reports it
                 with length 0 -> KNOWN FINDING C03-empty-match when reported, fine when not reported."""
    viol, known = [], []
    a = spec.get("a", {}) if ascii_ else {}
    w = spec.get("w", {}) if wide else {}
    af = spec.get("af", {}) if (ascii_ and fullword) else a
    wf = spec.get("wf", {}) if (wide and fullword) else w
    prev = -1
    rep = {}
    for (o, L) in matches:
        if o <= prev:
            viol.append("offsets not strictly ascending at %d" % o)
        prev = o
        rep[o] = L
        adm = af.get(o, set()) | wf.get(o, set())
        if L not in adm:
            allm = a.get(o, set()) | w.get(o, set())
            if not allm:
                viol.append("spurious match at offset %d (length %d): no admissible sequence starts there" % (o, L))
            else:
                viol.append("reported length %d at offset %d is not admissible (admissible: %s)" % (L, o, sorted(adm)[:12]))
        elif L == 0 and (a.get(o, set()) | w.get(o, set())) == {0}:
            known.append("offset %d reported with length 0, only the empty sequence matches there" % o)
    for o in sorted(set(a) | set(w)):
        if o >= buflen or o in rep:
            continue
        allm = a.get(o, set()) | w.get(o, set())
        if allm == {0}:
            continue
        if not fullword:
            viol.append("missed match at offset %d (admissible lengths %s)" % (o, sorted(allm)[:12]))
        else:
            must = (o in a and a[o] and af.get(o, set()) == a[o] and a[o] != {0}) or \
                   (o in w and w[o] and wf.get(o, set()) == w[o] and w[o] != {0})
            if must:
                viol.append("missed fullword match at offset %d (all admissible lengths %s are delimited)" % (o, sorted(allm)[:12]))
    return viol, known


# ---------------------------------------------------------------- robust running (a crashing / hanging case must not hide the others)
def _run_once(core, cmd, lines, timeout):
    """returns (stdout lines, rc or 'timeout', stderr tail)"""
    import subprocess, os
    e = dict(os.environ)
    e.setdefault("ASAN_OPTIONS", "detect_leaks=1:abort_on_error=0:exitcode=99")
    e.setdefault("UBSAN_OPTIONS", "print_stacktrace=1:halt_on_error=1")
    p = subprocess.Popen(cmd, stdin=subprocess.PIPE, stdout=subprocess.PIPE, stderr=subprocess.PIPE, env=e)
    try:
        out, err = p.communicate("".join(l + "\n" for l in lines).encode(), timeout=timeout)
        return out.decode("latin1").splitlines(), p.returncode, err.decode("latin1")[-3000:]
    except subprocess.TimeoutExpired:
        p.kill()
        out, err = p.communicate()
        lines = out.decode("latin1").splitlines()
        if lines and not out.endswith(b"\n"):
            lines = lines[:-1]            # the last line of a killed process may be cut in the middle
        return lines, "timeout", err.decode("latin1")[-3000:]


def run_robust(core, cmd, cases, jobs=None, chunk_timeout=120, single_timeout=12, confirm=True):
    """Runs the cases in parallel chunks.  When a process dies or exceeds the timeout, the first case without output is
    the culprit: it is re-run alone (confirmation), recorded, and the rest of the chunk continues.
    Returns (outputs keyed by id, crashers [(case_line, rc, stderr)]) — a hang is a crasher with rc == 'timeout'."""
    from concurrent.futures import ThreadPoolExecutor
    import os
    jobs = jobs or min(16, os.cpu_count() or 4)
    chunks = [cases[i::jobs] for i in range(jobs)] if len(cases) >= 4 * jobs else [cases]

    def work(chunk):
        omap, crashers = {}, []
        todo = list(chunk)
        while todo:
            out, rc, err = _run_once(core, cmd, todo, max(chunk_timeout, 0.2 * len(todo)))
            ids = set()
            for l in out:
                k = l.split(" ", 1)[0]
                omap[k] = l; ids.add(k)
            if rc == 0:
                break
            idx = next((i for i, c in enumerate(todo) if c.split(" ", 1)[0] not in ids), None)
            if idx is None:
                break            # failure after the last case (e.g. leak report at exit): nothing to attribute
            if rc == "timeout" and confirm:
                # the output of a killed process may be incomplete (buffered): run every case without output on its own
                for c in todo:
                    k = c.split(" ", 1)[0]
                    if k in omap:
                        continue
                    o1, rc1, err1 = _run_once(core, cmd, [c], single_timeout)
                    if o1:
                        omap[k] = o1[0]
                    if rc1 != 0:
                        crashers.append((c, rc1, err1))
                break
            if not confirm:
                o1, rc1, err1 = [], rc, err
            else:
                o1, rc1, err1 = _run_once(core, cmd, [todo[idx]], single_timeout)
            if rc1 != 0:
                crashers.append((todo[idx], rc1, err1))
            elif o1:
                omap[o1[0].split(" ", 1)[0]] = o1[0]
            todo = todo[idx + 1:]
        return omap, crashers

    omap, crashers = {}, []
    with ThreadPoolExecutor(jobs) as ex:
        for om, cr in ex.map(work, chunks):
            omap.update(om); crashers += cr
    return omap, crashers


# ---------------------------------------------------------------- whole-pattern function level (wfx)
def parse_wfx(tok):
    """'a|f0:7|b7:7;w|...' -> {(pass, 'f'|'b', pos): set(lens) or 'E'}"""
    out = {}
    if tok in ("-", ""):
        return out
    for part in tok.split(";"):
        items = part.split("|")
        ps = items[0][-1]
        for it in items[1:]:
            k, ls = it.split(":", 1)
            out[(ps, k[0], int(k[1:]))] = "E" if ls.startswith("E") else set(int(x) for x in ls.split(","))
    return out


def check_wfx(core, chk, b, cases, excuse, maxbuf=700, limit=10, found_so_far=False):
    """the whole AST emitted by yr_re_ast_emit_code into a private arena and run EXHAUSTIVELY by the C VM forwards from
    every position and backwards from every position, against the specification's sets (function level: emit + VM = spec,
    independent of atoms and of the scan loop).  `excuse(case, kind)` says whether a listed finding covers a deviation of
    that kind ('subset' = C reports fewer lengths, 'crash')."""
    lines = []
    for c in cases:
        toks = dict(t.split("=", 1) for t in c.split()[1:] if "=" in t)
        if "mstr" in toks or toks.get("buf", "-") == "-" or len(toks.get("buf", "")) // 2 > maxbuf:
            continue
        big = [int(x) for m_ in __import__("re").finditer(r"J[gl](\d+),(\d+)", toks["re"]) for x in m_.groups()]
        if any(x > 200 for x in big):
            continue      # a pattern with a chaining jump never runs as ONE piece in the engine (its pieces are covered by the real-code run)
        lines.append("%s src=%s re=%s fl=%s buf=%s wfx=1" % (c.split(" ", 1)[0], toks["src"], toks["re"], toks.get("fl", "a"), toks["buf"]))
    omap, crashers = run_robust(core, [b["h_re"]], lines)
    mm, _ = run_robust(core, [core.driver_path(), "re"], lines, chunk_timeout=300, single_timeout=20)
    res = {"cases": len(lines), "agree": 0, "subset_known": 0, "limit_errors": 0, "crash_known": 0, "violations": 0, "positions_compared": 0}
    crashed = {c.split(" ", 1)[0]: (c, r, e) for c, r, e in crashers}
    found = False
    for l in lines:
        cid = l.split(" ", 1)[0]
        if cid in crashed:
            c, r, e = crashed[cid]
            if excuse(l, "crash", e if r != "timeout" else "timeout"):
                res["crash_known"] += 1
            else:
                if res["violations"] < limit:
                    chk.violation("wfx_crash_%s.json" % cid, {"kind": "crash in yr_re_exec / yr_re_fast_exec on the emitted code", "engine": "re", "harness": "h_re", "case": l, "rc": r, "stderr": e[-2000:]})
                res["violations"] += 1; found = True
            continue
        o, m = omap.get(cid), mm.get(cid)
        if not o or not m or o.split()[1] != "OK":
            continue
        tok = [t for t in o.split() if t.startswith("wfx=")]
        if not tok or len(m.split()) < 3 or m.split()[1] != "W":
            continue
        cw = tok[0][4:]
        cw = ";".join(p.split(":", 1)[1] if ":" in p.split("|")[0] else p for p in cw.split(";")) if cw != "-" else "-"
        C, S = parse_wfx(cw), parse_wfx(m.split()[2])
        bad, subset, lim = [], False, False
        has_eol = "$" in l.split(" re=", 1)[1].split(" ", 1)[0]
        for k in set(C) | set(S):
            if has_eol and k[1] == "b":
                continue      # RE_OPCODE_MATCH_AT_END never succeeds in backward code (it is only reachable to the RIGHT of an atom in real scans)
            cv, sv = C.get(k, set()), S.get(k, set())
            res["positions_compared"] += 1
            if cv == "E":
                lim = True
            elif cv != sv:
                if cv < sv:
                    subset = True
                bad.append((k, sorted(cv), sorted(sv)))
        if lim:
            res["limit_errors"] += 1
        elif not bad:
            res["agree"] += 1
        elif all(set(cv) < set(sv) for _, cv, sv in bad) and excuse(l, "subset", ""):
            res["subset_known"] += 1
        else:
            if res["violations"] < limit:
                chk.violation("wfx_%s.json" % cid, {"kind": "emitted code run exhaustively by the C VM differs from the specification (function level)", "engine": "re",
                                                   "harness": "h_re", "case": l, "implementation": o[:1500], "model_spec": m[:1500],
                                                   "differences": [[list(map(str, k)), cv, sv] for k, cv, sv in bad[:8]]})
            res["violations"] += 1; found = True
    # ---- the Lean model of _yr_re_emit against the bytes the real function wrote (forward and backward code)
    elines = [l[:-1] + "2" for l in lines]            # wfx=1 -> wfx=2
    eo, ecr = run_robust(core, [b["h_re"]], elines)
    emm, _ = run_robust(core, [core.driver_path(), "re"], elines, chunk_timeout=300, single_timeout=20)
    res["emit_compared"] = 0; res["emit_mismatch"] = 0
    for l in elines:
        cid = l.split(" ", 1)[0]
        o, m = eo.get(cid), emm.get(cid)
        if not o or not m or o.split()[1] != "OK" or len(m.split()) < 3 or m.split()[1] != "E":
            continue
        tok = [t for t in o.split() if t.startswith("wfx=")]
        if not tok or ":C:" not in tok[0]:
            continue
        ccode = tok[0].split(":C:", 1)[1]                 # <fwd hex>:<bwd hex> of the first (only) string
        ccode = ccode.split(";")[0]
        res["emit_compared"] += 1
        if ccode != m.split()[2]:
            if excuse(l, "emit", ""):
                res["emit_known"] = res.get("emit_known", 0) + 1
                continue
            res["emit_mismatch"] += 1
            if res["emit_mismatch"] <= 3:
                chk.violation("emit_%s.json" % cid, {"kind": "bytecode written by yr_re_ast_emit_code differs from the Lean model of _yr_re_emit", "engine": "re", "harness": "h_re",
                                                    "case": l, "implementation": ccode[:1500], "model": m.split()[2][:1500]},
                              no_input=not (found or found_so_far))
            found = True
    return res, found


# ---------------------------------------------------------------- atoms tie (Model/ReAtoms.lean vs. hook H3)
def is_literal_ast(t):
    """yr_re_ast_extract_literal succeeds: a literal node or a concatenation of literal nodes (such strings take the text
    path of atoms.c, property C01)"""
    import re as _re
    return _re.fullmatch(r"(l[0-9a-f]{2}|C\(|,|\))+", t) is not None


def check_atoms(core, chk, cases, imap, amap=None, found_so_far=False, limit=6):
    """the atoms the Lean model of atoms.c extracts (driver `reatoms`) == the atoms the real compiler inserts into the
    automaton (hook H3, h_scan atoms=1), as sets, for every non-literal unchained string"""
    lines, want = [], {}
    res = {"compared": 0, "literal_skipped": 0, "chained_skipped": 0, "mismatch": 0}
    for c in cases:
        cid = c.split(" ", 1)[0]
        toks = dict(t.split("=", 1) for t in c.split()[1:] if "=" in t)
        il = imap.get(cid, "")
        if "mstr" in toks or toks.get("re", "?") == "?" or " OK " not in il:
            continue
        at = [t for t in il.split() if t.startswith("atoms=")]
        if not at or at[0] == "atoms=-":
            continue
        if is_literal_ast(toks["re"]):
            res["literal_skipped"] += 1
            continue
        ents = [e.split(":") for e in at[0][6:].split(",")]
        if any(e[0] != "0" for e in ents):
            res["chained_skipped"] += 1
            continue
        refs = None
        acm = [t for t in (amap or {}).get(cid, "").split() if t.startswith("acm=")]
        if acm and acm[0] != "acm=-":
            refs = sorted(set("%s:%s" % (x[2], x[3]) for x in (e.split(":") for e in acm[0][4:].split(";")) if x[0] == "0"))
        want[cid] = (c, sorted(set((e[1] or "-") for e in ents)), sorted(set(e[3] for e in ents)), refs)
        fl = "".join(ch for ch in toks.get("fl", "a") if ch in "awi")
        lines.append("%s re=%s fl=%s" % (cid, toks["re"], fl))
    out, _ = run_robust(core, [core.driver_path(), "reatoms"], lines, chunk_timeout=300, single_timeout=30)
    bad = 0
    res["refs_compared"] = 0
    for cid, (c, impl, bts, refs) in want.items():
        ml = out.get(cid)
        if ml is None:
            continue
        t = ml.split()
        model = sorted(t[2].split(",")) if len(t) >= 3 and t[1] == "A" else None
        mrefs = sorted(t[4].split(",")) if len(t) >= 5 and t[3] == "P" else None
        res["compared"] += 1
        res["refs_compared"] += int(refs is not None)
        if refs is not None and mrefs != refs:
            res["mismatch"] += 1
            if bad < limit:
                chk.violation("atomrefs_%s.json" % cid, {"kind": "code positions of the atoms (forward / backward code of the automaton entries) differ from the Lean model",
                                                        "engine": "re", "harness": "h_re", "case": c, "implementation": refs[:40], "model_spec": (mrefs or [ml])[:40]}, no_input=True)
            bad += 1
        elif model != impl or bts != ["0"]:
            res["mismatch"] += 1
            if bad < limit:
                chk.violation("atoms_%s.json" % cid, {"kind": "atoms inserted into the automaton differ from the Lean model of atoms.c", "engine": "re",
                                                     "harness": "h_scan", "case": c, "implementation": impl[:40], "model_spec": (model or [ml])[:40],
                                                     "backtracks": bts}, no_input=True)
            bad += 1
    return res, bad > 0


# ---------------------------------------------------------------- chain structure tie (Model/ReSplit.lean vs. the compiled strings)
def check_chain(core, chk, cases, amap, limit=6, skip=None):
    """the pieces and gaps the Lean model of yr_re_ast_split_at_chaining_point gives a string == the chain the real compiler
    built (h_re `strs=`: one YR_STRING per piece, chained_to the previous one, chain_gap_min / chain_gap_max)"""
    lines, want = [], {}
    res = {"compared": 0, "chained": 0, "mismatch": 0, "skipped_ambiguous": 0}
    for c in cases:
        cid = c.split(" ", 1)[0]
        toks = dict(t.split("=", 1) for t in c.split()[1:] if "=" in t)
        if skip is not None and skip(toks):
            res["skipped_ambiguous"] += 1
            continue
        al = amap.get(cid, "")
        st = [t for t in al.split() if t.startswith("strs=")]
        if "mstr" in toks or toks.get("re", "?") == "?" or " OK " not in al or not st or st[0] == "strs=-":
            continue
        ents = sorted((e.split(":") for e in st[0][5:].split(";")), key=lambda e: int(e[0]))
        ok_links = all(e[2] == ("-" if i == 0 else str(i - 1)) for i, e in enumerate(ents))
        impl = "%d %s" % (len(ents), ",".join("%s:%s" % (e[3], e[4]) for e in ents[1:]) or "-")
        want[cid] = (c, impl, ok_links)
        lines.append("%s re=%s x=1" % (cid, toks["re"]))
    out, _ = run_robust(core, [core.driver_path(), "resplit"], lines, chunk_timeout=300, single_timeout=30)
    bad = 0
    for cid, (c, impl, ok_links) in want.items():
        ml = out.get(cid)
        if ml is None:
            continue
        t = ml.split()
        model = "%s %s" % (t[2], t[3]) if len(t) >= 4 and t[1] == "C" else ml
        res["compared"] += 1
        res["chained"] += int(not impl.startswith("1 "))
        if model != impl or not ok_links:
            res["mismatch"] += 1
            if bad < limit:
                chk.violation("chain_%s.json" % cid, {"kind": "chain structure (pieces, gaps) differs from the Lean model of yr_re_ast_split_at_chaining_point", "engine": "re",
                                                     "harness": "h_re", "case": c, "implementation": impl, "model_spec": model, "links_ok": ok_links}, no_input=True)
            bad += 1
    return res, bad > 0


# ---------------------------------------------------------------- shape tie: the hex grammar only builds ASTs inside HexG
def check_hexg(core, chk, cases, amap, limit=6):
    """for every hex string the real compiler accepted: every piece of its AST (AST text of the emit tie, cut at the
    chaining points by the Lean model of yr_re_ast_split_at_chaining_point) has the shape of the inductive grammar
    description `Gram .piece` (Lemmas/ReHexGram.lean) and lies in the fragment of the completeness theorems: hexG piece,
    hexG (mirror piece), maskOK piece (Model/ReHexG.lean) — the hypothesis `HexG r` / `HexG (rev r)` / `MaskOK r` of
    Thm/C02 vm_complete_hex / hex_scan_complete_partial as a checked fact."""
    lines, want = [], {}
    res = {"hexg_checked": 0, "hexg_pieces": 0, "hexg_false": 0, "gram_false": 0, "hexg_rev_false": 0, "mask_false": 0, "whole_is_tokens": 0}
    for c in cases:
        cid = c.split(" ", 1)[0]
        toks = dict(t.split("=", 1) for t in c.split()[1:] if "=" in t)
        al = amap.get(cid, "")
        tok = [t for t in al.split() if t.startswith("ast=")]
        if "mstr" in toks or " OK " not in al or not tok or tok[0] == "ast=-":
            continue
        real_ast = tok[0].split(":", 2)[2].split(";")[0]          # the AST the real hex parser built
        want[cid] = (c, real_ast)
        lines.append("%s re=%s x=1" % (cid, real_ast))
    out, _ = run_robust(core, [core.driver_path(), "rehexg"], lines, chunk_timeout=300, single_timeout=30)
    bad = 0
    for cid, (c, real_ast) in want.items():
        ml = out.get(cid)
        if ml is None:
            continue
        t = ml.split()
        if len(t) < 8 or t[1] != "G":
            res["hexg_false"] += 1
            if bad < limit:
                chk.violation("hexg_%s.json" % cid, {"kind": "AST of an accepted hex string not understood by the shape driver", "engine": "re",
                                                    "harness": "h_re", "case": c, "implementation": real_ast[:600], "model_spec": ml}, no_input=True)
            bad += 1
            continue
        n = int(t[2])
        f = dict(x.split("=", 1) for x in t[3:])
        res["hexg_checked"] += 1
        res["hexg_pieces"] += n
        res["whole_is_tokens"] += int(f.get("toks") == "1")
        g, h, hr, mk = (int(f.get(k, -1)) for k in ("gram", "hexg", "hexgrev", "mask"))
        if (g, h, hr, mk) == (n, n, n, n):
            continue
        # a jump whose upper bound does not fit the 16-bit operand (only possible for a jump that directly follows a chaining
        # point of the root concatenation: it is not a chaining point itself, having no previous sibling in its piece)
        big = [m for m in re_mod.findall(r"J[gl](\d+),(\d+)", real_ast) if int(m[1]) >= 65536]
        res["gram_false"] += int(g != n); res["hexg_rev_false"] += int(hr != n); res["mask_false"] += int(mk != n)
        res["hexg_false"] += int(h != n or hr != n)
        if bad < limit:
            chk.violation("hexg_%s.json" % cid, {"kind": "the real hex grammar built an AST outside the fragment HexG of the completeness theorems "
                                                        "(pieces: %d, Gram %d, hexG %d, hexG mirror %d, maskOK %d)" % (n, g, h, hr, mk), "engine": "re",
                                                "harness": "h_re", "case": c, "implementation": real_ast[:600], "model_spec": ml, "jumps_ge_65536": big[:4]}, no_input=True)
        bad += 1
    return res, bad > 0
