"""C13 — all scan entry points agree, also across interrupted block iteration.
(a) every buffer (empty, tiny, page-size aligned, PE, ELF, text) through the 8 entry points: traces + return codes pairwise
    equal and equal to the model (`wrappers_funnel`);
(b) for block partitions of <= 6 blocks: "not ready" at EVERY subset of the first N iterator calls (N covers the whole
    block loop; for small partitions also the calls made by rule evaluation: module load, uintN(), hash ranges), the call
    repeated until done; the final trace of every subset compared with the uninterrupted run of the same partition and
    with the model (`resume_equiv`).  Thm/C13.lean is re-checked on every run."""
import os, hashlib
from vf import core
from vf.checks import scanlib as sl
from vf.checks import c10

THM = ["YaraModel.Thm.C13"]
MANIFEST = dict(
    technique="Lean 4 proof over the state-machine model of yr_scanner_scan_mem_blocks (all partitions, all not-ready schedules) "
              "+ exhaustive not-ready subsets and all entry points against the real library",
    text="proof: Thm/C13.lean proves resume_equiv (for every block list and every schedule whose not-ready answers go to the block loop, "
         "repeating the call until done gives the messages, result and final scanner state of one uninterrupted call with the same "
         "partition; corollary timeout_not_extended_by_resume: the deadline counts from the start of the scan), the invariant behind it (suspended state = resume point of the uninterrupted run), wrappers_funnel and "
         "entry_points_agree (scanner-level entry points after any history = rules-level entry points; uses C10's theorem, i.e. the "
         "code with the C10 fixes); place_operators_use_absolute_offsets + partition_invariant_matches/operators + "
         "block_loop_partition_invariant: every place-dependent string operator is a function of base+offset, and any partition "
         "(also with non-contiguous bases) that cuts no occurrence collects the same absolute matches, messages and result as one block. "
         "The tie compares clean partitions with yr_rules_scan_mem of the same bytes, and checks the resource protocol of every entry "
         "point (caller's descriptor open / same offset / rescannable, no descriptor leak, buffer and file untouched) for success, "
         "CALLBACK_ABORT and CALLBACK_ERROR. partial: not-ready answered to a call made by RULE EVALUATION is refuted (kernel-checked witness, "
         "finding F27: the scan succeeds with a different verdict) and stays a known finding. The tie runs every subset of "
         "not-ready positions (2^N, N <= 12) on the real scanner and on the compiled model and compares every outcome; entry points are "
         "compared pairwise and with the model. Timeouts: scanner objects (virtually) older than the timeout must scan like "
         "yr_rules_scan_mem with the same timeout; iterators taking 400 s per block against 1000 s end with SCAN_TIMEOUT under every "
         "subset of not-ready answers (virtual time: the harness moves the scanner's stopwatch). Sampled only: buffers, partitions and rule sets are generated.",
    design_ref="DESIGN.md §4 D10, §5 C13",
    note=core.TB + "Same model and parameters as C10. The iterator used follows the convention of tests/util.c: a not-ready call does not "
         "advance; first() resets the position. yr_scanner_scan_mem's 'too slow' pre-check (> 0.2 MB and zero-length atoms) is outside "
         "the model; proc entry points are not covered. LeakSanitizer is off in this check (leaks are C10/C16).")

PAGE = 4096


def gen_inputs(r):
    tiny = sl.repo_input("tests/data/tiny")
    elf = sl.repo_input("tests/data/elf_with_imports")
    pg = bytearray(r.choice([PAGE, 2 * PAGE]))
    for _ in range(20):
        o = r.randrange(len(pg) - 8); pg[o:o + 5] = b"hello"
    pg[-5:] = r.choice([b"hello", b"world", b"aaaaa"])
    pg[0:2] = r.choice([b"MZ", b"he", b"\x7fE"])
    return [tiny, elf, sl.Input(bytes(pg)), sl.Input(b""), sl.Input(b"h"), sl.Input(c10.rand_text(r, False)),
            sl.Input(sl.synth_pe(0x1010, b"hello world")), sl.Input(sl.synth_elf32(0x8048060, b"world"))]


def ep_rules(r, inp):
    """rule set probing the end of the buffer as well"""
    n = len(inp.data)
    pool = [inp, sl.Input(b"hello world"), sl.Input(b"")]
    rs = c10.gen_ruleset(r, pool)
    rules = rs.rules
    for x in rules:
        x.pop("sidx", None)
    if n >= 4:
        rules.insert(-1 if rs.has_burn else len(rules), dict(ns=rules[-1]["ns"], flags="", strings=[],
                     cond=("rd", 4, (n - 4) // 4 * 4, int.from_bytes(inp.data[(n - 4) // 4 * 4:(n - 4) // 4 * 4 + 4], "little"))))
    if n >= 1:
        rules.insert(-1 if rs.has_burn else len(rules), dict(ns=rules[-1]["ns"], flags="", strings=[], cond=("rd", 1, n - 1, inp.data[-1])))
        rules.insert(-1 if rs.has_burn else len(rules), dict(ns=rules[-1]["ns"], flags="", strings=[],
                     cond=("hash", 0, n, hashlib.md5(inp.data).hexdigest())))
    imports = list(rs.imports) + ([] if "hash" in rs.imports or n < 1 else ["hash"])
    return sl.RuleSet(rules, imports)


def small_rules(r, data):
    """few rules whose evaluation walks the blocks: module load, uintN, hash"""
    rules = [dict(ns=0, flags="", strings=[b"he"], cond=("cnt", 0, 1))]
    imports = []
    n = len(data)
    if r.random() < 0.5:
        o2 = r.randrange(n)
        rules.append(dict(ns=0, flags="", strings=[b"e"], cond=("and", ("rd", 1, o2, data[o2]), ("str", 1))))
    off = r.randrange(n)
    rules.append(dict(ns=0, flags="", strings=[], cond=("rd", 1, off, data[off])))
    u = r.random()
    if u < 0.4:
        imports.append("pe")
        rules.append(dict(ns=0, flags="", strings=[], cond=("mod", "pe", sl.pe_module_field(data) or 7)))
    elif u < 0.6:
        imports.append("elf")
        rules.append(dict(ns=0, flags="", strings=[], cond=("mod", "elf", sl.elf_module_field(data) or 7)))
    if r.random() < 0.6:
        imports.append("hash")
        o = r.randrange(n); ln = r.randint(1, n - o)
        rules.append(dict(ns=0, flags="", strings=[], cond=("hash", o, ln, hashlib.md5(data[o:o + ln]).hexdigest())))
    rules.append(dict(ns=0, flags="", strings=[], cond=("fseq", n)))
    return sl.RuleSet(rules, imports)


def place_task(r):
    """a text buffer, rules made of the place-dependent string operators and offset-dependent builtins around real
    occurrences, and a partition that does not cut any occurrence (so that it must agree with yr_rules_scan_mem of the same
    bytes); sometimes the same blocks at bases that are NOT contiguous (then only the model is the reference)"""
    while True:
        data = c10.rand_text(r, False) + r.choice([b" MARKER-1234 ", b"xyz"]) + c10.rand_text(r, False)
        whole = sl.Input(data)
        rules = []
        nstr = [0]

        def add(cond, ns=0, flags="", strings=()):
            rules.append(dict(ns=ns, flags=flags, strings=list(strings), cond=cond))
            nstr[0] += sum(sl.nidx(x) for x in strings)
        c10.place_rules(r, add, lambda: nstr[0], [whole])
        c10.place_rules(r, add, lambda: nstr[0], [whole])
        off = r.randrange(len(data))
        add(("rd", 1, off, data[off]))
        add(("fseq", len(data)))
        add(("epdef",))
        rs = sl.RuleSet(rules, [])
        strs = rs.all_strings()
        if sum(1 for s in strs if c10.count_occ(data, s) > 4) == 0:
            break
    k = r.randint(2, 5)
    for _ in range(20):
        parts = sl.split_parts(r, len(data), k)
        cuts = [sum(parts[:i]) for i in range(1, len(parts))]
        occ = [(o, o + len(s)) for s in strs for o, _ in sl.find_literal(s, data)]
        if not any(a < c < b for c in cuts for a, b in occ):
            break
    gap = r.random() < 0.3
    bases = None
    if gap:
        bases, cur = [], r.choice([0, 0, 64])
        for p in parts:
            bases.append(cur)
            cur += p + r.choice([0, 1, 16, 1000])
    return rs, [whole.with_parts(parts, None, bases), whole]


def chain_task(r):
    """a chained string whose head and tail are separated by a block boundary in such a way that their offsets INSIDE their blocks
    look like a legal chain (the defect fixed by /repo 173a2ea combined them), or kept together in one block (must equal
    yr_rules_scan_mem); plus a second, complete chain elsewhere"""
    h = r.randint(0, 12)
    gap = r.randint(8, 40)
    t = h + 4 + gap
    size = t + 4 + r.randint(8, 40)
    b = bytearray(b"." * (size + 330))
    b[h:h + 4] = c10.H1; b[t:t + 4] = c10.T1
    h2 = size + 4
    b[h2:h2 + 4] = c10.H2; b[h2 + 4 + 260:h2 + 8 + 260] = c10.T2
    data = bytes(b)
    rules = [dict(ns=0, flags="", strings=[c10.CHAINS[0]], cond=r.choice([("str", 0), ("cnt", 0, 1), ("in", 0, 0, 40)])),
             dict(ns=0, flags="", strings=[c10.CHAINS[1]], cond=("str", 2)),
             dict(ns=0, flags="", strings=[], cond=("fseq", len(data)))]
    rs = sl.RuleSet(rules, [])
    if r.random() < 0.7:
        # cut between head and tail, the tail's in-block offset not smaller than the end of the head's in-block offset
        c = r.randint(h + 4, max(h + 4, t - (h + 4)))
    else:
        c = r.choice([r.randint(t + 4, size), r.randint(0, h)]) or 1          # the first chain stays whole
    cuts = sorted({c, r.choice([size, size + 2, h2 + 100])} - {0, len(data)})
    parts = [y - x for x, y in zip([0] + cuts, cuts + [len(data)])]
    return rs, [sl.Input(data, parts), sl.Input(data), sl.Input(data[::-1] + b"hello")]


def fullword_task(r):
    """`fullword` strings ending exactly at the end of a block whose successor starts with a letter, or starting at the start of a block
    whose predecessor ends with one: inside one buffer these are not whole words, at a block boundary they are (the block ends are
    delimiters; nothing beyond the block may be looked at)"""
    w = r.choice([b"hello", b"world"])
    pieces = [c10.rand_text(r, False), b" " + w, r.choice([b"Xy", b"z9 ", b"w"]) + w + b" ", c10.rand_text(r, False), b" " + w]
    data = b"".join(pieces)
    c1 = len(pieces[0]) + len(pieces[1])                       # right after the first word, the next byte is alphanumeric
    c2 = c1 + len(pieces[2]) - len(w) - 1                      # right before the second word, the previous byte is alphanumeric
    cuts = sorted(set(r.sample([c1, c1, c2, len(data) - len(w)], r.randint(1, 2))) - {0, len(data)})
    parts = [y - x for x, y in zip([0] + cuts, cuts + [len(data)])]
    rules = [dict(ns=0, flags="", strings=[sl.Fullword(w)], cond=r.choice([("str", 0), ("cnt", 0, 2)])),
             dict(ns=0, flags="", strings=[sl.Fullword(sl.Rx(w[:2].decode() + "[a-z]+"))], cond=("str", 1)),
             dict(ns=0, flags="", strings=[w], cond=("cnt", 2, 3))]
    return sl.RuleSet(rules, []), [sl.Input(data, parts), sl.Input(data), sl.Input(b"other " + data[::-1])]


def timeout_task(r):
    """an iterator every call of which takes 400 (virtual) seconds, a timeout of 1000 s, at least three non-empty blocks: the third
    block is refused with ERROR_SCAN_TIMEOUT — also when the scan is interrupted by not-ready blocks and resumed: the deadline counts
    from the START of the scan, waiting and resuming does not extend it"""
    data = c10.rand_text(r, False) + b" hello world " + c10.rand_text(r, False)
    k = r.randint(3, 5)
    parts = sl.split_parts(r, len(data), k)
    rules = [dict(ns=0, flags="", strings=[b"hello"], cond=("str", 0)), dict(ns=0, flags="", strings=[], cond=("fseq", len(data))),
             dict(ns=0, flags="", strings=[b"he"], cond=("cnt", 1, 1))]
    return sl.RuleSet(rules, []), [sl.Input(data, parts)]


def gen_tasks(r, tier):
    tasks = []       # (kind, ruleset, inputs, flags, extra field)
    nep, nblk, nev, npl = (40, 70, 10, 60) if tier == "quick" else (1500, 3000, 350, 2500)
    for _ in range(20 if tier == "quick" else 600):      # fullword strings at block boundaries
        rs, ins = fullword_task(r)
        tasks.append(("fullword", rs, ins, r.choice(c10.FLAGS), "masks=0:%d:1:2" % min(len(ins[0].parts) + 1, 4)))
    for _ in range(25 if tier == "quick" else 800):      # chained strings and block boundaries
        rs, ins = chain_task(r)
        tasks.append(("chain", rs, ins, r.choice(c10.FLAGS), "masks=0:%d:1:2" % min(len(ins[0].parts) + 1, 5)))
    for _ in range(nep):
        ins = gen_inputs(r)
        i = r.randrange(len(ins))
        scripts = ["-"] + r.sample(["a0", "a1", "a2", "a5", "a9", "e0", "e1", "e2", "e3", "e6", "e12"], 3)
        fl = r.choice(c10.ALLFLAGS + [2, 2, 10, 18, 3])     # often SCAN_FLAGS_PROCESS_MEMORY: entry points differ between file and memory mode
        # half of them with a timeout (1000 s, never reached): the harness uses scanner OBJECTS that are (virtually) 2000 s old
        tasks.append(("ep", ep_rules(r, ins[i]), [ins[i]], fl, "ep=0 cbs=" + ",".join(scripts), r.choice([0, 1000])))
    for _ in range(12 if tier == "quick" else 400):      # timeouts across interrupted scans
        rs, ins = timeout_task(r)
        tasks.append(("timeout", rs, ins, 0, "masks=0:%d st=400" % (len(ins[0].parts) + 1), 1000))
    for _ in range(nblk):          # the whole block loop, <= 6 blocks, full rule sets
        pool = c10.gen_pool(r)
        chained = r.random() < 0.35
        cand = [x for x in pool if len(x.data) >= 1]
        if chained:      # chained strings: heads and tails in the same / in different blocks (the model follows the code)
            cand = c10.chain_inputs(r)
            pool = pool + cand
        x = r.choice(cand)
        k = r.randint(1, 6)
        parts = sl.split_parts(r, len(x.data), k)
        avail = [r.random() > 0.05 for _ in parts]
        rs = c10.gen_ruleset(r, pool, chains=chained)
        other = r.choice([y for y in pool if y.data != x.data] or [sl.Input(b"he hello world")])
        tasks.append(("blk", rs, [x.with_parts(parts, avail), sl.Input(x.data, path=x.path), sl.Input(other.data, path=other.path)],
                      r.choice(c10.FLAGS), "masks=0:%d:1:2" % (len(parts) + 1)))
    for _ in range(npl):           # place-dependent operators with the evidence in non-first blocks
        rs, ins = place_task(r)
        ins.append(sl.Input(ins[1].data[::-1] + b" MARKER-1234 hello"))
        tasks.append(("place", rs, ins, r.choice(c10.FLAGS), "masks=0:%d:1:2" % min(len(ins[0].parts) + 1, 5)))
    for _ in range(nev):           # block loop + rule evaluation, <= 3 blocks
        data = r.choice([c10.rand_text(r, False) + b"he", sl.synth_pe(0x1010, b"hello")[:r.choice([400, 600])], sl.synth_elf32(0x8048060, b"hehe")])
        k = r.randint(1, 3)
        parts = sl.split_parts(r, len(data), k)
        rs = small_rules(r, data)
        probe = sl.Input(c10.rand_text(r, False) + b"hehe " + data[:40][::-1])
        tasks.append(("eval", rs, [sl.Input(data, parts), sl.Input(data), probe], 0, "masks=0:%d:1:2" % r.choice([10, 11, 12])))
    return tasks


def task_line(cid, t):
    kind, rs, ins, flags, extra = t[:5]
    timeout = t[5] if len(t) > 5 else 0
    if extra.startswith("masks=") and extra.count(":") >= 2:
        # sw=1: the partition cuts nothing, so it must agree with yr_rules_scan_mem of the same bytes (decided here, not by the model)
        extra += " sw=%d" % (1 if ins[0].same_as_whole(rs) else 0)
        if getattr(rs, "chains", None):
            # spec decision for chained strings: exactly the chains whose pieces all lie in one block (independent Python port)
            ce = sorted({(si, o, ln) for base, b, a in ins[0].blocks() if a for o, si, ln in sl.chain_matches(rs, b, base)})
            extra += " ce=" + (",".join("s%d@%d:%d" % x for x in ce) or "-")
    return sl.case_line(cid, rs, ins, flags, timeout, 1000000, []).replace(" ops= ", " ") + " " + extra


def run(tier, replay=None):
    chk = core.Check("C13", tier)
    lres = core.lean_check(THM)
    core.proof_coverage(chk, lres, THM)
    tag = c10.build_tag("c13")
    b = core.build("asan", harness=["h_entry", "h_hist"], tag=None if tag == "c13" else tag)
    scratch = os.path.join(core.OUT, "C13", "scratch_%d" % os.getpid())      # per process: concurrent runs do not share files
    os.makedirs(scratch, exist_ok=True)
    try:
        found = run_body(chk, lres, b, tier, replay, scratch)
    except sl.HarnessCrash as e:
        chk.violation("harness_crash.json", e.replay_obj("entry", "h_entry"))
        found = True
    except Exception as e:
        import traceback
        chk.violation("harness_unexpected.json", {"kind": "harness-crash-or-unexpected-output", "engine": "entry", "harness": "h_entry",
                                                  "error": repr(e), "traceback": traceback.format_exc()[-3000:],
                                                  "case": replay["case"] if replay else None}, no_input=not replay)
        found = True
    finally:
        import shutil
        shutil.rmtree(scratch, ignore_errors=True)
    core.handle_broken_proof(chk, lres, found)
    chk.assumptions += ["iterator convention of tests/util.c (not-ready does not advance; first() resets)",
                        "multi-block runs are compared only with runs of the same partition (strings do not match across blocks)",
                        "known finding F27: not-ready during rule evaluation (signature: a deviating subset must contain a not-ready answer delivered to rule evaluation)"]
    return chk.finish("proof")


def run_body(chk, lres, b, tier, replay, scratch):
    r = core.rng("C13")
    found = False
    if replay:
        lines = [replay["case"]]
        kinds = {lines[0].split(" ", 1)[0]: replay.get("task", "ep" if " ep=" in lines[0] else "blk")}
    else:
        tasks = gen_tasks(r, tier)
        sl.describe(b["h_hist"], [t[1] for t in tasks], core)
        lines = [task_line("t%d" % i, t) for i, t in enumerate(tasks)] + c10.corpus_lines("C13")
        kinds = {"t%d" % i: t[0] for i, t in enumerate(tasks)}
    env = {"ASAN_OPTIONS": "detect_leaks=0:abort_on_error=0:exitcode=99", "VF_SCRATCH": scratch}
    impl, rc, err = core.run_parallel([b["h_entry"]], lines, env=env, timeout=2400)
    if rc != 0 or len(impl) != len(lines):
        # find a task that kills the harness on its own (concrete replay); survivors of the dead batches are run one by one
        done = {l.split(" ", 1)[0] for l in impl}
        missing = [l for l in lines if l.split(" ", 1)[0] not in done]
        culprit = None
        for l in missing[:60]:
            o1, rc1, err1 = core.run_lines([b["h_entry"]], [l], timeout=600, env=env)
            if rc1 != 0 or not o1:
                if culprit is None:
                    culprit = (l, rc1, err1)
            else:
                impl.append(o1[0])
        obj = {"kind": "harness-crash-or-sanitizer", "rc": rc, "stderr": err, "engine": "entry", "harness": "h_entry"}
        if culprit:
            obj.update({"case": culprit[0], "task": kinds.get(culprit[0].split(" ", 1)[0]), "rc": culprit[1], "stderr": culprit[2],
                        "note": "this task alone makes the harness die (sanitizer report / crash in libyara)"})
        else:
            obj["cases"] = missing[:10]
        chk.violation("harness_crash.json", obj)
        found = True
    model = []
    if lres.get("driver_ok"):
        model, mrc, merr = core.run_parallel([core.driver_path(), "entry"], lines, timeout=2400)
    mi = {x.split(" ", 1)[0]: x.split(" ", 1)[1] for x in impl if " " in x}
    mm = {x.split(" ", 1)[0]: x.split(" ", 1)[1] for x in model if " " in x}
    known = core.known_findings("C13")
    f27 = [k for k in known if k.get("signature", {}).get("not_ready_during") == "rule-evaluation"]
    stats = {"probe_scans_after_interrupted_runs": 0, "file_names": {}, "callback_scripts": {}, "whole_buffer_comparisons": 0, "sparse_base_tasks": 0, "entry_point_tasks": 0, "entry_point_scans": 0, "mask_tasks": 0, "masks": 0, "masks_with_not_ready_in_evaluation": 0,
             "interrupted_api_calls": 0, "deviating_masks_known_F27": 0, "blocks_histogram": {}}
    nv = 0
    f17_examples = []
    for l in lines:
        cid = l.split(" ", 1)[0]
        a, m = mi.get(cid), mm.get(cid)
        if a is None:
            continue
        base = {"engine": "entry", "harness": "h_entry", "case": l, "task": kinds.get(cid)}
        if a.startswith("E "):
            names = ["rules_scan_mem", "rules_scan_file", "rules_scan_fd", "scanner_scan_mem", "scanner_scan_file", "scanner_scan_fd",
                     "scanner_scan_mem_blocks(single block)", "rules_scan_mem_blocks(single block)",
                     "scanner_scan_mem after scan_proc on the same scanner", "rules_scan_mem(exact-size heap buffer)",
                     "rules_scan_mem(buffer followed by letters)"]
            stats["entry_point_tasks"] += 1
            msec = {x.split("=", 1)[0]: x.split("=", 1)[1] for x in m[2:].split("^")} if m is not None and m.startswith("E ") else None
            for sec in a[2:].split("^"):
                script, body = sec.split("=", 1)
                if script == "F":
                    # the same file reached by other names: each must give what the plain scan gives
                    plain = a[2:].split("^")[0].split("=", 1)[1].split("|")[0].rsplit(";R=", 1)[0]
                    for item in body.split("|"):
                        name, tr = item.split(":", 1)
                        stats["file_names"][name] = stats["file_names"].get(name, 0) + 1
                        want = "rc=COULD_NOT_OPEN_FILE,rc=COULD_NOT_OPEN_FILE" if name == "directory" else plain + "," + plain
                        if tr != want and nv < 10:
                            chk.violation("epname_%s_%s.json" % (cid, name), dict(base, kind="path-based entry points disagree with scan_mem when the file is named "
                                          "through: " + name, implementation=tr, expected_rules_scan_file_then_scanner_scan_file=want))
                            nv += 1; found = True
                    continue
                if script == "N":
                    if body != "COULD_NOT_OPEN_FILE,COULD_NOT_OPEN_FILE,COULD_NOT_OPEN_FILE,COULD_NOT_OPEN_FILE;msgs=0;R=ok" and nv < 10:
                        chk.violation("epn_%s.json" % cid, dict(base, kind="entry points on a missing file / closed descriptor: wrong result, callback or descriptor leak",
                                                                implementation=body)); nv += 1; found = True
                    continue
                full = body.split("|")
                trs = [x.rsplit(";R=", 1)[0] for x in full]
                res = [x.rsplit(";R=", 1)[1] for x in full]
                stats["entry_point_scans"] += len(trs)
                stats["callback_scripts"][script[0]] = stats["callback_scripts"].get(script[0], 0) + 1
                if any(x != "ok" for x in res) and nv < 10:
                    chk.violation("epres_%s_%s.json" % (cid, script), dict(base, kind="resource post-condition of an entry point broken", callback_script=script,
                                                              implementation=dict(zip(names, res)))); nv += 1; found = True
                elif len(set(trs)) != 1 and nv < 10:
                    chk.violation("ep_%s_%s.json" % (cid, script), dict(base, kind="entry points disagree", callback_script=script,
                                                           implementation=dict(zip(names, trs)))); nv += 1; found = True
                elif msec is not None and nv < 10:
                    mt = msec.get(script, "|").split("|")
                    exp = [mt[0], mt[1], mt[1], mt[0], mt[1], mt[1], mt[0], mt[0], mt[0], mt[0], mt[0]]
                    if exp != trs:
                        chk.violation("epm_%s_%s.json" % (cid, script), dict(base, kind="model-implementation-disagreement (entry points)", callback_script=script,
                                                                implementation=sec, model_spec=msec.get(script))); nv += 1; found = True
            continue
        if not a.startswith("M "):
            chk.violation("bad_%s.json" % cid, dict(base, kind="harness output not understood", implementation=a)); found = True
            continue
        parts = a[2:].split("!")
        ncls = int(parts[0]); classes = parts[1:1 + ncls]; cmap, calls, flags = parts[1 + ncls:4 + ncls]
        wtrace = next((x[2:] for x in parts[4 + ncls:] if x.startswith("W=")), None)
        probes = next((x[2:] for x in parts[4 + ncls:] if x.startswith("P=")), None)
        # the property itself (0): whatever happened to the interrupted scan (also finding F27), the NEXT scan on the same scanner
        # with the same iterator object, on other data, reports exactly what yr_rules_scan_mem reports for that data
        if probes is not None:
            stats["probe_scans_after_interrupted_runs"] += len(probes)
            if "0" in probes and nv < 10:
                k = probes.index("0")
                chk.violation("carry_%s.json" % cid, dict(base, kind="state of an interrupted scan is carried into the next scan on the same scanner and "
                              "iterator object (different data): it does not report what yr_rules_scan_mem reports", mask=k,
                              not_ready_reached_rule_evaluation=flags[k] == "1", interrupted_run=classes[int(cmap[k], 36)],
                              masks_affected=probes.count("0")))
                nv += 1; found = True
        stats["mask_tasks"] += 1; stats["masks"] += len(cmap)
        stats["masks_with_not_ready_in_evaluation"] += flags.count("1")
        stats["interrupted_api_calls"] += sum(int(c, 36) for c in calls)
        nb = l.split(" in=", 1)[1].split(" ", 1)[0].count("+") + 1
        stats["blocks_histogram"][str(nb)] = stats["blocks_histogram"].get(str(nb), 0) + 1
        if m is not None and m != a and nv < 10:
            # find the first mask on which they differ
            mp = m[2:].split("!") if m.startswith("M ") else []
            where = None
            try:
                mn = int(mp[0]); mcl = mp[1:1 + mn]; mcm, mca, mfl = mp[1 + mn:4 + mn]
                for k in range(len(cmap)):
                    if classes[int(cmap[k], 36)] != mcl[int(mcm[k], 36)] or calls[k] != mca[k] or flags[k] != mfl[k]:
                        where = {"mask": k, "implementation": classes[int(cmap[k], 36)], "impl_calls": calls[k], "impl_flag": flags[k],
                                 "model": mcl[int(mcm[k], 36)], "model_calls": mca[k], "model_flag": mfl[k]}
                        break
            except Exception as e:
                where = {"error": str(e)}
            chk.violation("mask_model_%s.json" % cid, dict(base, kind="model-implementation-disagreement (interrupted scan)", first_difference=where,
                                                           implementation=a[:3000], model_spec=m[:3000])); nv += 1; found = True
        if not l.split(" in=", 1)[1].split(" ", 1)[0].split(";")[0].count("@") == 0:
            stats["sparse_base_tasks"] += 1
        # the property itself (1): a partition that cuts no occurrence gives what yr_rules_scan_mem gives for the same bytes
        if wtrace is not None and " sw=1" in l:
            stats["whole_buffer_comparisons"] += 1
            if classes[int(cmap[0], 36)] != wtrace and nv < 10:
                chk.violation("whole_%s.json" % cid, dict(base, kind="multi-block scan differs from yr_rules_scan_mem of the same bytes "
                              "(no occurrence, integer read or header is cut by the partition)", implementation=classes[int(cmap[0], 36)],
                              yr_rules_scan_mem=wtrace, partition=l.split(" in=", 1)[1].split(" ", 1)[0].split(";")[0].split("~")[1]))
                nv += 1; found = True
        # timeouts: the deadline counts from the start of the scan; 400 s per block against 1000 s: the third block is refused, with
        # every subset of not-ready answers in between (the comparison with mask 0 is (2) below)
        if " st=400" in l and " to=1000 " in l:
            stats["timeout_tasks"] = stats.get("timeout_tasks", 0) + 1
            if classes[int(cmap[0], 36)] != "rc=SCAN_TIMEOUT" and nv < 10:
                chk.violation("timeout_%s.json" % cid, dict(base, kind="a scan whose third block is fetched 1200 s after the start, with a timeout of 1000 s, "
                              "does not end with ERROR_SCAN_TIMEOUT", implementation=classes[int(cmap[0], 36)]))
                nv += 1; found = True
        # chained strings: exactly the occurrences whose pieces lie in one block are reported (when every rule is reported)
        if " ce=" in l and (" fl=0 " in l or " fl=24 " in l) and nv < 10:
            import re
            heads = {t.split(":")[0] for t in l.split(" mc=", 1)[1].split(" ", 1)[0].split(",") if t != "-" and t.split(":")[1] == "-1"}
            want = set(x for x in l.split(" ce=", 1)[1].split(" ", 1)[0].split(",") if x != "-")
            got = {"s%s@%s:%s" % m for m in re.findall(r"s(\d+)@(\d+):(\d+)", classes[int(cmap[0], 36)]) if m[0] in heads}
            stats["chain_occurrence_checks"] = stats.get("chain_occurrence_checks", 0) + 1
            if got != want:
                chk.violation("chain_%s.json" % cid, dict(base, kind="chained strings: the reported occurrences are not exactly those whose pieces all lie in one block",
                                                          implementation=sorted(got), expected=sorted(want)))
                nv += 1; found = True
        # the property itself (2): every subset ends like the uninterrupted run (mask 0)
        ref = cmap[0]
        for k in range(len(cmap)):
            if cmap[k] != ref or calls[k] == "z":
                if flags[k] == "1" and f27:
                    stats["deviating_masks_known_F27"] += 1
                    if len(f17_examples) < 3:
                        f17_examples.append({"case": cid, "mask": k, "interrupted": classes[int(cmap[k], 36)], "uninterrupted": classes[int(ref, 36)]})
                elif nv < 10:
                    chk.violation("resume_%s_%d.json" % (cid, k), dict(base, kind="interrupted scan differs from the uninterrupted scan of the same partition",
                                  mask=k, not_ready_reached_rule_evaluation=flags[k] == "1", implementation=classes[int(cmap[k], 36)],
                                  uninterrupted=classes[int(ref, 36)], api_calls=int(calls[k], 36),
                                  note="not-ready at the iterator calls whose bit is set in `mask` (bit k = k-th call overall)"))
                    nv += 1; found = True
                    break
    if stats["deviating_masks_known_F27"]:
        chk.known(f27[0], "F27 not-ready answered to rule evaluation is treated as end of data: %d of %d masks with such an answer end with a trace "
                          "different from the uninterrupted scan (e.g. %s)" % (stats["deviating_masks_known_F27"], stats["masks_with_not_ready_in_evaluation"],
                                                                               str(f17_examples[:1])[:300]))
    ok_ties = sum(1 for l in lines if l.split(" ", 1)[0] in mi and (mi[l.split(" ", 1)[0]].startswith("E ") or mi[l.split(" ", 1)[0]] == mm.get(l.split(" ", 1)[0])))
    chk.cov.update({"evaluations": stats["entry_point_scans"] + stats["masks"], "distinct_nontrivial": stats["masks"] - stats["mask_tasks"] + stats["entry_point_tasks"],
                    "traces_validated_against_impl": ok_ties,
                    "rule": "entry-point task = one buffer through 8 entry points; mask task = one partition with every subset of not-ready positions; "
                            "non-trivial = an interrupted run (non-empty subset) or an entry-point task",
                    "distribution": stats,
                    "samples": [{"case": lines[0][:500] + " ...", "implementation": impl[0][:400] if impl else None, "model": model[0][:400] if model else None}]})
    return found
