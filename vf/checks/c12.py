"""C12 — shortcuts and compile-time evaluation never change a verdict.

 (1) translators regenerate Gen/Fold.lean (grammar.y folding actions) and Gen/VmOps.lean (exec.c opcodes);
     Thm/C12.lean re-proves fold = VM for all 64-bit operands against the regenerated definitions;
 (2) real-code differential fold-vs-VM (h_fold: compile-time value through `$a at (expr)` vs run-time value
     through console.log) on boundary-biased operands, also compared with the regenerated Lean definitions;
 (3) metamorphic twins on the real compiler/scanner (h_scan): literal <-> constant expression <-> external
     (also redefined after compilation at rules and scanner level), forced evaluation, fast mode, atom
     quality tables: verdicts and compile success must agree.  Dedicated twin families: wide / fullword regexps and hex strings
     under quality tables that rate the string's own atoms 0 (no atom indexed) on buffers where byte-wise and 16-bit word
     boundaries disagree; one-element / empty ranges (lo == hi, hi = lo +- 1) in every range position as literal, constant
     expression and external (a constant range lo <= hi must compile like its external form); rule sets with a global rule
     that needs its own string, first / later / last, in the default and in a second namespace, plain vs forced.
"""
import binascii
from vf import core

THM = ["YaraModel.Thm.C12", "YaraModel.Thm.C12Flags"]
MANIFEST = dict(
    technique="Lean 4 theorems (fold = VM for all int64 operands) over definitions regenerated from grammar.y/exec.c by translators + real-code fold-vs-VM differential + metamorphic twin compilation/scans",
    text="proof: Thm/C12.lean proves, for ALL 64-bit operands and every arithmetic/bitwise/shift operator, that the value the grammar action folds at compile time "
         "equals the value the emitted VM opcode computes (and that unknown operands are never guessed), against Lean definitions REGENERATED on every run from "
         "grammar.y and exec.c; the translation is validated by running the real compiler and VM on boundary operands. The remaining clauses (fast mode, atom quality "
         "tables, forced evaluation, literal/expression/external rewrites, external redefinition) are checked by metamorphic twins on the real code (sampled rules, "
         "verdict equality); Thm/C12Flags.lean proves the soundness of the FIXED_OFFSET / SINGLE_MATCH shortcuts and of skipping rules whose strings did not match (`fixed_offset_sound`, `single_match_sound`, `needs_match_sound`) over the condition specification of C04, for all environments and expressions — that the compiler sets the flags only in the situations these theorems cover is sampled by the twins.",
    design_ref="DESIGN.md §5 C12",
    note=core.TB + "Translators translators/fold.py, translators/vmops.py, translators/cexpr.py are trusted to render the C text (validated by the fold-vs-VM differential). "
                   "Signed overflow is modelled as two's-complement wrap (what gcc/x86-64 does; formally UB).")

I64MIN, I64MAX = -2 ** 63, 2 ** 63 - 1
UNDEF = -1483400188077313
BOUNDARY = [0, 1, -1, 2, 3, 4, 5, 7, 8, 31, 32, 62, 63, 64, 65, 127, 128, 255, 256, 2 ** 31 - 1, 2 ** 31, 2 ** 32, 2 ** 32 + 1,
            2 ** 62, I64MAX, I64MAX - 1, I64MIN, I64MIN + 1, UNDEF, UNDEF + 1, -2, -64, -65, 3037000499, 3037000500]
BINOPS = ["ADD", "SUB", "MUL", "DIV", "MOD", "XOR", "AND", "OR", "SHL", "SHR"]


def lit(v):
    if v == I64MIN:
        return "(-9223372036854775807-1)"
    return str(v) if v >= 0 else "(-%d)" % (-v)


def hx(s):
    b = s if isinstance(s, bytes) else s.encode("latin1")
    return binascii.hexlify(b).decode() or "-"


def gen_fold_cases(r, n):
    cases = ["k0 SHL %s %d 64 64" % (lit(UNDEF), UNDEF), "k1 SHR %s %d 64 64" % (lit(UNDEF), UNDEF),   # corpus: F14 sentinel collision
             "k2 SHR 8 8 1 1", "k3 DIV %s %d (-1) -1" % (lit(I64MIN), I64MIN), "k4 MOD %s %d (-1) -1" % (lit(I64MIN), I64MIN)]  # corpus: F1, F17 (fixed)
    # all operators on all boundary pairs would be 10*35*35; sample deterministically + full boundary for shifts
    for i in range(n):
        op = BINOPS[i % len(BINOPS)]
        a = r.choice(BOUNDARY) if r.random() < 0.8 else r.randint(I64MIN, I64MAX)
        b = r.choice(BOUNDARY) if r.random() < 0.8 else r.randint(I64MIN, I64MAX)
        if op in ("SHL", "SHR") and r.random() < 0.7:
            b = r.choice([0, 1, 2, 31, 32, 62, 63, 64, 65, 1000, -1])
        cases.append("f%d %s %s %d %s %d" % (i, op, lit(a), a, lit(b), b))
    for j, v in enumerate(BOUNDARY):
        cases.append("n%d NEG %s %d" % (j, lit(v), v))
        cases.append("t%d NOT %s %d" % (j, lit(v), v))
    return cases


def fold_property_ok(line):
    """direct statement of the property on the implementation's own output: a folded value equals the run-time value"""
    t = line.split()
    f = t[1].split("=", 1)[1]
    rr = t[2].split("=", 1)[1]
    if f == "none" or f.startswith("E:"):
        return True
    return f == rr


# ------------------------------------------------------------------ twins

def const_expr(r, v, depth=0):
    """a constant expression (fully parenthesised) whose value is v"""
    if depth >= 2 or r.random() < 0.25 or not (-2 ** 40 < v < 2 ** 40):
        return lit(v)
    k = r.choice(["add", "sub", "mul", "div", "mod", "shl", "shr", "and", "or", "xor", "not", "neg"])
    sub = lambda x: const_expr(r, x, depth + 1)
    if k == "add":
        a = r.randint(-20, 20); return "(%s + %s)" % (sub(a), sub(v - a))
    if k == "sub":
        a = r.randint(-20, 20); return "(%s - %s)" % (sub(v + a), sub(a))
    if k == "mul":
        for d in (2, 3, 5, 7):
            if v % d == 0 and v != 0:
                return "(%s * %s)" % (sub(v // d), sub(d))
        return "(%s * %s)" % (sub(v), sub(1))
    if k == "div":
        d = r.choice([1, 2, 3, 10]); return "(%s \\ %s)" % (sub(v * d), sub(d))
    if k == "mod" and v >= 0:
        m = v + r.randint(1, 9); return "(%s %% %s)" % (sub(v + m * r.randint(0, 3)), sub(m))
    if k == "shl" and v % 2 == 0 and v > 0:
        s = 1
        while v % (2 ** (s + 1)) == 0 and s < 5:
            s += 1
        return "(%s << %s)" % (sub(v >> s), sub(s))
    if k == "shr" and v >= 0:
        s = r.randint(1, 6); return "(%s >> %s)" % (sub((v << s) | r.randint(0, (1 << s) - 1)), sub(s))
    if k == "and" and v >= 0:
        m = r.randint(0, 255) & ~v; return "(%s & %s)" % (sub(v | m), sub(~m & 0xFFFFFFFFFF))
    if k == "or" and v >= 0:
        a = v & r.randint(0, 2 ** 20); return "(%s | %s)" % (sub(a), sub(v & ~a | (a & r.randint(0, 2 ** 20))))
    if k == "xor" and v >= 0:
        x = r.randint(0, 1023); return "(%s ^ %s)" % (sub(v ^ x), sub(x))
    if k == "not":
        return "(~%s)" % sub(-v - 1)
    if k == "neg":
        return "(-%s)" % sub(-v)
    return lit(v)


STRINGS = [('"abc"', b"abc"), ('"hello"', b"hello"), ('"ab" nocase', b"aB"), ('"xy" wide', b"x\0y\0"), ('{ 61 62 ?? 64 }', b"abZd"),
           ('{ 41 [1-3] 42 43 }', b"A..BC"), ('/fo+b/', b"foob"), ('"zz" fullword', b" zz "), ('"q"', b"q"), ('"abcd" xor', b"`cbe"),
           ('{ 01 02 03 04 05 }', b"\1\2\3\4\5"), ('/x[0-9]{2}y/', b"x42y"),
           ('{ 21 22 ?? 24 25 26 ?? 28 }', b"!\"x$%&y("), ('{ 11 12 13 14 ?? 16 17 18 19 }', b"\x11\x12\x13\x14Z\x16\x17\x18\x19"),
           ('{ 31 ?? 33 34 35 ?? ?? 38 39 3A }', b"1q345rs89:"), ('{ 41 42 [2] 45 46 47 ?? 49 }', b"ABxxEFGyI"),
           ('{ 61 ?? ?? 64 65 66 67 ?? 69 6A 6B }', b"a..defg.ijk")]

TEMPLATES = [
    ("$a at {0}", 1), ("$a in ({0}..{1})", 2), ("#a == {0}", 1), ("#a in ({0}..{1}) == {2}", 3), ("@a[{0}] == {1}", 2),
    ("!a[{0}] == {1}", 2), ("{0} of ($a,$b)", 1), ("{0} of them", 1), ("{0}% of them", 1), ("for {0} of ($a,$b) : ($ at {1})", 2),
    ("for any i in ({0}..{1}) : ($a at i)", 2), ("for {0} i in ({1}..{2}) : (@a[i] >= {3})", 4), ("{0} of ($a,$b) in ({1}..{2})", 3),
    ("any of them at {0}", 1), ("uint8({0}) == {1}", 2), ("filesize > {0}", 1), ("({0} + {1}) * {2} == {3}", 4),
    ("$b at {0} and #a >= {1}", 2), ("for all of them : (# >= {0})", 1), ("@b == {0} or $a at {1}", 2), ("$a at {0} + {1}", 2),
    ("$a in ({0}..filesize)", 1), ("#a == {0} and #b == {1}", 2), ("{0} of ($a,$b) at {1}", 2),
    ("$a at {0} or $a at {1}", 2), ("$a at filesize - {0}", 1), ("$a at {0} and $b at {1}", 2), ("$b at {0} + filesize - filesize", 1),
]


DIRECTED = [("$a at {0}", "p2"), ("$a at {0} or $b at {1}", "p2,end"), ("{0} of them", "zero"), ("{0} of ($a,$b) in ({1}..{2})", "zero,p2,end"),
            ("{0} of ($a*) at {1}", "zero,p2"), ("any of them at {0}", "p2"), ("any of ($a*) in ({0}..{1})", "p2-1,p2+1"), ("2 of them in ({0}..{1})", "p2-2,end"),
            ("none of them in ({0}..{1})", "p2,p2"), ("1 of ($a,$b) at {0}", "p2"), ("all of ($a*) in ({0}..{1})", "p2,end")]


def gen_twin_group(r, gid):
    """returns list of (variant_name, case_line); variant 'base' first"""
    (sa, pa), (sb, pb) = r.sample(STRINGS, 2)
    tmpl, k = r.choice(TEMPLATES)
    directed = None
    if r.random() < 0.25:
        tmpl, what = r.choice(DIRECTED)
        k = tmpl.count("{")
        directed = what
    # buffer: plant a and b at chosen offsets
    size = r.randint(0, 40)
    buf = bytearray(r.choice(b"._ 0") for _ in range(size))
    offs = []
    for p in (pa, pb, pa, pb):
        if r.random() < 0.75 and len(p) <= len(buf):
            o = r.randint(0, len(buf) - len(p))
            buf[o:o + len(p)] = p
            offs.append(o)
    if directed:
        # the string occurs (at least) twice: the first occurrence lies OUTSIDE the place asked for, a later one inside
        gap = bytes(r.choice(b"._ ") for _ in range(r.randint(1, 9)))
        buf = bytearray(gap + pa + gap + pa + bytes(r.choice(b"._") for _ in range(r.randint(0, 6))) + (pb if r.random() < 0.5 else b""))
        p2 = len(gap) + len(pa) + len(gap)
        if "zero" in directed:                     # quantifier 0 and none of the strings present: only evaluation can make it true
            buf = bytearray(bytes(r.choice(b"._ ") for _ in range(r.randint(0, 12))))
            p2 = len(buf) // 2
        env = {"p2": p2, "p2-1": max(0, p2 - 1), "p2+1": p2 + 1, "p2-2": max(0, p2 - 2), "end": len(buf), "zero": 0}
        offs = [len(gap), p2]
    pool = offs + [0, 1, 2, 3, len(buf), max(0, len(buf) - 1), len(pa), len(pb), 50, 100]
    vals = []
    for i in range(k):
        u = r.random()
        v = r.choice(pool) if u < 0.75 else (r.randint(0, 12) if u < 0.95 else r.randint(-3, -1))
        vals.append(v)
    if "%" in tmpl and r.random() < 0.8:
        vals[0] = r.choice([1, 50, 100, 51, 99])
    if directed:
        vals = [env[x] for x in directed.split(",")]

    def rule(cond):
        return "rule t { strings: $a = %s $b = %s condition: %s }" % (sa, sb, cond)

    b = "buf=" + hx(bytes(buf))
    out = []
    base_cond = tmpl.format(*[lit(v) for v in vals])
    out.append(("base", "g%d_base src=%s %s" % (gid, hx(rule(base_cond)), b)))
    out.append(("forced", "g%d_forced src=%s %s" % (gid, hx(rule("(%s) or filesize < 0" % base_cond)), b)))
    out.append(("constexpr", "g%d_constexpr src=%s %s" % (gid, hx(rule(tmpl.format(*[const_expr(r, v) for v in vals]))), b)))
    names = ["e%d" % i for i in range(k)]
    decoy = ""
    if r.random() < 0.5:
        # identifiers that are proper prefixes of identifiers declared before them (longest first), behind a decoy that extends them all
        names = ["e" + "x" * (k - 1 - i) for i in range(k)]
        decoy = "cext=i:%s:%d " % ("e" + "x" * k, r.choice([0, 1, 77]))
    ext_cond = rule(tmpl.format(*names))
    cext = decoy + " ".join("cext=i:%s:%d" % (n, v) for n, v in zip(names, vals))
    out.append(("ext", "g%d_ext %s src=%s %s" % (gid, cext, hx(ext_cond), b)))
    wrong = [v + r.choice([1, 2, -1, 5]) for v in vals]
    cextw = decoy + " ".join("cext=i:%s:%d" % (n, v) for n, v in zip(names, wrong))
    out.append(("ext_rdef", "g%d_ext_rdef %s src=%s %s %s" % (gid, cextw, hx(ext_cond), " ".join("rext=i:%s:%d" % (n, v) for n, v in zip(names, vals)), b)))
    out.append(("ext_sdef", "g%d_ext_sdef %s src=%s %s %s" % (gid, cextw, hx(ext_cond), " ".join("sext=i:%s:%d" % (n, v) for n, v in zip(names, vals)), b)))
    # an external combined with a constant by an operator that leaves its value unchanged: the compile-time value of such an
    # expression is UNKNOWN (not "the constant's bits"), so no place/quantifier decision may be derived from it
    if all(0 <= v < 65536 for v in vals):
        wraps = ["({0} & 0xFFFF)", "(0xFFFF & {0})", "({0} | 0)", "({0} ^ 0)", "({0} + 0)", "({0} - 0)", "({0} * 1)", "({0} \\ 1)", "({0} % 1000000)",
                 "({0} >> 0)", "({0} << 0)", "(~(~{0}))", "(-(-{0}))", "(({0} & 0xFF00) | ({0} & 0xFF))"]
        opc = rule(tmpl.format(*[r.choice(wraps).format(n) for n in names]))
        out.append(("ext_op", "g%d_ext_op %s src=%s %s" % (gid, cext, hx(opc), b)))
    out.append(("fast", "g%d_fast src=%s fast=1 %s" % (gid, hx(rule(base_cond)), b)))
    out.append(("fast_ext", "g%d_fast_ext %s src=%s fast=1 %s" % (gid, cext, hx(ext_cond), b)))
    # atom quality tables: every 4-byte window of the planted bytes gets a random quality
    for qi in range(2):
        ents = {}
        for p in (pa, pb):
            for i in range(0, max(1, len(p) - 3)):
                w = (p[i:i + 4] + b"\0\0\0\0")[:4]
                ents[w] = r.choice([0, 1, 50, 200, 255])
        for _ in range(r.randint(0, 6)):
            ents[bytes(r.randint(0, 255) for _ in range(4))] = r.randint(0, 255)
        table = b"".join(w + bytes([q]) for w, q in sorted(ents.items()))
        out.append(("atomq%d" % qi, "g%d_atomq%d src=%s atomq=%s %s" % (gid, qi, hx(rule(base_cond)), hx(table), b)))
    return out, dict(template=tmpl, values=vals, strings=[sa, sb], buf=hx(bytes(buf)))


def gen_chain_group(r, gid):
    """chained strings (split by the compiler at a jump >= 200 / `[-]`) referenced only as `$a` (SINGLE_MATCH): the head piece occurs
    several times, the FIRST occurrence at a distance from the tail that the jump does not allow, a later one at a legal distance.
    Fast mode may stop at the first CONFIRMED match of a single-match string, not at the first occurrence of one of its pieces:
    verdicts of base / forced / fast variants must agree."""
    head, tail = r.choice([(b"\xaa\xbb\xcc\xdd", b"\xee\xff\x00\x11"), (b"AB12", b"CD34"), (b"\x01\x02\x03\x04", b"\x05\x06\x07\x08")])
    lo, hi = r.choice([(250, 300), (200, 210), (0, None), (300, 300)])
    kind = r.choice(["hex", "hex", "re"])
    if kind == "hex":
        jump = "[-]" if hi is None else "[%d-%d]" % (lo, hi)
        sa = "{ %s %s %s }" % (" ".join("%02x" % x for x in head), jump, " ".join("%02x" % x for x in tail))
    else:
        esc = lambda bs: "".join("\\x%02x" % x for x in bs)
        sa = "/%s.{%d,%s}%s/s" % (esc(head), lo, "" if hi is None else hi, esc(tail))
    good = r.randint(lo, hi if hi is not None else lo + 40)
    pre = r.randint(0, 5)
    layout = r.choice(["wrong-first", "wrong-first", "two-wrong-then-right", "right-only", "wrong-only", "tail-first"])
    buf = bytearray(b"." * pre)
    def put(bs): buf.extend(bs)
    if layout in ("wrong-first", "two-wrong-then-right"):
        # decoy head(s): too far from the tail (bounded jump) or simply earlier (unbounded jump: any head before the tail is fine,
        # so the decoy must not complete the chain differently: it is followed by nothing within reach)
        put(head); put(b"." * r.randint(1, 30))
        if layout == "two-wrong-then-right":
            put(head); put(b"." * r.randint(1, 30))
        if hi is not None:
            put(b"." * (hi + 20))
        put(head); put(b"." * good); put(tail)
    elif layout == "right-only":
        put(head); put(b"." * good); put(tail)
    elif layout == "wrong-only":
        put(head); put(b"." * ((hi + 7) if hi is not None else 5)); put(tail if hi is not None else b"")
    else:
        put(tail); put(b"." * 10); put(head); put(b"." * good); put(tail)
    put(b"." * r.randint(0, 6))
    cond = r.choice(["$a", "$a", "$a and filesize > 0", "any of them"])

    def rule(c):
        return "rule t { strings: $a = %s condition: %s }" % (sa, c)
    b = "buf=" + hx(bytes(buf))
    out = [("base", "c%d_base src=%s %s" % (gid, hx(rule(cond)), b)),
           ("forced", "c%d_forced src=%s %s" % (gid, hx(rule("(%s) or filesize < 0" % cond)), b)),
           ("fast", "c%d_fast src=%s fast=1 %s" % (gid, hx(rule(cond)), b))]
    return out, dict(template="chain:" + layout, values=[lo, hi, good], strings=[sa], buf=hx(bytes(buf)))


# ---- atom-less strings: wide / fullword regexps and hex strings whose atoms a quality table rates 0

WIDE_STRINGS = [  # (declaration without modifiers, is regexp, instances)
    ("/abc[0-9]/", True, [b"abc1", b"abc7"]), ("/ab[cd]e/", True, [b"abce", b"abde"]), ("/fo+b/", True, [b"foob", b"fob"]),
    ("/x[0-9]{2}y/", True, [b"x42y"]), ("/[a-z]+[0-9]/", True, [b"abc1", b"q7"]), ("/ab.d/", True, [b"abXd", b"ab1d"]),
    ("{ 61 62 63 ?? }", False, [b"abc1", b"abcZ"]), ("{ 61 62 [1-2] 63 64 }", False, [b"abXcd", b"ab12cd"]), ("{ 71 ?? 73 74 }", False, [b"q_st"]),
]
WIDE_MODS = ["wide fullword", "wide fullword", "wide", "fullword", "ascii wide fullword", "wide nocase fullword", "wide fullword private"]


def wide(b):
    return b"".join(bytes([c, 0]) for c in b)


def zero_tables(r, insts):
    """quality tables that rate the atoms of the string (every window of its instances, ascii and wide) 0: the compiler then
    indexes NO atom for it (zero-length atom, candidates without backward code)"""
    wins = set()
    for m in insts:
        for src in (m, wide(m)):
            for i in range(len(src)):
                wins.add((src[i:i + 4] + b"\0\0\0\0")[:4])
    allz = sorted(wins)
    tables = [b"".join(w + b"\0" for w in allz)]
    first = (insts[0][:3] + b"\0\0\0\0")[:4]
    tables.append(first + b"\0")                                      # the one-entry table "abc\0" -> 0
    tables.append(b"".join(w + bytes([r.choice([0, 0, 1, 3])]) for w in allz))
    some = sorted(r.sample(allz, max(1, len(allz) // 2)))
    tables.append(b"".join(w + b"\0" for w in some))
    return tables


def gen_wide_group(r, gid):
    """the atom-quality / fast / forced twins on strings whose word boundaries are where byte-wise and 16-bit tests disagree"""
    decl, is_re, insts = r.choice(WIDE_STRINGS)
    mods = r.choice(WIDE_MODS) if is_re else ""
    m = r.choice(insts)
    W = wide(m) if "wide" in mods else m
    other = m if "wide" in mods and "ascii" in mods else None
    layout = r.choice(["alone", "glued-before", "glued-after", "after-ascii-letter", "before-ascii-letter", "spaces", "wide-spaces", "two", "ascii-form",
                       "after-ascii-digit", "glued-both", "at-start-then-glued"])
    L = lambda c: wide(c) if "wide" in mods else c
    if layout == "alone":
        buf = W
    elif layout == "glued-before":
        buf = L(b"x") + W
    elif layout == "glued-after":
        buf = W + L(b"x")
    elif layout == "glued-both":
        buf = L(b"9") + W + L(b"_")
    elif layout == "after-ascii-letter":
        buf = b"Z" + W
    elif layout == "after-ascii-digit":
        buf = b"..7" + W + b".."
    elif layout == "before-ascii-letter":
        buf = W + b"Zz"
    elif layout == "spaces":
        buf = b" " + W + b" "
    elif layout == "wide-spaces":
        buf = L(b" ") + W + L(b" ")
    elif layout == "two":
        buf = L(b"x") + W + L(b" ") + W + b"."
    elif layout == "at-start-then-glued":
        buf = W + L(b" x") + W
    else:
        buf = b"-" + (other or m) + b"-" + L(b"y") + W
    cond = r.choice(["$a", "$a", "#a == 1", "#a >= 2", "$a at 0", "$a at 1", "$a at 2", "any of them", "#a == 0"])

    def rule(c):
        return "rule t { strings: $a = %s %s condition: %s }" % (decl, mods, c)
    b = "buf=" + hx(buf)
    out = [("base", "w%d_base src=%s %s" % (gid, hx(rule(cond)), b)),
           ("forced", "w%d_forced src=%s %s" % (gid, hx(rule("(%s) or filesize < 0" % cond)), b)),
           ("fast", "w%d_fast src=%s fast=1 %s" % (gid, hx(rule(cond)), b))]
    for qi, table in enumerate(zero_tables(r, insts)):
        out.append(("atomq%d" % qi, "w%d_atomq%d src=%s atomq=%s %s" % (gid, qi, hx(rule(cond)), hx(table), b)))
        if qi < 2:
            out.append(("atomq%d_fast" % qi, "w%d_atomq%d_fast src=%s atomq=%s fast=1 %s" % (gid, qi, hx(rule(cond)), hx(table), b)))
    return out, dict(template="wide:" + layout, values=[], strings=[decl + " " + mods], buf=hx(buf))


# ---- one-element and empty ranges in every range position: literal <-> constant expression <-> external

RANGE_TEMPLATES = ["$a in ({0}..{1})", "#a in ({0}..{1}) == 1", "#a in ({0}..{1}) == 0", "any of them in ({0}..{1})", "all of ($a,$b) in ({0}..{1})",
                   "1 of ($a*) in ({0}..{1})", "none of them in ({0}..{1})", "for any i in ({0}..{1}) : ($a at i)", "for all i in ({0}..{1}) : (i == {0})",
                   "for 1 i in ({0}..{1}) : (@a[1] == i)", "for any of them : ($ in ({0}..{1}))", "for any i in ({0}..{1}) : (for any j in ({0}..{1}) : (i == j))",
                   "$a in ({0}..{1}) or $b in ({0}..{1})", "for any i in (0..filesize) : ($a in ({0}..{1}) and i == {0})"]


def gen_range_group(r, gid):
    (sa, pa), (sb, pb) = r.sample(STRINGS[:9], 2)
    pre = r.randint(0, 9)
    buf = bytes(r.choice(b"._ ") for _ in range(pre)) + pa + bytes(r.choice(b"._") for _ in range(r.randint(0, 5))) + (pb if r.random() < 0.6 else b"") + b"."
    lo = r.choice([pre, pre, pre + 1, max(0, pre - 1), 0, 3, len(buf), len(buf) - 1])
    hi = lo + r.choice([0, 0, 0, 1, -1, 2])
    if hi < 0:
        hi = lo
    tmpl = r.choice(RANGE_TEMPLATES)

    def rule(cond):
        return "rule t { strings: $a = %s $b = %s condition: %s }" % (sa, sb, cond)
    b = "buf=" + hx(buf)
    base_cond = tmpl.format(lit(lo), lit(hi))
    out = [("base", "r%d_base src=%s %s" % (gid, hx(rule(base_cond)), b)),
           ("forced", "r%d_forced src=%s %s" % (gid, hx(rule("(%s) or filesize < 0" % base_cond)), b)),
           ("constexpr", "r%d_constexpr src=%s %s" % (gid, hx(rule(tmpl.format(const_expr(r, lo), const_expr(r, hi)))), b)),
           ("constexpr_hi", "r%d_constexpr_hi src=%s %s" % (gid, hx(rule(tmpl.format(lit(lo), "(%s + %s)" % (lit(hi - 2), lit(2))))), b)),
           ("ext", "r%d_ext cext=i:e0:%d cext=i:e1:%d src=%s %s" % (gid, lo, hi, hx(rule(tmpl.format("e0", "e1"))), b)),
           ("ext_lo", "r%d_ext_lo cext=i:e0:%d src=%s %s" % (gid, lo, hx(rule(tmpl.format("e0", lit(hi)))), b)),
           ("ext_hi", "r%d_ext_hi cext=i:e1:%d src=%s %s" % (gid, hi, hx(rule(tmpl.format(lit(lo), "e1"))), b)),
           ("fast", "r%d_fast src=%s fast=1 %s" % (gid, hx(rule(base_cond)), b))]
    # a range with constant bounds lo <= hi is a valid rule: its literal form must compile exactly like its external form does
    return out, dict(template="range:" + tmpl, values=[lo, hi], strings=[sa, sb], buf=hx(buf), must_compile=(lo <= hi))


# ---- global rules that need their own string, in the first / a later position of the default and of a second namespace

def gen_global_group(r, gid):
    """plain vs forced evaluation of rule SETS: a global rule whose string is absent is skipped without being evaluated (its
    namespace is then unsatisfied); the forced form `($g) or filesize < 0` is evaluated — the verdicts of all rules must agree"""
    gstr, gpat = r.choice([('"GG"', b"GG"), ('{ 47 31 ?? 47 }', b"G1xG"), ('/G[0-9]G/', b"G7G")])
    def ruleset(ns, force):
        n_plain = r_counts[ns]
        pos = g_pos[ns]
        rules = []
        for k in range(n_plain + (1 if pos is not None else 0)):
            if pos is not None and k == pos:
                cond = "$g" if not force else "($g) or filesize < 0"
                if g_kind[ns] == 1:
                    cond = "#g >= 1" if not force else "(#g >= 1) or filesize < 0"
                rules.append("global rule g%s { strings: $g = %s condition: %s }" % (ns, gstr, cond))
            else:
                c = plain_conds[ns][k % len(plain_conds[ns])]
                rules.append("rule p%s_%d { strings: $x = \"xx\" condition: %s }" % (ns, k, c if not force else "(%s) or filesize < 0" % c))
        return " ".join(rules)
    r_counts = {"a": r.choice([1, 2, 3]), "b": r.choice([1, 2])}
    g_pos = {"a": r.choice([None, 0, 1, r_counts["a"]]), "b": r.choice([None, 0, r_counts["b"], r_counts["b"]])}
    if g_pos["a"] is None and g_pos["b"] is None:
        g_pos[r.choice("ab")] = 1
    g_kind = {"a": r.choice([0, 0, 1]), "b": r.choice([0, 1])}
    plain_conds = {ns: r.sample(["true", "$x", "not $x", "filesize >= 0", "#x == 0 or $x"], 3) for ns in "ab"}
    order = r.choice([("a", "b"), ("a", "b"), ("b", "a")])
    buf = bytes(r.choice(b"._ ") for _ in range(r.randint(0, 6)))
    if r.random() < 0.5:
        buf += gpat
    if r.random() < 0.5:
        buf += b".xx"
    buf += b"."
    two_ns = r.random() < 0.75
    nsname = {"a": None, "b": "second"} if order[0] == "a" else {"b": None, "a": "second"}

    def line(tag, force, extra=""):
        st = r.getstate()
        toks = ["q%d_%s" % (gid, tag)]
        for ns in (order if two_ns else order[:1]):
            if nsname[ns]:
                toks.append("ns=" + nsname[ns])
            toks.append("src=" + hx(ruleset(ns, force)))
        r.setstate(st)
        return " ".join(toks) + " " + extra + "buf=" + hx(buf)
    out = [("base", line("base", False)), ("forced", line("forced", True)), ("fast", line("fast", False, "fast=1 "))]
    return out, dict(template="global:%s:%s:%s" % (g_pos, order, two_ns), values=[], strings=[gstr], buf=hx(buf))


def verdicts(line):
    t = line.split()
    if len(t) < 2:
        return ("?",)
    if t[1] == "OK":
        return ("OK", t[2])
    return (t[1], t[2] if len(t) > 2 else "")


def run(tier, replay=None):
    chk = core.Check("C12", tier)
    lres = core.lean_check(THM, translators=["fold", "vmops"])
    tr = lres.get("translators")
    core.proof_coverage(chk, lres, THM, tr)
    bp = core.build("plain", harness=["h_fold"])
    ba = core.build("asan", harness=["h_scan"])
    r = core.rng("C12")
    found = False
    # ---- (2) fold vs VM on the real code
    nf = 600 if tier == "quick" else 20000
    fcases = gen_fold_cases(r, nf)
    if replay and replay.get("engine") == "fold":
        fcases = [replay["case"]]
    impl, rc, err = core.run_parallel([bp["h_fold"]], fcases)
    bad_prop, bad_model = [], []
    mi = {l.split(" ", 1)[0]: l for l in impl}
    if rc != 0:
        # a crash of the compiler on a constant expression is itself a failing input: find it by running cases one at a time
        for c in fcases:
            o, rc1, e1 = core.run_lines([bp["h_fold"]], [c])
            if rc1 != 0:
                chk.violation("fold_crash.json", {"kind": "compiler/VM crash on constant expression", "engine": "fold", "harness": "h_fold", "case": c, "rc": rc1, "stderr": e1})
                found = True
                break
    kf = [f for f in core.known_findings("C12") if f.get("id") == "F14"]
    sentinel_hits = 0
    for c in fcases:
        k = c.split(" ", 1)[0]
        if k in mi and not fold_property_ok(mi[k]):
            t = c.split()
            operands = [int(x) for x in (t[3:4] + t[5:6])]
            if kf and any(v == kf[0]["signature"]["operand_equals"] for v in operands):
                sentinel_hits += 1          # listed finding F14: the operand IS the undefined sentinel
                continue
            bad_prop.append((c, mi[k]))
    if sentinel_hits:
        chk.known(kf[0], "F14 constant operand equal to the YR_UNDEFINED sentinel is treated as undefined (%d cases, e.g. `(-1483400188077313) << 64`)" % sentinel_hits)
    for i, (c, o) in enumerate(bad_prop[:10]):
        chk.violation("fold_vs_vm_%d.json" % i, {"kind": "compile-time folded value differs from run-time value", "engine": "fold", "harness": "h_fold",
                                                  "case": c, "implementation": o,
                                                  "rule": "rule t { strings: $a = \"x\" condition: $a at (A op B) } — fixed_offset vs console.log((A+filesize) op (B+filesize))"})
        found = True
    model = []
    if lres.get("driver_ok"):
        model, _, _ = core.run_parallel([core.driver_path(), "fold"], fcases)
        if rc == 0:
            for c, a, m in core.diff_outputs(fcases, impl, model)[:10]:
                bad_model.append((c, a, m))
        for i, (c, a, m) in enumerate(bad_model):
            chk.violation("fold_model_%d.json" % i, {"kind": "translated Lean definitions disagree with the compiled code (translator tie broken)", "engine": "fold",
                                                     "harness": "h_fold", "case": c, "implementation": a, "model": m}, no_input=not found)
    # ---- (3) metamorphic twins
    ng = 150 if tier == "quick" else 6000
    groups, lines = [], []
    for g in range(ng):
        vs, meta = gen_twin_group(r, g)
        groups.append((vs, meta))
        lines += [l for _, l in vs]
    for g in range(40 if tier == "quick" else 1200):      # chained strings with decoy heads: fast mode vs normal mode
        vs, meta = gen_chain_group(r, g)
        groups.append((vs, meta))
        lines += [l for _, l in vs]
    for gen, cnt in ((gen_wide_group, 120 if tier == "quick" else 3000), (gen_range_group, 120 if tier == "quick" else 3000),
                     (gen_global_group, 100 if tier == "quick" else 2500)):
        for g in range(cnt):
            vs, meta = gen(r, g)
            groups.append((vs, meta))
            lines += [l for _, l in vs]
    if replay and replay.get("engine") == "twin":
        groups = [([(n, l) for n, l in replay["variants"]], replay.get("meta", {}))]
        lines = [l for _, l in groups[0][0]]
    touts, trc, terr = core.run_parallel([ba["h_scan"]], lines)
    tmap = {l.split(" ", 1)[0]: l for l in touts}
    if trc != 0:
        chk.violation("twin_crash.json", {"kind": "harness crash / sanitizer report in twin campaign", "engine": "twin", "harness": "h_scan", "rc": trc, "stderr": terr})
        found = True
    nviol, hist, ntriv = 0, {}, 0
    distinct = set()
    for vs, meta in groups:
        res = {n: verdicts(tmap.get(l.split(" ", 1)[0], "? ?")) for n, l in vs}
        base = res.get("base", ("?",))
        hist[base[0]] = hist.get(base[0], 0) + 1
        if base[0] == "OK" and "=1" in base[1]:
            ntriv += 1
        distinct.add((meta.get("template"), tuple(meta.get("values", [])), meta.get("buf")))
        for n, l in vs:
            if n == "base" or trc != 0:
                continue
            v = res[n]
            if base[0] == "OK":
                ok = (v == base)
            elif meta.get("must_compile") and n.startswith("ext") and v[0] == "OK":
                ok = False          # a valid rule (constant range lo <= hi) rejected at compile time although its external form compiles
            elif n in ("forced", "constexpr", "constexpr_hi", "fast") or n.startswith("atomq"):    # (fast_ext: externals, compared only when base compiles)
                ok = (v[0] == base[0] and v[1] == base[1])      # same compile error
            else:
                ok = True                                       # externals are unknown at compile time: no compile-time rejection expected
            if not ok and nviol < 10:
                chk.violation("twin_%d.json" % nviol, {"kind": "verdict changed by a semantics-preserving rewrite / shortcut", "engine": "twin", "harness": "h_scan",
                                                        "variant": n, "meta": meta, "base_result": base, "variant_result": v,
                                                        "variants": [[a, b] for a, b in vs if a in ("base", n)]})
                nviol += 1
                found = True
    chk.cov.update({
        "evaluations": len(fcases) + len(lines),
        "distinct_nontrivial": len(set(fcases)) + len(distinct),
        "rule": "fold: operator x boundary-biased int64 operand pairs (distinct case lines); twins: (template, values, strings, buffer) groups, each compiled in 9 variants; "
                "non-trivial twin = base compiles (counted in twin_base_outcomes) — groups where the rule matches: %d" % ntriv,
        "fold_cases": len(fcases), "fold_property_violations": len(bad_prop), "fold_model_disagreements": len(bad_model),
        "twin_groups": len(groups), "twin_lines": len(lines), "twin_base_outcomes": hist, "twin_groups_rule_true": ntriv,
        "traces_validated_against_impl": len(fcases) - len(bad_model),
        "samples": [{"fold_case": fcases[0], "impl": impl[0] if impl else None, "model": model[0] if model else None},
                    {"twin_meta": groups[0][1], "base": groups[0][0][0][1][:200]}],
    })
    core.handle_broken_proof(chk, lres, found)
    chk.assumptions += ["signed overflow wraps (two's complement) in the compiled VM and folder", "twins compare rule verdicts, not match lists (flags legitimately prune lists)",
                        "external-variable variants are compared only when the literal variant compiles — except for constant ranges lo <= hi, which must compile",
                        "word-boundary buffers are built from instances of the regexps / hex strings; the atom-zeroing tables list every <= 4-byte window of them (ascii and wide)"]
    return chk.finish("proof")
