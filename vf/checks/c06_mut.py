"""C06 — structure-aware mutation of PE / ELF / Mach-O / DEX / .NET samples.

`fields(data)` returns a list of (offset, width, endian, label) of the header fields whose values
the module parsers use as counts, sizes, RVAs, file offsets or string offsets, plus `cuts`, the
structure boundaries where truncation is interesting. `mutate(r, data, ...)` turns them into the
op strings understood by harness/h_fuzzmod.c. Pure Python, deterministic from the RNG passed in."""
import struct


def u16(d, o): return struct.unpack_from("<H", d, o)[0] if o + 2 <= len(d) and o >= 0 else None
def u32(d, o): return struct.unpack_from("<I", d, o)[0] if o + 4 <= len(d) and o >= 0 else None
def u64(d, o): return struct.unpack_from("<Q", d, o)[0] if o + 8 <= len(d) and o >= 0 else None
def b32(d, o): return struct.unpack_from(">I", d, o)[0] if o + 4 <= len(d) and o >= 0 else None


class PEInfo:
    def __init__(self, d):
        self.ok = False
        self.F, self.cuts, self.sections = [], [], []
        if len(d) < 0x40 or d[:2] != b"MZ":
            return
        e = u32(d, 0x3C)
        if e is None or u32(d, e) != 0x4550:
            return
        self.ok = True
        F = self.F
        F.append((0x3C, 4, "<", "dos.e_lfanew"))
        fh = e + 4
        F += [(fh + 2, 2, "<", "file.NumberOfSections"), (fh + 8, 4, "<", "file.PointerToSymbolTable"),
              (fh + 12, 4, "<", "file.NumberOfSymbols"), (fh + 16, 2, "<", "file.SizeOfOptionalHeader")]
        oh = fh + 20
        magic = u16(d, oh)
        self.plus = magic == 0x20b
        F += [(oh, 2, "<", "opt.Magic"), (oh + 16, 4, "<", "opt.AddressOfEntryPoint"), (oh + 32, 4, "<", "opt.SectionAlignment"),
              (oh + 36, 4, "<", "opt.FileAlignment"), (oh + 56, 4, "<", "opt.SizeOfImage"), (oh + 60, 4, "<", "opt.SizeOfHeaders")]
        nrva = oh + (108 if self.plus else 92)
        F.append((nrva, 4, "<", "opt.NumberOfRvaAndSizes"))
        dd = nrva + 4
        self.dirs = []
        for i in range(16):
            rva, sz = u32(d, dd + 8 * i), u32(d, dd + 8 * i + 4)
            if rva is None: break
            self.dirs.append((rva, sz))
            F += [(dd + 8 * i, 4, "<", "dir%d.rva" % i), (dd + 8 * i + 4, 4, "<", "dir%d.size" % i)]
        so = oh + (u16(d, fh + 16) or 0)
        ns = min(u16(d, fh + 2) or 0, 96)
        self.cuts += [e, fh, oh, dd, so]
        for i in range(ns):
            s = so + 40 * i
            if s + 40 > len(d): break
            va, vs, rp, rs = u32(d, s + 12), u32(d, s + 8), u32(d, s + 20), u32(d, s + 16)
            self.sections.append((va, vs, rp, rs))
            F += [(s + 8, 4, "<", "sec%d.VirtualSize" % i), (s + 12, 4, "<", "sec%d.VirtualAddress" % i),
                  (s + 16, 4, "<", "sec%d.SizeOfRawData" % i), (s + 20, 4, "<", "sec%d.PointerToRawData" % i), (s, 4, "<", "sec%d.Name" % i)]
            self.cuts += [s, s + 40, rp, rp + rs]
        self.d = d
        self._dirs()

    def off(self, rva):
        for va, vs, rp, rs in self.sections:
            if va <= rva < va + max(vs, rs):
                o = rp + (rva - va)
                return o if o < len(self.d) else None
        return rva if rva < len(self.d) and (not self.sections or rva < min(s[0] for s in self.sections)) else None

    def _dirs(self):
        d, F = self.d, self.F
        def D(i):
            if i < len(self.dirs) and self.dirs[i][0]:
                return self.off(self.dirs[i][0])
            return None
        ex = D(0)
        if ex is not None:
            self.cuts.append(ex)
            for o, n in ((12, "Name"), (16, "Base"), (20, "NumberOfFunctions"), (24, "NumberOfNames"), (28, "AddressOfFunctions"),
                         (32, "AddressOfNames"), (36, "AddressOfNameOrdinals")):
                F.append((ex + o, 4, "<", "export." + n))
            an, nn = u32(d, ex + 32), u32(d, ex + 24)
            ao = self.off(an) if an else None
            if ao is not None:
                for k in range(min(nn or 0, 6)):
                    F.append((ao + 4 * k, 4, "<", "export.name_rva[%d]" % k))
        for di, nm in ((1, "import"), (13, "delayimport")):
            im = D(di)
            if im is not None:
                self.cuts.append(im)
                step = 20 if di == 1 else 32
                for k in range(8):
                    o = im + step * k
                    if o + step > len(d) or d[o:o + step] == bytes(step): break
                    if di == 1:
                        F += [(o, 4, "<", "import%d.OriginalFirstThunk" % k), (o + 12, 4, "<", "import%d.Name" % k), (o + 16, 4, "<", "import%d.FirstThunk" % k)]
                        th = self.off(u32(d, o) or u32(d, o + 16) or 0)
                        if th:
                            for j in range(4):
                                F.append((th + (8 if self.plus else 4) * j, 4, "<", "import%d.thunk[%d]" % (k, j)))
                    else:
                        F += [(o + 4, 4, "<", "delay%d.Name" % k), (o + 12, 4, "<", "delay%d.IAT" % k), (o + 16, 4, "<", "delay%d.INT" % k)]
        rs = D(2)
        if rs is not None:
            self.cuts.append(rs)
            def rdir(o, depth, tag):
                if depth > 2 or o + 16 > len(d): return
                F.extend([(o + 12, 2, "<", tag + ".NumberOfNamedEntries"), (o + 14, 2, "<", tag + ".NumberOfIdEntries")])
                n = (u16(d, o + 12) or 0) + (u16(d, o + 14) or 0)
                for k in range(min(n, 4)):
                    eo = o + 16 + 8 * k
                    if eo + 8 > len(d): break
                    F.extend([(eo, 4, "<", "%s.e%d.Name" % (tag, k)), (eo + 4, 4, "<", "%s.e%d.OffsetToData" % (tag, k))])
                    v = u32(d, eo + 4)
                    if v & 0x80000000:
                        rdir(rs + (v & 0x7fffffff), depth + 1, tag + "/%d" % k)
                    elif rs + v + 16 <= len(d):
                        F.extend([(rs + v, 4, "<", tag + ".data.OffsetToData"), (rs + v + 4, 4, "<", tag + ".data.Size")])
            rdir(rs, 0, "rsrc")
        if 4 < len(self.dirs) and self.dirs[4][0] and self.dirs[4][0] < len(d):   # security dir: file offset
            so = self.dirs[4][0]
            F += [(so, 4, "<", "cert.dwLength"), (so + 4, 2, "<", "cert.wRevision"), (so + 6, 2, "<", "cert.wCertificateType")]
            self.cuts += [so, so + 8]
        dbg = D(6)
        if dbg is not None:
            F += [(dbg + 12, 4, "<", "debug.Type"), (dbg + 16, 4, "<", "debug.SizeOfData"), (dbg + 20, 4, "<", "debug.AddressOfRawData"), (dbg + 24, 4, "<", "debug.PointerToRawData")]
        # Rich header area
        F += [(0x80 + 4 * k, 4, "<", "rich.dword[%d]" % k) for k in range(8)]
        clr = D(14)
        if clr is not None:
            self.cuts.append(clr)
            F += [(clr, 4, "<", "cli.cb"), (clr + 8, 4, "<", "cli.MetaData.rva"), (clr + 12, 4, "<", "cli.MetaData.size"),
                  (clr + 24, 4, "<", "cli.Resources.rva"), (clr + 28, 4, "<", "cli.Resources.size")]
            md = self.off(u32(d, clr + 8) or 0)
            if md and u32(d, md) == 0x424A5342:
                self.cuts.append(md)
                vl = u32(d, md + 12) or 0
                F += [(md + 12, 4, "<", "md.VersionLength")]
                p = md + 16 + vl + 2
                F.append((p, 2, "<", "md.NumberOfStreams"))
                nst = min(u16(d, p) or 0, 8)
                p += 2
                for k in range(nst):
                    if p + 8 > len(d): break
                    so_, ss_ = u32(d, p), u32(d, p + 4)
                    F += [(p, 4, "<", "stream%d.Offset" % k), (p + 4, 4, "<", "stream%d.Size" % k), (p + 8, 4, "<", "stream%d.Name" % k)]
                    q = p + 8
                    name = b""
                    while q < len(d) and d[q] != 0 and q - p < 40:
                        name += d[q:q + 1]; q += 1
                    q += 1
                    q = (q + 3 - p) // 4 * 4 + p if (q - p) % 4 else q
                    if name in (b"#~", b"#-") and md + so_ + 24 <= len(d):
                        t = md + so_
                        self.cuts += [t, t + 24]
                        F += [(t + 6, 1, "<", "tilde.HeapSizes"), (t + 8, 4, "<", "tilde.Valid.lo"), (t + 12, 4, "<", "tilde.Valid.hi"), (t + 16, 4, "<", "tilde.Sorted.lo")]
                        valid = u64(d, t + 8) or 0
                        nt = bin(valid).count("1")
                        for j in range(min(nt, 45)):
                            F.append((t + 24 + 4 * j, 4, "<", "tilde.rows[%d]" % j))
                        rows = t + 24 + 4 * nt
                        for j in range(0, 256, 2):   # raw table area: string/blob/guid heap indexes, RVAs
                            F.append((rows + j, 2, "<", "tilde.tabledata+%d" % j))
                    elif md + so_ < len(d):
                        self.cuts.append(md + so_)
                        for j in range(0, 16, 1):
                            F.append((md + so_ + j, 1, "<", "%s.heap+%d" % (name.decode("latin1"), j)))
                    p = q


def elf_fields(d):
    F, cuts = [], []
    if len(d) < 0x34 or d[:4] != b"\x7fELF":
        return F, cuts
    is64 = d[4] == 2
    be = d[5] == 2
    en = ">" if be else "<"
    rd16 = (lambda o: struct.unpack_from(en + "H", d, o)[0] if o + 2 <= len(d) else 0)
    rdw = (lambda o: struct.unpack_from(en + ("Q" if is64 else "I"), d, o)[0] if o + (8 if is64 else 4) <= len(d) else 0)
    W = 8 if is64 else 4
    F += [(4, 1, en, "ident.class"), (5, 1, en, "ident.data"), (16, 2, en, "type"), (18, 2, en, "machine")]
    if is64:
        lay = dict(entry=24, phoff=32, shoff=40, phentsize=54, phnum=56, shentsize=58, shnum=60, shstrndx=62)
    else:
        lay = dict(entry=24, phoff=28, shoff=32, phentsize=42, phnum=44, shentsize=46, shnum=48, shstrndx=50)
    for k, o in lay.items():
        F.append((o, W if k in ("entry", "phoff", "shoff") else 2, en, "hdr." + k))
    phoff, shoff = rdw(lay["phoff"]), rdw(lay["shoff"])
    phnum, shnum = rd16(lay["phnum"]), rd16(lay["shnum"])
    cuts += [phoff, shoff]
    for i in range(min(phnum, 12)):
        o = phoff + i * (56 if is64 else 32)
        if o + (56 if is64 else 32) > len(d): break
        names = (("type", 0, 4), ("flags", 4, 4), ("offset", 8, 8), ("vaddr", 16, 8), ("paddr", 24, 8), ("filesz", 32, 8), ("memsz", 40, 8), ("align", 48, 8)) if is64 else \
                (("type", 0, 4), ("offset", 4, 4), ("vaddr", 8, 4), ("paddr", 12, 4), ("filesz", 16, 4), ("memsz", 20, 4), ("flags", 24, 4), ("align", 28, 4))
        for n, oo, w in names:
            F.append((o + oo, w, en, "ph%d.%s" % (i, n)))
        cuts += [o]
    for i in range(min(shnum, 40)):
        o = shoff + i * (64 if is64 else 40)
        if o + (64 if is64 else 40) > len(d): break
        names = (("name", 0, 4), ("type", 4, 4), ("flags", 8, 8), ("addr", 16, 8), ("offset", 24, 8), ("size", 32, 8), ("link", 40, 4), ("info", 44, 4), ("entsize", 56, 8)) if is64 else \
                (("name", 0, 4), ("type", 4, 4), ("flags", 8, 4), ("addr", 12, 4), ("offset", 16, 4), ("size", 20, 4), ("link", 24, 4), ("info", 28, 4), ("entsize", 36, 4))
        for n, oo, w in names:
            F.append((o + oo, w, en, "sh%d.%s" % (i, n)))
        so = rdw(o + (24 if is64 else 16)); ss = rdw(o + (32 if is64 else 20))
        ty = struct.unpack_from(en + "I", d, o + 4)[0]
        cuts += [o, so, so + ss]
        if ty in (2, 11):     # SYMTAB / DYNSYM entries
            es = 24 if is64 else 16
            for k in range(min(ss // es, 6)):
                F.append((so + k * es, 4, en, "sym%d[%d].name" % (i, k)))
                F.append((so + k * es + (6 if is64 else 14), 2, en, "sym%d[%d].shndx" % (i, k)))
        if ty == 6:           # DYNAMIC
            for k in range(min(ss // (2 * W), 8)):
                F.append((so + k * 2 * W, W, en, "dyn%d[%d].tag" % (i, k)))
                F.append((so + k * 2 * W + W, W, en, "dyn%d[%d].val" % (i, k)))
    return F, cuts


def macho_fields(d, base=0, depth=0):
    F, cuts = [], []
    if len(d) < base + 8: return F, cuts
    m = b32(d, base)
    if m in (0xCAFEBABE, 0xCAFEBABF, 0xBEBAFECA, 0xBFBAFECA) and depth == 0:
        n = b32(d, base + 4) or 0
        F.append((base + 4, 4, ">", "fat.nfat_arch"))
        is64 = m in (0xCAFEBABF,)
        st = 32 if is64 else 20
        for i in range(min(n, 6)):
            o = base + 8 + st * i
            if o + st > len(d): break
            if is64:
                F += [(o, 4, ">", "fat%d.cputype" % i), (o + 8, 8, ">", "fat%d.offset" % i), (o + 16, 8, ">", "fat%d.size" % i)]
                off = struct.unpack_from(">Q", d, o + 8)[0]
            else:
                F += [(o, 4, ">", "fat%d.cputype" % i), (o + 8, 4, ">", "fat%d.offset" % i), (o + 12, 4, ">", "fat%d.size" % i)]
                off = b32(d, o + 8)
            cuts += [o, off]
            f2, c2 = macho_fields(d, off, 1)
            F += [(a, w, e, "fat%d/%s" % (i, l)) for a, w, e, l in f2]; cuts += c2
        return F, cuts
    if m in (0xFEEDFACE, 0xFEEDFACF): en = ">"
    elif m in (0xCEFAEDFE, 0xCFFAEDFE): en = "<"
    else: return F, cuts
    is64 = m in (0xFEEDFACF, 0xCFFAEDFE)
    rd = lambda o: struct.unpack_from(en + "I", d, o)[0] if o + 4 <= len(d) else 0
    F += [(base + 4, 4, en, "mh.cputype"), (base + 12, 4, en, "mh.filetype"), (base + 16, 4, en, "mh.ncmds"), (base + 20, 4, en, "mh.sizeofcmds")]
    p = base + (32 if is64 else 28)
    for i in range(min(rd(base + 16), 24)):
        if p + 8 > len(d): break
        cmd, sz = rd(p), rd(p + 4)
        F += [(p, 4, en, "lc%d.cmd" % i), (p + 4, 4, en, "lc%d.cmdsize" % i)]
        cuts += [p, p + 8]
        if cmd == 1:
            F += [(p + 32, 4, en, "lc%d.seg.fileoff" % i), (p + 36, 4, en, "lc%d.seg.filesize" % i), (p + 48, 4, en, "lc%d.seg.nsects" % i)]
            for k in range(min(rd(p + 48), 3)):
                F += [(p + 56 + 68 * k + 36, 4, en, "lc%d.sect%d.size" % (i, k)), (p + 56 + 68 * k + 40, 4, en, "lc%d.sect%d.offset" % (i, k))]
        elif cmd == 0x19:
            F += [(p + 40, 8, en, "lc%d.seg64.fileoff" % i), (p + 48, 8, en, "lc%d.seg64.filesize" % i), (p + 64, 4, en, "lc%d.seg64.nsects" % i)]
            for k in range(min(rd(p + 64), 3)):
                F += [(p + 72 + 80 * k + 40, 8, en, "lc%d.sect%d.size" % (i, k)), (p + 72 + 80 * k + 48, 4, en, "lc%d.sect%d.offset" % (i, k))]
        elif cmd in (4, 5):
            F += [(p + 8, 4, en, "lc%d.thread.flavor" % i), (p + 12, 4, en, "lc%d.thread.count" % i)]
        elif cmd == 0x80000028:
            F += [(p + 8, 8, en, "lc%d.main.entryoff" % i), (p + 16, 8, en, "lc%d.main.stacksize" % i)]
        if sz < 8: break
        p += sz
    return F, cuts


DEX_HDR = ["checksum", None, None, None, None, None, "file_size", "header_size", "endian_tag", "link_size", "link_off", "map_off", "string_ids_size",
           "string_ids_off", "type_ids_size", "type_ids_off", "proto_ids_size", "proto_ids_off", "field_ids_size", "field_ids_off",
           "method_ids_size", "method_ids_off", "class_defs_size", "class_defs_off", "data_size", "data_off"]


def dex_fields(d):
    F, cuts = [], []
    if len(d) < 0x70 or d[:4] != b"dex\n": return F, cuts
    for i, n in enumerate(DEX_HDR):
        if n: F.append((8 + 4 * i, 4, "<", "hdr." + n))
    g = lambda n: u32(d, 8 + 4 * DEX_HDR.index(n)) or 0
    cuts += [0x70, g("map_off"), g("string_ids_off"), g("type_ids_off"), g("proto_ids_off"), g("field_ids_off"), g("method_ids_off"), g("class_defs_off"), g("data_off")]
    for nm, es, cnt in (("string_ids", 4, 8), ("type_ids", 4, 6), ("proto_ids", 12, 4), ("field_ids", 8, 4), ("method_ids", 8, 4), ("class_defs", 32, 3)):
        o = g(nm + "_off")
        for k in range(min(g(nm + "_size"), cnt)):
            for j in range(0, es, 4):
                F.append((o + es * k + j, 4, "<", "%s[%d]+%d" % (nm, k, j)))
            if nm == "string_ids":
                so = u32(d, o + 4 * k)
                if so is not None and so < len(d):
                    F.append((so, 1, "<", "string[%d].uleb" % k)); F.append((so + 1, 1, "<", "string[%d].uleb+1" % k))
            if nm == "class_defs":
                cd = u32(d, o + 32 * k + 24)
                if cd and cd + 8 < len(d):
                    for j in range(8):
                        F.append((cd + j, 1, "<", "class_data[%d].uleb+%d" % (k, j)))
    mo = g("map_off")
    if mo and mo + 4 <= len(d):
        F.append((mo, 4, "<", "map.size"))
        for k in range(min(u32(d, mo) or 0, 6)):
            F += [(mo + 4 + 12 * k, 2, "<", "map[%d].type" % k), (mo + 8 + 12 * k, 4, "<", "map[%d].size" % k), (mo + 12 + 12 * k, 4, "<", "map[%d].offset" % k)]
    return F, cuts


def analyse(d):
    """-> (format, fields, cuts); see also `anchors`"""
    pe = PEInfo(d)
    if pe.ok:
        return ("dotnet" if any(l.startswith("cli.") for _, _, _, l in pe.F) else "pe"), pe.F, pe.cuts
    F, c = elf_fields(d)
    if F: return "elf", F, c
    F, c = macho_fields(d)
    if F: return "macho", F, c
    F, c = dex_fields(d)
    if F: return "dex", F, c
    return "raw", [], []


def interesting(r, cur, width, n):
    """boundary-biased replacement for a field holding `cur`; n = file size"""
    top = (1 << (8 * width)) - 1
    c = cur or 0
    pool = [0, 1, top, top - 1, top >> 1, (top >> 1) + 1, n, n - 1, n + 1, n - c if n > c else 0, c + 1, c - 1 if c else 0, c * 2, c + n,
            n - 4, n - 8, n + 0x1000, 0x7fffffff, 0x80000000, 0xfffffff0, 0xffff, 0x10000, c ^ 0x80000000, c | 0x80000000,
            top - 7, top - n if top > n else 0, (top - c + 1) & top, r.getrandbits(8 * width)]
    if width == 8:
        pool += [(1 << 64) - 8, (1 << 64) - 16, (1 << 64) - n, (1 << 63), (1 << 64) - c if c else 0, (1 << 47), 0x7ffffffff000]
    return r.choice(pool) & top


def mutate(r, data, fields, cuts):
    """one mutated variant -> (ops string, kind label)"""
    n = len(data)
    u = r.random()
    ops = []
    if fields and u < 0.62:
        k = r.choice([1, 1, 1, 2, 2, 3, 4])
        labels = []
        for _ in range(k):
            off, w, en, lab = r.choice(fields)
            if off + w > n or off < 0: continue
            cur = int.from_bytes(data[off:off + w], "little" if en == "<" else "big")
            v = interesting(r, cur, w, n)
            ops.append("%s%d:%d:%x" % ("W" if en == "<" else "B", off, w, v))
            labels.append(lab.split(".")[0].rstrip("0123456789"))
        kind = "field:" + "+".join(sorted(set(labels))[:2]) if labels else "noop"
        if r.random() < 0.15 and cuts:
            ops.append("T%d" % max(0, min(n, r.choice(cuts) + r.choice([-1, 0, 1, 2]))))
            kind += "+trunc"
    elif cuts and u < 0.80:
        c = r.choice(cuts)
        ops.append("T%d" % max(0, min(n, c + r.choice([-2, -1, 0, 1, 3, 7, 8]))))
        kind = "trunc@boundary"
    elif u < 0.88:
        ops.append("T%d" % r.randint(0, n))
        kind = "trunc@random"
    elif u < 0.96:
        for _ in range(r.choice([1, 2, 4, 8])):
            off = r.randrange(0, max(1, n - 4)) & ~3
            ops.append("W%d:4:%x" % (off, interesting(r, int.from_bytes(data[off:off + 4], "little"), 4, n)))
        kind = "dword-random"
    else:
        for _ in range(r.choice([1, 4, 16])):
            ops.append("X%d:%02x" % (r.randrange(0, max(1, n)), r.getrandbits(8)))
        if r.random() < 0.3:
            ops.append("A%d:%02x" % (r.choice([1, 7, 4096]), r.choice([0, 0xff, 0x41])))
        kind = "bytes-random"
    return ",".join(ops) or "N", kind


import re
PTR_RX = re.compile(r"rva|Address|Name|Offset|Pointer|offset|_off$|fileoff|entryoff|e_lfanew|phoff|shoff|Thunk|thunk|IAT|INT|link|shstrndx|shndx|name|uleb|idx|\+\d+$|heap|tabledata|dword")
CNT_RX = re.compile(r"Number|size|Size|count|num|nsects|ncmds|Length|cb$|rows|filesz|memsz|nfat|cmdsize|HeapSizes|Valid")


def anchors(d):
    """values that, stored in a pointer-like field, make it point at / just before / just past the end of the file"""
    n = len(d)
    a = [n]
    pe = PEInfo(d)
    if pe.ok:
        for va, vs, rp, rs in pe.sections:
            if rp <= n and rs and rp + rs >= n - 64:
                a.append(va + (n - rp))           # rva of end-of-file
        for off, w, en, lab in pe.F:
            if lab == "md.VersionLength":
                a.append(n - (off - 12))          # end of file relative to the metadata root
    return a


def klass(label):
    return re.sub(r"\d+", "#", label)


def directed_value(r, lab, cur, width, n, anch):
    top = (1 << (8 * width)) - 1
    if CNT_RX.search(lab) and not PTR_RX.search(lab):
        pool = [top, top >> 1, (top >> 1) + 1, n, n // 2, n // 4, n // 8, n // 16, n // 20, n // 40, 0xffff, 0x10000, cur + 1, cur * 2 + 1, cur + 0x100, 0]
    else:
        pool = []
        for e in anch:
            pool += [e - k for k in (1, 2, 3, 4, 7, 8, 12, 16, 20, 24, 39, 40)] + [e, e + 1]
        pool += [top, top - 7, 0]
    return r.choice(pool) & top


# ---------------------------------------------------------------------------------------------------------------------
# Tables at the very end of the buffer: for every (pointer field, count field, element size) the parsers walk, the table
# is copied so that it ends EXACTLY at the last byte of the file (or sticks out by part of an element), the pointer is
# re-aimed at the copy and the count relations are varied. With the exact-size heap copy made by harness/h_fuzzmod.c
# the first element read past the validated count is an ASan report.
def _rd(d, off, w, en="<"):
    if off is None or off < 0 or off + w > len(d):
        return None
    return int.from_bytes(d[off:off + w], "little" if en == "<" else "big")


def reloc_targets(d):
    """-> list of dict(label, ptr=(off,w,en), to_field=f(file_off)->value|None, block=(off,len), counts=[(off,w,en,label)], elem)"""
    T = []
    n = len(d)
    pe = PEInfo(d)
    if pe.ok:
        def rva_of(off):
            for va, vs, rp, rs in pe.sections:
                if rs and rp <= off <= rp + rs and rp + rs >= n - 8:
                    return va + (off - rp)
            for va, vs, rp, rs in pe.sections:
                if rs and rp <= off < rp + rs:
                    return va + (off - rp)
            return None
        F = {l: (o, w, e) for o, w, e, l in pe.F}
        def fld(l): return F.get(l)
        def val(l):
            f = fld(l); return _rd(d, f[0], f[1], f[2]) if f else None
        def offv(l):
            v = val(l); return pe.off(v) if v else None
        if fld("export.NumberOfFunctions"):
            nf, nn = val("export.NumberOfFunctions") or 0, val("export.NumberOfNames") or 0
            cnts = [fld("export.NumberOfFunctions") + ("NumberOfFunctions",), fld("export.NumberOfNames") + ("NumberOfNames",)]
            for lab, cnt, E in (("export.AddressOfFunctions", nf, 4), ("export.AddressOfNames", nn, 4), ("export.AddressOfNameOrdinals", nn, 2)):
                o = offv(lab)
                if o is not None and 0 < cnt * E <= 8192:
                    T.append(dict(label=lab, ptr=fld(lab), to_field=rva_of, block=(o, cnt * E), counts=cnts, elem=E))
            o = offv("export.Name")
            if o is not None:
                e = d.find(b"\0", o, o + 256)
                if e > o: T.append(dict(label="export.Name", ptr=fld("export.Name"), to_field=rva_of, block=(o, e - o), counts=[], elem=1))
        for di, lab, E in ((0, "dir0", 40), (1, "dir1", 20), (13, "dir13", 32), (6, "dir6", 28), (2, "dir2", 16), (14, "dir14", 72)):
            if fld("%s.rva" % lab) and val("%s.rva" % lab):
                o = pe.off(val("%s.rva" % lab))
                if o is not None:
                    ln = E
                    if di in (1, 13):
                        k = 0
                        while o + E * (k + 1) <= n and d[o + E * k:o + E * (k + 1)] != bytes(E) and k < 32: k += 1
                        ln = E * k if k else E
                    T.append(dict(label=lab + ".table", ptr=fld("%s.rva" % lab), to_field=rva_of, block=(o, ln), counts=[fld("%s.size" % lab) + ("dirsize",)], elem=E))
        for k in range(8):
            for lab, E in (("import%d.OriginalFirstThunk" % k, 8 if pe.plus else 4), ("import%d.FirstThunk" % k, 8 if pe.plus else 4)):
                if fld(lab) and val(lab):
                    o = pe.off(val(lab))
                    if o is not None:
                        j = 0
                        while o + E * (j + 1) <= n and d[o + E * j:o + E * (j + 1)] != bytes(E) and j < 64: j += 1
                        if j: T.append(dict(label=lab, ptr=fld(lab), to_field=rva_of, block=(o, E * j), counts=[], elem=E))
            lab = "import%d.Name" % k
            if fld(lab) and val(lab):
                o = pe.off(val(lab))
                if o is not None:
                    e = d.find(b"\0", o, o + 256)
                    if e > o: T.append(dict(label=lab, ptr=fld(lab), to_field=rva_of, block=(o, e - o), counts=[], elem=1))
        for l in list(F):
            if l.startswith("stream") and l.endswith(".Offset"):
                so, sz = val(l), val(l.replace(".Offset", ".Size"))
                mdf = [o for o, w, e, ll in pe.F if ll == "md.VersionLength"]
                if mdf and so is not None and sz:
                    md = mdf[0] - 12
                    if md + so + sz <= n and sz <= 1 << 16:
                        T.append(dict(label="dotnet." + l, ptr=F[l], to_field=(lambda off, md=md: off - md if off >= md else None), block=(md + so, sz),
                                      counts=[F[l.replace(".Offset", ".Size")] + ("streamsize",)], elem=4))
        return T
    if d[:4] == b"\x7fELF" and len(d) > 0x40:
        is64, en = d[4] == 2, (">" if d[5] == 2 else "<")
        W = 8 if is64 else 4
        lay = dict(phoff=32, shoff=40, phentsize=54, phnum=56, shentsize=58, shnum=60) if is64 else dict(phoff=28, shoff=32, phentsize=42, phnum=44, shentsize=46, shnum=48)
        ident = lambda off: off
        for nm, offk, cntk, esk in (("elf.shtable", "shoff", "shnum", "shentsize"), ("elf.phtable", "phoff", "phnum", "phentsize")):
            o, c, es = _rd(d, lay[offk], W, en), _rd(d, lay[cntk], 2, en), _rd(d, lay[esk], 2, en)
            if o and c and es and o + c * es <= n:
                T.append(dict(label=nm, ptr=(lay[offk], W, en), to_field=ident, block=(o, c * es), counts=[(lay[cntk], 2, en, cntk)], elem=es))
        shoff, shnum = _rd(d, lay["shoff"], W, en) or 0, _rd(d, lay["shnum"], 2, en) or 0
        hs = 64 if is64 else 40
        for i in range(min(shnum, 48)):
            h = shoff + hs * i
            ty = _rd(d, h + 4, 4, en)
            so, ss = _rd(d, h + (24 if is64 else 16), W, en), _rd(d, h + (32 if is64 else 20), W, en)
            if ty in (2, 3, 6, 11) and so and ss and so + ss <= n and ss <= 1 << 16:
                T.append(dict(label="elf.section[type=%d]" % ty, ptr=(h + (24 if is64 else 16), W, en), to_field=ident, block=(so, ss),
                              counts=[(h + (32 if is64 else 20), W, en, "sh_size")], elem={2: 24 if is64 else 16, 11: 24 if is64 else 16, 6: 2 * W}.get(ty, 1)))
        return T
    if d[:4] == b"dex\n" and len(d) >= 0x70:
        g = lambda name: 8 + 4 * DEX_HDR.index(name)
        for nm, es in (("string_ids", 4), ("type_ids", 4), ("proto_ids", 12), ("field_ids", 8), ("method_ids", 8), ("class_defs", 32)):
            o, c = _rd(d, g(nm + "_off"), 4), _rd(d, g(nm + "_size"), 4)
            if o and c and o + c * es <= n and c * es <= 1 << 16:
                T.append(dict(label="dex." + nm, ptr=(g(nm + "_off"), 4, "<"), to_field=lambda off: off, block=(o, c * es), counts=[(g(nm + "_size"), 4, "<", nm + "_size")], elem=es))
        mo = _rd(d, g("map_off"), 4)
        if mo and mo + 4 <= n:
            c = _rd(d, mo, 4) or 0
            if mo + 4 + 12 * c <= n and c <= 64:
                T.append(dict(label="dex.map_list", ptr=(g("map_off"), 4, "<"), to_field=lambda off: off, block=(mo, 4 + 12 * c), counts=[], elem=12))
        return T
    return T


def reloc_cases(r, d, targets, per_target=6):
    """-> list of (ops, kind)"""
    out = []
    n = len(d)
    for t in targets:
        bo, bl = t["block"]
        E = t["elem"]
        po, pw, pen = t["ptr"]
        blk = bytes(d[bo:bo + bl])
        variants = [0, 0, 0, max(1, E // 2), 1, E - 1 if E > 1 else 1]
        for v in range(per_target):
            stick = variants[v % len(variants)]                # how many bytes of the table lie past the end
            keep = bl - stick
            if keep <= 0:
                continue
            dst = n - keep
            fv = t["to_field"](dst)
            if fv is None or dst < 0:
                continue
            ops = ["X%d:%s" % (dst, blk[:keep].hex()), "%s%d:%d:%x" % ("W" if pen == "<" else "B", po, pw, fv & ((1 << (8 * pw)) - 1))]
            kind = "table@EOF:" + t["label"].split(".")[0].rstrip("0123456789")
            if v >= 1 and t["counts"]:
                co, cw, cen, cl = r.choice(t["counts"])
                cur = _rd(d, co, cw, cen) or 0
                nv = r.choice([cur + 1, cur + 2, cur * 2 + 1, 0, 1, max(0, cur - 1), 16384, (1 << (8 * cw)) - 1])
                ops.append("%s%d:%d:%x" % ("W" if cen == "<" else "B", co, cw, nv & ((1 << (8 * cw)) - 1)))
                kind += "+count"
            out.append((",".join(ops), kind))
        if t["label"].startswith("export.Address") and len(t["counts"]) == 2:
            # NumberOfFunctions vs NumberOfNames relations (<, =, >, 0, huge) with the table sized for ITS OWN count ending exactly at EOF
            (fo, fw, fe, _), (no, nw, ne, _) = t["counts"]
            nf0, nn0 = _rd(d, fo, fw, fe) or 0, _rd(d, no, nw, ne) or 0
            own_is_f = t["label"].endswith("AddressOfFunctions")
            for nn, nf in ((nn0, nn0 + 1), (nn0, 2 * nn0 + 1), (1, max(2, nn0)), (nn0, 16384), (0, max(1, nn0)), (nn0, 0), (nn0 + 1, nn0), (2, 3), (1, 1), (nn0, nn0),
                           (max(1, nn0 - 1), nn0), (nn0, 0xffffffff), (0xffffffff, nn0)):
                own = nf if own_is_f else nn
                keep = min(own * E, bl, 4096)
                if keep <= 0:
                    continue
                dst = n - keep
                fv = t["to_field"](dst)
                if fv is None:
                    continue
                out.append((",".join(["X%d:%s" % (dst, blk[:keep].hex()), "W%d:%d:%x" % (po, pw, fv), "W%d:%d:%x" % (fo, fw, nf & 0xffffffff),
                                      "W%d:%d:%x" % (no, nw, nn & 0xffffffff)]), "table@EOF:export+relations"))
    return out


# ---------------------------------------------------------------------------------------------------------------------
# .NET #Blob heap: signature blobs rewritten in place with crafted type encodings (ECMA-335 II.23.2)
def _cint(v):
    if v < 0x80: return bytes([v])
    if v < 0x4000: return bytes([0x80 | (v >> 8), v & 0xff])
    return bytes([0xC0 | ((v >> 24) & 0x1f), (v >> 16) & 0xff, (v >> 8) & 0xff, v & 0xff])


def dotnet_blob_heap(d):
    """-> (heap file offset, heap size, [(offset of length prefix, prefix size, blob length)]) or None"""
    md = -1
    pe = PEInfo(d)
    if pe.ok:
        for off, w, en, lab in pe.F:
            if lab == "md.VersionLength":
                md = off - 12
    if md < 0:
        md = d.find(b"BSJB")
    if md < 0 or md + 20 > len(d):
        return None
    vl = u32(d, md + 12) or 0
    p = md + 16 + vl + 2
    ns = u16(d, p) or 0
    p += 2
    for _ in range(min(ns, 16)):
        if p + 8 > len(d): return None
        so, sz = u32(d, p), u32(d, p + 4)
        q = p + 8
        name = b""
        while q < len(d) and d[q] != 0 and q - p < 40:
            name += d[q:q + 1]; q += 1
        q += 1
        q = p + 8 + ((q - (p + 8) + 3) // 4) * 4
        if name == b"#Blob":
            h = md + so
            if h + sz > len(d): sz = max(0, len(d) - h)
            blobs, x = [], h + 1
            while x < h + sz:
                b0 = d[x]
                if b0 & 0x80 == 0: L, hs = b0, 1
                elif b0 & 0xC0 == 0x80 and x + 1 < h + sz: L, hs = ((b0 & 0x3f) << 8) | d[x + 1], 2
                elif b0 & 0xE0 == 0xC0 and x + 3 < h + sz: L, hs = ((b0 & 0x1f) << 24) | (d[x + 1] << 16) | (d[x + 2] << 8) | d[x + 3], 4
                else: break
                if x + hs + L > h + sz: break
                blobs.append((x, hs, L))
                x += hs + L
            return h, sz, blobs
        p = q
    return None


def dotnet_signatures():
    """crafted type encodings: general arrays with every relation of rank / NumSizes / NumLoBounds, deep nesting, generic instantiations,
    compressed-integer boundary encodings, function pointers, custom modifiers"""
    T = []
    for rank in (0, 1, 2, 50, 51, 127, 128):
        for ns in (0, 1, 2, 25, 50, 51):
            for nl in (0, 1, 2, 2 * ns, 2 * ns + 1, 50, 51, 127):
                if len(T) > 400: break
                sizes = b"".join(_cint(3) for _ in range(ns))
                los = bytes([0x7E]) * nl                      # non-zero signed compressed lower bounds
                T.append(bytes([0x14, 0x08]) + _cint(rank) + _cint(ns) + sizes + _cint(nl) + los)
    T += [bytes([0x14, 0x08]) + _cint(2) + _cint(0x3fff) + b"\x03" * 8, bytes([0x14, 0x08]) + _cint(2) + _cint(1) + b"\x03" + _cint(0x1fffffff) + b"\x7e" * 8,
          bytes([0x14, 0x14, 0x08, 1, 0, 1, 0x7e, 1, 0, 1, 0x7e]), bytes([0x14, 0x1d, 0x08, 2, 0, 2, 2, 2])]
    for k in (1, 15, 16, 17, 32, 64):
        T += [bytes([0x0f]) * k + b"\x08", bytes([0x1d]) * k + b"\x0e", bytes([0x10]) + bytes([0x1d]) * k + b"\x1c", (bytes([0x14]) * k) + b"\x08" + b"\x01\x00\x00" * k]
    for cnt in (0, 1, 2, 127, 128, 255, 0x3fff):
        T.append(bytes([0x15, 0x12]) + _cint(0x49) + _cint(cnt) + b"\x08\x0e\x1c" * min(cnt, 8))
        T.append(bytes([0x15, 0x11]) + _cint(0x1fffffff) + _cint(cnt) + b"\x08" * min(cnt, 4))
    T += [bytes([0x15, 0x12, 0x49, 1]) * 20 + b"\x08", bytes([0x1b, 0x00, 0x01, 0x08, 0x08]), bytes([0x1b, 0x20, 0x7f]) + b"\x08" * 20, bytes([0x1b]) * 30,
          bytes([0x13]) + _cint(0x1fffffff), bytes([0x1e]) + _cint(0x3fff), bytes([0x1f, 0x49, 0x20, 0x4d, 0x08]), bytes([0x1f]) * 20, bytes([0x12]) + b"\xff\xff\xff\xff",
          bytes([0x11, 0xe0]), bytes([0x12, 0xc0]), bytes([0x12, 0x80]), b"\x16", b"\x41", b"\x45", b"\x00", b"\xff", bytes([0x14]), bytes([0x14, 0x08]), bytes([0x14, 0x08, 0x80])]
    return T


def dotnet_blob_cases(r, d, per_seed=60):
    """-> [(ops, kind)]: a method / field / local / typespec signature blob overwritten (length prefix rewritten as well, the rest of the blob zero-padded)"""
    H = dotnet_blob_heap(d)
    if not H or not H[2]:
        return []
    h, sz, blobs = H
    sigs = dotnet_signatures()
    meth = [b for b in blobs if b[2] >= 3 and d[b[0] + b[1]] in (0x00, 0x20, 0x10, 0x30, 0x05, 0x25)]
    other = [b for b in blobs if b[2] >= 2 and b not in meth]
    out = []
    for k in range(per_seed):
        t = sigs[(k * 7 + r.randrange(len(sigs))) % len(sigs)] if k >= len(sigs) else sigs[r.randrange(len(sigs))]
        form = r.choice(["ret", "param", "hasthis", "generic", "field", "typespec", "local", "prop"])
        body = {"ret": b"\x00\x00" + t, "param": b"\x00\x01\x01" + t, "hasthis": b"\x20\x02\x08" + t + t, "generic": b"\x10\x01\x01\x01" + t, "field": b"\x06" + t,
                "typespec": t, "local": b"\x07\x01" + t, "prop": b"\x28\x00" + t}[form]
        pool = meth if (form in ("ret", "param", "hasthis", "generic") and meth) else (other or meth)
        if not pool:
            break
        x, hs, L = r.choice(pool)
        room = min(L, 4096)
        if len(body) > room:
            # grow the blob over its successors: rewrite the length prefix (same width when possible)
            newL = len(body)
            pre = _cint(newL)
            if len(pre) != hs or x + hs + newL > h + sz:
                body = body[:room]
                pre = None
        else:
            pre = None
            body = body + bytes(room - len(body)) if r.random() < 0.7 else body
        ops = []
        if pre:
            ops.append("X%d:%s" % (x, pre.hex()))
        ops.append("X%d:%s" % (x + hs, body.hex()))
        out.append((",".join(ops), "dotnet-signature:" + form))
    return out


# ---------------------------------------------------------------------------------------------------------------------
# Table entries whose RVA / offset does not map anywhere: first, middle and last entry of every table the parsers walk
UNMAPPED = [0x7ff00000, 0x0fff0000, 0x7fffffff]


def pe_table_entries(d):
    """-> {table label: [(off, width)]} pointer-like entries of the RVA-driven tables of a PE (all entries, not only the first few)"""
    pe = PEInfo(d)
    out = {}
    if not pe.ok:
        return out
    n = len(d)
    W = 8 if pe.plus else 4
    def thunks(rva, lab):
        o = pe.off(rva) if rva else None
        if o is None: return
        j, L = 0, []
        while o + W * (j + 1) <= n and d[o + W * j:o + W * (j + 1)] != bytes(W) and j < 4096:
            L.append((o + W * j, 4)); j += 1
        if L: out[lab] = L
    def D(i):
        return pe.off(pe.dirs[i][0]) if i < len(pe.dirs) and pe.dirs[i][0] else None
    im = D(1)
    if im is not None:
        k = 0
        while im + 20 * (k + 1) <= n and d[im + 20 * k:im + 20 * (k + 1)] != bytes(20) and k < 64:
            o = im + 20 * k
            thunks(u32(d, o) or u32(d, o + 16), "import%d.names" % k)
            out.setdefault("import.descriptors.Name", []).append((o + 12, 4))
            out.setdefault("import.descriptors.OriginalFirstThunk", []).append((o, 4))
            k += 1
    dl = D(13)
    if dl is not None:
        k = 0
        while dl + 32 * (k + 1) <= n and d[dl + 32 * k:dl + 32 * (k + 1)] != bytes(32) and k < 64:
            o = dl + 32 * k
            thunks(u32(d, o + 16), "delay%d.names" % k)
            thunks(u32(d, o + 12), "delay%d.iat" % k)
            out.setdefault("delay.descriptors.Name", []).append((o + 4, 4))
            out.setdefault("delay.descriptors.INT", []).append((o + 16, 4))
            k += 1
    ex = D(0)
    if ex is not None:
        nn, an, af, nf = u32(d, ex + 24) or 0, u32(d, ex + 32), u32(d, ex + 28), u32(d, ex + 20) or 0
        ao = pe.off(an) if an else None
        if ao is not None:
            out["export.names"] = [(ao + 4 * j, 4) for j in range(min(nn, 4096)) if ao + 4 * j + 4 <= n]
        fo = pe.off(af) if af else None
        if fo is not None:
            out["export.functions"] = [(fo + 4 * j, 4) for j in range(min(nf, 4096)) if fo + 4 * j + 4 <= n]
    rs = D(2)
    if rs is not None:
        L = []
        def rdir(o, depth):
            if depth > 3 or o + 16 > n or len(L) > 512: return
            cnt = (u16(d, o + 12) or 0) + (u16(d, o + 14) or 0)
            for k in range(min(cnt, 64)):
                eo = o + 16 + 8 * k
                if eo + 8 > n: break
                L.append((eo, 4)); L.append((eo + 4, 4))
                v = u32(d, eo + 4)
                if v & 0x80000000: rdir(rs + (v & 0x7fffffff), depth + 1)
                elif rs + v + 16 <= n: L.append((rs + v, 4))
        rdir(rs, 0)
        if L: out["resource.entries"] = L
    return out


def unmapped_cases(r, d, fmt, fields):
    """first / middle / last entry of every table set to a value that maps nowhere"""
    out = []
    tabs = pe_table_entries(d) if fmt in ("pe", "dotnet") else {}
    if fmt in ("elf", "macho", "dex"):
        groups = {}
        for off, w, en, lab in fields:
            if PTR_RX.search(lab) or "cmdsize" in lab or "val" in lab:
                groups.setdefault(klass(lab), []).append((off, w, en))
        for g, L in groups.items():
            tabs[g] = L
    for lab, L in sorted(tabs.items()):
        idx = sorted({0, len(L) // 2, len(L) - 1})
        for i in idx:
            e = L[i]
            off, w = e[0], e[1]
            en = e[2] if len(e) > 2 else "<"
            for v in ((UNMAPPED if lab.split('.')[0].rstrip('0123456789') in ('import', 'delay', 'export', 'resource') else UNMAPPED[:1]) if w >= 4 else [0xffff]):
                top = (1 << (8 * w)) - 1
                vv = v & top if w <= 4 else (v if r.random() < 0.5 else (1 << 63) + v)
                out.append(("%s%d:%d:%x" % ("W" if en == "<" else "B", off, w, vv), "unmapped-entry:" + lab.split(".")[0].rstrip("0123456789")))
    return out


# ---------------------------------------------------------------------------------------------------------------------
# .NET metadata tables (#~ stream, ECMA-335 II.22 / II.24.2.6): row-level mutations
_T = ["Module", "TypeRef", "TypeDef", "FieldPtr", "Field", "MethodPtr", "MethodDef", "ParamPtr", "Param", "InterfaceImpl", "MemberRef", "Constant", "CustomAttribute",
      "FieldMarshal", "DeclSecurity", "ClassLayout", "FieldLayout", "StandAloneSig", "EventMap", "EventPtr", "Event", "PropertyMap", "PropertyPtr", "Property",
      "MethodSemantics", "MethodImpl", "ModuleRef", "TypeSpec", "ImplMap", "FieldRVA", "EncLog", "EncMap", "Assembly", "AssemblyProcessor", "AssemblyOS", "AssemblyRef",
      "AssemblyRefProcessor", "AssemblyRefOS", "File", "ExportedType", "ManifestResource", "NestedClass", "GenericParam", "MethodSpec", "GenericParamConstraint"]
_CODED = {"TypeDefOrRef": (2, ["TypeDef", "TypeRef", "TypeSpec"]), "HasConstant": (2, ["Field", "Param", "Property"]),
          "HasCustomAttribute": (5, ["MethodDef", "Field", "TypeRef", "TypeDef", "Param", "InterfaceImpl", "MemberRef", "Module", "DeclSecurity", "Property", "Event", "StandAloneSig",
                                     "ModuleRef", "TypeSpec", "Assembly", "AssemblyRef", "File", "ExportedType", "ManifestResource", "GenericParam", "GenericParamConstraint", "MethodSpec"]),
          "HasFieldMarshal": (1, ["Field", "Param"]), "HasDeclSecurity": (2, ["TypeDef", "MethodDef", "Assembly"]),
          "MemberRefParent": (3, ["TypeDef", "TypeRef", "ModuleRef", "MethodDef", "TypeSpec"]), "HasSemantics": (1, ["Event", "Property"]),
          "MethodDefOrRef": (1, ["MethodDef", "MemberRef"]), "MemberForwarded": (1, ["Field", "MethodDef"]), "Implementation": (2, ["File", "AssemblyRef", "ExportedType"]),
          "CustomAttributeType": (3, ["MethodDef", "MemberRef"]), "ResolutionScope": (2, ["Module", "ModuleRef", "AssemblyRef", "TypeRef"]),
          "TypeOrMethodDef": (1, ["TypeDef", "MethodDef"])}
_S = {"Module": "u2 S G G G", "TypeRef": "C:ResolutionScope S S", "TypeDef": "u4 S S C:TypeDefOrRef T:Field T:MethodDef", "FieldPtr": "T:Field", "Field": "u2 S B",
      "MethodPtr": "T:MethodDef", "MethodDef": "u4 u2 u2 S B T:Param", "ParamPtr": "T:Param", "Param": "u2 u2 S", "InterfaceImpl": "T:TypeDef C:TypeDefOrRef",
      "MemberRef": "C:MemberRefParent S B", "Constant": "u2 C:HasConstant B", "CustomAttribute": "C:HasCustomAttribute C:CustomAttributeType B", "FieldMarshal": "C:HasFieldMarshal B",
      "DeclSecurity": "u2 C:HasDeclSecurity B", "ClassLayout": "u2 u4 T:TypeDef", "FieldLayout": "u4 T:Field", "StandAloneSig": "B", "EventMap": "T:TypeDef T:Event",
      "EventPtr": "T:Event", "Event": "u2 S C:TypeDefOrRef", "PropertyMap": "T:TypeDef T:Property", "PropertyPtr": "T:Property", "Property": "u2 S B",
      "MethodSemantics": "u2 T:MethodDef C:HasSemantics", "MethodImpl": "T:TypeDef C:MethodDefOrRef C:MethodDefOrRef", "ModuleRef": "S", "TypeSpec": "B",
      "ImplMap": "u2 C:MemberForwarded S T:ModuleRef", "FieldRVA": "u4 T:Field", "EncLog": "u4 u4", "EncMap": "u4", "Assembly": "u4 u2 u2 u2 u2 u4 B S S",
      "AssemblyProcessor": "u4", "AssemblyOS": "u4 u4 u4", "AssemblyRef": "u2 u2 u2 u2 u4 B S S B", "AssemblyRefProcessor": "u4 T:AssemblyRef",
      "AssemblyRefOS": "u4 u4 u4 T:AssemblyRef", "File": "u4 S B", "ExportedType": "u4 u4 S S C:Implementation", "ManifestResource": "u4 u4 S C:Implementation",
      "NestedClass": "T:TypeDef T:TypeDef", "GenericParam": "u2 u2 C:TypeOrMethodDef S", "MethodSpec": "C:MethodDefOrRef B", "GenericParamConstraint": "T:GenericParam C:TypeDefOrRef"}


def dotnet_tables(d):
    """-> dict(name -> dict(off=file offset of row 0, rows, size=row size, cols=[(col offset, width, kind)])) or None"""
    pe = PEInfo(d)
    t = None
    for off, w, en, lab in (pe.F if pe.ok else []):
        if lab == "tilde.Valid.lo":
            t = off - 8
    if t is None or t + 24 > len(d):
        return None
    heap = d[t + 6]
    valid = u64(d, t + 8) or 0
    rows, p = {}, t + 24
    for i in range(64):
        if valid >> i & 1:
            if p + 4 > len(d): return None
            if i < len(_T): rows[_T[i]] = u32(d, p)
            else: return None
            p += 4
    ssz, gsz, bsz = (4 if heap & 1 else 2), (4 if heap & 2 else 2), (4 if heap & 4 else 2)
    def width(c):
        if c == "u2": return 2
        if c == "u4": return 4
        if c == "S": return ssz
        if c == "G": return gsz
        if c == "B": return bsz
        if c.startswith("T:"): return 4 if rows.get(c[2:], 0) >= (1 << 16) else 2
        bits, tabs = _CODED[c[2:]]
        return 4 if max([rows.get(x, 0) for x in tabs] + [0]) >= (1 << (16 - bits)) else 2
    out = {}
    for i, name in enumerate(_T):
        if name not in rows: continue
        cols, o = [], 0
        for c in _S[name].split():
            w = width(c); cols.append((o, w, c)); o += w
        out[name] = dict(off=p, rows=rows[name], size=o, cols=cols)
        p += o * rows[name]
        if p > len(d): return None
    out["_heaps"] = dict(rows=rows)
    return out


def dotnet_table_cases(r, d, per_table=10, only=None):
    """row-level mutations: a column of the first / middle / last row set to 0, 1, last, last+1, max; a row made a copy of its predecessor (several rows then
    share an owner / parent) with one column invalid; the same with the predecessor changed"""
    T = dotnet_tables(d)
    if not T:
        return []
    rows_of = T["_heaps"]["rows"]
    out = []
    for name in _T:
        t = T.get(name)
        if not t or t["rows"] == 0 or t["size"] == 0 or (only is not None and name not in only):
            continue
        n = t["rows"]
        def vals(c, w):
            top = (1 << (8 * w)) - 1
            if c.startswith("T:"):
                m = rows_of.get(c[2:], 0); return [0, 1, m, m + 1, top]
            if c.startswith("C:"):
                bits, tabs = _CODED[c[2:]]
                m = max([rows_of.get(x, 0) for x in tabs] + [0])
                return [0, 1 << bits, (m << bits) | 0, ((m + 1) << bits) | 0, ((1 << bits) - 1), top, (1 << bits) | (len(tabs) & ((1 << bits) - 1))]
            if c in ("S", "B", "G"):
                return [0, 1, top, top - 1, 0x7fff & top, len(d) & top]
            return [0, 1, top, top >> 1]
        made = 0
        idxs = sorted({0, n // 2, n - 1})
        for i in idxs:
            ro = t["off"] + i * t["size"]
            for (co, w, c) in t["cols"]:
                if made >= per_table * 2: break
                v = r.choice(vals(c, w))
                out.append(("W%d:%d:%x" % (ro + co, w, v), "dotnet-row:" + name)); made += 1
        # shared owner: row i := row i-1 (several rows then share an owner / parent) with ONE column made invalid — systematically every column x value;
        # and the reverse (the earlier row invalid, the later valid)
        if n >= 2 and (only is None or name in only):
            made = 0
            for i in sorted({1, n // 2 if n // 2 >= 1 else 1, n - 1}):
                for (co, w, c) in sorted(t["cols"], key=lambda x: (0 if x[2] in ("S", "B", "G") else 1 if x[2][0] in "CT" else 2)):   # heap indices first
                    for v in vals(c, w)[:3]:
                        for (src, dst) in ((i - 1, i), (i, i - 1)):
                            if made >= per_table * 8: break
                            so, do = t["off"] + src * t["size"], t["off"] + dst * t["size"]
                            row = bytearray(d[so:so + t["size"]])
                            row[co:co + w] = (v & ((1 << (8 * w)) - 1)).to_bytes(w, "little")
                            if t["cols"][0][2] == "u2" and co != 0:      # GenericParam.Number / Param.Flags …: a different number within the shared owner
                                row[0:2] = ((int.from_bytes(row[0:2], "little") + 1) & 0xffff).to_bytes(2, "little")
                            out.append(("X%d:%s" % (do, bytes(row).hex()), "dotnet-row-shared:" + name)); made += 1
    return out


# ---------------------------------------------------------------------------------------------------------------------
# VS_VERSIONINFO (RT_VERSION resource): String keys / values of chosen lengths, resource name strings, .NET stream names —
# every fixed-size local buffer the modules copy file strings into gets size-1 / size / size+1 (pe.c key[64], value[256];
# dotnet.c stream_name[32+1], typelib[255+1])
def _a4(x): return (x + 3) & ~3


_VI_HDR = {}


def version_info_strings(d):
    """-> (offset of the first String entry of the first StringTable, offset of the second one or None, end of file) or None"""
    pe = PEInfo(d)
    if not pe.ok or len(pe.dirs) < 3 or not pe.dirs[2][0]:
        return None
    rs = pe.off(pe.dirs[2][0])
    if rs is None:
        return None
    n = len(d)
    def leafs(o, depth, ty):
        if depth > 3 or o + 16 > n: return
        cnt = (u16(d, o + 12) or 0) + (u16(d, o + 14) or 0)
        for k in range(min(cnt, 64)):
            eo = o + 16 + 8 * k
            if eo + 8 > n: return
            name, v = u32(d, eo), u32(d, eo + 4)
            t = name if depth == 0 else ty
            if v & 0x80000000:
                yield from leafs(rs + (v & 0x7fffffff), depth + 1, t)
            elif rs + v + 16 <= n and t == 16:
                yield rs + v
    for de in leafs(rs, 0, None):
        vi = pe.off(u32(d, de) or 0)
        if vi is None or vi + 100 > n: continue
        if d[vi + 6:vi + 36] != "VS_VERSION_INFO".encode("utf-16le"): continue
        p = _a4(vi + 92)
        def key(o):
            e = o + 6; out = b""
            while e + 1 < n and d[e:e + 2] != b"\0\0" and len(out) < 200: out += d[e:e + 2]; e += 2
            return out.decode("utf-16le", "replace")
        while p + 6 < n and key(p) == "VarFileInfo" and u16(d, p): p = _a4(p + u16(d, p))
        if p + 6 < n and key(p) == "StringFileInfo":
            st = _a4(p + 6 + 30)
            if st + 6 >= n: continue
            s0 = _a4(st + 6 + 2 * (len(key(st)) + 1))
            if s0 + 6 >= n: continue
            l0 = u16(d, s0) or 0
            s1 = _a4(s0 + l0) if l0 else None
            _VI_HDR[id(d)] = (p, st)
            return s0, s1, n
    return None


def version_info_cases(r, d):
    V = version_info_strings(d)
    out = []
    if V:
        s0, s1, n = V
        for at in [s0] + ([s1] if s1 and s1 + 6 < n else []):
            for klen in (1, 31, 62, 63, 64, 65, 127, 128, 255, 256, 257, 1000):
                for vlen in (0, 1, 254, 255, 256, 257, 1000):
                    if r.random() > (1.0 if klen in (63, 64, 65, 255, 256) or vlen in (255, 256, 257) else 0.25):
                        continue
                    k = ("K" * klen).encode("utf-16le") + b"\0\0"
                    v = ("v" * vlen).encode("utf-16le") + b"\0\0"
                    body_off = _a4(at + 6 + len(k)) - at
                    total = body_off + len(v)
                    if at + total + 8 > n:
                        continue
                    for length, vl in ((total, vlen + 1), (total, 0), (0xffff, vlen + 1), (total - 2, 0xffff), (6, vlen + 1)):
                        ent = (length & 0xffff).to_bytes(2, "little") + (vl & 0xffff).to_bytes(2, "little") + b"\x01\x00" + k
                        ent += bytes(body_off - len(ent)) + v
                        out.append(("X%d:%s" % (at, ent.hex()), "version-info:key%d" % (klen if klen in (63, 64, 65, 255, 256) else 0)))
                        if r.random() < 0.6: break
    # resource directory name strings (IMAGE_RESOURCE_DIR_STRING_U: Length + UTF-16 chars)
    pe = PEInfo(d)
    if pe.ok and len(pe.dirs) > 2 and pe.dirs[2][0]:
        rs = pe.off(pe.dirs[2][0])
        n = len(d)
        if rs is not None:
            seen = 0
            stack = [(rs, 0)]
            while stack and seen < 6:
                o, depth = stack.pop()
                if depth > 3 or o + 16 > n: continue
                cnt = (u16(d, o + 12) or 0) + (u16(d, o + 14) or 0)
                for k in range(min(cnt, 32)):
                    eo = o + 16 + 8 * k
                    if eo + 8 > n: break
                    name, v = u32(d, eo), u32(d, eo + 4)
                    if name & 0x80000000 and rs + (name & 0x7fffffff) + 2 <= n and seen < 6:
                        so = rs + (name & 0x7fffffff); seen += 1
                        for L in (0, 1, 0x7f, 0x80, 0x7fff, 0x8000, 0xffff, (n - so - 2) // 2, (n - so - 2) // 2 + 1):
                            out.append(("W%d:2:%x" % (so, L & 0xffff), "resource-name-length"))
                    if v & 0x80000000: stack.append((rs + (v & 0x7fffffff), depth + 1))
    # .NET stream names without terminator around DOTNET_STREAM_NAME_SIZE (32)
    for off, w, en, lab in (pe.F if pe.ok else []):
        if lab.startswith("stream") and lab.endswith(".Name"):
            for L in (31, 32, 33, 64):
                if off + L < len(d):
                    out.append(("X%d:%s" % (off, (b"#" + b"A" * (L - 1)).hex()), "dotnet-stream-name"))
    return out


# ---------------------------------------------------------------------------------------------------------------------
# Cycles and self-references in index-linked structures (termination is part of C06)
def cycle_cases(r, d):
    out = []
    T = dotnet_tables(d)
    if T:
        nc = T.get("NestedClass")
        if nc and nc["rows"] >= 1:
            (c0, w0, _), (c1, w1, _) = nc["cols"][0], nc["cols"][1]
            rows = []
            for i in range(min(nc["rows"], 10)):
                ro = nc["off"] + i * nc["size"]
                rows.append((ro, _rd(d, ro + c0, w0), _rd(d, ro + c1, w1)))
            def setenc(i, v): return "W%d:%d:%x" % (rows[i][0] + c1, w1, v)
            def setnest(i, v): return "W%d:%d:%x" % (rows[i][0] + c0, w0, v)
            for i in range(len(rows)):
                out.append((setenc(i, rows[i][1]), "cycle:NestedClass-self"))
                for j in range(len(rows)):
                    if i == j: continue
                    out.append((setenc(i, rows[j][1]), "cycle:NestedClass-1edit"))                                  # enclosed by another nested type (closes a cycle when j's chain leads back)
                    if i < j:
                        out.append((setenc(i, rows[j][1]) + "," + setenc(j, rows[i][1]), "cycle:NestedClass-2"))      # A in B, B in A
                        out.append((setnest(j, rows[i][2]) + "," + setenc(j, rows[i][1]), "cycle:NestedClass-2"))     # row j := (enclosing_i, nested_i)
                    for k in range(len(rows)):
                        if len({i, j, k}) == 3 and i < j < k and len(out) < 400:
                            out.append((",".join([setenc(i, rows[j][1]), setenc(j, rows[k][1]), setenc(k, rows[i][1])]), "cycle:NestedClass-3"))
        td = T.get("TypeDef")
        if td and td["rows"] >= 2:
            ext = [c for c in td["cols"] if c[2] == "C:TypeDefOrRef"]
            if ext:
                co, w, _ = ext[0]
                n = td["rows"]
                for i in sorted({0, 1, n // 2, n - 1}):
                    ro = td["off"] + i * td["size"]
                    out.append(("W%d:%d:%x" % (ro + co, w, ((i + 1) << 2)), "cycle:TypeDef.Extends-self"))
                    j = (i + 1) % n
                    rj = td["off"] + j * td["size"]
                    out.append(("W%d:%d:%x,W%d:%d:%x" % (ro + co, w, ((j + 1) << 2), rj + co, w, ((i + 1) << 2)), "cycle:TypeDef.Extends-2"))
        for name, a, b in (("InterfaceImpl", 0, 1), ("GenericParamConstraint", 0, 1), ("MethodImpl", 1, 2)):
            t = T.get(name)
            if t and t["rows"] >= 1:
                ro = t["off"]
                (ca, wa, _), (cb, wb, _) = t["cols"][a], t["cols"][b]
                va = _rd(d, ro + ca, wa) or 0
                out.append(("W%d:%d:%x" % (ro + cb, wb, va), "cycle:%s-self" % name))
    pe = PEInfo(d)
    if pe.ok and len(pe.dirs) > 2 and pe.dirs[2][0]:
        rs = pe.off(pe.dirs[2][0])
        n = len(d)
        if rs is not None:
            dirs = [(rs, None)]
            seen = 0
            while dirs and seen < 12:
                o, parent = dirs.pop(0)
                if o + 16 > n: continue
                cnt = (u16(d, o + 12) or 0) + (u16(d, o + 14) or 0)
                for k in range(min(cnt, 8)):
                    eo = o + 16 + 8 * k
                    if eo + 8 > n: break
                    v = u32(d, eo + 4)
                    seen += 1
                    out.append(("W%d:4:%x" % (eo + 4, 0x80000000 | (o - rs)), "cycle:resource-dir-self"))
                    out.append(("W%d:4:%x" % (eo + 4, 0x80000000), "cycle:resource-dir-root"))
                    if parent is not None:
                        out.append(("W%d:4:%x" % (eo + 4, 0x80000000 | (parent - rs)), "cycle:resource-dir-parent"))
                    if v & 0x80000000: dirs.append((rs + (v & 0x7fffffff), o))
    return out



# ---------------------------------------------------------------------------------------------------------------------
# Containers grown beyond their initial capacity: a VS_VERSIONINFO StringTable with 60..130 DISTINCT keys (pe.version_info is the dictionary the
# PE module fills from the file; dictionaries start with 64 slots), written over the original table with the enclosing lengths enlarged
def many_keys_cases(r, d):
    V = version_info_strings(d)
    if not V or id(d) not in _VI_HDR:
        return []
    s0, s1, n = V
    sfi, st = _VI_HDR[id(d)]
    out = []
    for count in (60, 63, 64, 65, 66, 100, 128, 129, 130):
        for klen in (4, 12):
            ents = b""
            for k in range(count):
                key = (("K%03d" % k) + "x" * (klen - 4)).encode("utf-16le") + b"\0\0"
                val = ("v%d" % k).encode("utf-16le") + b"\0\0"
                body = _a4(6 + len(key))
                total = _a4(body + len(val))
                e = total.to_bytes(2, "little") + (len(val) // 2).to_bytes(2, "little") + b"\x01\x00" + key
                e += bytes(body - len(e)) + val
                e += bytes(total - len(e))
                ents += e
            if s0 + len(ents) + 16 > n:
                continue
            st_len = (s0 - st) + len(ents)
            sfi_len = (s0 - sfi) + len(ents)
            if sfi_len > 0xffff:
                continue
            ops = ["X%d:%s" % (s0, ents.hex()), "W%d:2:%x" % (st, st_len), "W%d:2:%x" % (sfi, sfi_len)]
            out.append((",".join(ops), "many-dictionary-keys:%d" % (0 if count < 65 else 65)))
    return out


# COFF string table at the very end of the file: a section named "/<n>" whose long name is a printable string running to the LAST byte without NUL
def coff_name_cases(r, d):
    pe = PEInfo(d)
    if not pe.ok:
        return []
    F = {l: (o, w) for o, w, e, l in pe.F}
    if "file.PointerToSymbolTable" not in F or "sec0.Name" not in F:
        return []
    n = len(d)
    out = []
    secs = [l for l in F if l.startswith("sec") and l.endswith(".Name")]
    for L in (1, 2, 8, 40, 200):
        for idx in (0, 4, 9, 1234567):
            for nsym in (0, 1, 3):
                for tail in ("open", "nul", "unprintable"):
                    ptr = n - L - idx - 18 * nsym
                    if ptr <= 0 or ptr >= (1 << 32):
                        continue
                    name = ("/%d" % idx).encode()[:8].ljust(8, b"\0")
                    text = bytes((0x41 + k % 26) for k in range(L))
                    if tail == "nul": text = text[:-1] + b"\0"
                    if tail == "unprintable": text = text[:-1] + b"\x01"
                    sl = secs[(L + idx + nsym) % len(secs)]
                    ops = ["X%d:%s" % (n - L, text.hex()), "W%d:4:%x" % (F["file.PointerToSymbolTable"][0], ptr), "W%d:4:%x" % (F["file.NumberOfSymbols"][0], nsym),
                           "X%d:%s" % (F[sl][0], name.hex())]
                    out.append((",".join(ops), "coff-long-section-name@EOF"))
    for idx in (0, 4):                                      # string table pointer at / past the end
        for ptr in (n - 1, n, n + 1, 0xffffffff):
            sl = secs[0]
            out.append((",".join(["W%d:4:%x" % (F["file.PointerToSymbolTable"][0], (ptr - idx) & 0xffffffff), "W%d:4:0" % F["file.NumberOfSymbols"][0],
                                  "X%d:%s" % (F[sl][0], ("/%d" % idx).encode().ljust(8, b"\0").hex())]), "coff-long-section-name@EOF"))
    return out
