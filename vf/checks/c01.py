"""C01 — text-string matches are exactly the documented occurrences.

Spec-level correspondence: the real compiler+scanner (h_scan) against the Lean specification
Text.allMatches (driver engine `text`), plus dynamic certificates from the hooks:
 * H3: the atoms actually indexed cover every encoded variant of the string (AtomsCover),
 * H4: every occurrence of an indexed atom yields a candidate (automaton completeness).
Theorems in Thm/C01.lean are re-checked on every run.
"""
import binascii
from vf import core, acbuild

THM = ["YaraModel.Thm.C01", "YaraModel.Thm.AcCert", "YaraModel.Thm.AcBuild", "YaraModel.Thm.C01EndToEnd", "YaraModel.Thm.AcLayout"]
MANIFEST = dict(
    technique="Lean 4 proofs (atoms cover every variant for every window choice; verify = spec; sorted de-duplicated insertion; pipeline = spec for every complete candidate set) + spec-level correspondence of the real engine against the Lean specification",
    text="proof: Thm/C01.lean proves for ALL strings, ALL legal modifier sets / xor ranges, ALL atom-window choices (hence all quality heuristics) and ALL buffers that the "
         "modelled pipeline (atoms -> candidates -> literal verification -> ordered insertion) reports exactly Text.allMatches (the documented occurrences, ascending, no duplicates, "
         "true length and key) provided the candidate stage is complete; the model is tied to the code by diffing the real scanner's match lists with the Lean spec on "
         "adversarially planted buffers, and completeness of the real automaton stage is checked per case through the atom/candidate hooks. base64/base64wide are checked "
         "against the spec of the three documented alternatives (sampled). Thm/AcBuild.lean proves, for EVERY list of atoms (zero-length atoms included) and EVERY buffer, that the automaton "
         "the modelled construction builds (ahocorasick.c: trie insertion, BFS failure links with match-list inheritance, failure-link optimisation, first-fit table packing "
         "with growth) reports exactly the atom occurrences — as a set (build_sound) and as the exact SEQUENCE the scan loop of scanner.c delivers (build_scan_exact: every position 0..|buf| incl. "
         "the pass after the loop, longest atom first, newest first among equal atoms, zero-length atoms last and at every position, the `backtrack <= i` guard) — and that the table-size "
         "assertion cannot fail for rule sets with at most 32637 atom bytes (build_some). That model is tied to the code by requiring the tables it builds from the logged atoms to EQUAL "
         "the real transition/match tables and match pool, entry for entry, and the real candidate sequence (hook yr_verif_on_candidate) to EQUAL both the model scan over the built tables "
         "and the specification sequence, order included, on every generated rule set and buffer (sampled). "
         "Thm/C01EndToEnd.lean composes the two (text_strings_end_to_end): for every rule set of text strings sharing one automaton, every window choice and every buffer, "
         "the model's whole chain atoms -> construction -> scan -> verification -> insertion reports exactly each string's documented occurrences, with no hypothesis "
         "about the candidate stage left (the two known deviations F19 / F20 of the verification step remain as explicit hypotheses). The generator includes strings whose occurrences exceed YR_CONFIG_MAX_MATCH_DATA (> 512 bytes, > 256 characters + wide) and cases with that limit lowered to 0..8: the reported match_length must stay the true length. Thm/AcLayout.lean (definitions regenerated from types.h / ahocorasick.[ch] by translators/aclayout.py) checks that the C fields a transition-table slot passes through are wide enough for the builder's own size limit and that the model's constants are the code's.",
    design_ref="DESIGN.md §5 C01",
    note=core.TB + "Hooks H3/H4 are trusted to report truthfully. Buffers are single blocks.")

ALPHA = [0x61, 0x62, 0x41, 0x42, 0x7A, 0x30, 0x39, 0x5F, 0x00, 0x20, 0xFF, 0xCC, 0x90, 0x01, 0x60, 0x63]


def hx(b):
    return binascii.hexlify(bytes(b)).decode() or "-"


def esc(s):
    return "".join("\\x%02x" % c for c in s)


def gen_string(r):
    n = r.choice([1, 1, 2, 2, 3, 3, 4, 4, 5, 5, 6, 7, 8, 10, 12])
    if r.random() < 0.25:
        a = r.sample(ALPHA, 2)
        return [r.choice(a) for _ in range(n)]         # repetitive: overlapping occurrences
    return [r.choice(ALPHA) if r.random() < 0.85 else r.randint(0, 255) for _ in range(n)]


def gen_mods(r):
    u = r.random()
    enc = "a" if u < 0.4 else ("w" if u < 0.65 else "a,w")
    explicit_ascii = enc != "a" or r.random() < 0.5
    mods = {"enc": enc, "nocase": False, "fullword": r.random() < 0.3, "xor": None, "private": r.random() < 0.1, "explicit_ascii": explicit_ascii}
    v = r.random()
    if v < 0.3:
        mods["nocase"] = True
    elif v < 0.7:
        w = r.random()
        if w < 0.2:
            mods["xor"] = (0, 255)
        elif w < 0.4:
            k = r.randint(0, 255); mods["xor"] = (k, k)
        elif w < 0.55:
            mods["xor"] = (1, 255)
        elif w < 0.7:
            mods["xor"] = (0, r.randint(0, 3))
        else:
            lo = r.randint(0, 255); mods["xor"] = (lo, r.randint(lo, min(255, lo + r.choice([0, 1, 2, 7, 40]))))
    return mods


def mods_text(m):
    t = []
    if "a" in m["enc"].split(",") and m["explicit_ascii"]:
        t.append("ascii")
    if "w" in m["enc"].split(","):
        t.append("wide")
    if m["nocase"]:
        t.append("nocase")
    if m["fullword"]:
        t.append("fullword")
    if m["xor"]:
        t.append("xor" if m["xor"] == (0, 255) else ("xor(%d)" % m["xor"][0] if m["xor"][0] == m["xor"][1] else "xor(%d-%d)" % m["xor"]))
    if m["private"]:
        t.append("private")
    return " ".join(t)


def mods_tok(m):
    t = m["enc"].split(",")
    if m["nocase"]:
        t.append("n")
    if m["fullword"]:
        t.append("f")
    if m["xor"]:
        t.append("x%d-%d" % m["xor"])
    return ",".join(t)


def widen(s):
    out = []
    for c in s:
        out += [c, 0]
    return out


def flipcase(r, s):
    return [(c ^ 0x20) if (65 <= c <= 90 or 97 <= c <= 122) and r.random() < 0.5 else c for c in s]


def gen_long_string(r):
    """occurrences longer than YR_CONFIG_MAX_MATCH_DATA (512): > 512 bytes, or > 256 characters with `wide`"""
    n = r.choice([257, 300, 513, 520, 600, 700])
    a = r.sample(ALPHA, 3)
    return [r.choice(a) if r.random() < 0.9 else r.randint(0, 255) for _ in range(n)]


def gen_buffer(r, s, m, limit=200):
    n = r.randint(0, 96)
    filler = r.choice([[0x2E], [0x20, 0x41], [0x00], ALPHA, s if s else [0]])
    buf = [r.choice(filler) for _ in range(n)]
    variants = []
    encs = []
    if "a" in m["enc"].split(","):
        encs.append(s)
    if "w" in m["enc"].split(","):
        encs.append(widen(s))
    other = widen(s) if encs == [s] else (s if encs == [widen(s)] else None)
    for e in encs:
        variants.append(e)
        if m["nocase"]:
            variants.append(flipcase(r, e)); variants.append(flipcase(r, e))
        if m["xor"]:
            lo, hi = m["xor"]
            for k in {lo, hi, (lo + hi) // 2, max(0, lo - 1), min(255, hi + 1), r.randint(0, 255), 0}:
                variants.append([c ^ k for c in e])
        variants.append(e[:-1])                                   # truncated near-miss
        variants.append(e[:-1] + [e[-1] ^ 1])                     # last byte wrong
    if other:
        variants.append(other)                                    # the encoding NOT requested
    if not m["nocase"]:
        variants.append(flipcase(r, s))
    for _ in range(r.randint(1, 6)):
        v = r.choice(variants)
        if not v:
            continue
        pos = r.choice([0, max(0, len(buf) - len(v)), r.randint(0, max(0, len(buf)))])
        buf[pos:pos + len(v)] = v
        if m["fullword"] and r.random() < 0.7:
            d = r.choice([0x41, 0x39, 0x20, 0x00, 0x2E, 0x61])
            if r.random() < 0.5 and pos > 0:
                buf[pos - 1] = d
            elif pos + len(v) < len(buf):
                buf[pos + len(v)] = d
    if r.random() < 0.15:                                         # occurrence ending exactly at the last byte
        v = r.choice(variants)
        buf = buf + v
    return buf[:limit]


def parse_matches(line):
    """h_scan line -> canonical 'off:len:key;...' for string $a, plus private flags"""
    t = line.split()
    if len(t) < 2 or t[1] != "OK":
        return None, " ".join(t[1:3])
    m = [x for x in t if x.startswith("m=")][0][2:]
    if m == "-":
        return "m=-", ""
    out, priv = [], []
    for e in m.split(";"):
        name, rest = e.split("@", 1)
        p = rest.endswith("p")
        out.append(rest.rstrip("p"))
        priv.append(p)
    return "m=" + ";".join(out), priv


def parse_occ(tok):
    """'m=off:len:key|len:key;...' -> {off: set('len:key')} preserving order"""
    body = tok.split("=", 1)[1]
    out = {}
    if body != "-":
        for x in body.split(";"):
            o, adm = x.split(":", 1)
            out[int(o)] = set(adm.split("|"))
    return out


def classify(got, model_line, xor):
    """returns (violations, known) — lists of strings. got: 'm=off:len:key;...' from the implementation"""
    t = model_line.split()
    spec, anyk = parse_occ(t[1]), parse_occ(t[2][3:])
    mixed = set() if t[3] == "mixed=-" else {int(x) for x in t[3][6:].split(",")}
    g = [] if got == "m=-" else [x.split(":") for x in got[2:].split(";")]
    viol, known = [], []
    offs = [int(x[0]) for x in g]
    if any(a >= b for a, b in zip(offs, offs[1:])):
        viol.append("offsets not strictly ascending: %s" % offs)
    for o, ln, k in g:
        o = int(o)
        if o in spec and "%s:%s" % (ln, k) in spec[o]:
            continue
        if xor and o in anyk and "%s:%s" % (ln, k) in anyk[o] and not (xor[0] <= int(k) <= xor[1]):
            known.append(("F19", "offset %d reported with key %s outside xor(%d-%d)" % (o, k, xor[0], xor[1])))
        else:
            viol.append("reported %d:%s:%s is not a documented occurrence" % (o, ln, k))
    for o in spec:
        if o not in offs:
            if o in mixed:
                known.append(("F20", "offset %d: the ascii occurrence fails fullword, the wide one passes, nothing reported" % o))
            elif xor and o in anyk and any(int(x[0]) == o for x in g):
                pass
            else:
                viol.append("documented occurrence at %d not reported" % o)
    return viol, known


STD_ALPHA = b"ABCDEFGHIJKLMNOPQRSTUVWXYZabcdefghijklmnopqrstuvwxyz0123456789+/"


def b64enc(alpha, data):
    import base64
    return bytes.translate(base64.b64encode(bytes(data)), bytes.maketrans(STD_ALPHA + b"=", bytes(alpha) + b"="))


def gen_b64_case(r, cid):
    n = r.choice([1, 1, 2, 2, 3, 4, 5, 6, 8, 11])
    s = [r.choice(ALPHA) if r.random() < 0.7 else r.randint(0, 255) for _ in range(n)]
    enc = r.choice(["", "a", "w", "a,w"])
    b64 = r.choice(["b", "B", "b,B"])
    if r.random() < 0.35:
        al = list(STD_ALPHA)
        r.shuffle(al)
        if r.random() < 0.5:
            for ch in r.sample(list(b"!@#$%^&*(){}[].,|\\\"'? "), 6):
                al[r.randint(0, 63)] = ch
            if len(set(al)) < 64:
                al = list(STD_ALPHA); r.shuffle(al)
        alpha = bytes(al)
    else:
        alpha = None
    a = alpha or STD_ALPHA
    mods = []
    if "a" in enc.split(","):
        mods.append("ascii")
    if "w" in enc.split(","):
        mods.append("wide")
    for t in b64.split(","):
        name = "base64" if t == "b" else "base64wide"
        mods.append(name + ('("%s")' % esc(alpha) if alpha else ""))
    if alpha and len(b64.split(",")) == 2:
        pass                                   # both must use the same alphabet (compiler rule); they do
    plains = []
    if "w" in enc.split(","):
        plains.append(widen(s))
    if "a" in enc.split(",") or "w" not in enc.split(","):
        plains.append(s)
    buf = []
    for _ in range(r.randint(1, 4)):
        pl = r.choice(plains + [s, widen(s)])
        pre = [r.randint(0, 255) for _ in range(r.choice([0, 1, 2, 3, 4, 5]))]
        post = [r.randint(0, 255) for _ in range(r.choice([0, 1, 2, 3, 7]))]
        if r.random() < 0.2:
            pl = pl[:-1] + [pl[-1] ^ 1]          # near miss
        e = list(b64enc(a if r.random() < 0.85 else STD_ALPHA, pre + pl + post))
        if r.random() < 0.5:
            e = widen(e)
        buf += [r.choice([0x20, 0x2E, 0x41])] * r.randint(0, 3) + e
    buf = buf[:240]
    src = 'rule r { strings: $a = "%s" %s condition: #a >= 0 }' % (esc(s), " ".join(mods))
    hline = "%s src=%s buf=%s" % (cid, hx(src.encode()), hx(buf))
    dline = "%s mods=%s alpha=%s s=%s buf=%s" % (cid, ",".join([x for x in enc.split(",") if x] + b64.split(",")), hx(alpha) if alpha else "-", hx(s), hx(buf))
    return dict(id=cid, s=hx(s), mods=" ".join(mods), buf=hx(buf)), hline, dline


def run_b64(chk, b, tier, r):
    n = 600 if tier == "quick" else 30000
    cases, hl, dl = [], [], []
    for i in range(n):
        c, h, d = gen_b64_case(r, "b%d" % i)
        cases.append(c); hl.append(h); dl.append(d)
    impl, rc, err = core.run_parallel([b["h_scan"]], hl)
    model, _, _ = core.run_parallel([core.driver_path(), "b64"], dl)
    mi = {l.split(" ", 1)[0]: l for l in impl}
    mm = {l.split(" ", 1)[0]: l for l in model}
    nviol, nmatch, errs = 0, 0, {}
    if rc != 0:
        chk.violation("b64_crash.json", {"kind": "crash/sanitizer (base64 campaign)", "rc": rc, "stderr": err, "harness": "h_scan"})
        nviol += 1
    for c, h, d in zip(cases, hl, dl):
        il, ml = mi.get(c["id"]), mm.get(c["id"])
        if il is None or ml is None:
            continue
        got, _ = parse_matches(il)
        if got is None:
            errs[il.split(" ", 2)[1] + " " + il.split(" ")[2]] = errs.get(il.split(" ", 2)[1] + " " + il.split(" ")[2], 0) + 1
            if nviol < 5:
                chk.violation("b64_compile_%d.json" % nviol, {"kind": "legal base64 string rejected / scan error", "case": c, "harness": "h_scan", "engine": "b64",
                                                               "harness_line": h, "driver_line": d, "implementation": il})
                nviol += 1
            continue
        spec = parse_occ(ml.split()[1])
        g = [] if got == "m=-" else [x.split(":") for x in got[2:].split(";")]
        why = []
        offs = [int(x[0]) for x in g]
        if offs != sorted(set(offs)) or offs != sorted(spec):
            why.append("offsets %s, documented %s" % (offs, sorted(spec)))
        for o, ln, k in g:
            if int(o) in spec and ln not in spec[int(o)]:
                why.append("length %s at %s not admissible %s" % (ln, o, sorted(spec[int(o)])))
        if spec:
            nmatch += 1
        if why and nviol < 8:
            chk.violation("b64_diff_%d.json" % nviol, {"kind": "base64 string: reported matches differ from the documented permutations", "case": c, "harness": "h_scan",
                                                       "engine": "b64", "harness_line": h, "driver_line": d, "implementation": got, "spec": ml, "why": why})
            nviol += 1
    chk.cov["base64"] = {"cases": len(cases), "with_matches": nmatch, "violations": nviol, "compile_errors": errs}
    return nviol > 0


def run(tier, replay=None):
    chk = core.Check("C01", tier)
    lres = core.lean_check(THM, translators=["aclayout"])     # Gen/AcLayout.lean: field widths / constants of the automaton tables, from the sources
    core.proof_coverage(chk, lres, THM, translators=lres.get("translators"))
    b = core.build("asan", harness=["h_scan"])
    if replay and replay.get("acbuild"):                 # a filed construction mismatch: recompile that rule set, rebuild, compare
        core.handle_broken_proof(chk, lres, acbuild.replay(chk, b, replay))
        return chk.finish("proof")
    r = core.rng("C01")
    n = 3000 if tier == "quick" else 150000
    cases, hl, dl = [], [], []
    import json, os
    corpus = json.load(open(os.path.join(core.VERIF, "corpus", "C01", "cases.json")))
    for i in range(-len(corpus), n):
        if i < 0:                                   # minimised past failures run first
            e = corpus[i + len(corpus)]
            s = list(bytes.fromhex(e["s"])); buf = list(bytes.fromhex(e["buf"]))
            m = {k: e[k] for k in ("enc", "nocase", "fullword", "private", "explicit_ascii")}
            m["xor"] = tuple(e["xor"]) if e["xor"] else None
            cid = "k%d" % (i + len(corpus))
        else:
            if i % 250 == 7:                       # the TRUE length must be reported, also beyond the match-data limit
                s = gen_long_string(r); m = gen_mods(r)
                if len(s) <= 512 and "w" not in m["enc"].split(","):
                    m["enc"] = r.choice(["w", "a,w"]); m["explicit_ascii"] = True
                if m["xor"] and m["xor"][1] - m["xor"][0] > 3:
                    m["xor"] = (m["xor"][0], min(255, m["xor"][0] + 2))
                buf = gen_buffer(r, s, m, limit=2400)
            else:
                s = gen_string(r); m = gen_mods(r); buf = gen_buffer(r, s, m)
            cid = "t%d" % i
        src = 'rule r { strings: $a = "%s" %s condition: #a >= 0 }' % (esc(s), mods_text(m))
        cases.append(dict(id=cid, s=hx(s), mods=mods_text(m), buf=hx(buf), private=m["private"], xor=m["xor"]))
        small = (m["xor"] is None or m["xor"][1] - m["xor"][0] <= 3)
        mmd = "mmd=%d " % r.choice([0, 1, 2, 3, 4, 8]) if (i >= 0 and r.random() < 0.12) else ""   # lowered YR_CONFIG_MAX_MATCH_DATA: lengths stay true
        hl.append("%s src=%s atoms=1 cands=1 %s%sbuf=%s" % (cid, hx(src.encode()), mmd, "actab=1 " if small and (i < 0 or i % 6 == 0) else "", hx(buf)))
        dl.append("%s mods=%s s=%s buf=%s" % (cid, mods_tok(m), hx(s), hx(buf)))
    if replay:
        cases, hl, dl = [replay["case"]], [replay["harness_line"]], [replay["driver_line"]]
    impl, rc, err = core.run_parallel([b["h_scan"]], hl)
    found = False
    if rc != 0:
        chk.violation("harness_crash.json", {"kind": "crash/sanitizer", "rc": rc, "stderr": err, "harness": "h_scan"})
        found = True
    model = []
    nontrivial, nmatch, nviol, errs, khits = set(), 0, 0, {}, {}
    certs = {"cases": 0, "atoms_ok": 0, "ac_ok": 0, "windows": {}}
    if lres.get("driver_ok"):
        # second phase: hand the atoms/candidates the real engine produced (hooks H3/H4) to the Lean model
        himpl = {l.split(" ", 1)[0]: l for l in impl}
        dl2 = []
        for d in dl:
            cid = d.split(" ", 1)[0]
            il = himpl.get(cid, "")
            at = [t for t in il.split() if t.startswith("atoms=")]
            ca = [t for t in il.split() if t.startswith("cands=")]
            if at and ca:
                atoms = "-" if at[0] == "atoms=-" else ",".join("%s:%s" % (a.split(":")[1], a.split(":")[3]) for a in at[0][6:].split(","))
                cands = "-" if ca[0] == "cands=-" else ",".join(c.split("@")[1] for c in ca[0][6:].split(","))
                d = "%s atoms=%s cands=%s" % (d, atoms, cands)
            dl2.append(d)
        dl = dl2
        model, _, _ = core.run_parallel([core.driver_path(), "text"], dl)
        # Aho-Corasick certificate on the real tables (Thm/AcCert: holds => candidates exact for EVERY buffer)
        acl = []
        for c in cases:
            il = himpl.get(c["id"], "")
            t = {x.split("=", 1)[0]: x.split("=", 1)[1] for x in il.split()[2:] if "=" in x}
            if "act" in t:
                atoms = "-" if t["atoms"] == "-" else ",".join("%s:%s:%s" % (a.split(":")[0], a.split(":")[1], a.split(":")[3]) for a in t["atoms"].split(","))
                acl.append("%s atoms=%s act=%s acm=%s acp=%s buf=%s cands=%s" % (c["id"], atoms, t["act"], t["acm"], t["acp"], c["buf"], t["cands"]))
        acout, _, _ = core.run_parallel([core.driver_path(), "ac"], acl)
        acbad = [l for l in acout if "cert=1" not in l or "scan=same" not in l]
        certs_ac = {"tables_checked": len(acl), "cert_ok": len(acl) - len(acbad)}
        for i, l in enumerate(acbad[:5]):
            cid = l.split(" ", 1)[0]
            chk.violation("ac_cert_%d.json" % i, {"kind": "Aho-Corasick certificate fails on the compiled tables (candidates are not provably the atom occurrences) or the table-driven scan model disagrees with the real candidate list",
                                                  "driver": l, "case": [c for c in cases if c["id"] == cid][:1], "engine": "ac"}, no_input=True)
            found = True
        # construction tie (Thm/AcBuild): the Lean model of ahocorasick.c must build EXACTLY these tables from the logged atoms
        found = acbuild.report(chk, acbuild.compare(impl, {c["id"]: c["buf"] for c in cases}), {h.split(" ", 1)[0]: h for h in hl}, "case") or found
        certs_ac["construction_model_equal"] = dict(acbuild.compare.last)
        if not replay:
            found = acbuild.run_extra(chk, b, core.rng("C01-acbuild"), "text", tier) or found
        mi = {l.split(" ", 1)[0]: l for l in impl}
        mm = {l.split(" ", 1)[0]: l for l in model}
        for c, h, d in zip(cases, hl, dl):
            il, ml = mi.get(c["id"]), mm.get(c["id"])
            if il is None or ml is None:
                continue
            got, priv = parse_matches(il)
            want = ml.split(" ", 1)[1]
            if got is None:
                errs[priv] = errs.get(priv, 0) + 1
                if nviol < 10:
                    chk.violation("compile_%d.json" % nviol, {"kind": "legal string rejected / scan error", "case": c, "harness": "h_scan", "engine": "text",
                                                               "harness_line": h, "driver_line": d, "implementation": il})
                    nviol += 1; found = True
                continue
            viol, known = classify(got, ml, c.get("xor"))
            mt = {t.split("=", 1)[0]: t.split("=", 1)[1] for t in ml.split()[1:] if "=" in t}
            if "model" in mt:
                certs["cases"] += 1
                if "m=" + mt["model"] != got:
                    viol.append("intensional: Lean model of verify+insert on the real candidates gives %s" % mt["model"])
                if mt.get("atomsw") == "NONE":
                    viol.append("certificate: indexed atoms are not atomsOf w m s for any valid window w (atoms_cover does not apply)")
                else:
                    certs["atoms_ok"] += 1
                    certs["windows"][mt.get("atomsw")] = certs["windows"].get(mt.get("atomsw"), 0) + 1
                if mt.get("acexact") != "1":
                    viol.append("certificate: automaton candidates are not exactly the occurrences of the indexed atoms")
                else:
                    certs["ac_ok"] += 1
            if priv and not all(p == c["private"] for p in priv):
                viol.append("private flag wrong")
            for fid, what in known:
                khits.setdefault(fid, []).append((c["id"], what))
            ok = not viol
            if want.split()[0] != "m=-":
                nmatch += 1
                if len(c["buf"]) > 8:
                    nontrivial.add((c["s"], c["mods"], c["buf"]))
            if not ok and nviol < 10:
                chk.violation("diff_%d.json" % nviol, {"kind": "reported matches differ from the documented occurrences", "case": c, "harness": "h_scan", "engine": "text",
                                                       "harness_line": h, "driver_line": d, "implementation": got, "spec": want, "why": viol})
                nviol += 1; found = True
    chk.cov.update({"evaluations": len(cases), "distinct_nontrivial": len(nontrivial), "cases_with_matches": nmatch,
                    "rule": "random strings (1-12 bytes, skewed alphabet incl. 0x00/0xFF/case letters) x legal modifier sets x buffers with planted variants "
                            "(all encodings, case flips, keys at/just outside range borders, truncated/near-miss, fullword delimiters); non-trivial = spec reports >=1 match",
                    "traces_validated_against_impl": len(cases) - nviol, "compile_errors": errs,
                    "samples": [{"case": cases[0], "implementation": impl[0] if impl else None, "spec": model[0] if model else None}]})
    if lres.get("driver_ok") and not replay:
        found = run_b64(chk, b, tier, r) or found
    listed = {f["id"]: f for f in core.known_findings("C01")}
    for fid, hits in sorted(khits.items()):
        if fid in listed:
            chk.known(listed[fid], "%s %s (%d cases this run, e.g. case %s: %s)" % (fid, listed[fid]["text"][:110], len(hits), hits[0][0], hits[0][1]))
        else:
            chk.violation("unlisted_%s.json" % fid, {"kind": "deviation class %s is not a listed known finding" % fid, "hits": hits[:5]})
    chk.cov["certificates"] = certs
    if lres.get("driver_ok"):
        chk.cov["ac_certificate"] = certs_ac
    chk.cov["known_finding_hits"] = {k: len(v) for k, v in khits.items()}
    core.handle_broken_proof(chk, lres, found)
    return chk.finish("proof")
