"""C08 — saved rules behave identically once loaded.

Proof layer: Thm/C08.lean (on the arena model: saving writes a function of the address-free content only,
leaves the arena as it was, and loading the image gives back the same abstract arena; a chunked
fread-contract stream is the same as its concatenation).  Tie: (1) op-sequence correspondence of the model
with arena.c incl. save/load (h_arena); (2) the Lean `load`/`save` run on real compiled-rule images and
must accept them, re-save them byte-identically and issue the same read requests as the C loader;
(3) a generator over rule constructs: save through a chunking stream or a file, load through another
chunking, compare original and loaded rules on the same buffers (verdicts, matches, tags, metas,
externals), re-save, and compare the image across two processes with different address-space layout,
heap fill and initial arena capacity (two ASan processes and one plain-malloc process with effective ASLR)."""
import collections
from vf import core
from vf.checks import arena_common as ac

PID = "C08"
THM = ["YaraModel.Thm.C08"]
MANIFEST = dict(
    technique="Lean 4 proof over an executable model of arena.c save/load (round trip, original restored, bytes independent of addresses, chunking "
              "invisible) + op-sequence and real-image correspondence + differential save/load/scan of a generated construct corpus across processes",
    text="proof: Thm/C08.lean proves on the arena model, for every arena obeying the protocol WF (buffers below 2 GiB), every loader configuration and "
         "every allocator: saving writes a function of the abstract arena only — no address, capacity or history (save_address_free); no assert of "
         "yr_arena_save_stream fires and the arena after saving is the arena before (save_no_assert, save_restores); loading the image succeeds with the "
         "same abstract arena (load_save) and re-saving gives the same bytes (resave_identical); a fread-contract stream delivering any content in chunks of "
         "arbitrary sizes is indistinguishable from the concatenation (load_chunked). load_save_run / load_save_reachable remove the WF assumption for "
         "arenas built through the API: for every arena reachable from yr_arena_create (or from any WF arena) by an operation sequence inside the "
         "protocol OpsOK (decidable; Thm/C19 run_refines), under every initial size, always-move setting and admissible realloc schedule, saving fires "
         "no assert and load(save a) has the abstract content the address-free machine computed, under every loader configuration. The model is tied to arena.c by random op sequences and by running "
         "the Lean loader/saver on real compiled-rule images (accepted, re-saved byte-identically, same read requests as the C loader). That the compiler "
         "registers every pointer it stores (i.e. that its op sequence is inside OpsOK) is sampled: generated rule sets over all constructs are saved, loaded and compared "
         "behaviourally (verdicts, match lists, tags, metas, externals) and byte-wise across two processes.",
    design_ref="DESIGN.md §5 C08, §4 D9",
    note=core.TB + "Rule constructs are sampled by a generator (every string kind, chained hex/regex strings, `matches` operands, text-string sets, loops, "
         "imports, four external types, namespaces, tags, metas); scan equality is checked on three generated buffers per rule set. "
         "Built with -fsanitize-recover=alignment,bounds (two benign UBSan reports in arena.c are recorded as findings).")

EQ_KEYS = ("OA", "EA", "IMGA", "LE", "LO", "IMG2", "OB")
RC_KEYS = ("S", "SA", "L", "S2")
F8_CRASH = "assert(found)@arena.c:yr_arena_save_stream"


def gen_lines(r, n, tier):
    cases = ac.gen_cases(r, n)
    lines, info = [], {}
    for i, c in enumerate(cases):
        kw = {"r": "%d:%d" % (r.randrange(1 << 30), r.choice([0, 1, 1, 2, 3, 7, 64, 4096])),
              "w": "%d:%d" % (r.randrange(1 << 30), r.choice([0, 1, 5, 100]))}
        if r.random() < 0.15:
            kw["via"] = "file"
        rx = []
        # redefinition of externals at rule-set level before saving
        if c["exts"] and r.random() < 0.45:
            for t, name, val in r.sample(c["exts"], r.randint(1, len(c["exts"]))):
                if t == "i":
                    rx.append("rx=i:%s:%d" % (name, r.choice([0, 5, -9, 2 ** 35])))
                elif t == "b":
                    rx.append("rx=b:%s:%d" % (name, r.randint(0, 1)))
                elif t == "f":
                    rx.append("rx=f:%s:%s" % (name, r.choice(["0.25", "-7.5", "3.0"])))
                elif r.random() < 0.3:   # F8: the save after this aborts; keep most cases for the other comparisons
                    rx.append("rx=s:%s:%s" % (name, ac.hx(r.choice(["bye", "", "hello world", val + "x"]))))
        line = ac.case_line("s%d" % i, c, **kw)
        if rx:
            line += " " + " ".join(rx)
        if i % 6 == 0:
            line += " hex=1"
        if i % 4 == 1:
            line += " dis=%d" % r.choice([1, 2, 3])          # some rules disabled when saved, enabled again after loading
        lines.append(line)
        info["s%d" % i] = {"case": c, "rx": rx, "strx": any(x.startswith("rx=s:") for x in rx)}
    return lines, info


def second_process_line(line, r):
    """same rule set, other initial arena capacity (the saved bytes must not depend on it)"""
    return line + " init=%d" % r.choice([1, 3, 64, 1000, 4096, 65536])


def run(tier, replay=None):
    chk = core.Check(PID, tier)
    th = core.run_translators(["arenalayout"])
    lres = core.lean_check(THM)
    core.proof_coverage(chk, lres, THM, th)
    b = core.build("asan", harness=["h_save", "h_arena"], **ac.REC)
    bp = core.build("plain", harness=["h_save"])     # glibc malloc, ASLR effective: a third, differently laid out process
    findings = core.known_findings(PID)
    f8 = next((f for f in findings if f["id"] == "F8"), None)
    found = False
    r = core.rng(PID)
    ubs = set()

    if replay and replay.get("part") == "ops":
        f, cov, u = ac.ops_tie(chk, b, 1, PID + "/ops", replay_case=replay["case"], replay_twin=replay.get("twin"))
        core.handle_broken_proof(chk, lres, f)
        return chk.finish("proof")

    # ---- (1) model <-> arena.c on operation sequences (with save / load / mutated loads)
    if lres.get("driver_ok") and not replay:
        f, cov, u = ac.ops_tie(chk, b, 400 if tier == "quick" else 6000, PID + "/ops", loads="full", twin=True)
        found |= f
        ubs |= u
        chk.cov.update(cov)

    # ---- (3) rule sets: save / load / compare, in two processes
    n = 150 if tier == "quick" else 2500
    lines, info = gen_lines(r, n, tier)
    if replay:
        lines = [replay["case"]]
        info = {lines[0].split(" ", 1)[0]: {"case": None, "rx": [t for t in lines[0].split() if t.startswith("rx=")],
                                             "strx": " rx=s:" in lines[0]}}
    env1 = ac.scratch_env(PID)
    env2 = ac.scratch_env(PID, {"ASAN_OPTIONS": ac.ENV["ASAN_OPTIONS"] + ":malloc_fill_byte=17:max_malloc_fill_size=268435456",
                                "VF_PAD": "x" * 3000, "MALLOC_PERTURB_": "85"})
    out1, rc1, err1 = core.run_parallel(ac.capped(b["h_save"]), lines, env=env1)
    lines2 = [second_process_line(l, r) for l in lines]
    out2, rc2, err2 = core.run_parallel(ac.capped(b["h_save"]), lines2, env=env2)
    lines3 = [l + " init=%d" % r.choice([2, 24, 512, 100000]) for l in lines]
    out3, rc3, err3 = core.run_parallel(ac.capped(bp["h_save"]), lines3, env=ac.scratch_env(PID, {"MALLOC_PERTURB_": "170"}))
    d3 = {}
    for l in out3:
        d = ac.fields(ac.split_ub(l)[0])
        d3[d["id"]] = d
    if rc3 != 0:
        rc2 = rc2 or rc3
        err2 += err3
    if rc1 != 0 or rc2 != 0:
        chk.violation("harness_crash.json", {"kind": "harness-failed", "rc": [rc1, rc2], "stderr": (err1 + err2)[-3000:], "harness": "h_save"})
        found = True
    st = collections.Counter()
    feats = collections.Counter()
    nontrivial = set()
    nviol = 0
    images = []
    d2 = {}
    for l in out2:
        l2, u = ac.split_ub(l)
        ubs |= set(u)
        d = ac.fields(l2)
        d2[d["id"]] = d
    byid = {l.split(" ", 1)[0]: l for l in lines}

    def viol(kind, cid, d, extra=None):
        nonlocal nviol, found
        nviol += 1
        found = True
        if nviol <= 5:
            o = {"kind": kind, "harness": "h_save", "case": byid[cid], "result": {k: v[:800] for k, v in d.items()},
                 "rules": [s for _, s in info[cid]["case"]["nss"]] if info[cid]["case"] else None}
            if extra:
                o.update(extra)
            chk.violation("save_%d.json" % nviol, o)

    for l in out1:
        l1, u = ac.split_ub(l)
        ubs |= set(u)
        d = ac.fields(l1)
        cid = d["id"]
        inf = info[cid]
        if d.get("C") != "OK":
            st["compile-rejected"] += 1
            continue
        st["rule-sets"] += 1
        if inf["case"]:
            for f in inf["case"]["feats"]:
                feats[f] += 1
        if inf["rx"]:
            st["with-redefinition"] += 1
        if "CRASH" in d:
            # F8: a string external redefined at rule-set level, then save
            if f8 and inf["strx"] and d["CRASH"] == F8_CRASH and "S" not in d:
                st["known-F8"] += 1
                chk.known(f8, "F8: yr_rules_define_string_variable then yr_rules_save aborts at %s (case %s)" % (d["CRASH"], cid)) if st["known-F8"] == 1 else None
                continue
            if "S" not in d and d["CRASH"].startswith("ubsan(") and d["CRASH"].rsplit("@", 1)[-1] not in ("arena.c", "rules.c", "stream.c"):
                # the ORIGINAL rules, before any save, hit an unrelated undefined-behaviour trap while scanning (e.g. exec.c
                # arithmetic): outside this property; the case is dropped
                st["dropped-unrelated-ub-in-original-scan"] += 1
                continue
            viol("crash-during-save-load-scan", cid, d)
            continue
        bad = [k for k in RC_KEYS if k in d and d[k] != "OK"] + [k for k in EQ_KEYS if d.get(k) != "="] + (["EN"] if " dis=" in byid[cid] and d.get("EN") != "=" else [])
        if "via=file" not in byid[cid] and "T" not in d:
            bad.append("T")
        if bad:
            viol("saved-rules-differ-from-original", cid, d, {"differs_in": bad})
            continue
        # other process: same image, same observations
        e = d2.get(cid)
        if e is None or "CRASH" in e:
            if not (e and f8 and inf["strx"] and e.get("CRASH") == F8_CRASH):
                viol("second-process-failed", cid, e or {})
            continue
        badx = [k for k in ("C", "E", "O", "IMG", "L") if d.get(k) != e.get(k)]
        if badx:
            viol("image-or-result-depends-on-the-process", cid, d, {"differs_in": badx, "second_process": {k: e.get(k, "")[:800] for k in badx},
                                                                   "second_line": second_process_line(byid[cid], core.rng("x"))})
            continue
        e3 = d3.get(cid)
        if e3 is None or "CRASH" in e3:
            viol("third-process-failed", cid, e3 or {})
            continue
        bad3 = [k for k in ("C", "E", "O", "IMG", "L", "LO", "IMG2") if d.get(k) != e3.get(k)]
        if bad3:
            viol("image-or-result-depends-on-the-process", cid, d, {"differs_in": bad3, "third_process_plain_build": {k: e3.get(k, "")[:800] for k in bad3}})
            continue
        st["agree"] += 1
        if not d.get("N", "0:0").startswith("0:") and not d.get("N", "0:0").endswith(":0"):
            nontrivial.add(byid[cid].split(" ", 1)[1])
        if "HEX" in d:
            images.append((cid, d))

    # ---- (2) the Lean loader/saver on real images
    img_cov = {}
    if lres.get("driver_ok") and images:
        ilines = ["%s img=%s muts=full" % (cid, d["HEX"]) for cid, d in images if len(d["HEX"]) <= 2 * 70000]
        mo, mrc, merr = core.run_parallel([core.driver_path(), "arena"], ilines, timeout=1200)
        md = {l.split(" ", 1)[0]: ac.fields(l) for l in mo}
        okc = 0
        for cid, d in images:
            m = md.get(cid)
            if m is None:
                continue
            good = m.get("REF") == "OK" and m.get("RESAVE") == "same" and ("T" not in d or d["T"] == m.get("T"))
            if good:
                okc += 1
            else:
                found = True
                chk.violation("model_image_%s.json" % cid, {"kind": "lean-loader-disagrees-on-real-image", "engine": "arena", "case": byid[cid],
                                                             "model": {k: v[:300] for k, v in m.items()}, "c_reads": d.get("T")})
        img_cov = {"real_images_loaded_by_model": len(md), "real_images_model_agrees": okc}
    mine = {u for u in ubs if u.endswith("@arena.c") or u.endswith("@rules.c") or u.endswith("@stream.c")}
    found |= ac.known_ub(chk, PID, mine, findings)
    chk.cov.update(img_cov)
    chk.cov.update({
        "evaluations": st["rule-sets"], "distinct_nontrivial": len(nontrivial),
        "rule": "a generated rule set saved (memory stream with random write/read chunking incl. 1-byte chunks, or a file), loaded, scanned on 3 buffers with "
                "original and loaded rules, re-saved, and saved again in a second process with other ASLR/heap fill/initial capacity; "
                "non-trivial = compiles, at least one rule and one string match, all comparisons performed",
        "outcomes": dict(st), "construct_histogram": dict(feats), "ub_reports_elsewhere": sorted(ubs - mine),
        "samples": [{"case": lines[0][:500], "result": out1[0][:500] if out1 else None}]})
    core.handle_broken_proof(chk, lres, found)
    chk.assumptions += ["WF for the arenas produced by the real compiler (every stored pointer registered) is sampled over generated constructs, not proved",
                        "scan equality is observed on three generated buffers per rule set (planted matches + noise)",
                        "streams obey the fread contract (a short count only at end of data)"]
    return chk.finish("proof")
