"""C16 — allocation failure anywhere is reported, never suffered: exhaustive fault enumeration over a
fixed scenario set (harness/h_oom.c interposes libyara's allocator) + re-check of the AllocM theorems
(Thm/C16.lean: cleanup discipline of ported functions for ALL failure oracles)."""
import os, re, subprocess, json, time
from concurrent.futures import ThreadPoolExecutor
from vf import core

THM = ["YaraModel.Thm.C16"]
MANIFEST = dict(
    category="fault_enumeration",
    technique="exhaustive allocation-fault enumeration (every k-th allocation of every scenario fails; single and 'k-th and all later') under ASan+UBSan+LSan "
              "+ allocation ledger, and Lean 4 proofs over an allocation monad (all failure oracles) for ported functions with non-trivial cleanup",
    text="fault_enumeration / partial: for each of ~40 scenarios (initialise, compile each construct class and each module import, includes, externals, save, "
         "load, scanner creation, scans with every module on sample files, hex strings on the fast-exec path, matches verified at the end of a block, external redefinition) every allocation made through yr_malloc/yr_calloc/yr_realloc/"
         "yr_strdup/yr_strndup is failed in turn (quick tier: every k for N<=300, otherwise stride+random plus the first/middle/last allocation of every "
         "(allocator call site, caller) pair recorded by the counting run; thorough: every k; the static call sites listed by translators/oomsites.py "
         "are compared with the reached ones and the never-reached ones are reported under allocator_call_sites) and the outcome judged: error "
         "reported or correct completion, no crash, no leak (ledger + LeakSanitizer), objects destroyable, follow-up compile+scan works. "
         "Proof only for the ported functions (Thm/C16.lean: notebook, AC BFS queue loop, hash-table add, rules-level string redefinition, rules loading, "
         "scanner staged construction, the block scanner's verification loops and the fast-exec position list — the last two with their "
         "structure re-read from scanner.c/re.c by translators/oomsites.py): for all failure oracles an error outcome leaves no allocation behind and the object destroyable; where the faithful port "
         "refutes this, the negation is proved on a concrete oracle and the `_partial` theorem carries the extra hypothesis. Confirmed defects are listed as known "
         "findings keyed by the allocation call site; any other failing (kind, call site) is a violation.",
    design_ref="DESIGN.md §5 C16",
    note=core.TB + "Only allocations through libyara's own allocator (mem.c) are failed; flex/bison internal buffers, OpenSSL, authenticode-parser and tlsh "
                   "call libc directly and are only watched by LeakSanitizer. The allocation sequence is deterministic per scenario; other interleavings "
                   "(threads) are out of scope.")

ENV = {"ASAN_OPTIONS": "detect_leaks=1:abort_on_error=0:exitcode=99:allocator_may_return_null=1:symbolize=1:fast_unwind_on_malloc=0",
       "UBSAN_OPTIONS": "print_stacktrace=1:halt_on_error=1", "LSAN_OPTIONS": "exitcode=99"}

ALLOC_FRAMES = {"should_fail", "vf_malloc", "vf_calloc", "vf_realloc", "vf_strdup", "vf_strndup", "yr_malloc", "yr_calloc", "yr_realloc",
                "yr_strdup", "yr_strndup", "backtrace", "ledger_add", "fp_backtrace", "sitemap_note"}
LIGHT_QUICK = {"scan_mod_pe_signed", "scan_mod_elf_telfhash"}
HUGE = 20000          # above this many allocations a scenario is sampled in the thorough tier too
# listed call sites no scenario reaches: why (keyed by file and enclosing function / callee, not by line)
UNREACHED_WHY = {
    ("object.c", "yr_object_dict_set_item", "yr_realloc"): "growth of a dictionary beyond its first 64 keys: no module fills a dictionary that large from the sample files (pe.version_info is the only candidate)",
    ("modules/dotnet/dotnet.c", "parse_signature_type", "yr_malloc"): "ELEMENT_TYPE_ARRAY (multi-dimensional array with sizes / lower bounds) in a method signature: no .NET sample in tests/data has one; needs crafted metadata",
    ("simple_str.c", "sstr_new", "yr_malloc"): "sstr_new(s) with s != NULL: every caller in the library passes NULL (dead branch)",
}
HELPER_FILES = ("arena.c", "notebook.c", "hash.c", "stack.c", "mem.c", "sizedstr.c", "h_oom.c", "object.c", "strutils.c")


def hx(s):
    return s.encode().hex() if s else "-"


TEXT = '''rule t1 { strings: $a = "abcdefgh" ascii wide nocase $b = "hello" fullword $c = "0123" xor(1-3) $d = "world" base64 private condition: $a and $b and ($c or $d or true) }
rule t2 : tag1 tag2 { meta: author = "x" n = 3 ok = true strings: $a = "hello world" condition: #a == 1 and @a[1] > 5 and !a[1] == 11 }'''
HEX = '''rule h1 { strings: $a = { 61 62 63 64 [2-4] 67 68 } $b = { 30 31 ( 32 33 | 32 ?? 34 ) 3? } $c = { 68 65 6c 6c 6f [1-300] 68 65 6c 6c 6f } condition: $a and $b and $c }'''
REGEX = '''rule r1 { strings: $a = /hel+o wor[a-z]d/ $b = /[0-9]{4,8}/ nocase wide ascii $c = /(abc|xyz)d?e+fgh/ $d = /\\babc\\w{2,5}h\\b/ condition: $a and $b and $c and $d }'''
COND = '''rule c1 { strings: $a = "abcdefgh" $b = "hello" condition: for any i in (1..#a) : ( @a[i] < filesize ) and 2 of ($a, $b) and for all of ($*) : ( # > 0 ) and
  uint16(0) == 0x7878 and "abc" + "" == "abc" and (filesize \\ 2) * 2 <= filesize and not (1 > 2) and for any s in ("x", "y") : ( s == "x" ) }
rule c2 { condition: c1 and any of (c*) }'''
MANY = "\n".join('rule m%d { strings: $a = "str%04d" $b = { %02x %02x 03 04 [1-2] 05 } $c = /re%d[a-z]+/ condition: any of them or filesize == %d }' % (i, i, i, i + 1, i, i) for i in range(30))
INCL = 'include "inc1"\nrule top { condition: inc1 and inc2 }'
INCS = {"inc1": 'include "inc2"\nrule inc1 { strings: $a = "hello" condition: $a }', "inc2": 'rule inc2 { condition: filesize > 3 }'}
EXT = '''rule e1 { condition: xi == 3 and xb and xf > 1.0 and sx contains "val" }
rule e2 { strings: $a = "hello" condition: $a at xi + 23 or sx matches /va+l/ }'''
EXTS = ["ext=i:xi:3", "ext=b:xb:1", "ext=f:xf:1.5", "ext=s:sx:%s" % hx("value")]
MODRULES = {
    "pe": 'import "pe"\nrule m { condition: pe.number_of_sections > 0 and pe.entry_point >= 0 and (pe.imports("KERNEL32.dll") >= 0 or true) and pe.imphash() != "x" and pe.is_pe }\nrule n { condition: pe.number_of_resources >= 0 and pe.rich_signature.length >= 0 or pe.number_of_signatures >= 0 or true }',
    "elf": 'import "elf"\nrule m { condition: elf.type == elf.ET_EXEC or elf.number_of_sections > 0 or elf.symtab_entries >= 0 or elf.import_md5() != "x" or true }\nrule n { condition: elf.machine == elf.EM_386 or elf.machine == elf.EM_X86_64 }',
    "macho": 'import "macho"\nrule m { condition: macho.filetype == macho.MH_EXECUTE or macho.nfat_arch > 0 or macho.number_of_segments > 0 or true }\nrule n { condition: macho.magic != 0 or macho.fat_magic != 0 }',
    "dex": 'import "dex"\nrule m { condition: dex.header.magic == dex.DEX_FILE_MAGIC_035 or dex.number_of_fields >= 0 or true }\nrule n { condition: dex.header.file_size > 0 }',
    "dotnet": 'import "dotnet"\nrule m { condition: dotnet.is_dotnet or dotnet.number_of_streams >= 0 or dotnet.number_of_classes >= 0 or true }\nrule n { condition: dotnet.is_dotnet and dotnet.version != "x" }',
    "math": 'import "math"\nrule m { condition: math.entropy(0, filesize) >= 0.0 and math.mean(0, filesize) > 0.0 and math.in_range(math.deviation(0, filesize, 64.0), 0.0, 300.0) and math.to_string(5) == "5" and math.count(0x61) >= 0 and math.mode() >= 0 and math.percentage(0x61) >= 0.0 }',
    "hash": 'import "hash"\nrule m { condition: hash.md5(0, filesize) != "x" and hash.sha1(0, filesize) != "x" and hash.sha256(0, 8) != "x" and hash.crc32(0, filesize) != 0 and hash.checksum32(0, filesize) != 0 and hash.md5("abc") == "900150983cd24fb0d6963f7d28e17f72" }\nrule n { condition: hash.md5(0, filesize) == hash.md5(0, filesize) }',
    "string": 'import "string"\nrule m { condition: string.to_int("123") == 123 and string.length("abc") == 3 and string.to_int("ff", 16) == 255 }',
    "time": 'import "time"\nrule m { condition: time.now() > 0 }',
    "console": 'import "console"\nrule m { condition: console.log("x") and console.log("n: ", 3) and console.hex(10) }',
    "tests": 'import "tests"\nrule m { condition: tests.constants.one == 1 and tests.struct_array[1].i == 1 and tests.string_dict["foo"] == "foo" and tests.isum(1, 2) == 3 and tests.fsum(1.0, 2.0) == 3.0 and tests.length("ab") == 2 and tests.match(/foo/, "foo") == 3 and tests.foobar(1) == "foo" }',
}


# scenarios whose armed operation is one of the functions ported to Lean: (driver function, arguments from the allocation count N)
TIE = {"load": ("load", lambda N: "n=%d" % (N - 3)), "load_ext": ("load", lambda N: "n=%d" % (N - 3)),
       "rdefs": ("rdefs", lambda N: ""), "rdefs_twice": ("rdefs", lambda N: "twice=1"),
       "screate": ("screate", lambda N: "n=0 strs=0"), "screate_ext": ("screate", lambda N: "n=3 strs=1")}   # EXTS: int, bool, float, string


def scenarios(repo):
    d = os.path.join(repo, "tests", "data")
    sc = []   # (name, kind, text, extra keys)
    sc.append(("init", "init", 'rule i { strings: $a = "hello" condition: $a }', []))
    for nm, txt in (("text", TEXT), ("hex", HEX), ("regex", REGEX), ("cond", COND), ("many", MANY)):
        sc.append(("compile_" + nm, "compile", txt, []))
    sc.append(("compile_include", "compile", INCL, ["inc=%s:%s" % (k, hx(v)) for k, v in INCS.items()]))
    # the same with the arena hook that makes every arena write an allocation (fault position)
    for nm, txt in (("text", TEXT), ("hex", HEX), ("regex", REGEX), ("cond", COND)):
        sc.append(("compile_%s_mv" % nm, "compile", txt, ["mv=1"]))
    sc.append(("compile_ext_mv", "compile", EXT, EXTS + ["mv=1"]))
    sc.append(("compile_mod_tests_mv", "compile", MODRULES["tests"], ["mv=1"]))
    sc.append(("scan_mod_hash_mv", "scan", MODRULES["hash"], ["mv=1"]))
    sc.append(("scan_mod_tests_mv", "rscan", MODRULES["tests"], ["mv=1"]))
    sc.append(("compile_ext", "compile", EXT, EXTS))
    # base64 with wide / ascii wide: a small rule of its own so that the quick tier fails EVERY allocation of it (N <= 300)
    # one small rule per string kind that takes its own allocation path in the compiler (small enough for every k in the quick tier)
    SMALL = {
        "hex_masked_hi": 'rule s { strings: $a = { 6? 62 63 64 } condition: $a }',
        "hex_masked_lo": 'rule s { strings: $a = { 61 ?2 63 64 } condition: $a }',
        "hex_alt": 'rule s { strings: $a = { 61 62 ( 63 64 | 6? 65 | 66 ) 67 } condition: $a }',
        "text_nocase": 'rule s { strings: $a = "ab1d" nocase condition: $a }',
        "text_wide": 'rule s { strings: $a = "abcd" wide ascii nocase condition: $a }',
        "text_xor": 'rule s { strings: $a = "abcd" xor(1-3) condition: $a }',
        "text_xor_wide": 'rule s { strings: $a = "abcd" xor(1-2) wide ascii condition: $a }',
        "text_b64": 'rule s { strings: $a = "hello" base64 condition: $a }',
        "regex_class": 'rule s { strings: $a = /ab[c-f]{2,3}[^x]z/ $b = /h[ae]l+o\\s\\w+/ nocase condition: any of them }',
        "regex_jump": 'rule s { strings: $a = /abcd.{1,3}ef/ condition: $a }',
    }
    for nm, txt in SMALL.items():
        sc.append(("compile_small_" + nm, "compile", txt, []))
    sc.append(("compile_regex_dot", "compile", 'rule s { strings: $a = /a.cd/ $b = { 6? 7? 63 64 } condition: any of them }', []))
    # one concatenation with more than 1024 children: the atom extractor's node stack (stack.c, initial capacity 1024) has to grow
    longhex = " ".join("%02x" % (16 + i % 200) if i % 97 != 2 else "??" for i in range(1100))
    sc.append(("compile_long_hex", "compile", 'rule lh { strings: $a = { %s } condition: $a }' % longhex, []))
    longre = "".join("abcdefghijklmnopqrstuvwxyz0123456789"[i % 36] if i % 101 != 5 else "." for i in range(1100))
    sc.append(("compile_long_regex", "compile", 'rule lr { strings: $a = /%s/ condition: $a }' % longre, []))
    sc.append(("compile_b64wide", "compile", 'rule b { strings: $e = "hello world" base64 wide $f = "abcd" base64wide ascii wide condition: any of them }', []))
    files = {"pe": "file=" + os.path.join(d, "tiny"), "elf": "file=" + os.path.join(d, "elf_with_imports"), "macho": "file=" + os.path.join(d, "tiny-universal"),
             "dex": "blob=dex", "dotnet": "file=" + os.path.join(d, "0ca09bde7602769120fadc4f7a4147347a7a97271370583586c9e587fd396171")}
    for m, txt in MODRULES.items():
        sc.append(("compile_mod_" + m, "compile", txt, [files[m]] if m in files else []))
    mixed = TEXT + "\n" + HEX + "\n" + REGEX
    sc.append(("save", "save", mixed, []))
    sc.append(("load", "load", mixed, []))
    sc.append(("save_ext", "save", EXT, EXTS))
    sc.append(("load_ext", "load", EXT, EXTS))
    sc.append(("screate", "screate", mixed, []))
    sc.append(("screate_ext", "screate", EXT, EXTS))
    sc.append(("scan_text", "scan", TEXT, []))
    sc.append(("scan_hex", "scan", HEX, []))
    sc.append(("scan_regex", "scan", REGEX, []))
    sc.append(("scan_cond", "rscan", COND, []))
    sc.append(("scan_ext", "rscan", EXT, EXTS))
    sc.append(("fscan_text", "fscan", TEXT, ["file=" + os.path.join(d, "base64")]))
    # fast-exec path of hex strings with jumps (re.c yr_re_fast_exec: position lists), several candidate jump lengths alive at
    # once; the armed scan runs on a FRESH scanner (empty position/fiber pools) and the scanner is used again and destroyed
    FJ = '''rule j1 { strings: $a = { 61 62 [1-4] 63 } $b = { 61 62 [1-4] 63 [1-3] 64 } condition: #a > 0 and #b > 0 }
rule j2 { strings: $c = { 78 79 [2-6] 7a [1-2] 7a } $d = { 30 31 [0-5] 32 [0-5] 33 } condition: $c and $d }
rule j3 { strings: $e = { 61 62 [1-4] 63 } condition: #e > 1 }'''
    fjd = "data=" + (b"..abXccc..abcccd..xy..zzzzz 01222233 abYYcZd abccccccd 0122223 xyAAzBzz abXcXc").hex()
    sc.append(("scan_fastjump", "scan", FJ, [fjd]))
    sc.append(("rscan_fastjump", "rscan", FJ, [fjd]))
    # matches verified at the END of the block: atoms ending exactly at the last byte, several entries in the final state's
    # match list (suffix atoms), verification of some of them allocates (fast-exec positions, regexp fibers)
    EOB1 = '''rule e1 { strings: $a = { 61 62 [1-2] 63 64 65 66 } condition: $a }
rule e2 { strings: $b = "def" condition: $b }
rule e3 { strings: $c = /c[a-z]ef/ condition: $c }
rule e4 { strings: $d = "ef" condition: $d }'''
    EOB2 = '''rule e4 { strings: $d = "ef" condition: $d }
rule e3 { strings: $c = /c[a-z]ef/ condition: $c }
rule e2 { strings: $b = "def" condition: $b }
rule e1 { strings: $a = { 61 62 [1-2] 63 64 65 66 } condition: $a }
rule e5 { strings: $e = /ab.{1,3}ef/ $f = { 65 66 } condition: $e and $f }'''
    eobd = "data=" + b"..abXcdef..abXYcdef".hex()
    for nm, txt in (("a", EOB1), ("b", EOB2)):
        sc.append(("scan_eob_" + nm, "scan", txt, [eobd]))
        sc.append(("rscan_eob_" + nm, "rscan", txt, [eobd]))
    # notebooks that GROW during the scan: several thousand match records (matches notebook), more than 512 iterators
    # (iterator notebook of the VM); a single failing page allocation must end the scan with an error, never corrupt the heap
    sc.append(("scan_many_matches", "scan", 'rule mm { strings: $a = "abcd" condition: #a > 30000 }', ["datarep=%s*32768" % b"abcd".hex()]))
    sc.append(("rscan_many_matches", "rscan", 'rule mm { strings: $a = "abcd" $b = /ab.d/ condition: #a > 30000 and #b > 30000 }', ["datarep=%s*32768" % b"abcd".hex()]))
    # CHAINED strings (hex jump above the chaining threshold) with thousands of confirmed chains: the data of a confirmed chain is
    # copied into the matches notebook too, so page allocations also come from the chain-confirmation code; several
    # max_match_data values move the page boundaries across the different notebook allocations of one occurrence
    CH = 'rule ch { strings: $a = { 41 42 43 44 [300-400] 45 46 47 48 } $b = "EFGH" condition: #a > 100 and #b > 100 }'
    unit = (b"ABCD" + b"." * 350 + b"EFGH" + b"," * 42).hex()
    for mmd in (0, 24, 512, 1000):
        sc.append(("scan_chained_mmd%d" % mmd, "scan" if mmd != 24 else "rscan", CH, ["datarep=%s*3000" % unit, "mmd=%d" % mmd]))
    sc.append(("scan_many_iterators", "rscan", 'rule mi { condition: for all i in (1..1300) : ( for any j in (1..2) : ( j == 1 ) ) }', []))
    for m, txt in MODRULES.items():
        sc.append(("scan_mod_" + m, "scan" if m in ("pe", "math", "hash") else "rscan", txt, [files[m]] if m in files else []))
    sc.append(("scan_mod_pe_imports", "rscan", MODRULES["pe"], ["file=" + os.path.join(d, "pe_imports")]))
    sc.append(("scan_mod_pe_dll", "rscan", MODRULES["pe"], ["file=" + os.path.join(d, "mtxex.dll")]))
    sc.append(("scan_mod_elf32", "rscan", MODRULES["elf"], ["blob=elf32"]))
    sc.append(("scan_mod_macho_thin", "rscan", MODRULES["macho"], ["blob=macho"]))
    # --- allocator call sites that the scenarios above do not reach
    sc.append(("scan_mod_elf_telfhash", "rscan", 'import "elf"\nrule a { condition: elf.telfhash() != "x" }\nrule b { condition: elf.import_md5() != "x" }',
               ["file=" + os.path.join(d, "elf_with_imports")]))
    sc.append(("scan_mod_math_strings", "rscan", 'import "math"\nrule a { condition: math.entropy("abcabc") >= 0.0 and math.mean("abc") > 0.0 and math.deviation("abc", 1.0) >= 0.0 and '
               'math.serial_correlation("abcd") >= -1.0 and math.monte_carlo_pi("abcdefghijkl") >= 0.0 }', []))
    sc.append(("scan_mod_console_long", "rscan", 'import "console"\nrule a { condition: console.log("%s") and console.log("msg: ", "%s") and console.hex("h: ", 123456) and '
               'console.log(1.5) and console.log("f: ", 2.5) and console.hex(255) and console.log("i: ", 7) }' % ("A" * 300, "B\\x00\\x01" * 40), []))
    # a signed PE (authenticode parser; imports by ordinal) and a .NET assembly with methods, parameters and generic parameters
    sc.append(("scan_mod_pe_signed", "rscan", 'import "pe"\nrule a { condition: pe.number_of_signatures > 0 and pe.is_signed }\nrule b { condition: pe.signatures[0].subject != "x" }',
               ["file=" + os.path.join(d, "079a472d22290a94ebb212aa8015cdc8dd28a968c6b4d3b88acdd58ce2d3b885")]))
    sc.append(("scan_mod_dotnet_methods", "rscan", 'import "dotnet"\nrule a { condition: dotnet.is_dotnet and dotnet.number_of_classes > 0 and dotnet.classes[0].number_of_methods >= 0 }',
               ["file=" + os.path.join(d, "756684f4017ba7e931a26724ae61606b16b5f8cc84ed38a260a34e50c5016f59")]))
    # sources given as files: yr_compiler_add_file / yr_compiler_add_fd with the library's default include callback; an atom quality table
    from vf import build as _vb
    fdir = os.path.join(_vb.BUILD, "c16files")
    os.makedirs(fdir, exist_ok=True)
    for nm, txt in (("inc_a.yar", 'rule inc_a { strings: $a = "hello" condition: $a }\n'), ("top.yar", 'include "inc_a.yar"\nrule top { condition: inc_a and filesize > 3 }\n')):
        pth = os.path.join(fdir, nm)
        if not os.path.exists(pth) or open(pth).read() != txt:
            open(pth, "w").write(txt)
    aq = b"".join(a + bytes([q]) for a, q in sorted((bytes([97 + i, 98 + i, 99, 100]), 200 - i) for i in range(12)))
    if not os.path.exists(os.path.join(fdir, "aqt.bin")) or open(os.path.join(fdir, "aqt.bin"), "rb").read() != aq:
        open(os.path.join(fdir, "aqt.bin"), "wb").write(aq)
    T1 = 'rule t { strings: $a = "abcdefgh" $b = /hel+o/ condition: $a or $b }'
    sc.append(("compile_file_definc", "compile", T1, ["src=file", "definc=1", "path=" + os.path.join(fdir, "top.yar")]))
    sc.append(("compile_fd_definc", "compile", T1, ["src=fd", "definc=1", "path=" + os.path.join(fdir, "top.yar")]))
    sc.append(("compile_atom_table", "compile", T1, ["aqt=" + os.path.join(fdir, "aqt.bin")]))
    sc.append(("rules_stats", "stats", mixed, []))
    sc.append(("profiling_info", "profinfo", T1, []))
    # another process (a child executing /bin/sleep): proc.c / proc/linux.c; a rule without strings keeps the result independent of the child's memory
    sc.append(("scan_proc", "pscan", 'rule p { condition: true }', []))
    sc.append(("rdefs", "rdefs", EXT, EXTS))
    sc.append(("rdefs_twice", "rdefs", EXT, EXTS + ["twice=1"]))
    sc.append(("sdefs", "sdefs", EXT, EXTS))
    return sc


def case_line(cid, s, mode, k):
    name, kind, text, extra = s
    return "%s %s mode=%d k=%d text=%s %s" % (cid, kind, mode, k, hx(text), " ".join(extra))


def run_chunk(harness, lines):
    """Runs the lines through the harness, restarting after a crash.
    Returns ({id: dict(out=line|None, crash=stderr|None)}, [LeakSanitizer reports])."""
    results, lsan = {}, []
    todo = list(lines)
    e = dict(os.environ); e.update(ENV)
    while todo:
        try:
            p = subprocess.run([harness], input="".join(l + "\n" for l in todo), stdout=subprocess.PIPE, stderr=subprocess.PIPE, text=True,
                               env=e, timeout=600, errors="replace")
            out, err, rc = p.stdout, p.stderr, p.returncode
        except subprocess.TimeoutExpired as ex:
            out = ex.stdout.decode(errors="replace") if isinstance(ex.stdout, bytes) else (ex.stdout or "")
            err, rc = "TIMEOUT: harness did not finish within 600 s (hang)", -9
        begun = None
        for l in out.splitlines():
            if l.startswith("BEGIN "):
                begun = l.split(" ", 1)[1].strip()
            elif l.startswith("SITES "):
                results.setdefault("__sites__", {})[l.split(" ", 2)[1]] = l.split(" ")[2:]
            elif " sane=" in l:
                cid = l.split(" ", 1)[0]
                results[cid] = {"out": l, "crash": None}
                if cid == begun:
                    begun = None
        ids = [l.split(" ", 1)[0] for l in todo]
        if begun is not None and begun in ids:
            # the process died inside this case
            results[begun] = {"out": None, "crash": err[-8000:], "rc": rc}
            todo = todo[ids.index(begun) + 1:]
            continue
        if rc != 0 and "LeakSanitizer" in err:
            lsan.append(err)
        elif rc != 0 and ids and ids[0] not in results:
            results[ids[0]] = {"out": None, "crash": err[-8000:], "rc": rc}
            todo = todo[1:]
            continue
        break
    return results, lsan


def symbolize(binary, addrs):
    """module-relative return addresses -> [(function, file:line)] (innermost inlined frame first)"""
    addrs = sorted(set(addrs))
    if not addrs:
        return {}
    out = {}
    for i in range(0, len(addrs), 400):
        part = addrs[i:i + 400]
        p = subprocess.run(["addr2line", "-f", "-i", "-a", "-e", binary] + ["0x%x" % (a - 1) for a in part], stdout=subprocess.PIPE, text=True)
        cur = None
        lines = p.stdout.splitlines()
        j = 0
        while j < len(lines):
            l = lines[j]
            if l.startswith("0x"):
                cur = int(l, 16) + 1
                out[cur] = []
                j += 1
            else:
                fn = l.strip()
                loc = lines[j + 1].strip() if j + 1 < len(lines) else "?"
                full = loc.split(" ")[0]
                rel = full.split("/libyara/", 1)[1] if "/libyara/" in full else os.path.basename(full)
                out[cur].append((fn, os.path.basename(full), rel))
                j += 2
    return out


def site_of(sym, addrs):
    """(site, ctx): innermost function above the allocator, and innermost one outside the generic container files."""
    frames = []
    for a in addrs:
        frames += sym.get(a, [])
    frames = [f for f in frames if f[0] not in ALLOC_FRAMES and f[0] != "??"]
    site = frames[0][0] if frames else "?"
    ctx = next((f[0] for f in frames if not f[1].startswith(HELPER_FILES)), site)
    return site, ctx


def crash_site(stderr):
    """first libyara frame of a sanitizer report + short description"""
    what = "crash"
    m = re.search(r"runtime error: ([^\n]*)", stderr)
    if m:
        what = "ubsan: " + m.group(1)[:80]
    m2 = re.search(r"ERROR: AddressSanitizer: (\S+)", stderr)
    if m2:
        what = "asan: " + m2.group(1)
    if "Assertion" in stderr:
        what = "assertion failed"
    cls = "other"
    if "Assertion" in stderr:
        cls = "assert"
    elif m and "null pointer" in m.group(1):
        cls = "ubsan-null"
    elif m:
        cls = "ubsan-" + re.sub(r"[^a-z]+", "-", m.group(1).lower())[:24].strip("-")
    elif m2:
        cls = "asan-" + m2.group(1).lower()
    elif "TIMEOUT" in stderr:
        cls = "hang"
    fn = "?"
    for m3 in re.finditer(r"#\d+ 0x[0-9a-f]+ in (\S+) (\S+)", stderr):
        f, loc = m3.group(1), m3.group(2)
        if f.startswith("__") or "sanitizer" in loc or "asan" in loc or "/libc" in loc or f in ("strlen", "memcpy", "memset", "strcmp"):
            continue
        fn = f
        break
    if fn == "?":
        m4 = re.search(r"(\S+\.[cly]):(\d+):\d+: runtime error", stderr)
        if m4:
            fn = os.path.basename(m4.group(1))
    return what, fn, cls


def parse_out(l):
    d = {}
    for t in l.split(" ")[1:]:
        if "=" in t:
            k, v = t.split("=", 1)
            d[k] = v
    return d


def lsan_foreign(reports):
    """leak records of LeakSanitizer whose allocation did not go through libyara's allocator (invisible to the ledger):
    keyed by the innermost libyara function on the allocation stack and the next libyara function above it."""
    found = {}
    for rep in reports:
        for rec in re.split(r"\n(?=(?:Direct|Indirect) leak of)", rep):
            if not rec.startswith(("Direct leak", "Indirect leak")):
                continue
            frames = re.findall(r"#\d+ 0x[0-9a-f]+ in (\S+) (\S+)", rec)
            fns = [f for f, _ in frames]
            if any(f in ALLOC_FRAMES for f in fns) or "main" not in fns:
                continue
            lib = [f for f, loc in frames if "libyara/" in loc]
            if not lib:
                continue     # allocated by the harness itself
            key = ">".join(lib[:2])
            found[key] = found.get(key, 0) + 1
    return found


def judge(d, base):
    """d: parsed result of a fault case; base: parsed result of the counting run. Returns list of failure kinds."""
    bad = []
    rc, res, inj = d.get("rc", "?"), d.get("res", "?"), int(d.get("inj", "0"))
    if rc.startswith("SETUP_FAILED") or rc == "BADKIND":
        return ["harness-setup"]
    reported = "INSUFFICIENT_MEMORY" in rc or rc.startswith("CERR")
    if inj == 0:
        if rc != base.get("rc") or res != base.get("res"):
            bad.append("nondeterministic")
    elif reported:
        pass
    elif rc == "OK":
        if res != base.get("res"):
            bad.append("silent-wrong-result")
    else:
        bad.append("misreported:" + rc)
    # using the object after a reported error must still give the fault-free answer where the object survives
    if inj > 0 and reported and "/again:" in res and res.split("/again:")[1] != base.get("res", "").split("/again:")[-1]:
        bad.append("object-damaged")
    if d.get("leak", "0:0") != "0:0":
        bad.append("leak")
    if d.get("sane") != "1":
        bad.append("unusable")
    return bad


def run(tier, replay=None):
    chk = core.Check("C16", tier)
    thash = core.run_translators(["oomsites"])
    lres = core.lean_check(THM)
    core.proof_coverage(chk, lres, THM, thash)
    b = core.build("asan", harness=["h_oom"])
    # the arena "always move" hook makes the relocation code patch pointers at unaligned addresses on every allocation,
    # which UBSan's alignment check stops at once: the *_mv scenarios use a build without that one check
    bmv = core.build("asan", harness=["h_oom"], extra_defs="-fno-sanitize=alignment", tag="c16mv")
    HS = {False: b["h_oom"], True: bmv["h_oom"]}
    H = b["h_oom"]

    def harness_of(s):
        return HS["mv=1" in s[3]]
    r = core.rng("C16")
    scs = scenarios(core.REPO)
    if replay and "scenario" in replay:
        scs = [s for s in scs if s[0] == replay["scenario"]]
    # 1. counting runs
    count_lines = [case_line("%s.0" % s[0], s, 1, 0) + " sites=1" for s in scs]
    with ThreadPoolExecutor(16) as ex:
        cres = list(ex.map(lambda sl: run_chunk(harness_of(sl[0]), [sl[1]]), list(zip(scs, count_lines))))
    base = {}
    found = False
    lsan_reports = []
    for s, (res, ls) in zip(scs, cres):
        o = res.get("%s.0" % s[0])
        lsan_reports += [(s[0], x) for x in ls]
        if not o or not o["out"]:
            chk.violation("baseline_%s.json" % s[0], {"kind": "fault-free-run-failed", "scenario": s[0], "stderr": (o or {}).get("crash"),
                                                      "harness": "h_oom", "case": case_line("x", s, 1, 0)})
            found = True
            continue
        base[s[0]] = parse_out(o["out"])
    # 1b. allocation call paths of every scenario (from the counting runs): which static call sites of the allocator the
    #     scenario set reaches, and at which k — the quick tier fails the first / a middle / the last allocation of every
    #     (call site, caller) pair in addition to the stride sample, so a site that is reached once in a long scenario is failed
    paths = {}      # scenario -> [(frames, first, mid, last, count)]
    for s, (res, ls) in zip(scs, cres):
        recs = []
        for tok in (res.get("__sites__", {}) or {}).get("%s.0" % s[0], []):
            fr, first, mid, last, cnt = tok.rsplit(":", 4)
            recs.append(([int(x, 16) for x in fr.split(",") if x], int(first), int(mid), int(last), int(cnt)))
        paths[s[0]] = recs
    psym = {f: symbolize(HS[f], {a for s in scs if ("mv=1" in s[3]) == f for rec in paths[s[0]] for a in rec[0]}) for f in (False, True)}
    site_ks, reached = {}, {}     # scenario -> {(site loc, caller fn): [first, mid, last]};  (file, line) -> {"fn":…, "allocations":…, "scenarios": set}
    for s in scs:
        groups_ = {}
        for fr, first, mid, last, cnt in paths[s[0]]:
            frames = [f for a in fr for f in psym["mv=1" in s[3]].get(a, []) if f[0] not in ALLOC_FRAMES and f[0] != "??"]
            if not frames:
                continue
            loc = frames[0][2]
            key = (loc, frames[1][0] if len(frames) > 1 else "-")
            g = groups_.setdefault(key, [first, mid, last])
            g[0] = min(g[0], first); g[2] = max(g[2], last)
            if True:
                r_ = reached.setdefault(loc, {"fn": frames[0][0], "allocations": 0, "scenarios": set()})
                r_["allocations"] += cnt; r_["scenarios"].add(s[0])
        site_ks[s[0]] = groups_
    # 2. fault cases
    chunks = []
    plan = {}
    planned = {}
    for s in scs:
        if s[0] not in base:
            continue
        N = int(base[s[0]]["N"])
        if replay and "k" in replay:
            ks1 = [replay["k"]] if replay.get("mode", 1) == 1 else []
            ks2 = [replay["k"]] if replay.get("mode", 1) == 2 else []
        elif tier == "quick" and N > HUGE:
            # tens of thousands of allocations per case: the quick tier fails the FIRST allocation of every (call site, caller) pair only
            ks1 = sorted({g[0] for g in site_ks.get(s[0], {}).values()})
            ks2 = []
        elif tier == "quick" and s[0] in LIGHT_QUICK:
            # module scenarios added for call-site coverage: first/middle/last of every (call site, caller) pair + a coarse stride
            ks1 = sorted({k for g in site_ks.get(s[0], {}).values() for k in g} | set(range(1, N + 1, max(1, N // 30))) | {N})
            ks2 = sorted(set(range(1, N + 1, max(1, N // 10))))
        elif tier == "quick" and N > 300 and not (s[0].startswith("compile_small_") and N <= 700):
            stride = max(1, N // 110)
            ks1 = sorted(set(list(range(1, 40)) + list(range(1, N + 1, stride)) + [r.randint(1, N) for _ in range(60)] + [N - 2, N - 1, N]))
            ks2 = sorted(set([r.randint(1, N) for _ in range(40)] + list(range(1, N + 1, max(1, N // 25)))))
            directed = sorted({k for g in site_ks.get(s[0], {}).values() for k in g})
            ks1 = sorted(set(ks1) | set(directed))
            ks2 = sorted(set(ks2) | {g[0] for g in site_ks.get(s[0], {}).values()})
        elif N > HUGE:
            # a scenario with tens of thousands of allocations is sampled in every tier (stride + every (call site, caller) pair)
            directed = sorted({k for g in site_ks.get(s[0], {}).values() for k in g})
            ks1 = sorted(set(range(1, N + 1, max(1, N // 1000))) | set(directed) | {N - 1, N} | {r.randint(1, N) for _ in range(200)})
            ks2 = sorted(set(range(1, N + 1, max(1, N // 100))) | {g[0] for g in site_ks.get(s[0], {}).values()})
        else:
            ks1 = list(range(1, N + 1))
            ks2 = list(range(1, N + 1)) if tier != "quick" else sorted(set([r.randint(1, max(N, 1)) for _ in range(40)] + list(range(1, N + 1, max(1, N // 30)))))
        ks1 = [k for k in ks1 if 1 <= k <= N]; ks2 = [k for k in ks2 if 1 <= k <= N]
        plan[s[0]] = {"N": N, "mode1": len(ks1), "mode2": len(ks2)}
        planned[s[0]] = set(ks1) | set(ks2)
        lines = [case_line("%s.1.%d" % (s[0], k), s, 1, k) for k in ks1] + [case_line("%s.2.%d" % (s[0], k), s, 2, k) for k in ks2]
        per = 60 if s[1] != "init" else 25
        if N > HUGE:
            per = 12
        for i in range(0, len(lines), per):
            chunks.append((s, lines[i:i + per]))
    with ThreadPoolExecutor(16) as ex:
        outs = list(ex.map(lambda c: run_chunk(harness_of(c[0]), c[1]), chunks))
    # 3. judge
    failures = []     # (scenario, mode, k, kind, detail dict)
    addrs = {False: set(), True: set()}
    is_mv = {x[0]: ("mv=1" in x[3]) for x in scs}
    evaluated = 0
    rc_hist = {}
    for (s, lines), (res, ls) in zip(chunks, outs):
        lsan_reports += [(s[0], x) for x in ls]
        for l in lines:
            cid = l.split(" ", 1)[0]
            name, mode, k = cid.rsplit(".", 2)
            o = res.get(cid)
            evaluated += 1
            if o is None:
                failures.append((name, int(mode), int(k), "no-result", {"stderr": "case produced no output"}))
                continue
            if o["out"] is None:
                what, fn, cls = crash_site(o["crash"] or "")
                failures.append((name, int(mode), int(k), "crash", {"what": what, "site": fn, "class": cls, "stderr": o["crash"]}))
                rc_hist["CRASH"] = rc_hist.get("CRASH", 0) + 1
                continue
            d = parse_out(o["out"])
            key = d.get("rc", "?") if int(d.get("inj", "0")) > 0 else "not-reached"
            rc_hist[key] = rc_hist.get(key, 0) + 1
            for kind in judge(d, base[name]):
                site = [int(x, 16) for x in d.get("site", "-").split(",") if x != "-"]
                lsite = [int(x, 16) for x in d.get("lsite", "-").split(",") if x not in ("-", "")] if "lsite" in d else []
                addrs[is_mv[name]].update(site); addrs[is_mv[name]].update(lsite)
                failures.append((name, int(mode), int(k), kind, {"out": o["out"], "site_addrs": site, "lsite_addrs": lsite, "baseline": base[name]}))
    # 3b. tie of the Lean ports (Model/AllocM.lean) to the code: per fault position the driver predicts the outcome
    #     class and the number of blocks left allocated; the as-is port and the patched variant are both accepted
    tie = {"cases": 0, "matches_as_is": 0, "matches_patched_only": 0, "disagree": 0}
    if lres.get("driver_ok") and not (replay and "scenario" in replay and replay["scenario"] not in TIE):
        tl, real = [], {}
        for (s, lines), (res, ls) in zip(chunks, outs):
            if s[0] not in TIE:
                continue
            N = int(base[s[0]]["N"])
            for l in lines:
                cid = l.split(" ", 1)[0]
                name, mode, k = cid.rsplit(".", 2)
                o = res.get(cid)
                if o is None:
                    continue
                fn, arg = TIE[name]
                tl.append("%s %s mode=%s k=%s %s" % (cid, fn, mode, k, arg(N)))
                if o["out"] is None:
                    real[cid] = ("CRASH", None)
                else:
                    d = parse_out(o["out"])
                    real[cid] = ("OK" if d["rc"] == "OK" else "INSUFFICIENT_MEMORY" if "INSUFFICIENT_MEMORY" in d["rc"] else d["rc"], int(d["leak"].split(":")[0]))
        if tl:
            mo, mrc, merr = core.run_lines([core.driver_path(), "oom"], tl)
            for l in mo:
                cid = l.split(" ", 1)[0]
                m = parse_out(l)
                rrc, rleak = real[cid]
                tie["cases"] += 1
                as_is = (rrc == m["rc"] and rleak == int(m["leak"]) and m.get("wf", "1") == "1") or (rrc == "CRASH" and m.get("wf") == "0")
                patched = rrc == m["rc"] and rleak == int(m.get("fixed_leak", m["leak"])) and m.get("fixed_wf", "1") == "1"
                if as_is:
                    tie["matches_as_is"] += 1
                elif patched:
                    tie["matches_patched_only"] += 1
                else:
                    tie["disagree"] += 1
                    if tie["disagree"] <= 3:
                        name, mode, k = cid.rsplit(".", 2)
                        sc0 = next(x for x in scs if x[0] == name)
                        chk.violation("model_tie_%s.json" % cid.replace(".", "_"), {"kind": "model-implementation-disagreement", "engine": "oom", "harness": "h_oom",
                                      "scenario": name, "mode": int(mode), "k": int(k), "case": case_line("replay", sc0, int(mode), int(k)),
                                      "implementation": {"rc": rrc, "leaked_blocks": rleak}, "model": l,
                                      "note": "Lean port of the function (Model/AllocM.lean, theorems in Thm/C16.lean), as-is and patched variant"})
                        found = True
    syms = {f: symbolize(HS[f], addrs[f]) for f in (False, True)}
    known = core.known_findings("C16")
    groups = {}
    for name, mode, k, kind, det in failures:
        if kind == "crash":
            site, ctx = det["site"], det["class"]       # for crashes the "context" is the class of the sanitizer report
        elif kind in ("no-result", "harness-setup"):
            site, ctx = "?", "?"
        else:
            sym = syms[is_mv[name]]
            site, ctx = site_of(sym, det["site_addrs"])
            det["failed_allocation_stack"] = [f[0] + " " + f[1] for a in det["site_addrs"] for f in sym.get(a, []) if f[0] not in ALLOC_FRAMES][:9]
            if det.get("lsite_addrs"):
                det["leaked_block_allocated_in"] = site_of(sym, det["lsite_addrs"])[0]
                det["leaked_block_stack"] = [f[0] + " " + f[1] for a in det["lsite_addrs"] for f in sym.get(a, []) if f[0] not in ALLOC_FRAMES][:9]
        kk = kind.split(":")[0]
        g = groups.setdefault((kk, site, ctx), {"n": 0, "scenarios": {}, "first": None})
        g["n"] += 1
        g["scenarios"][name] = g["scenarios"].get(name, 0) + 1
        if g["first"] is None:
            g["first"] = (name, mode, k, kind, det)
    # LeakSanitizer records that the ledger cannot see (allocations not made through libyara's allocator)
    foreign = {}
    for scn, rep in lsan_reports:
        for key, n in lsan_foreign([rep]).items():
            g = groups.setdefault(("leak-foreign", key.split(">")[0], key.split(">")[-1]), {"n": 0, "scenarios": {}, "first": None})
            g["n"] += n
            g["scenarios"][scn] = g["scenarios"].get(scn, 0) + n
            if g["first"] is None:
                g["first"] = (scn, 0, 0, "leak-foreign", {"lsan": rep[-3000:]})
    summary = []
    known_agg = {}
    for (kind, site, ctx), g in sorted(groups.items(), key=lambda x: -x[1]["n"]):
        match = next((f for f in known if f["signature"].get("kind") == kind and f["signature"].get("site") == site and
                      f["signature"].get("ctx", ctx) == ctx), None)
        name, mode, k, kd, det = g["first"]
        summary.append({"kind": kind, "site": site, "ctx": ctx, "cases": g["n"], "scenarios": g["scenarios"], "known": match["id"] if match else None,
                        "example": {"scenario": name, "mode": mode, "k": k}})
        if match:
            a = known_agg.setdefault(match["id"], {"f": match, "cases": 0, "sites": set(), "ex": (name, mode, k)})
            a["cases"] += g["n"]; a["sites"].add("%s:%s" % (kind, site))
        else:
            s = next(x for x in scenarios(core.REPO) if x[0] == name)
            chk.violation("fault_%s_%s_%s.json" % (kind, re.sub(r"\W", "_", site)[:40], re.sub(r"\W", "_", ctx)[:40]),
                          {"kind": "allocation-failure-" + kind, "engine": "oom", "harness": "h_oom", "scenario": name, "mode": mode, "k": k,
                           "case": case_line("replay", s, mode or 1, k), "failure": kd, "site": site, "ctx": ctx,
                           "detail": {x: y for x, y in det.items() if x not in ("site_addrs", "lsite_addrs")}, "cases_in_group": g["n"],
                           "scenarios": g["scenarios"]})
            found = True
    for fid, a in sorted(known_agg.items()):
        chk.known(a["f"], "id=%s %s cases=%d example=(scenario=%s mode=%d k=%d) :: %s" % (fid, ",".join(sorted(a["sites"])), a["cases"], a["ex"][0], a["ex"][1], a["ex"][2],
                                                                                  a["f"].get("text", "")[:110]))
    # static call sites of the allocator (translator) against the call sites the scenarios reach
    from translators import oomsites as tos
    listed5 = tos.alloc_sites(core.REPO, with_guards=True)
    from vf import build as vb
    defined = set(re.findall(r"-D(\w+)", vb.DEFS + " " + " ".join(vb.FLAVOURS.values())))
    not_built = []
    listed = []
    for f_, fn_, ln_, callee_, guards in listed5:
        off = [g for g in guards if re.fullmatch(r"!?\w+", g) and ((not g.startswith("!") and g not in defined) or (g.startswith("!") and g[1:] in defined))]
        if off:
            not_built.append("%s:%d %s (%s): inside #if %s, which this build configuration does not satisfy" % (f_, ln_, fn_, callee_, " && ".join(guards)))
        else:
            listed.append((f_, fn_, ln_, callee_))
    by_file = {}
    for f_, fn_, ln_, callee_ in listed:
        by_file.setdefault(f_, []).append(ln_)
    hit = {}
    unlisted = []
    for loc, r_ in reached.items():
        f_, _, ln_ = loc.rpartition(":")
        ln_ = int(ln_) if ln_.isdigit() else 0
        cands = [x for x in by_file.get(f_, []) if x <= ln_ <= x + 4]      # a call spanning lines returns into a later line
        if cands:
            h_ = hit.setdefault((f_, max(cands)), {"allocations": 0, "scenarios": set()})
            h_["allocations"] += r_["allocations"]; h_["scenarios"] |= r_["scenarios"]
        else:
            unlisted.append("%s (%s)" % (loc, r_["fn"]))
    # was the site actually FAILED by some case of this run (not only reached by a counting run)?
    failed_at = set()
    for sname, g_ in site_ks.items():
        pl = planned.get(sname, set())
        for (loc, caller), ks_ in g_.items():
            if any(k in pl for k in ks_):
                f_, _, ln_ = loc.rpartition(":")
                ln_ = int(ln_) if ln_.isdigit() else 0
                cands = [x for x in by_file.get(f_, []) if x <= ln_ <= x + 4]
                if cands:
                    failed_at.add((f_, max(cands)))
    never = [(f_, fn_, ln_, c_) for f_, fn_, ln_, c_ in listed if (f_, ln_) not in hit]
    not_failed = [(f_, fn_, ln_, c_) for f_, fn_, ln_, c_ in listed if (f_, ln_) in hit and (f_, ln_) not in failed_at]
    site_cov = {"listed": len(listed5), "not_built": not_built, "built": len(listed), "reached": len(listed) - len(never), "failed_by_some_case": len(failed_at),
                "listed_never_reached": ["%s:%d %s (%s): %s" % (f_, ln_, fn_, c_, UNREACHED_WHY.get((f_, fn_, c_), "no scenario yet")) for f_, fn_, ln_, c_ in never],
                "reached_but_not_failed_in_this_run": ["%s:%d %s" % (f_, ln_, fn_) for f_, fn_, ln_, c_ in not_failed],
                "reached_through_macros_or_unlisted": sorted(unlisted)[:40]}
    nontrivial = sum(v for k, v in rc_hist.items() if k != "not-reached")
    chk.cov.update({"evaluations": evaluated + len(count_lines), "distinct_nontrivial": nontrivial,
                    "rule": "one case = (scenario, mode, k): the k-th allocation of the scenario's armed operation fails (mode 2: and all later); "
                            "non-trivial = a failure was actually injected (k <= allocations performed)",
                    "scenarios": plan, "outcome_histogram": dict(sorted(rc_hist.items(), key=lambda x: -x[1])),
                    "failure_groups": summary, "allocator_call_sites": site_cov, "lean_port_tie": tie, "allocations_total": sum(p["N"] for p in plan.values()),
                    "exhaustive": tier != "quick" and not replay,
                    "samples": [{"scenario": s[0], "fault_free_run": base.get(s[0])} for s in scs[:2]] +
                               [{"case": l[:300], "result": (res.get(l.split(" ", 1)[0]) or {}).get("out")} for (sc_, lines), (res, ls) in list(zip(chunks, outs))[:3] for l in lines[:1]]})
    core.handle_broken_proof(chk, lres, found)
    chk.assumptions += ["only allocations made through libyara's allocator (yr_malloc & co.) are failed; flex/bison buffers, OpenSSL, authenticode-parser, tlsh call libc directly",
                        "quick tier samples k for scenarios with more than 300 allocations (stride + random + first 40 + last 3 + first/middle/last allocation of every (call site, caller) pair), thorough enumerates every k",
                        "%d of %d static allocator call sites compiled in this configuration are reached by no scenario (listed in coverage.allocator_call_sites.listed_never_reached)" % (len(never), len(listed)),
                        "known findings are keyed by (kind, allocation call site, calling context), not by scenario or k",
                        "scenarios with more than %d allocations (the .NET sample with methods: ~130000) are sampled in every tier: thorough = stride N/1000 + 200 random + first/middle/last of every (call site, caller) pair; quick = the first allocation of every pair" % HUGE]
    return chk.finish("fault_enumeration")
