"""C11 — the scan callback protocol is exact: ordered message trace + return code of the real
scanner vs the Lean model (proved equal to the protocol specification, Thm/C11.lean), on generated
rule sets x report flags x buffers x callback scripts "return X at the k-th message" for every k.
Second campaign on a library built with YR_MAX_STRING_MATCHES=10: the CALLBACK_MSG_TOO_MANY_MATCHES part of the protocol
(once per overflowing string, carries the string, CONTINUE disables only that string, ABORT/ERROR halt the scan)."""
from collections import Counter
from vf import core

THM = ["YaraModel.Thm.C11"]
MANIFEST = dict(
    technique="Lean 4 refinement proof (C-shaped scan model = declarative protocol spec, for all rule lists, import lists, flags and callback scripts) "
              "+ exact trace correspondence against the real scanner with scripted callbacks",
    text="proof: Thm/C11.lean proves for EVERY rule list (global/private/global+private/plain rules over any namespaces, conditions over literals, strings and "
         "references to other rules), import list, flag pair and callback script that the model of yr_scanner_scan_mem_blocks' reporting part (module loads, "
         "rule_matches_flags/ns_unsatisfied_flags incl. skipped rules, reporting loop with its two exits, finished message) equals the protocol written from the "
         "property text, and derives: every non-private rule exactly once in definition order, private never, finished last iff not stopped, flag filtering, "
         "matching iff own condition and all globals of the namespace, abort/error on a rule message stop with success/callback-error, one import+imported "
         "pair per module, error on a module message fails the scan. Matching phase (fullScan): for EVERY limit, occurrence sequence, rule list with $s / #s > n "
         "atoms and script, the model of yr_scan_verify_match/_yr_scan_add_match_to_list (per-string counters, list-full test, strings_temp_disabled, early "
         "exit) equals: one too-many-matches warning per string with more than `limit` occurrences, in overflow order, carrying that string; after CONTINUE "
         "exactly the ordinary scan in which each string has min(occurrences, limit) matches (so rules whose count comparisons cannot see the cap are reported as "
         "without the limit, and the callback's later answers are unaffected); ABORT/ERROR make the warning the last message with result too-many-matches. "
         "Sampled (not proved): that the C code behaves like the model - checked by exact diff of the "
         "ordered message list and return code on generated rule sets (1-3 namespaces, some with >64 rules/namespaces, 0-3 imports, all four flag settings, "
         "three API entry styles (scanner + set_flags, yr_rules_scan_mem, scanner with default flags), unrelated scan flags mixed in, buffers <= 19 bytes, "
         "several consecutive scans per scanner over different buffers and through different calls: yr_scanner_scan_mem, yr_scanner_scan_mem_blocks with a "
         "one-block iterator with / without a file_size function (filesize undefined), yr_scanner_scan_proc of a helper process as a step in between, and further yr_scanner_set_flags calls between scans (no report flag => both); "
         "whole conditions of type integer incl. negative values, also in global rules) "
         "with abort/error at every message index k incl. import, imported, first, last and finished messages; "
         "plus, against a library built with -DYR_MAX_STRING_MATCHES=10, rule sets whose strings occur limit-1 / limit / limit+1 / more times (1-3 overflowing strings "
         "per set, mostly with string index != rule index, public and private, used as $s / not $s / #s > N with N around the limit, late-occurring marker strings, "
         "same scanner reused on the same / a below-limit / unrelated buffer) with abort/error at every k incl. each warning.",
    design_ref="DESIGN.md §5 C11, §4 D10",
    note=core.TB + "Condition evaluation is abstracted to a boolean per atom computed from the buffer by the driver (filesize comparison, plain byte-string "
         "containment); module load functions and string matching themselves are outside C11 (C01-C04, C14). An ABORT answer to a module message and any "
         "answer to the finished message are ignored by the code; the property is silent on both and the model follows the code. "
         "Occurrences of a string are computed by the driver as plain (overlapping) byte-string containment ordered by end position; two strings whose "
         "warnings would be triggered less than 5 bytes apart are not generated (their order depends on the automaton's atoms, C01/C05).")

MODULES = ["pe", "elf", "math", "hash", "time", "console", "string", "dotnet"]
KINDS = ["n", "g", "p", "gp"]


def hexs(bs):
    return "".join("%02x" % b for b in bs) or "-"


def gen_atom(r, buf, earlier):
    """earlier: indices of earlier rules in the same namespace"""
    u = r.random()
    if earlier and u < 0.30:
        return ("r%d" if r.random() < 0.6 else "x%d") % r.choice(earlier)
    if u < 0.45:
        return "T"
    if u < 0.54:
        return "F"
    if u < 0.58:
        return "U"
    if u < 0.70:
        return "z%d" % max(0, len(buf) + r.choice([-2, -1, 0, 1]))
    if u < 0.76:
        return "y%d" % r.choice([len(buf) + 1, len(buf) + 2, max(1, len(buf) - 1), 100])     # filesize < N
    # string atom: present or absent in the buffer
    if buf and len(buf) >= 2 and r.random() < 0.5:
        l = r.randint(2, min(4, len(buf)))
        o = r.randint(0, len(buf) - l)
        pat = buf[o:o + l]
    else:
        pat = bytes(r.choice(b"abcdxyz") for _ in range(r.randint(2, 4)))
    return ("s" if r.random() < 0.7 else "n") + hexs(pat)


def gen_cond(r, buf, earlier):
    n = r.choice([1, 1, 1, 1, 2, 2, 3])
    out = gen_atom(r, buf, earlier)
    for _ in range(n - 1):
        out += r.choice("&|") + gen_atom(r, buf, earlier)
    return out


def gen_ruleset(r, big=False):
    """returns (items string, number of rules, upper bound on messages of a scan)"""
    buf = bytes(r.choice(b"abcd") for _ in range(r.choice([0, 1, 3, 4, 5, 8, 12, 16])))
    if big:
        nns = r.choice([2, 3, 66, 70])
        nrules = r.choice([65, 66, 70, 129])
    else:
        nns = r.randint(1, 3)
        nrules = r.choice([1, 2, 3, 3, 4, 4, 5, 6, 7])
    style = r.random()
    items, by_ns, mods = [], {}, set()
    nimp = 0 if big and r.random() < 0.5 else r.randint(0, 3)
    imp_at = sorted(r.randint(0, nrules) for _ in range(nimp))
    pool = r.sample(MODULES, 3)
    cur = 0
    for j in range(nrules + 1):
        while imp_at and imp_at[0] == j:
            imp_at.pop(0)
            m = r.choice(pool[:2]) if r.random() < 0.5 else r.choice(pool)   # duplicates across namespaces are likely
            ns = cur if r.random() < 0.7 else r.randrange(nns)
            items.append("i:%d:%s" % (ns, m))
            mods.add(m)
            cur = ns
        if j == nrules:
            break
        if big:
            ns = j % nns if style < 0.5 else r.randrange(nns)
        elif style < 0.35:
            ns = min(nns - 1, j * nns // nrules)          # namespaces in blocks
        else:
            ns = r.randrange(nns)                         # interleaved: a namespace is re-entered later
        cur = ns
        if big:
            kind = r.choice(["n"] * 6 + ["g", "p", "gp"])
        else:
            kind = r.choice(["n", "n", "n", "g", "g", "p", "gp", "gp"])
        earlier = by_ns.setdefault(ns, [])
        if big and buf and r.random() < 0.5:
            cond = "z%d" % (len(buf) - 1)                 # holds for the main buffer, fails for its truncations: flips between scans
        elif kind in ("g", "gp") and r.random() < 0.55:
            cond = r.choice(["T", "z0", "T|F"]) if not buf else gen_cond(r, buf, earlier)   # keep some namespaces satisfied
            if r.random() < 0.5:
                cond = "T"
        else:
            cond = gen_cond(r, buf, earlier)
        if not big and r.random() < 0.14:
            # a whole condition of type integer (also for global rules): true iff defined and non-zero, negative values included
            cond = "I%d" % r.choice([0, 1, 1, 2, 2, 3, 3, 4, 5])
        items.append("r:%d:%s:%s" % (ns, kind, cond))
        earlier.append(j)
    return hexs(buf), ";".join(items), nrules, 2 * len(mods) + nrules + 1


def other_buf(r, bufhex):
    """a second buffer for the same rule set: empty, a truncation, or unrelated bytes (flips string / filesize atoms)"""
    b = b"" if bufhex == "-" else bytes.fromhex(bufhex)
    u = r.random()
    if u < 0.25:
        return "-"
    if u < 0.5 and len(b) > 1:
        return hexs(b[:r.randint(1, len(b) - 1)])
    if u < 0.70:
        return hexs(b + bytes(r.choice(b"abcd") for _ in range(r.randint(1, 3))))
    if u < 0.82:      # first byte >= 0x80 (int8(0) negative) or 0x00 (int8(0) zero), length around the 3 / 5 of the integer conditions
        return hexs(bytes([r.choice([0x80, 0xff, 0xc3, 0x00])]) + bytes(r.choice(b"abcd") for _ in range(r.choice([0, 1, 2, 3, 4, 5]))))
    return hexs(bytes(r.choice(b"xyzab") for _ in range(r.randint(1, 16))))


def gen_scripts(r, maxmsg, big):
    """abort/error at every k (small sets) or at boundary k's (big sets), plus a few irregular scripts"""
    if big:
        ks = sorted({0, 1, 2, 3, maxmsg - 2, maxmsg - 1, maxmsg, 63, 64, 65, r.randrange(maxmsg), r.randrange(maxmsg)})
        ks = [k for k in ks if 0 <= k <= maxmsg]
    else:
        ks = list(range(maxmsg + 1))
    ss = ["-"]
    for k in ks:
        for x in "ae":
            ss.append("c" * k + x)
    for _ in range(3):
        ss.append("".join(r.choice("ccae") for _ in range(r.randint(1, min(maxmsg, 12) + 1))))
    ss.append("a" * r.randint(1, 4) + "e")      # aborts on the first messages (ignored on module messages), then error
    return ss


def scan_kinds(r, scripts, api):
    """history of different scan calls on one scanner: some scans go through a caller's block iterator without (b:) or
    with (B:) a file_size function, and a process scan (p) may sit between two scans. The scanner must start every scan
    from its configured flags and assign the file size anew (undefined without a size function)."""
    u0 = r.random()
    if u0 < 0.5:
        return list(scripts)
    out = []
    for sc in scripts:
        u = r.random()
        out.append(("b:" if u < 0.35 else "B:" if u < 0.45 else "") + sc if u0 < 0.9 else sc)
    if u0 < 0.9 and (api != "r" or r.random() < 0.3):
        for _ in range(r.choice([1, 1, 2])):
            out.insert(r.randint(1, len(out)) if len(out) > 1 and r.random() < 0.8 else 0, "p")
    if u0 >= 0.72:
        # yr_scanner_set_flags called again between scans: the flags in force are those of the last call, and a call that
        # names no report flag means both (whatever an earlier call restricted them to)
        seq = [r.choice([(1, 0), (2, 0), (0, 0), (0, 1), (0, 4), (3, 0), (1, 1), (2, 4), (0, 5)]) for _ in range(r.randint(2, 4))]
        if not any(f in (1, 2) for f, _ in seq) or not any(f == 0 for f, _ in seq):
            seq = [(r.choice([1, 2]), 0), (0, r.choice([0, 1, 4]))] + seq[:1]
        pos = 1
        for f, x in seq:
            pos = min(len(out), pos)
            out.insert(pos, "F%d_%d" % (f, x))
            pos += r.randint(2, 3)
    return out


def script_of(sc):
    """(kind, answers) of one scripts= entry"""
    if sc == "p":
        return "p", ""
    if sc[:1] == "F":
        return "F", ""
    kind = "m"
    if sc[:2] in ("b:", "B:"):
        kind, sc = sc[0], sc[2:]
    return kind, ("" if sc == "-" else sc)


def gen_cases(r, nsets, nbig):
    cases, cid = [], 0
    for s in range(nsets + nbig):
        big = s >= nsets
        buf, items, nrules, maxmsg = gen_ruleset(r, big)
        scripts = gen_scripts(r, maxmsg, big)
        flagsets = [0, 1, 2, 3]
        if big:
            flagsets = [r.choice(flagsets)]
        for f in flagsets:
            api = r.choice("sssrrd") if f == 0 else r.choice("sssrr")
            if big and r.random() < 0.7:
                api = "s"
            chunk = 8 if not big else 6
            sc = list(scripts)
            r.shuffle(sc)
            for o in range(0, len(sc), chunk):
                bufs = [buf]
                if big or r.random() < 0.5:      # history: consecutive scans (same scanner for api=s/d) read different buffers
                    for _ in range(r.randint(1, 2)):
                        bufs.insert(r.randrange(len(bufs) + 1), other_buf(r, buf))
                x = r.choice([0, 0, 0, 0, 1, 4, 5])      # unrelated scan flags must not disturb the report-flag default
                line = scan_kinds(r, sc[o:o + chunk], api)
                cases.append("c%d f=%d x=%d api=%s buf=%s items=%s scripts=%s" % (cid, f, x, api, "/".join(bufs), items, "/".join(line)))
                cid += 1
    return cases


def kv(case, k):
    for t in case.split()[1:]:
        if t.startswith(k + "="):
            return t[len(k) + 1:]
    return ""


def classify(case, out, hist):
    """per-scan statistics from the model's output; returns number of scans and whether the case is non-trivial"""
    scripts = kv(case, "scripts").split("/")
    scans = out.split(" ", 1)[1].split(" | ") if " " in out else []
    items = kv(case, "items").split(";")
    kinds = Counter(i.split(":")[2] for i in items if i.startswith("r:"))
    nontriv = False
    prev = None
    for sc, tr in zip(scripts, scans):
        kind, sc = script_of(sc)
        hist["scan_call:%s" % {"m": "scan_mem", "b": "blocks-without-file_size", "B": "blocks-with-file_size", "p": "scan_proc", "F": "set_flags"}[kind]] += 1
        if prev is not None:
            hist["history:%s-then-%s" % (prev, kind)] += 1
        prev = kind
        if kind in "pF":
            continue
        toks = tr.split()
        msgs, rc = toks[:-1], toks[-1]
        last = msgs[-1] if msgs else ""
        if last == "FIN":
            end = "completed"
        elif rc == "rc=CALLBACK_ERROR":
            end = "error-on-" + {"IMP": "import", "MOD": "imported"}.get(last[:3], "rule")
        else:
            end = "abort-on-rule"
        if end != "completed":
            k = len(msgs) - 1
            pos = "first" if k == 0 else "other"
            hist["stop_position:" + pos] += 1
        hist["end:" + end] += 1
        for k, m in enumerate(msgs):
            if k < len(sc):
                if sc[k] == "a" and m[:3] in ("IMP", "MOD"):
                    hist["ignored:abort-on-module-msg"] += 1
                if sc[k] != "c" and m == "FIN":
                    hist["ignored:%s-on-finished" % ("abort" if sc[k] == "a" else "error")] += 1
        if any(m.startswith("M:") for m in msgs) and any(m.startswith("N:") for m in msgs):
            hist["trace:both-verdicts"] += 1
        if len(msgs) >= 2 and (kinds["g"] + kinds["gp"] + kinds["p"]) >= 1:
            nontriv = True
    return len(scans), nontriv


def static_hist(cases, hist):
    seen = set()
    for c in cases:
        items = kv(c, "items")
        hist["flags:%s" % kv(c, "f")] += 1
        hist["api:%s" % kv(c, "api")] += 1
        hist["other_scan_flags:%s" % kv(c, "x")] += 1
        hist["buffers_per_case:%d" % len(kv(c, "buf").split("/"))] += 1
        if items in seen:
            continue
        seen.add(items)
        its = items.split(";")
        rules = [i.split(":") for i in its if i.startswith("r:")]
        imps = [i.split(":") for i in its if i.startswith("i:")]
        for x in rules:
            hist["rule_kind:" + x[2]] += 1
            for ch, nm in (("r", "rule-ref"), ("x", "rule-ref"), ("s", "string"), ("n", "string"), ("z", "filesize"), ("y", "filesize"), ("I", "integer-valued"), ("T", "const"), ("F", "const")):
                if any(a.startswith(ch) for a in x[3].replace("|", "&").split("&")):
                    hist["cond_atom:" + nm] += 1
        hist["namespaces:%d" % min(len({x[1] for x in rules}), 4)] += 1
        hist["imports:%d" % len(imps)] += 1
        if len({i[2] for i in imps}) < len(imps):
            hist["imports:same-module-twice"] += 1
        hist["rules:%s" % ("1-7" if len(rules) <= 7 else ">64")] += 1
        gns = {x[1] for x in rules if "g" in x[2]}
        if gns and len({x[1] for x in rules}) > len(gns):
            hist["ruleset:global-in-some-namespaces-only"] += 1
    return len(seen)


# ---------------------------------------------------------------- too-many-matches cases (library built with YR_MAX_STRING_MATCHES=LIMIT)
LIMIT = 10
HOT = [b"aa", b"bb", b"cd", b"ee", b"aaa", b"fgf"]        # each over its own letters, so their occurrences never interleave


def occurrences(buf, pat):
    return [o for o in range(len(buf) - len(pat) + 1) if buf[o:o + len(pat)] == pat]


def hot_segment(pat, n):
    """bytes containing exactly n (overlapping) occurrences of pat, n >= 1"""
    if pat in (b"aa", b"bb", b"ee"):
        return pat[:1] * (n + 1)
    if pat == b"aaa":
        return b"a" * (n + 2)
    if pat == b"cd":
        return b"cd" * n
    return b"fg" * n + b"f"                                  # "fgf"


def tm_buffer(r, hots, over):
    """over[i]: how far hot pattern i goes beyond (or stays below) the limit"""
    segs = [hot_segment(h, max(1, LIMIT + d)) for h, d in zip(hots, over)]
    r.shuffle(segs)
    parts = []
    markers = [b"qq", b"zz", b"qz", b".."]
    for sg in segs:
        if r.random() < 0.4:
            parts.append(r.choice(markers))
        parts.append(sg)
        parts.append(r.choice([b".", b"..", b"-.-", b"x"]))
    for _ in range(r.randint(1, 3)):                         # markers AFTER the overflow: strings whose decisive occurrence comes late
        parts.append(r.choice(markers))
        parts.append(r.choice([b".", b"--"]))
    return b"".join(parts)


def tm_atom(r, hots, free_hots, earlier):
    """free_hots: hot patterns not used by any string yet (an overflowing pattern is given to one string only: two
    strings overflowing at the same position would make the order of their warnings depend on the automaton)"""
    u = r.random()
    up = r.random() < 0.25                                   # private string
    if free_hots and u < 0.15:
        return hot_atom(r, free_hots.pop(r.randrange(len(free_hots))))
    elif u < 0.65:
        m = r.choice([b"qq", b"zz", b"qz", b"..", b"yy", b"-.-", b"q"])
        v = r.random()
        a = ("s" if v < 0.6 else "n" if v < 0.8 else "c%d_" % r.choice([0, 1, 2])) + hexs(m)
    elif earlier and u < 0.80:
        return ("r%d" if r.random() < 0.6 else "x%d") % r.choice(earlier)
    elif u < 0.90:
        return r.choice(["T", "F", "z5", "z200"])
    else:
        a = "s" + hexs(bytes(r.choice(b"mnop") for _ in range(r.randint(2, 4))))
    return a[0].upper() + a[1:] if up and a[0] in "snc" else a


def hot_atom(r, h):
    v = r.random()
    if v < 0.45:
        a = "s" + hexs(h)
    elif v < 0.55:
        a = "n" + hexs(h)
    else:
        a = "c%d_%s" % (r.choice([0, 3, LIMIT - 2, LIMIT - 1, LIMIT, LIMIT + 1]), hexs(h))
    return a[0].upper() + a[1:] if r.random() < 0.25 else a


def atom_pattern(a):
    if a[0] in "snSN":
        return bytes.fromhex(a[1:])
    if a[0] in "cC":
        return bytes.fromhex(a.split("_")[1])
    return None


def tm_ok(items, bufs):
    """warnings of different strings must be triggered at least 5 bytes apart in every buffer"""
    pats = []
    for it in items:
        if it.startswith("r:"):
            for a in it.split(":")[3].replace("|", "&").split("&"):
                p = atom_pattern(a)
                if p is not None:
                    pats.append(p)
    for b in bufs:
        ends = []
        for p in pats:
            oc = occurrences(b, p)
            if len(oc) > LIMIT:
                ends.append(oc[LIMIT] + len(p))
        ends.sort()
        if any(y - x < 5 for x, y in zip(ends, ends[1:])):
            return False
    return True


def gen_tm_cases(r, nsets):
    cases, cid = [], 0
    while nsets > 0:
        nh = r.choice([1, 1, 2, 2, 3])
        hots = r.sample([h for h in HOT if h != b"aaa"] if r.random() < 0.7 else [h for h in HOT if h != b"aa"], nh)
        over = [r.choice([-1, 0, 1, 1, 2, 2, 4, 7]) for _ in hots]
        if all(d <= 0 for d in over) and r.random() < 0.85:
            over[r.randrange(nh)] = r.choice([1, 2, 5])
        buf = tm_buffer(r, hots, over)
        nns = r.randint(1, 2)
        nrules = r.randint(2, 6)
        items, by_ns = [], {}
        nimp = r.choice([0, 0, 1, 2])
        for m in r.sample(MODULES, nimp):
            items.append("i:0:%s" % m)
        lead = r.random()
        # every hot pattern is given to one string of a chosen rule (preferably a later one: string index != rule index)
        home = {}
        for h in hots:
            home.setdefault(r.choice([0] + list(range(1, nrules)) * 3), []).append(h)
        free = []
        for j in range(nrules):
            ns = r.randrange(nns)
            earlier = by_ns.setdefault(ns, [])
            mine = [hot_atom(r, h) for h in home.get(j, [])]
            if j == 0 and lead < 0.35 and not mine:
                cond = r.choice(["T", "F", "z3"])                          # rule 0 without strings: string index < rule index later on
            else:
                n = 3 if j == 0 and lead < 0.7 else r.choice([1, 1, 2, 2, 3])     # rule 0 with several strings: index > rule index
                atoms = mine + [tm_atom(r, hots, free, earlier) for _ in range(max(0, n - len(mine)))]
                r.shuffle(atoms)
                cond = atoms[0]
                for a in atoms[1:]:
                    cond += r.choice("&|") + a
            items.append("r:%d:%s:%s" % (ns, r.choice(["n", "n", "n", "g", "p", "gp"]), cond))
            earlier.append(j)
        # history on one scanner: the same data again, data below the limit, unrelated data
        below = tm_buffer(r, hots, [r.choice([-3, -1, 0]) for _ in hots])
        bufsets = [[buf], [buf, buf], [buf, below], [below, buf, b"qq..zz"], [buf, b""]]
        bufs = r.choice(bufsets)
        if not tm_ok(items, bufs):
            continue
        nsets -= 1
        nstr = sum(1 for it in items if it.startswith("r:") for a in it.split(":")[3].replace("|", "&").split("&") if atom_pattern(a) is not None)
        nover = sum(1 for d in over if d > 0)
        maxmsg = nover + 2 * nimp + nrules + 1
        scripts = ["-"] + ["c" * k + x for k in range(maxmsg + 1) for x in "ae"]
        for _ in range(3):
            scripts.append("".join(r.choice("cccae") for _ in range(r.randint(1, maxmsg + 1))))
        r.shuffle(scripts)
        for f in r.sample([0, 1, 2, 3], r.choice([1, 2])):
            api = r.choice("ssssrd") if f == 0 else r.choice("ssssr")
            for o in range(0, len(scripts), 8):
                line = scripts[o:o + 8]
                if r.random() < 0.3:          # some scans through a caller's block iterator (filesize undefined without size function)
                    line = [(r.choice(["b:", "b:", "B:"]) if r.random() < 0.4 else "") + sc for sc in line]
                cases.append("t%d L=%d f=%d x=%d api=%s buf=%s items=%s scripts=%s" % (
                    cid, LIMIT, f, r.choice([0, 0, 4]), api, "/".join(hexs(b) for b in bufs), ";".join(items), "/".join(line)))
                cid += 1
    return cases


def tm_hist(cases, model, hist):
    """warning-specific statistics from the case lines and the model's output"""
    mm = {l.split(" ", 1)[0]: l for l in model}
    seen = set()
    for c in cases:
        o = mm.get(c.split(" ", 1)[0], "")
        scripts = kv(c, "scripts").split("/")
        for sc, tr in zip(scripts, o.split(" ", 1)[1].split(" | ") if " " in o else []):
            kind, sc = script_of(sc)
            if kind in "pF":
                continue
            toks = tr.split()
            msgs, rc = toks[:-1], toks[-1]
            ntm = sum(1 for m in msgs if m.startswith("TM:"))
            hist["tm:warnings_in_scan:%d" % ntm] += 1
            if rc == "rc=TOO_MANY_MATCHES":
                k = len(msgs) - 1
                sc_ = sc
                hist["tm:halt-on-warning:%s" % ("abort" if k < len(sc_) and sc_[k] == "a" else "error")] += 1
            elif ntm:
                hist["tm:continued-then:%s" % ("completed" if msgs and msgs[-1] == "FIN" else "stopped-later")] += 1
        items = kv(c, "items")
        if items in seen:
            continue
        seen.add(items)
        bufs = [b"" if h == "-" else bytes.fromhex(h) for h in kv(c, "buf").split("/")]
        hist["tm:scans_per_scanner_buffers:%d" % len(bufs)] += 1
        sidx, ridx = 0, 0
        for it in items.split(";"):
            if not it.startswith("r:"):
                continue
            for a in it.split(":")[3].replace("|", "&").split("&"):
                p = atom_pattern(a)
                if p is None:
                    continue
                n = max(len(occurrences(b, p)) for b in bufs)
                if n >= LIMIT - 1:
                    hist["tm:occurrences:%s" % ("limit-1" if n == LIMIT - 1 else "limit" if n == LIMIT else "limit+1" if n == LIMIT + 1 else ">limit+1")] += 1
                if n > LIMIT:
                    hist["tm:overflowing_string:%s" % ("idx==rule_idx" if sidx == ridx else "idx!=rule_idx")] += 1
                    hist["tm:overflowing_string:%s" % ("private" if a[0].isupper() else "public")] += 1
                    hist["tm:overflowing_string_used_as:%s" % {"s": "$s", "n": "not $s", "c": "#s > N"}[a[0].lower()]] += 1
                sidx += 1
            ridx += 1
    return len(seen)


def run(tier, replay=None):
    chk = core.Check("C11", tier)
    lres = core.lean_check(THM)
    core.proof_coverage(chk, lres, THM)
    b = core.build("asan", harness=["h_cb"])
    r = core.rng("C11")
    nsets, nbig = (300, 30) if tier == "quick" else (12000, 300)
    # second library: YR_MAX_STRING_MATCHES=LIMIT, so that CALLBACK_MSG_TOO_MANY_MATCHES is reachable with small buffers
    bm = core.build("asan", harness=["h_cb"], extra_defs="-DYR_MAX_STRING_MATCHES=%d" % LIMIT, tag="m%d" % LIMIT)
    cases = gen_cases(r, nsets, nbig)
    tcases = gen_tm_cases(core.rng("C11-tm"), 150 if tier == "quick" else 4000)
    if replay:
        one = replay["case"]
        cases, tcases = ([], [one]) if (" L=%d " % LIMIT) in one else ([one], [])
    tmo = 900 if tier == "quick" else 3600
    impl, rc, err = core.run_parallel([b["h_cb"]], cases, timeout=tmo) if cases else ([], 0, "")
    timpl, trc, terr = core.run_parallel([bm["h_cb"]], tcases, timeout=tmo) if tcases else ([], 0, "")
    for xrc, xerr in ((rc, err), (trc, terr)):
        if xrc == -9 and xerr.startswith("TIMEOUT"):
            # an overloaded machine is not a property violation: report a check error (exit 2), never an alarm, never OK
            raise RuntimeError("harness did not finish within %d s (machine overloaded?): %s" % (tmo, xerr.splitlines()[0]))
    found = False
    for xrc, xerr, xcases, lib in ((rc, err, cases, "default"), (trc, terr, tcases, "YR_MAX_STRING_MATCHES=%d" % LIMIT)):
        if xrc != 0:
            chk.violation("harness_crash_%s.json" % ("tm" if lib != "default" else "std"),
                          {"kind": "harness-crash-or-sanitizer", "rc": xrc, "stderr": xerr, "library_build": lib,
                           "engine": "cb", "harness": "h_cb", "cases": xcases[:50], "case": xcases[0] if len(xcases) == 1 else None})
            found = True
    if lres.get("driver_ok"):
        model, mrc, merr = core.run_parallel([core.driver_path(), "cb"], cases) if cases else ([], 0, "")
        tmodel, _, _ = core.run_parallel([core.driver_path(), "cb"], tcases) if tcases else ([], 0, "")
        bad = core.diff_outputs(cases, impl, model) if rc == 0 else []
        tbad = core.diff_outputs(tcases, timpl, tmodel) if trc == 0 else []
        for i, (c, a, m) in enumerate(bad[:20]):
            chk.violation("diff_%d.json" % i, {"kind": "model-implementation-disagreement", "engine": "cb", "harness": "h_cb",
                                                "case": c, "implementation": a, "model_spec": m,
                                                "note": "model trace is proved equal to the callback protocol specification (Thm/C11 scan_eq_spec)"})
            found = True
        for i, (c, a, m) in enumerate(tbad[:20]):
            chk.violation("diff_tm_%d.json" % i, {"kind": "model-implementation-disagreement", "engine": "cb", "harness": "h_cb",
                                                   "library_build": "-DYR_MAX_STRING_MATCHES=%d" % LIMIT,
                                                   "case": c, "implementation": a, "model_spec": m,
                                                   "note": "model trace is proved equal to the protocol specification incl. the too-many-matches "
                                                           "warning (Thm/C11 fullScan_eq_spec)"})
            found = True
        bad = bad + tbad
        cases = cases + tcases
        impl = impl + timpl
        model = model + tmodel
        hist = Counter()
        mm = {l.split(" ", 1)[0]: l for l in model}
        scans = 0
        nontriv = set()
        for c in cases:
            o = mm.get(c.split(" ", 1)[0])
            if o is None or o.endswith("BADCASE"):
                hist["model:BADCASE"] += 1
                continue
            n, nt = classify(c, o, hist)
            scans += n
            if nt:
                nontriv.add(c.split(" ", 1)[1])
        nsets_seen = static_hist(cases, hist)
        hist["tm:rule_sets"] = tm_hist(tcases, tmodel, hist)
        hist["tm:case_lines"] = len(tcases)
        if hist["model:BADCASE"]:
            chk.violation("badcase.json", {"kind": "generator-produced-unparsable-case", "count": hist["model:BADCASE"]}, no_input=True)
            found = True
        chk.cov.update({"evaluations": scans, "case_lines": len(cases), "rule_sets": nsets_seen,
                        "distinct_nontrivial": len(nontriv),
                        "traces_validated_against_impl": len(cases) - len(bad),
                        "rule": "rule sets over 1-3 (some 66-70) namespaces with global/private/global+private/plain rules, 0-3 imports, x 4 flag settings x scripts "
                                "'continue k times then abort|error' for every k up to the maximal trace length (+ irregular scripts); one evaluation = one scan; "
                                "non-trivial case line = rule set with >=1 global or private rule and >=1 scan with >=2 messages; the tm:* histogram keys describe the "
                                "too-many-matches campaign (library with YR_MAX_STRING_MATCHES=10)",
                        "histogram": dict(sorted(hist.items())),
                        "samples": [{"case": cases[i], "implementation": impl[i] if i < len(impl) else None,
                                     "model": model[i] if i < len(model) else None} for i in (0, len(cases) // 2)]})
    core.handle_broken_proof(chk, lres, found)
    chk.assumptions += ["atoms of a condition are decided from the buffer by the driver (filesize > N, containment of a 2-4 byte string); "
                        "string matching and the VM's other opcodes are the subject of C01-C04",
                        "rule references point to earlier rules of the same namespace (the compiler rejects anything else)",
                        "callbacks return only CONTINUE/ABORT/ERROR; messages other than the five protocol messages and TOO_MANY_MATCHES do not occur in the generated rule sets",
                        "too-many-matches campaign: hex strings of 1-4 bytes without wildcards, no FAST_MODE, warnings of different strings triggered >= 5 bytes apart, "
                        "the limit is lowered by a compile-time define (the code under test is otherwise the working tree)",
                        "several scans of one case line reuse one scanner (api=s/d) or one rule set (api=r); the model treats scans as independent: "
                        "every scan starts from the configured flags and gets its own file size (Model scanFileSize: undefined when the iterator has no size function)",
                        "a process scan (p) is only a step of the history: the helper process' memory is unknown to the model, its messages are not compared; "
                        "if the sandbox refused attaching, that step would be a no-op (no alarm, less coverage)"]
    return chk.finish("proof")
