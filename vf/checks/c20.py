"""C20 — external variables: op-sequence correspondence (real API vs Lean state machine)
+ re-check of the refinement theorems (Thm/C20.lean)."""
from vf import core

THM = ["YaraModel.Thm.C20"]
MANIFEST = dict(
    technique="Lean 4 refinement proof (state machine = history-based 3-level environment spec, all op histories) + op-sequence correspondence against the real API",
    text="proof: Thm/C20.lean proves for every operation history that the table-based model equals the history-based three-level specification "
         "(most specific value, snapshot at creation, isolation, rejected definitions change nothing, result codes); the model is tied to the code by "
         "running random define/create/scan sequences through the real compiler/rules/scanner API and the compiled Lean model and diffing every op's result.",
    design_ref="DESIGN.md §5 C20",
    note=core.TB + "Integer values stay below 2^34 in magnitude, so that no probe wraps at 64 bits (some need more than 32 bits); dyadic floats (no IEEE rounding); a variable is observed through probe conditions only.")
NAMES = ["x", "xy", "y", "yx", "z"]          # prefixes of each other on purpose
UNKNOWN = ["q", "xyz", "yxx", "zz", "xx"]       # never declared; some extend / are extended by declared names
VALS = {"i": ["-1", "0", "1", "2", "7", "4", "4294967296", "2147483648", "-2147483649", "12884901889"],  # the last four do not fit in 32 bits (and no probe wraps at 64)
        "b": ["0", "1", "5"], "f": ["-1", "0", "1", "3", "4"],
        "s": ["-", "61", "6162", "6261", "616263", "42", "63"]}


MODNAMES = ["time", "tim", "hash", "math", "pe"]  # identifiers that are also names of built-in modules (the objects table is shared with them)


def gen_case(r, cid):
    ops = []
    declared = {}
    NAMES = globals()["NAMES"] if r.random() < 0.75 else MODNAMES
    for _ in range(r.randint(1, 5)):
        n = r.choice(NAMES)
        t = r.choice("ibfs")
        ops.append("cdef:%s:%s:%s" % (t, n, r.choice(VALS[t])))
        declared.setdefault(n, t)
    ops.append("compile")
    alive = set()

    def define(level):
        n = r.choice(list(declared) * 3 + [r.choice(UNKNOWN)])
        u = r.random()
        if n in declared and u < 0.7:
            t = declared[n]
        elif n in declared and u < 0.8 and declared[n] in "ib":
            t = "b" if declared[n] == "i" else "i"
        else:
            t = r.choice("ibfs")
        v = r.choice(VALS[t])
        if level == "r":
            return "rdef:%s:%s:%s" % (t, n, v)
        k = r.choice(sorted(alive)) if alive and r.random() < 0.9 else r.randint(0, 3)
        return "sdef:%d:%s:%s:%s" % (k, t, n, v)

    for _ in range(r.randint(4, 28)):
        u = r.random()
        if u < 0.22:
            ops.append(define("r"))
        elif u < 0.40:
            k = r.randint(0, 3)
            ops.append("screate:%d" % k)
            alive.add(k)
        elif u < 0.70:
            ops.append(define("s"))
        elif u < 0.75:
            k = r.randint(0, 3)
            ops.append("sdestroy:%d" % k)
            alive.discard(k)
        elif u < 0.92:
            ops.append("scan:%d" % (r.choice(sorted(alive)) if alive else r.randint(0, 3)))
        else:
            ops.append("rscan")
        if r.random() < 0.3:
            for k in sorted(alive):
                ops.append("scan:%d" % k)
            ops.append("rscan")
    for k in sorted(alive):
        ops.append("scan:%d" % k)
    ops.append("rscan")
    return "%s %s" % (cid, " ".join(ops))


def nontrivial(case, out):
    toks = out.split()[1:]
    obs = [t for t in toks if "=" in t]
    return len(set(obs)) >= 2 and any(t.startswith("INVALID") or t.startswith("DUPLICATED") for t in toks) \
        and case.count("screate") >= 1 and any(o.startswith("sdef") for o in case.split())


CLI_VALUES = ["0", "1", "-1", "5", "007", "-0", "010", "0100", "-0012", "0900", "08", "00", "0017777777777", "2147483647", "2147483648", "-2147483649", "4294967296", "5000000000", "9223372036854775807",
              "1.5", "-2.5", "0.25", "1.", "-1.", "10.0", ".5", "-.5", "1.2.3", "10.0.0.1", "1..2", "-", "--1", "1-", "+1", "1e5", "0x10", "1,5",
              "k=v", "QUJDRA==", "a=b=c", "=", "=x", "1=2", "true", "false", "True", "TRUE", "truee", "abc", "a.b", "3a", "a3", " 1", "1 ", "my string", "", ".", "-.", "..", "1.2.", "12:30"]


def esc_yara(sv):
    return "".join("\\x%02x" % b for b in sv.encode("latin1"))


def run_cli(chk, tier, r):
    """cli/common.c: how `-d name=value` is typed and what value the rules see, against Spec/ExtCli.classify"""
    import subprocess, os
    b = core.build("plain", cli=True)
    vals = list(CLI_VALUES)
    for _ in range(40 if tier == "quick" else 1500):
        n = r.randint(1, 6)
        vals.append("".join(r.choice("0123456789.-") if r.random() < 0.85 else r.choice("aetru +x") for _ in range(n)))
    vals = list(dict.fromkeys(vals))
    lines = ["v%d v=%s" % (i, ("".join("%02x" % ord(c) for c in v) or "-")) for i, v in enumerate(vals)]
    model, _, _ = core.run_lines([core.driver_path(), "extcli"], lines)
    mm = {l.split()[0]: l.split()[1] for l in model if len(l.split()) > 1}
    d = os.path.join(core.OUT, "C20", "cli")
    os.makedirs(d, exist_ok=True)
    data = os.path.join(d, "data.bin")
    open(data, "w").write("xyz")
    nviol, hist = 0, {}
    for i, v in enumerate(vals):
        cls = mm.get("v%d" % i, "?")
        kind = cls.split(":")[0]
        hist[kind] = hist.get(kind, 0) + 1
        if kind == "int":
            n = int(cls[4:])
            if not (-2 ** 63 <= n < 2 ** 63):
                continue
            cond = "v == %d" % n if n >= 0 else "v == -%d" % (-n) if n != -2 ** 63 else "v == (-9223372036854775807 - 1)"
        elif kind == "flt":
            num, sc = cls[4:].split("/")
            f = int(num) / (10 ** int(sc))
            cond = "v > %.9f and v < %.9f" % (f - 1e-6, f + 1e-6) if f >= 0 else "v > -%.9f and v < -%.9f" % (-f + 1e-6, -f - 1e-6)
        elif kind == "bool":
            cond = "v" if cls.endswith("1") else "not v"
        elif kind == "str":
            cond = 'v == "%s"' % esc_yara(v)
        else:
            continue
        rf = os.path.join(d, "r%d.yar" % i)
        open(rf, "w").write("rule t { condition: %s }\n" % cond)
        p = subprocess.run([b["yara"], "-d", "v=" + v, rf, data], capture_output=True, text=True, timeout=30)
        ok = p.returncode == 0 and p.stdout.split()[:1] == ["t"]
        argv = ["yara", "-d", "v=" + v, "<rule>", "<3-byte file>"]
        if ok:
            # the same definition given to COMPILED rules (other branch of define_external_variables): the variable is declared
            # with a placeholder of the same type by yarac, the value comes from `yara -C -d`
            ph = {"int": "0", "flt": "0.5", "bool": "false" if cls.endswith("1") else "true", "str": "placeholder"}[kind]
            rc_ = os.path.join(d, "r%d.yarc" % i)
            pc = subprocess.run([b["yarac"], "-d", "v=" + ph, rf, rc_], capture_output=True, text=True, timeout=30)
            if pc.returncode == 0:
                p = subprocess.run([b["yara"], "-C", "-d", "v=" + v, rc_, data], capture_output=True, text=True, timeout=30)
                ok = p.returncode == 0 and p.stdout.split()[:1] == ["t"]
                argv = ["yarac -d v=%s <rule> <out>; yara" % ph, "-C", "-d", "v=" + v, "<out>", "<3-byte file>"]
                hist["compiled-path"] = hist.get("compiled-path", 0) + 1
        if not ok and nviol < 6:
            chk.violation("cli_%d.json" % nviol, {"kind": "command-line external variable is not typed / valued like the literal it spells", "engine": "extcli",
                                                  "value": v, "expected_class": cls, "rule": "rule t { condition: %s }" % cond,
                                                  "argv": argv, "rc": p.returncode, "stdout": p.stdout[-300:], "stderr": p.stderr[-300:]})
            nviol += 1
    chk.cov["cli_typing"] = {"values": len(vals), "classes": hist, "violations": nviol}
    return nviol > 0


def run(tier, replay=None):
    chk = core.Check("C20", tier)
    lres = core.lean_check(THM)
    core.proof_coverage(chk, lres, THM)
    b = core.build("asan", harness=["h_ext"])
    n = 400 if tier == "quick" else 20000
    r = core.rng("C20")
    cases = [gen_case(r, "c%d" % i) for i in range(n)]
    if replay:
        cases = [replay["case"]]
    impl, rc, err = core.run_parallel([b["h_ext"]], cases)
    found = False
    if rc != 0:
        chk.violation("harness_crash.json", {"kind": "harness-crash-or-sanitizer", "rc": rc, "stderr": err,
                                              "engine": "ext", "harness": "h_ext", "cases": cases[:50]})
        found = True
    if lres.get("driver_ok"):
        model, mrc, merr = core.run_parallel([core.driver_path(), "ext"], cases)
        bad = core.diff_outputs(cases, impl, model) if rc == 0 else []
        for i, (c, a, m) in enumerate(bad[:20]):
            chk.violation("diff_%d.json" % i, {"kind": "model-implementation-disagreement", "engine": "ext", "harness": "h_ext",
                                                "case": c, "implementation": a, "model_spec": m,
                                                "note": "model output is proved equal to the three-level environment spec (Thm/C20)"})
            found = True
        nt = sum(1 for c, o in zip(cases, model) if nontrivial(c, o))
        chk.cov.update({"evaluations": len(cases), "distinct_nontrivial": len({c.split(' ', 1)[1] for c, o in zip(cases, model) if nontrivial(c, o)}),
                        "traces_validated_against_impl": len(cases) - len(bad),
                        "rule": "random op sequences over compiler/rule-set/scanner define calls (4 types, valid, wrong-type, unknown id), scanner creations/destructions and scans; "
                                "non-trivial = >=2 distinct observations, >=1 rejected definition, >=1 scanner-level definition",
                        "ops_total": sum(len(c.split()) - 1 for c in cases),
                        "samples": [{"case": cases[0], "implementation": impl[0] if impl else None, "model": model[0] if model else None}]})
    if lres.get("driver_ok") and not replay:
        found = run_cli(chk, tier, r) or found
    core.handle_broken_proof(chk, lres, found)
    chk.assumptions += ["values stay in a small range: int64 wrap-around and IEEE rounding are outside the model",
                        "probe rules observe a variable only through 3-7 conditions per type",
                        "scanner-level integer/boolean are one object type in the code; the spec treats them as compatible"]
    return chk.finish("proof")
