"""C07 — Compiling arbitrary text never crashes and every failure is diagnosed (PARTIAL).

1. translator T7 regenerates Gen/GrammarTables.lean (typed symbols, %destructor coverage of the three grammars);
2. Thm/C07.lean: error protocol state machine (ret > 0 iff callback, ret = #callbacks, line >= 1, recovery resets the loop
   context, destructor table) re-checked for ALL event sequences;
3. runtime tie (harness/h_compile.c, ASan/UBSan/LSan, fork per case, timeout): grammar-aware mutations of a corpus of valid
   rules; per case the conclusions of the protocol theorems are checked on the real compiler: errors > 0 iff >= 1 error
   callback, errors == number of error callbacks, every message non-empty, every line >= 1, compiler destroyable, a follow-up
   compile + scan in the same process gives the right result, a successful compilation yields scannable rules."""
import os, re, json, glob, collections
from vf import core
from vf.checks import c07_corpus as K

THM = ["YaraModel.Thm.C07"]
MANIFEST = dict(
    category="proof",
    technique="Lean 4 model of the compiler's error-reporting protocol (all parser-event sequences) + %destructor table regenerated from the .y files and decided "
              "in Lean + grammar-aware mutation campaign on the real compiler under ASan/UBSan/LSan checking the theorems' conclusions per case",
    text="partial: PROVED for all event sequences of the protocol model — return value > 0 iff an error callback was invoked (given the compilation got past the "
         "allocation-only set-up steps, whose failure is silent: setup_failure_is_silent_partial), return value = number of error callbacks, every reported line >= 1, "
         "syntax errors are not double-counted during recovery, the for-loop error production leaves loop_index = -1 with no owned identifier; and over the "
         "regenerated grammar tables every heap-owning semantic value has a %destructor. SAMPLED ONLY: that the real lexer/parser/sub-parsers emit only those events, "
         "free what they own, terminate and never crash — truncation at every token and deletion of every token of a 62-rule corpus, token duplication/swap/"
         "replacement, oversized tokens around YR_LEX_BUF_SIZE, deep nesting, malformed hex/regex bodies, include chains, NUL and random bytes.",
    design_ref="DESIGN.md §1.3, §5 C07, translator T7",
    note=core.TB + "The event alphabet of the model is hand-derived from grammar.y/lexer.l/bison's skeleton; the harness observes only (return value, callback log), "
         "not the events. Allocation failures are C16's subject and are not injected here.")

TOK = re.compile(r'''\s+|//[^\n]*|/\*.*?\*/|"(?:\\.|[^"\\])*"|/(?:\\.|[^/\\\n])+/[is]*|[$#@!][A-Za-z0-9_]*\*?|[A-Za-z_][A-Za-z0-9_]*|0x[0-9a-fA-F]+|\d+(?:\.\d+)?(?:KB|MB)?|==|!=|<=|>=|<<|>>|\.\.|.''', re.S)


def tokens(src):
    return [t for t in TOK.findall(src) if not t.isspace()]


def join(ts):
    return " ".join(ts)


def hexs(b):
    return b.hex() if b else "-"


def inc_fields(src_text, extra=None):
    incs = dict(K.INCLUDES)
    if extra:
        incs.update(extra)
    used = {}
    todo = re.findall(r'include\s+"([^"]*)"', src_text)
    while todo:
        n = todo.pop()
        if n in incs and n not in used and re.match(r"^[\w.]+$", n):
            used[n] = incs[n]
            todo += re.findall(r'include\s+"([^"]*)"', incs[n])
    return "".join(" I%s=%s" % (n, hexs(c.encode())) for n, c in sorted(used.items()))


def gen_cases(r, tier):
    cases, meta = [], {}
    cnt = [0]
    quick = tier == "quick"

    def add(src, kind, mode=None, extra_inc=None, units=(), opt="", fname=None, ns=None):
        if isinstance(src, str):
            b = src.encode("latin1", "replace")
        else:
            b = src
        if mode is None:
            u = r.random()
            mode = "B" if (b"\x00" in b or u < 0.25) else ("F" if u < 0.32 else ("D" if u < 0.39 else "S"))
        if mode == "S" and b"\x00" in b:
            b = b.replace(b"\x00", b"\x01")
        cid = "k%d" % cnt[0]; cnt[0] += 1
        try:
            txt = b.decode("latin1")
        except Exception:
            txt = ""
        extra = (" O" + opt if opt else "") + (" N" + (fname.encode("latin1").hex() if fname else "") if fname is not None else "") + \
                (" P" + hexs(ns.encode("latin1")) if ns is not None else "")
        cases.append("%s %s %s%s%s%s" % (cid, mode, hexs(b), inc_fields(txt, extra_inc), "".join(" U" + hexs(u.encode("latin1")) for u in units), extra))
        meta[cid] = kind

    for src in K.RULES:                                    # corpus itself: must compile cleanly
        add(src, "valid", "S")
    toks = [tokens(s) for s in K.RULES]
    for ts in toks:                                        # truncation at EVERY token, deletion of EVERY token
        for k in range(len(ts)):
            add(join(ts[:k]), "truncate@token")
        for k in range(len(ts)):
            add(join(ts[:k] + ts[k + 1:]), "delete-token")
    nrand = 1 if quick else 20
    for ts in toks:
        for _ in range(6 * nrand):
            k = r.randrange(len(ts))
            add(join(ts[:k] + [ts[k]] + ts[k:]), "duplicate-token")
        for _ in range(6 * nrand):
            k = r.randrange(max(1, len(ts) - 1))
            t2 = list(ts); t2[k:k + 2] = reversed(t2[k:k + 2])
            add(join(t2), "swap-tokens")
        for _ in range(14 * nrand):
            k = r.randrange(len(ts))
            rep = r.choice(r.choice([K.KEYWORDS, K.PUNCT, K.LITERALS, K.HEX_BAD, K.RE_BAD]))
            t2 = list(ts)
            if r.random() < 0.5: t2[k] = rep
            else: t2.insert(k, rep)
            add(join(t2), "replace/insert-token")
        for _ in range(4 * nrand):                           # cut in the middle of a token (unterminated string / regex / comment)
            s = join(ts)
            add(s[:r.randrange(len(s) + 1)], "truncate@char")
        for _ in range(3 * nrand):                           # two independent edits
            t2 = list(ts)
            for __ in range(2):
                k = r.randrange(len(t2))
                if r.random() < 0.5: del t2[k]
                else: t2.insert(k, r.choice(r.choice([K.KEYWORDS, K.PUNCT, K.LITERALS])))
                if not t2: break
            add(join(t2), "double-edit")
    # malformed hex / regex bodies at string position and inside conditions
    for h in K.HEX_BAD:
        add('rule h { strings: $a = %s condition: $a }' % h, "hex-subparser")
        add('rule ok1 { condition: true } rule h { strings: $x = "x" $a = %s $y = "y" condition: any of them } rule ok2 { condition: ok1 }' % h, "hex-subparser")
    for x in K.RE_BAD:
        add('rule x { strings: $a = %s condition: $a }' % x, "re-subparser")
        add('rule x { condition: "abc" matches %s }' % x, "re-subparser")
        add('rule x { strings: $a = %s wide nocase fullword condition: for any i in (1..#a) : ( @a[i] > 0 ) }' % x, "re-subparser")
    for e in ['- /a/ < 0', '1 >> /a/ == 2', '/a/ + 1 == 2', '~ /a/ == 0', '1 \\ /a/ == 1', '/a/ % 2 == 0', '1.5 * /a/ > 0', '"s" contains /a/', '/a/ contains "s"',
              'uint8(/a/) == 0', 'for any i in (/a/..2) : ( i == 1 )', '/a/ of them', 'not /a/', '/a/ and true', '/a/ matches /b/', '/a/ == /a/', 'filesize > /a/',
              'pe == 1', 'pe.sections == 1', 'pe.sections + 1 == 2', '- pe.version_info == 0', 'pe.is_dll + 1 == 1']:
        add('import "pe" rule t { strings: $a = "a" condition: %s }' % e, "wrong-type-operand")
    # character classes: range ends at the byte-value boundaries, escapes before/after literal members, negation, `]` first, `-` first/last;
    # as regexp strings (raw byte and \\xNN spellings) and as `matches` operands
    BND = [0x00, 0x01, 0x7f, 0x80, 0xfe, 0xff]
    classes = []
    for lo in BND:
        for hi in BND:
            classes.append("[\\x%02x-\\x%02x]" % (lo, hi))
            if lo <= hi and lo >= 0x20 and lo not in (0x5c, 0x5d, 0x2f) :
                classes.append("[%s-\\x%02x]" % (chr(lo), hi))
    classes += ["[\\x80-\xff]", "[a-\xff]", "[\xfe-\xff]", "[^\\x00-\\xff]", "[^\\x80-\\xff]", "[^\\x00]", "[^\\xff]", "[\\x00-\\xff]+", "[\\w\\x80-\\xff]",
                "[\\x80-\\xff\\w]", "[\\Wa]", "[a\\W]", "[\\s\\S]", "[\\d\\D\\xff]", "[^\\w\\xff]", "[]a]", "[]-a]", "[^]a]", "[-a]", "[a-]", "[a\\-z]", "[\\]-\\xff]",
                "[--\\xff]", "[\\x00-\\x00]", "[\\xff-\\xff]", "[\\xff-\\x00]", "[\\x80-\\x7f]", "[a-zA-Z0-9_\\x80-\\xff]{2,4}", "[\\x00-\\x7f][\\x80-\\xff]", "[^a-\\xff]", "[\\b]", "[.]", "[\\/-\\xff]",
                "[\\x41-\\xFF]", "[ -\\xff]", "[\\t-\\xff]", "[\\n-\\xff]"]
    for c in classes:
        add('rule cc { strings: $a = /ab%s/ condition: $a }' % c, "char-class", "B")
        add('rule cc { strings: $a = /%sxy/ nocase wide condition: $a }' % c, "char-class", "B")
        add('rule cc { condition: "abc" matches /%s/ }' % c, "char-class", "B")
    # hex jumps / alternatives at their limits
    for j in ["[0-255]", "[0-256]", "[255-256]", "[256-257]", "[0-9999]", "[1-10000]", "[10000-10001]", "[0-4294967295]", "[4294967295-4294967296]", "[0-]", "[255-]", "[256-]",
              "[10000-]", "[200]", "[201]", "[255]", "[256]", "[0]", "[0-0]", "[1-1]", "[2-1]", "[-1]", "[0-1][0-1]"]:
        add('rule hj { strings: $a = { 01 02 03 %s 04 05 06 } condition: $a }' % j, "hex-jump-limits")
        add('rule hj { strings: $a = { 01 02 ( 03 %s 04 | 05 ) 06 } condition: $a }' % j, "hex-jump-limits")
    # SEQUENCES of loops of different kinds in one compiler: same condition, nested both ways, consecutive rules, a loop aborted by an error in
    # its body followed by another loop (the parser recovers and goes on with the next rule), and further compilation units on the same compiler
    LOOPS = {"in-range": "for any i in (1..3) : ( i == 2 )", "in-enum": "for all j in (1, 2, 3) : ( j > 0 )", "in-two": "for any k, v in pe.version_info : ( k == \"a\" )",
             "in-iter": "for any s in pe.sections : ( s.name == \"x\" )", "in-strs": "for any t in (\"a\", \"b\") : ( t == \"a\" )",
             "of-them": "for any of them : ( $ )", "of-set": "for all of ($a*) : ( # > 0 )", "of-num": "for 2 of them : ( @ > 1 )", "of-in": "any of them in (0..100)"}
    BAD = {"in-range": "for any i in (1..3) : ( i == )", "in-enum": "for all j in (1, 2, 3) : ( undefined_ident == 1 )", "in-two": "for any k, v in pe.version_info : ( k == 1 )",
           "in-iter": "for any s in pe.sections : ( s.nosuchfield == 1 )", "of-them": "for any of them : ( $ == )", "of-set": "for all of ($a*) : ( i )",
           "in-nested": "for any i in (1..3) : ( for any j in (1..2) : ( i == j and ) )", "in-dup": "for any i in (1..3) : ( for any i in (1..2) : ( i == 1 ) )"}
    def rule(n, cond): return 'rule lp%s { strings: $a1 = "abc" $a2 = "xyz" condition: ( %s ) or $a1 or $a2 }' % (n, cond)
    head = 'import "pe" '
    ks = sorted(LOOPS)
    for x in ks:
        for y in ks:
            add(head + rule(1, "%s and %s" % (LOOPS[x], LOOPS[y])), "loop-sequence")
            add(head + rule(1, LOOPS[x]) + " " + rule(2, LOOPS[y]), "loop-sequence")
            add(head + rule(1, LOOPS[x]), "loop-sequence", "S", None, [rule(2, LOOPS[y]), rule(3, LOOPS[x])])
            if x.startswith("in") and not y.startswith("of-in"):
                inner = LOOPS[y]
                add(head + rule(1, LOOPS[x].replace("( ", "( %s and " % inner, 1)), "loop-nested")
            if x.startswith("of") and x != "of-in":
                add(head + rule(1, LOOPS[x].replace("( ", "( %s and " % LOOPS[y], 1)), "loop-nested")
    for bx in sorted(BAD):
        for y in ks:
            add(head + rule(1, BAD[bx]) + " " + rule(2, LOOPS[y]) + " " + rule(3, LOOPS["in-range"] + " and " + LOOPS["of-them"]), "loop-error-then-loop")
            add(head + rule(1, "%s and %s" % (LOOPS[y], BAD[bx])) + " " + rule(2, LOOPS[y]), "loop-error-then-loop")
            add(head + rule(0, LOOPS[y]) + " " + rule(1, BAD[bx]) + " " + rule(2, LOOPS["of-set"]) + " " + rule(3, LOOPS[y]), "loop-error-then-loop")
    # one input per diagnosed semantic error / warning branch of the grammar actions (found with the gcov pass of the thorough tier)
    SEM = ['$a = "x" xor(256)', '$a = "x" xor(300-301)', '$a = "x" xor(5-2)', '$a = "x" xor(0-256)', '$a = "x" xor(0-255) xor', '$a = "x" base64("short")',
           '$a = "x" base64wide("short")', '$a = "x" base64 base64("%s")' % ("A" * 64), '$a = { 01 02 } private private', '$a = /ab/ nocase nocase', '$a = "x" wide wide',
           '$a = "x" xor nocase', '$a = "x" base64 nocase', '$a = "x" base64 xor', '$a = "x" base64 fullword', '$a = "" ', '$a = /(/', '$a = { }']
    for m in SEM:
        add('rule se { strings: %s condition: $a }' % m, "semantic-error")
    CONDS = ['pe.sections["a"].name == "x"', 'pe.version_info[1] == "x"', 'pe.number_of_sections[0] == 1', 'pe.number_of_sections() == 1', 'pe.sections[0]() == 1',
             'pe.imports(nosuch) == 1', 'pe.imports("a", nosuch) == 1', 'pe.imports("a", "b", "c", "d") == 1', 'pe.nosuch == 1', 'nosuchmodule.x == 1',
             '101% of them', '0% of them', '101% of (se*)', '0% of (se*)', 'ext_int% of them', 'ext_int% of (se*)', '5 of them in (0..1)', '3 of ($a) at 0', 'any of them at "x"',
             'all of them at 0', 'ext_int of them in (0..10)', 'ext_int of them at 0', 'ext_int of them', 'ext_int of (se*)', '3 of (se*)', '"s" of them', '1.5 of them',
             'any of ($nosuch*)', 'any of (nosuchrule*)', 'for any i in (1..2) : ( i == "s" )', 'for any i, j in (1..2) : ( i == 1 )', 'for any k in pe.version_info : ( k == "a" )',
             'for any a, b, c in pe.version_info : ( a == "a" )', 'for any i in pe.number_of_sections : ( i == 1 )', 'for any i in ("a"..2) : ( true )', 'for any i in (1, "a") : ( true )',
             '$a at "x"', '$a in (1.."x")', '$a in ("x"..2)', '#a in ("x"..2) == 1', '@a["x"] == 1', '!a["x"] == 1', 'uint8("x") == 1', '"a" + 1 == 2', 'not "a" == 1',
             '1 matches /a/', '"a" matches "a"', '"a" contains 1', '1 contains "a"', '1 startswith "a"', '"a" endswith 1', '"a" iequals 1', '-"a" == 1', '~"a" == 1', '1 << "a" == 1',
             '1 << 64 == 1', '1 >> -1 == 1', '1 \\ 0 == 1', '1 % 0 == 1', '9223372036854775807 + 1 == 0', '-9223372036854775807 - 2 == 0', '9223372036854775807 * 2 == 0',
             'defined nosuch', 'se2', 'filesize == "a"', '"a" == 1', '1.5 == "a"', 'true == 1', '"\\g" == "g"', '"abc" matches /\\g/']
    for c in CONDS:
        add('import "pe" rule se1 { strings: $a = "x" $b = "y" condition: %s }' % c, "semantic-error")
        add('import "pe" rule se0 { condition: true } rule se1 { strings: $a = "x" $b = "y" condition: ( %s ) and $a and $b } rule se3 { condition: se0 }' % c, "semantic-error")
    # ---- compiler switches: strict escapes (unknown escape = error instead of warning), includes disabled, file-system include callback, atom quality table
    for src in K.RULES:
        add(src, "switch:strict-escape", "S", opt="s")
    for src in K.RULES[::4]:
        add(src, "switch:atom-quality-table", None, opt="q")
        add(src, "switch:includes-disabled", None, opt="n")
    ESC = ["\\g", "\\y", "\\q", "\\e", "\\%", "\\:", "\\ ", "\\_", "\\Z"]
    ERRS = ["(ef", "+*", "a{5,2}", "[z-a]", "[", ")", "a{2,1}", "(?", "*x", "a{99999999}", "x**", "[a", "(", "a{2,1}b", "\\"]
    for e in ESC:
        for x in ERRS + ["", "cd"]:
            for o in ("s", ""):
                add('rule se { strings: $a = /ab%scd%s/ condition: $a }' % (e, x), "warning-then-error", "S", opt=o)
                add('rule se { condition: "abc" matches /%s+%s/ }' % (e, x), "warning-then-error", "S", opt=o)
                add('rule se { strings: $a = /[%s]a%s/ $b = "x%sy" condition: $a or $b }' % (e, x, e), "warning-then-error", "S", opt=o)
        add('rule se { strings: $a = "ab%scd" $b = { 01 [2-1] 02 } condition: $a and $b }' % e, "warning-then-error", "S", opt="s")
        add('rule se { strings: $a = "ab%scd" condition: $a and }' % e, "warning-then-error", "S", opt="s")
    for x in K.RE_BAD:
        add('rule x { strings: $a = %s condition: $a }' % x, "switch:strict-escape", "S", opt="s")
        add('rule x { condition: "abc" matches %s }' % x, "switch:strict-escape", "S", opt="s")
    for src in ['include "inc1" rule t { condition: inc_rule }', 'include "missing" rule t { condition: true }', 'rule a { condition: true } include "inc1"', 'include "']:
        add(src, "switch:includes-disabled", None, opt="n")
    # ---- fixed-size buffers: include path = directory of the including file + include name (1024-byte buffer), namespaces, file names, through every add_* entry point
    for k in (0, 1, 100, 500, 1000, 1017, 1022, 1023, 1024, 1030, 2000, 4096):
        for total in (1020, 1022, 1023, 1024, 1025, 1026, 1100, 2048, 5000, 8000):
            m = total - k - 1
            if m < 1 or m > 8100:
                continue
            fn = ("d" * k + "/f.yar") if k else "f.yar"
            for mode in ("F", "D"):
                add('include "%s" rule t { condition: true }' % ("n" * m), "include-path-length", mode, opt="d", fname=fn)
    for m in (1, 1000, 1022, 1023, 1024, 1025, 4000, 8100):
        for mode in ("S", "B", "F", "D"):
            add('include "%s" rule t { condition: true }' % ("n" * m), "include-path-length", mode, opt="d", fname="" if mode in ("F", "D") else None)
            add('include "/%s" rule t { condition: true }' % ("n" * m), "include-path-length", mode, opt="d", fname=("sub/dir/f.yar" if mode in ("F", "D") else None))
    for k in (1, 100, 1023, 1024, 1025, 5000, 70000):
        for mode in ("S", "B", "F", "D"):
            add('rule t { condition: true } rule u { condition: t }', "long-namespace", mode, ns="N" * k)
            add('rule t { condition: ', "long-namespace", mode, ns="N" * k, fname=("F" * k if mode in ("F", "D") else None))
            add('include "inc1" rule t { condition: inc_rule and nosuch }', "long-file-name", mode, fname=("F" * k + "/g.yar" if mode in ("F", "D") else None))
    # ---- LINE ORACLE: several independent errors / warnings at known lines; the reported (level, line, file) list must be exactly the expected one.
    # Every erroneous construct sits on one line together with the token that follows it (so the parser's look-ahead cannot move the line), except string
    # definitions inside multi-line rules, whose diagnostics carry the line of the definition.
    ITEMS = {"good": (["rule g%d { condition: true }"], []),
             "E_hex": (["rule e%d { strings: $a = { 01 [2-1] 02 } condition: $a }"], [("E", 0)]),
             "E_re": (["rule e%d { strings: $a = /a{2,1}/ condition: $a }"], [("E", 0)]),
             "E_undef": (["rule e%d { condition: nosuch%d == 1 }"], [("E", 0)]),
             "E_dup": (['rule e%d { strings: $a = "abcd" $a = "efgh" condition: $a }'], [("E", 0)]),
             "E_type": (['rule e%d { condition: "a" + 1 == 2 }'], [("E", 0)]),
             "E_unref": (['rule e%d { strings: $a = "abcd" condition: true }'], [("E", 0)]),
             "E_empty": (['rule e%d { strings: $a = "" condition: $a }'], [("E", 0)]),
             "E_syn": (["rule e%d { condition: true and }"], [("E", 0)]),
             "W_slow": (["rule w%d { strings: $a = { 00 00 } condition: $a }"], [("W", 0)]),
             "W_re": (["rule w%d { strings: $a = /.*abc/ condition: $a }"], [("W", 0)]),
             "W_of": (['rule w%d { strings: $a = "abcd" condition: 2 of ($a) }'], [("W", 0)]),
             "W_dep": (["rule w%d { condition: entrypoint == 0 }"], [("W", 0)]),
             "M_hex": (["rule m%d {", "  strings:", '    $a = "abcd"', "    $b = { 01 [2-1] 02 }", "  condition:", "    $a", "}"], [("E", 3)]),
             "M_re": (["rule m%d {", "  meta:", '    k = "v"', "  strings:", "    $b = /a{2,1}/ nocase", '    $c = "abcd"', "  condition: $c", "}"], [("E", 4)]),
             "M_dup": (["rule m%d {", "  strings:", '    $a = "abcd"', "", '    $a = "efgh"', "  condition:", "    $a }"], [("E", 4)]),
             "M_warn": (["rule m%d {", "  strings:", "    $a = { 00 00 }", '    $b = "abcd"', "  condition:", "    $a or $b", "}"], [("W", 2)]),
             "M_good": (["rule m%d {", "  strings:", '    $a = "abcd"', "  condition:", "    $a", "}"], [])}
    SEPS = ["", "", "\n", "\n\n\n", "// comment", "/* multi\nline\ncomment */", "   ", "// a\n// b"]
    uidc = [0]
    def build(n_items, tag, first_line=1):
        lines, exp, ln = [], [], first_line
        for k in range(n_items):
            for sep in [r.choice(SEPS)]:
                for sl in (sep.split("\n") if sep else []):
                    lines.append(sl); ln += 1
            name = r.choice(sorted(ITEMS))
            text, diags = ITEMS[name]
            for lv, off in diags:
                exp.append((lv, ln + off))
            uidc[0] += 1; uid = uidc[0]
            for tl in text:
                lines.append(tl % ((uid,) * tl.count("%d"))); ln += 1
        return "\n".join(lines) + "\n", exp
    for _ in range(70 if quick else 1500):
        src, exp = build(r.randint(3, 8), "m")
        mode = r.choice(["S", "S", "B", "F", "D"])
        fn = {"F": "mem.yar", "D": "fd.yar"}.get(mode, "-")
        units, uexp = [], []
        if not any(lv == "E" for lv, _ in exp) and r.random() < 0.8:      # further units are only added while no error occurred
            for _u in range(r.randint(1, 2)):
                us, ue = build(r.randint(2, 5), "u")
                units.append(us); uexp += [(lv, l, "-") for lv, l in ue]
                if any(lv == "E" for lv, _l in ue): break
        expected = ",".join("%s%d@%s" % (lv, l, fn) for lv, l in exp) + ("," if exp and uexp else "") + ",".join("%s%d@%s" % x for x in uexp)
        add(src, "line-oracle|" + (expected or "-"), mode, units=units)
    for _ in range(20 if quick else 300):                                   # diagnostics inside an included file carry the include's name and its own lines
        inc, iexp = build(r.randint(2, 5), "i")
        pre, pexp = build(r.randint(1, 3), "p")
        pre_lines = pre.count("\n")
        post, qexp = build(r.randint(1, 3), "q", first_line=pre_lines + 2)
        src = pre + 'include "incL"\n' + post
        if any(lv == "E" for lv, _ in pexp):
            continue
        expected = ",".join(["%s%d@-" % x for x in pexp] + ["%s%d@incL" % x for x in iexp] + ["%s%d@-" % x for x in qexp])
        add(src, "line-oracle|" + (expected or "-"), "S", {"incL": inc})
    # constant expressions at the arithmetic boundaries (a signal in the compiler is a CRASH observation of the forked child)
    MIN = "(-9223372036854775807 - 1)"
    for e in ["%s %% -1 == 0" % MIN, "%s \\ -1 == 0" % MIN, "%s %% 1 == 0" % MIN, "%s \\ 1 == 0" % MIN, "%s %% 0 == 0" % MIN, "%s \\ 0 == 0" % MIN, "1 %% 0 == 0", "1 \\ 0 == 0",
              "-1 %% -1 == 0", "9223372036854775807 %% -1 == 0", "9223372036854775807 \\ -1 == 0", "%s * -1 == 0" % MIN, "-%s == 0" % MIN, "%s - 1 == 0" % MIN,
              "9223372036854775807 + 1 == 0", "9223372036854775807 * 9223372036854775807 == 0", "%s * %s == 0" % (MIN, MIN), "1 << 63 == 0", "1 << 64 == 0", "1 << 65 == 0",
              "-1 >> 63 == 0", "-1 >> 64 == 0", "1 << -1 == 0", "%s >> 1 == 0" % MIN, "%s << 1 == 0" % MIN, "~%s == 0" % MIN, "%s & -1 == 0" % MIN, "0 %% -1 == 0", "0 \\ -1 == 0",
              "(%s %% -1) \\ (%s %% -1) == 0" % (MIN, MIN), "filesize %% -1 == 0", "filesize \\ -1 == 0", "%s %% (0 - 1) == 0" % MIN, "%s \\ (1 - 2) == 0" % MIN,
              "#a %% -1 == 0", "@a[1] \\ -1 == 0", "1.5 \\ 0 == 0", "1 \\ 0.0 == 0", "%s \\ -1.0 == 0" % MIN]:
        e = e.replace("%%", "%")
        add('rule ce { strings: $a = "abcd" condition: %s or $a }' % e, "constant-expression")
        add('rule ce { strings: $a = "abcd" condition: $a at (%s) or $a }' % e.rsplit(" == 0", 1)[0], "constant-expression")
        add('rule ce { strings: $a = "abcd" condition: for any i in (0..(%s)) : ( i == 1 ) or $a }' % e.rsplit(" == 0", 1)[0], "constant-expression")
    # chaining points (jumps above the chain threshold of 200) at every grammar-valid position of a regexp / hex string: first, last, next to groups and alternations
    J = [".{0,300}?", ".{250,}?", ".{201,300}?", ".{0,300}", ".{250,}", ".{201}", ".{300}?", ".*?", ".{0,200}?", ".{0,201}?"]
    for j in J:
        for body in ["abc%s", "%sabc", "abc%sdef", "abc%s%s", "%s", "a%sb%sc", "(abc%s)", "(abc|def)%s", "%s(abc|def)", "abc(%s)def", "abc%s|def", "abc|def%s", "abc%s$", "^%sabc",
                     "abc%s\\b", "abc(%sdef)?", "abc[a-z]%s", "abc%s[a-z]", "(abc%s)+def", "abc%s?def"]:
            rx = body.replace("%s", j)
            add('rule cp { strings: $a = /%s/ condition: $a }' % rx, "chaining-point")
        add('rule cp { strings: $a = /abc%s/ wide nocase $b = /%sabc/ fullword condition: $a or $b }' % (j, j), "chaining-point")
    for hj in ["[250-300]", "[201-]", "[201]", "[0-300]", "[-]", "[200]", "[0-200]", "[1000-2000]"]:
        for body in ["61 62 %s", "%s 61 62", "61 62 %s 63", "61 %s 62 %s 63", "61 %s %s 62", "( 61 | 62 ) %s 63", "61 %s ( 62 | 63 )", "61 ( 62 %s 63 | 64 ) 65", "61 ( 62 | 63 %s ) 64",
                     "61 ( %s 62 | 63 ) 64", "61 ?? %s ?? 62", "61 %s ~62", "6? %s ?2"]:
            add('rule cp { strings: $a = { %s } condition: $a }' % body.replace("%s", hj), "chaining-point")
    # ---- size boundaries of compiled regexps / hex strings: an alternation whose branch compiles to ~32 KiB / ~64 KiB (split offsets are 16-bit signed),
    # long concatenations; a source that compiles must also be scannable (the harness scans a small buffer with every accepted rule set)
    for KK in (900, 960, 985, 990, 992, 993, 994, 1000, 1100, 1500, 1900, 1980, 1985, 1986, 1990, 2000, 2100, 3000):
        big = "[a-c]" * KK
        for rx in ("(%s|x)y" % big, "(x|%s)y" % big, "%s|x" % big, "x|%s" % big, "((%s|x)|z)w" % big, "(%s)?x" % big, "(%s)*x" % big, "a(%s|%s)b" % (big[:len(big) // 2], big[len(big) // 2:])):
            add('rule sz { strings: $a = /%s/ condition: $a }' % rx, "compiled-size-boundary", "S")
        add('rule sz { condition: "abc" matches /(%s|x)y/ }' % big, "compiled-size-boundary", "S")
    for KK in (1000, 2000, 4000, 8000, 16000, 32000, 33000):
        add('rule sz { strings: $a = { ( %s | 00 ) 01 } condition: $a }' % ("4? " * KK), "compiled-size-boundary", "S")
        add('rule sz { strings: $a = { 01 ( 00 | %s ) } condition: $a }' % ("?? 41 " * (KK // 2)), "compiled-size-boundary", "S")
    # ---- arena growth flavour: every allocation moves the buffers (hook yr_verif_arena_always_move) / 64-byte initial buffers: the valid corpus, chained
    # strings (several fragments), many strings / rules, loops, includes — a pointer the compiler keeps across an allocation faults under ASan
    for src in K.RULES:
        add(src, "arena-growth", None, opt="g")
        add(src, "arena-growth", None, opt="i")
    for j in (".{0,300}?", ".{250,}?", ".{300}"):
        for body in ("abc%sdef", "abc%sdef%sghi", "a%sb%sc%sd", "(abc|xyz)%sdef"):
            for o in ("g", "i", "gi"):
                add('rule ag { strings: $a = /%s/ $b = "tail" $c = /%s/ wide condition: any of them }' % (body.replace("%s", j), body.replace("%s", j)), "arena-growth", "S", opt=o)
    for hj in ("[250-300]", "[201-]", "[1000-2000]"):
        for body in ("61 62 %s 63 64", "61 %s 62 %s 63", "61 62 %s 63 64 %s 65 66 %s 67"):
            for o in ("g", "i"):
                add('rule ag { strings: $x = "head" $a = { %s } $b = { %s } condition: any of them } rule ag2 { strings: $a = { %s } condition: $a and ag }' %
                    (body.replace("%s", hj), body.replace("%s", hj), body.replace("%s", hj)), "arena-growth", "S", opt=o)
    add('rule ag { strings: %s condition: any of them }' % " ".join('$s%d = "str%d"' % (i, i) for i in range(300)), "arena-growth", "S", opt="g")
    add(" ".join('rule many%d { strings: $a = "x%d" condition: $a }' % (i, i) for i in range(200)), "arena-growth", "S", opt="g")
    add('import "pe" rule a { condition: for any s in pe.sections : ( for any i in (1..3) : ( s.raw_data_size > i ) ) }', "arena-growth", "S", opt="gi", units=['rule b { strings: $a = /abc.{0,300}?def/ condition: $a }'])
    add('include "inc2" rule t { condition: inc2_rule }', "arena-growth", "S", opt="gi")
    # ---- default (file-system) include callback on things that are not regular files, missing files and a regular file: the error must be diagnosed AND
    # the descriptor count of the process unchanged (harness: /proc/self/fd before and after)
    okinc = os.path.join(core.OUT, "C07", "inc_ok.yar")
    os.makedirs(os.path.dirname(okinc), exist_ok=True)
    open(okinc, "w").write('rule from_file { condition: true }\n')
    for target in (".", "..", "/", "/tmp", "/dev/null", "/dev/zero", "/proc/self/fd", "/proc/self", os.path.dirname(okinc), okinc, okinc + ".missing", "/nonexistent/x.yar", "", "libyara"):
        for mode in ("S", "F", "D"):
            add('include "%s" rule t { condition: true }' % target, "include-non-regular", mode, opt="d", fname=("f.yar" if mode in ("F", "D") else None))
            add('rule a { condition: true } include "%s" include "%s" include "%s" rule t { condition: a }' % (target, target, target), "include-non-regular", mode, opt="d",
                fname=("f.yar" if mode in ("F", "D") else None))
    # oversized tokens around YR_LEX_BUF_SIZE (8192) and far beyond
    L = 8192
    for n in [L - 3, L - 2, L - 1, L, L + 1, L + 2, 2 * L, 70000] + ([] if quick else [1 << 20]):
        a = "A" * n
        add('rule %s { condition: true }' % a, "oversize-identifier")
        add('rule o { strings: $%s = "x" condition: $%s }' % (a, a), "oversize-identifier")
        add('rule o { strings: $a = "%s" condition: $a }' % a, "oversize-string")
        add('rule o { strings: $a = "%s\\x41" condition: $a }' % a[:-3], "oversize-string")
        add('rule o { strings: $a = /%s/ condition: $a }' % a, "oversize-regex")
        add('rule o { strings: $a = /%s\\x41[a-z]/ condition: $a }' % a[:-8], "oversize-regex")
        add('rule o { strings: $a = { %s } condition: $a }' % ("41 " * (n // 3)), "oversize-hex")
        add('rule o { meta: m = "%s" condition: true }' % a, "oversize-string")
        add('rule o : %s { condition: true }' % a, "oversize-identifier")
        add('import "%s" rule o { condition: true }' % a, "oversize-string")
        add('include "%s" rule o { condition: true }' % a, "oversize-string")
        add('rule o { condition: %s }' % a, "oversize-identifier")
        add('rule o { condition: "%s" contains "x" }' % a, "oversize-string")
        add('rule o { condition: %s }' % ("9" * min(n, 20000)), "oversize-number")
        add('rule o { strings: $a = "x" condition: $a /* %s */ }' % a, "oversize-comment")
        add('rule o { strings: $a = "x" condition: $a // %s' % a, "oversize-comment")
    # deep nesting
    for d in [1, 4, 5, 31, 32, 33, 100, 1000, 5000] + ([] if quick else [20000, 100000]):
        add('rule n { condition: %strue%s }' % ("(" * d, ")" * d), "nest-parens")
        add('rule n { condition: %s true }' % ("not " * d), "nest-not")
        add('rule n { condition: %s }' % " or ".join(["true"] * d), "long-or")
        add('rule n { condition: %s1%s == 1 }' % ("(1 + " * d, ")" * d), "nest-arith")
        add('rule n { condition: %s1%s == 1 }' % ("-(" * d, ")" * d), "nest-arith")
        if d <= 1000:
            add('rule n { strings: $a = /%sa%s/ condition: $a }' % ("(" * d, ")" * d), "nest-regex")
            add('rule n { strings: $a = /%s/ condition: $a }' % "|".join(["ab"] * d), "nest-regex")
            add('rule n { strings: $a = /%s/ condition: $a }' % ("a?" * d), "nest-regex")
            add('rule n { strings: $a = { %s 01 %s } condition: $a }' % ("( " * d, ") " * d), "nest-hex")
            add('rule n { strings: $a = { 01 %s } condition: $a }' % ("( 02 | 03 ) " * d), "nest-hex")
            add('rule n { strings: $a = { 01 %s } condition: $a }' % ("[1-2] 02 " * d), "nest-hex")
            add('rule n { strings: %s condition: any of them }' % " ".join('$s%d = "str%d"' % (i, i) for i in range(d)), "many-strings")
            add(" ".join('rule many%d { condition: true }' % i for i in range(d)), "many-rules")
            add('import "pe" rule n { condition: pe.imports(%s) }' % ", ".join(['"a"'] * d), "many-args")
        if d <= 33:
            loops = "".join("for any i%d in (0..2) : ( " % i for i in range(d))
            add('rule n { condition: %s true %s }' % (loops, ")" * d), "nest-for")
            add('rule n { strings: $a = "a" condition: %s true %s }' % ("for any of them : ( " * d, ")" * d), "nest-for")
            add('rule n { condition: %s i0 == ) %s }' % (loops, ")" * d), "nest-for+error")
            add('rule n { condition: %s i0 == "x" %s } rule after { condition: for any j in (1..2) : ( j == 1 ) }' % (loops, ")" * d), "nest-for+error")
    # include chains
    chain = {"c%d" % i: 'include "c%d" rule chain%d { condition: true }' % (i + 1, i) for i in range(20)}
    for depth in [1, 2, 15, 16, 17, 20]:
        ch = dict((k, v) for k, v in chain.items() if int(k[1:]) < depth)
        ch["c%d" % depth] = 'rule chain_end { condition: true }'
        add('include "c0" rule top { condition: chain_end }', "include-chain", "S", ch)
    add('include "self" rule t { condition: true }', "include-circular", "S", {"self": 'include "self" rule s { condition: true }'})
    add('include "a1" rule t { condition: true }', "include-circular", "S", {"a1": 'include "b1"', "b1": 'include "a1"'})
    add('include "missing" rule t { condition: true }', "include-missing", "S")
    add('include "bad" rule t { condition: true }', "include-error-inside", "S", {"bad": 'rule b { condition: '})
    add('include "bad" rule t { condition: true }', "include-error-inside", "S", {"bad": 'rule b { strings: $a = "unterminated'})
    add('include "bad" rule t { condition: b }', "include-error-inside", "S", {"bad": 'rule b { strings: $a = { 01 [2-1] } condition: $a } rule c { condition: true }'})
    add('include "e" rule t { condition: true }', "include-empty", "S", {"e": ''})
    for ts in toks[:20]:
        s = join(ts)
        cut = r.randrange(len(s) + 1)
        add('include "part" rule after_inc { condition: true }', "include-error-inside", "S", {"part": s[:cut]})
    # NUL and random bytes
    for ts in toks:
        s = join(ts).encode("latin1", "replace")
        k = r.randrange(len(s) + 1)
        add(s[:k] + b"\x00" + s[k:], "nul-byte", "B")
        k = r.randrange(len(s))
        add(s[:k] + bytes([r.getrandbits(8)]) + s[k + 1:], "byte-flip", "B")
    for _ in range(150 if quick else 5000):
        n = r.choice([0, 1, 2, 5, 20, 100, 1000])
        kind = r.random()
        if kind < 0.4:
            add(bytes(r.getrandbits(8) for _ in range(n)), "random-bytes", "B")
        elif kind < 0.7:
            add("".join(r.choice(K.KEYWORDS + K.PUNCT + K.LITERALS) + " " for _ in range(n % 60)), "random-tokens")
        else:
            add("".join(chr(r.randrange(32, 127)) for _ in range(n)), "random-printable")
    return cases, meta



COV_OBJECTS = ["grammar", "lexer", "hex_grammar", "hex_lexer", "re_grammar", "re_lexer"]


def parser_coverage(cases, jobs_timeout=3000):
    """gcov counting of which grammar actions / lexer rules the generated inputs reach (coverage build, no sanitizers).
    -> {source file: {"units": n, "reached": m, "not_reached": [...]}}; a unit is a grammar alternative with an action or a lexer rule."""
    import subprocess, shutil
    b = core.build("plain", harness=["h_compile"], extra_defs="--coverage -DVERIF_COV", tag="cov")
    odir = os.path.join(b["dir"], "o")
    for f in glob.glob(os.path.join(odir, "*.gcda")) + glob.glob(os.path.join(b["dir"], "bin", "*.gcda")):
        os.remove(f)
    core.run_parallel([b["h_compile"], "10"], cases, timeout=jobs_timeout)
    import json as _json
    lines = {}            # source file (relative to the repo) -> {line: count}
    for o in COV_OBJECTS:
        gcda = os.path.join(odir, "libyara_%s.gcda" % o)
        if not os.path.exists(gcda):
            continue
        r = subprocess.run(["gcov", "--json-format", "--stdout", "-o", odir, gcda], cwd=odir, stdout=subprocess.PIPE, stderr=subprocess.PIPE, text=True)
        for doc in r.stdout.splitlines():
            try:
                j = _json.loads(doc)
            except ValueError:
                continue
            for f in j.get("files", []):
                fn = f["file"]
                if fn.endswith((".y", ".l")):
                    d = lines.setdefault(os.path.basename(fn), {})
                    for l in f["lines"]:
                        d[l["line_number"]] = d.get(l["line_number"], 0) + l["count"]
    rep = {}
    for name, cnts in sorted(lines.items()):
        srcp = os.path.join(core.REPO, "libyara", name)
        if not os.path.exists(srcp):
            continue
        units, cur, order = {}, None, []
        nt = ""
        in_rules = False
        for ln, text in enumerate(open(srcp, errors="replace").read().split("\n"), 1):
            if text.startswith("%%"):
                in_rules = not in_rules if name.endswith(".l") else True
                cur = None
                continue
            if name.endswith(".y"):
                m = re.match(r"^([a-z_]+)\s*$", text)
                if m: nt = m.group(1)
                if re.match(r"^\s+[:|](\s|$)", text):
                    cur = "%s @%d %s" % (nt, ln, " ".join(text.split())[:60]); units[cur] = [0, 0]; order.append(cur)
            elif in_rules and text and not text[0].isspace() and text[0] not in "}%/#*":
                cur = "@%d %s" % (ln, text.strip()[:60]); units[cur] = [0, 0]; order.append(cur)
            if cur and ln in cnts:
                units[cur][0] += 1
                if cnts[ln] > 0:
                    units[cur][1] += 1
        act = [u for u in order if units[u][0] > 0]
        rep[name] = {"units": len(act), "reached": sum(1 for u in act if units[u][1] > 0), "not_reached": [u for u in act if units[u][1] == 0],
                     "code_lines": len(cnts), "code_lines_reached": sum(1 for v in cnts.values() if v > 0),
                     "lines_not_reached": sorted(k for k, v in cnts.items() if v == 0)}
    return rep


def signature(line):
    if " TIMEOUT" in line:
        return ("timeout", "-")
    msg = line.split("msg=", 1)[1] if "msg=" in line else ""
    m = re.search(r"ERROR: (?:Address|Leak)Sanitizer: ([\w-]+)", msg)
    if m:
        kind = "memory-leak" if m.group(1) == "detected" else m.group(1)
    else:
        m = re.search(r"runtime error: (.*?) ##", msg)
        if m:
            kind = "ubsan:" + re.sub(r"0x[0-9a-f]+|-?\d+", "N", m.group(1))[:70].strip().replace(" ", "_")
        else:
            m2 = re.search(r"exit=(-?\d+) signal=(\d+)", line)
            kind = "exit%s/signal%s" % (m2.group(1), m2.group(2)) if m2 else "unknown"
    fn = "-"
    for f, path in re.findall(r"#\d+ 0x[0-9a-f]+ in (\S+) (\S+)", msg):
        if "/libyara/" in path and f not in ("yr_malloc", "yr_calloc", "yr_realloc", "yr_strdup", "yr_strndup", "yr_free", "sized_string_dup", "sized_string_new"):
            fn = f
            break
    return (kind, fn)


def protocol_problem(fields):
    """conclusions of Thm/C07 checked on one real compilation; returns a description or None"""
    errs, cb = int(fields["errs"]), int(fields["cb"])
    if (errs > 0) != (cb > 0):
        return "ret_pos_iff_callback: return value %d but %d error callback(s)" % (errs, cb)
    if errs != cb:
        return "ret_eq_errors: return value %d != %d error callbacks" % (errs, cb)
    if fields["msgok"] != "1":
        return "an error callback had an empty message (last error %s)" % fields.get("lasterr")
    if fields["lineok"] != "1":
        return "every_error_has_line: %s error callback(s) had line < 1 (first such message: %s)" % (fields.get("l0"), fields.get("l0msg") if fields.get("l0") != fields.get("l0eof") else "unexpected end of file")
    if fields.get("fds", "0") != "0":
        return "the compilation changed the number of open file descriptors of the process by %s (descriptor leak)" % fields.get("fds")
    if fields["follow"] != "ok":
        return "follow-up compile+scan in the same process: %s" % fields["follow"]
    if errs == 0 and fields["rules"] != "1":
        return "compilation reported success but yr_compiler_get_rules failed (%s)" % fields["scan"]
    if errs == 0 and fields["scan"] not in ("OK", "SCAN_TIMEOUT", "TOO_MANY_MATCHES", "TOO_SLOW_SCANNING", "TOO_MANY_RE_FIBERS", "EXEC_STACK_OVERFLOW"):  # documented engine limits (C15), not crashes
        return "scan with freshly compiled rules failed: %s" % fields["scan"]
    return None


def run(tier, replay=None):
    chk = core.Check("C07", tier)
    for f in glob.glob(os.path.join(core.OUT, "C07", "*.json")):
        os.remove(f)
    tr = core.run_translators(["grammar_tables"])
    status = json.load(open(os.path.join(core.LEAN, "YaraModel", "Gen", "GrammarTables.status.json")))
    lres = core.lean_check(THM, need_driver=False)
    core.proof_coverage(chk, lres, THM, tr)
    b = core.build("asan", harness=["h_compile"], extra_defs="-fno-sanitize=alignment", tag="noalign")
    known = core.known_findings("C07")
    r = core.rng("C07")
    cases, meta = gen_cases(r, tier)
    if replay:
        cases = [replay["case"]]
        meta = {cases[0].split(" ")[0]: "replay"}
    tmo = "10" if tier == "quick" else "60"
    # stage 1: a sentinel sample (corpus + every 15th case); when it already shows hangs/crashes, the full campaign (thousands of cases
    # that may each run into the per-case timeout) is skipped and the sentinel's failures are reported
    sentinel = cases[:len(K.RULES)] + cases[len(K.RULES)::15]
    out, rc, err = core.run_parallel([b["h_compile"], tmo], sentinel, timeout=3000)
    bad1 = sum(1 for l in out if " ok " not in l[:14])
    staged = "sentinel-only" if (bad1 > 25 and not replay) else "full"
    if staged == "full" and not replay:
        rest = [c for c in cases if c not in set(sentinel)]
        out2, rc2, err2 = core.run_parallel([b["h_compile"], tmo], rest, timeout=3000)
        out, rc, err = out + out2, rc or rc2, err or err2
    elif not replay:
        cases = sentinel
    found = False
    if rc != 0 or len(out) != len(cases):
        chk.violation("harness_crash.json", {"kind": "harness-crash", "engine": "compile", "harness": "h_compile", "rc": rc, "stderr": err, "answered": len(out)})
        found = True
    byid = {c.split(" ", 1)[0]: c for c in cases}
    hist, kinds, outcomes = collections.Counter(), collections.Counter(), collections.Counter()
    # every crash / leak / timeout is re-run once alone (no parallel load, generous timeout): compilation is deterministic, so a genuine failure
    # reproduces; a time-out or a LeakSanitizer tracer hiccup caused by machine load does not and is only counted
    bad = [l.split(" ", 1)[0] for l in out if " ok " not in l[:14]]
    if bad and len(bad) <= 60 and not replay:
        rout, rrc, rerr = core.run_lines([b["h_compile"], "120"], [byid[c] for c in bad if c in byid], timeout=3000)
        redo = {l.split(" ", 1)[0]: l for l in rout}
        out = [redo.get(l.split(" ", 1)[0], l) if " ok " not in l[:14] else l for l in out]
        outcomes["not_reproduced_when_rerun_alone"] = sum(1 for c in bad if " ok " in redo.get(c, "")[:14])
    sigs = collections.defaultdict(list)
    nontrivial = set()
    nprob = 0
    for l in out:
        cid = l.split(" ", 1)[0]
        hist[meta.get(cid, "?").split("|")[0]] += 1
        if l.startswith(cid + " ok "):
            f = dict(kv.split("=", 1) for kv in l.split(" ")[2:] if "=" in kv)
            kinds[f.get("kind", "-")] += 1
            outcomes["errors>1" if int(f["errs"]) > 1 else ("errors=1" if f["errs"] == "1" else "compiled")] += 1
            if int(f["warn"]) > 0: outcomes["with-warnings"] += 1
            if meta.get(cid) == "valid" and f["errs"] != "0" and not replay:
                raise RuntimeError("corpus rule does not compile: %s -> %s" % (byid[cid][:200], l))
            if int(f["errs"]) > 0 and meta.get(cid) != "valid":
                nontrivial.add(byid[cid].split(" ", 1)[1])
            p = protocol_problem(f)
            if p is None and meta.get(cid, "").startswith("line-oracle|"):
                want = meta[cid].split("|", 1)[1]
                outcomes["line_oracle_checked"] += 1
                if f.get("diag") != want:
                    p = "line provenance: diagnostics (level line @file, in order) reported %s, expected %s" % (f.get("diag"), want)
            if p and f["msgok"] != "1":
                # a listed finding names the error code whose message is empty; any other code with an empty message is a violation
                kf = [x for x in known if x["signature"].get("empty_message") and x["signature"].get("last_error") == f.get("lasterr")]
                if kf and protocol_problem(dict(f, msgok="1")) is None:
                    outcomes["empty_message:" + f.get("lasterr", "?")] += 1
                    if not any(k[0] is kf[0] for k in chk.known_hit):
                        chk.known(kf[0], "%s error callback with an empty message for %s, e.g. `%s`" %
                                  (kf[0]["id"], f.get("lasterr"), bytes.fromhex(byid[cid].split(" ")[2].replace("-", ""))[:160].decode("latin1")))
                    p = None
            if p and nprob < 10:
                nprob += 1
                chk.violation("protocol_%d.json" % nprob, {"kind": "error-protocol-violation", "engine": "compile", "harness": "h_compile", "case": byid[cid],
                                                           "source_text": bytes.fromhex(byid[cid].split(" ")[2].replace("-", ""))[:2000].decode("latin1"),
                                                           "implementation": l, "model_spec": p})
                found = True
        else:
            sigs[signature(l)].append((byid.get(cid), l[:5000]))
    n = 0
    for (kind, fn), lst in sorted(sigs.items()):
        outcomes["report:%s@%s" % (kind, fn)] = len(lst)
        def top_frame(l):
            m = re.search(r"#0 0x[0-9a-f]+ in \S+ (\S+?):(\d+)", l)
            return "%s:%s" % (os.path.basename(m.group(1)), m.group(2)) if m else "-"
        kf = [f for f in known if f["signature"].get("kind") == kind and (f["signature"].get("function") == fn or
                                                                           ("frame" in f["signature"] and all(top_frame(l) in [g["signature"].get("frame") for g in known if g["signature"].get("kind") == kind] for _c, l in lst)))]
        if kf and any(k[0]["id"] == kf[0]["id"] for k in chk.known_hit):
            continue
        if kf:
            chk.known(kf[0], "%s %s (%s) on %d input(s), e.g. `%s`" % (kf[0]["id"], kind, fn, len(lst),
                                                                     bytes.fromhex(lst[0][0].split(" ")[2].replace("-", ""))[:120].decode("latin1")))
            continue
        for case, l in lst[:2]:
            n += 1
            chk.violation("sanitizer_%d.json" % n, {"kind": "crash-leak-or-hang", "engine": "compile", "harness": "h_compile", "case": case,
                                                    "source_text": bytes.fromhex(case.split(" ")[2].replace("-", ""))[:2000].decode("latin1") if case else None,
                                                    "signature": {"kind": kind, "function": fn}, "implementation": l,
                                                    "model_spec": "compilation terminates, no ASan/UBSan/LSan report, compiler destroyable"})
            found = True
    if (tier == "thorough" or os.environ.get("VERIF_C07_COV")) and not replay:
        qr = core.rng("C07")
        qcases, _ = gen_cases(qr, "quick")
        pc = parser_coverage(qcases)
        chk.cov["parser_coverage_of_quick_tier_inputs"] = pc
        for fn, v in sorted(pc.items()):
            print("COVERAGE property=C07 %s: %d of %d grammar alternatives / lexer rules with code reached by the quick-tier inputs; not reached: %s" %
                  (fn, v["reached"], v["units"], "; ".join(v["not_reached"][:12]) or "-"))
    core.handle_broken_proof(chk, lres, found)
    chk.cov.update({
        "evaluations": len(cases), "distinct_nontrivial": len(nontrivial),
        "rule": "grammar-aware mutations of 62 valid rules; non-trivial = the real compiler rejected the text with >= 1 diagnosed error (so an error path, a bison "
                "destructor/recovery path or a sub-parser error path ran)",
        "samples": [cases[len(K.RULES) + 7][:300], cases[-1][:300]] if len(cases) > len(K.RULES) + 7 else cases[:1],
        "by_mutation": dict(hist), "campaign": staged, "first_error_kinds": dict(kinds.most_common(60)), "outcomes": dict(outcomes),
        "grammar_tables": {k: {kk: vv for kk, vv in v.items() if kk != "union"} for k, v in status.items()},
        "traces_validated_against_impl": sum(1 for l in out if " ok " in l[:12]),
    })
    chk.assumptions += ["no allocation failure during set-up (silent `errors = 1` paths of yr_compiler_add_* / yr_lex_parse_rules_*; C16)",
                        "a callback is installed (without one nothing is reported: no_callback_no_log)",
                        "the event alphabet of the protocol model is hand-derived from grammar.y / lexer.l / the bison skeleton",
                        "crash/leak/termination behaviour of the real parser is sampled (sanitizers), not proved"]
    return chk.finish("proof")
