"""C10 — a scanner's results do not depend on its scan history.
Random histories on ONE scanner (PE / ELF / text / empty buffers, single- and multi-block iterators; outcomes: success,
CALLBACK_ABORT / CALLBACK_ERROR at message k, timeout by a stalling iterator, too-many-matches (build with
YR_MAX_STRING_MATCHES=5), evaluation error (tiny stack), iterator error, suspended by not-ready and resumed / abandoned).
Three comparisons per call: real scanner vs. a freshly created scanner replaying the same logical scan (no model needed),
real scanner vs. the Lean model (Model/Scanner.lean, variant with the proposed fixes), and LeakSanitizer after the scanner
is destroyed. Thm/C10.lean is re-checked on every run."""
import os, hashlib
from vf import core
from vf.checks import scanlib as sl

THM = ["YaraModel.Thm.C10"]
MANIFEST = dict(
    technique="Lean 4 proof over a state-machine model of yr_scanner_scan_mem_blocks (all histories, all parameter instantiations) "
              "+ history correspondence against the real scanner (differential vs. fresh scanner, vs. model, LeakSanitizer)",
    text="proof: Thm/C10.lean proves for the model of scanner.c/exec.c/modules.c state handling (string matching, conditions, module "
         "parsing abstract) that every outcome except 'suspended' leaves the scanner clean (scan_restores_clean), the invariant along "
         "all histories, and history_independent: after ANY history of calls a scan yields call by call the trace of a new scanner "
         "(for the code with the entry-point reset and abandoned-scan fixes; the 4.5.2 code is refuted by kernel-checked witnesses F6/F7). "
         "The model is tied to the code by random histories run on the real scanner and on the compiled model (exact trace equality), "
         "each call also replayed on a fresh real scanner; leaks by LSan after destroying the scanner at the end of every (prefix) history. "
         "Histories also contain yr_scanner_set_flags with every flag combination and yr_scanner_scan_proc (own child process, or a pid that "
         "cannot be attached); settings_survive proves that only set_* calls change the settings, and the fresh scanner of the comparison "
         "gets the settings last given. Rule sets use every place-dependent string operator and regexp strings. "
         "Sampled only: the correspondence model<->C (histories, rule sets, buffers are generated, not exhaustive).",
    design_ref="DESIGN.md §4 D10, §5 C10",
    note=core.TB + "String matching / condition evaluation / PE-ELF parsing are parameters of the model; in the tie they are instantiated "
         "with facts computed in Python (literal search, header fields, exefiles.c entry point, md5). Timeouts are forced by an iterator "
         "that rewinds the scanner's stopwatch (virtual stall), never by real time. Chained strings are modelled for chains of plain byte pieces below the match limit (the limit on the unconfirmed lists is not);  "
         "external variables (C20) and profiling are outside the model.")

MAXM = 5
FLAGS = [0, 0, 8, 16, 24]          # report flags only (C13)
ALLFLAGS = [0, 0, 8, 16, 24] + list(range(32))   # every combination of FAST_MODE, PROCESS_MEMORY, NO_TRYCATCH, REPORT_*


def build_tag(base):
    repo = os.environ.get("VERIF_REPO", "/repo")
    return base if repo == "/repo" else base + "-" + hashlib.sha1(repo.encode()).hexdigest()[:6]


def rand_text(r, heavy, extra=()):
    # "ABxCDxCX" etc.: several candidates for the jump of { 41 42 [0-4] 43 44 }, the farthest one rejected later, a nearer one matching
    words = [b"hello", b"world", b"ab", b" ", b"xyz", b"he", b"w", b"aa", b"b", b"\x00", b"hello world", b"xyyz",
             b"ABxCDxCX", b"ABCxCDCC", b"ABxxCxCD"] + list(extra)
    t = b"".join(r.choice(words) for _ in range(r.randint(2, 12)))
    if heavy:
        t += b"a" * r.randint(MAXM + 2, MAXM + 6)
    return t + r.choice([b"", b"hello", b"zz"])


# chained strings (hex strings split at [-] / a jump >= 200): head, tail and middle pieces are strings of their own
H1, T1 = bytes.fromhex("aabbccdd"), bytes.fromhex("eeff0011")
H2, T2 = bytes.fromhex("01020304"), bytes.fromhex("05060708")
H3, M3, T3 = bytes.fromhex("f1f2f3f4"), bytes.fromhex("e1e2e3e4"), bytes.fromhex("d1d2d3d4")
CHAINS = [sl.Chain([H1, T1], [(0, None)]), sl.Chain([H2, T2], [(250, 300)]), sl.Chain([H3, M3, T3], [(0, None), (250, 300)])]


def chain_inputs(r):
    """buffers with only heads, only tails, heads and tails at compatible / incompatible distances (filler: '.')"""
    def buf(items, size):
        b = bytearray(b"." * size)
        for off, piece in items:
            b[off:off + len(piece)] = piece
        return sl.Input(bytes(b))
    a = r.randint(0, 20)
    outs = [
        buf([(a, H1), (a + 30, H2), (a + 50, H3)], 120),                                        # heads only
        buf([(a + 5, T1), (a + 300, T2), (a + 40, M3), (a + 330, T3)], 400),                      # tails (and a middle) only
        buf([(a, H1), (a + r.randint(4, 60), T1)], 100),                                          # [-]: compatible
        buf([(a + 40, H1), (a, T1)], 100),                                                        # tail BEFORE head
        buf([(a, H2), (a + 4 + r.choice([250, 275, 300]), T2)], 420),                             # [250-300]: compatible
        buf([(a, H2), (a + 4 + r.choice([100, 249, 301, 350]), T2)], 420),                        # [250-300]: out of range
        buf([(a, H3), (a + 20, M3), (a + 24 + r.choice([250, 300]), T3)], 420),                   # three pieces, complete
        buf([(a, H3), (a + 24 + 260, T3)], 420),                                                  # three pieces, middle missing
        buf([(a, H1), (a + 10, H1), (a + 40, T1), (a + 60, H2)], 120),                            # two heads, one tail, a stray head
        buf([(a, H2), (a + 340, H2), (a + 344 + r.choice([250, 280]), T2)], 700),                 # decoy head too far, second head right
    ]
    return r.sample(outs, r.randint(3, 5))


# bounded gaps verified by the regexp engine: /start.{4,8}end/ (greedy, no /s: '.' is not a newline), /start.{4,8}?end/, and the hex string
# { 73 74 61 ( 72 | 52 ) 74 [4-8] 65 6e 64 }; inputs that END inside the gap, have a newline inside it, a gap below the minimum / at the
# maximum / above it. The fibers (with their repeat counters) come from the scanner's pool.
GAP_WORDS = [b"start12", b"startXend", b"start1234end", b"start12\n34end", b"start12345678end", b"start123456789end", b"staRt1234end",
             b"start12\n", b"startend", b"start123"]


def gap_inputs(r):
    outs = [sl.Input(w) for w in r.sample(GAP_WORDS, 4)]
    outs.append(sl.Input(b" ".join(r.sample(GAP_WORDS, 3)) + r.choice([b"", b" start12", b" start1"])))
    return outs


def gen_pool(r, bomb=False):
    """inputs of one case; returns list of Input (single block) + description"""
    pool = []
    extra = [b"cd", b"ccd"] if bomb else []
    pool.append(sl.repo_input("tests/data/tiny") if r.random() < 0.2 else
                sl.Input(sl.synth_pe(0x1000 + r.choice([0, 0x10, 0x24, 0x80]), r.choice([b"hello", b"", b"aaab world"]))))
    pool.append(sl.repo_input("tests/data/elf_with_imports") if r.random() < 0.15 else
                sl.Input(sl.synth_elf32(0x8048000 + r.choice([0x54, 0x60, 0x7f]), r.choice([b"world hello", b"", b"aa"]))))
    pool.append(sl.Input(rand_text(r, r.random() < 0.5, extra)))
    pool.append(sl.Input(b""))
    if bomb:
        pool.append(sl.Input(b"c" * 5000))      # makes the regexp engine run out of fibers
    u = r.random()
    if u < 0.4:
        pool.append(sl.Input(rand_text(r, r.random() < 0.5, extra)))
    elif u < 0.7:
        pool.append(sl.Input(sl.synth_pe(0x1000 + r.choice([4, 0x30, 0x44]), b"hello hello")))
    r.shuffle(pool)
    return pool


def gen_ruleset(r, pool, bomb=False, pad=None, chains=False, gaps=False):
    """pad: None | 'strings' | 'rules' | 'ns9' | 'ns65' — filler strings / rules / namespaces in FRONT of everything else, so that
    every string / rule / namespace that matters has an index beyond the first word (and byte) of the scanner's bitmaps and arrays"""
    eps = sorted(({sl.entry_point_offset(i.data) for i in pool} | {sl.entry_point_address(i.data, 0) for i in pool}) - {None})
    sizes = sorted({len(i.data) for i in pool})
    pes = sorted({sl.pe_module_field(i.data) for i in pool} - {None})
    elfs = sorted({sl.elf_module_field(i.data) for i in pool} - {None})
    rules = []
    nstr = [0]

    ns0 = [0]

    def add(cond, ns=0, flags="", strings=(), filler=False):
        rules.append(dict(ns=ns0[0] + ns, flags=flags, strings=list(strings), cond=cond, filler=filler))
        nstr[0] += sum(sl.nidx(x) for x in strings)

    def sid():
        return nstr[0]
    if pad in ("ns9", "ns65"):
        n = r.randint(9, 12) if pad == "ns9" else r.randint(65, 70)
        for k in range(n):
            rules.append(dict(ns=k, flags="p", strings=[], cond=("ff",), filler=True))
        ns0[0] = n
    if pad == "strings":
        n = r.randint(64, 70)
        fill = [bytes([0xFE, 0xFD, 0x01, k]) for k in range(n)]
        c = ("str", 0)
        for k in range(1, n):
            c = ("or", c, ("str", k))
        add(c, flags=r.choice(["p", ""]), strings=fill)
    if pad == "rules":
        for k in range(r.randint(64, 70)):
            add(r.choice([("ff",), ("ff",), ("tt",)]), flags="p")
    use_burn = r.random() < 0.6
    if use_burn:
        add(("burn",))
    if r.random() < 0.4:
        add(("fsge", r.choice([1, 1, 30])), flags=r.choice(["g", "gp"]))
    s_hello = sid(); add(("str", s_hello), strings=[b"hello"])
    s_aa = sid(); add(("cnt", s_aa, r.choice([1, 2, 4])), strings=[b"aa"])
    s_w = sid(); add(r.choice([("at", s_w, 6), ("and", ("str", s_w), ("fsge", 12)), ("or", ("at", s_w, 0), ("fseq", 0))]), strings=[b"world"])
    # regular-expression strings: their verification uses the scanner's fiber pool
    if r.random() < 0.8:
        s_r = sid(); add(r.choice([("str", s_r), ("cnt", s_r, 2)]), strings=[sl.Rx("xy+z")])
    if r.random() < 0.6:
        s_r = sid(); add(("str", s_r), strings=[sl.Rx("w[a-ce-z]{2,4}d")])
    if gaps:
        for st in r.sample([sl.Rx("start.{4,8}end"), sl.Rx("start.{4,8}?end"), sl.Rx("sta[rR]t.{2,5}end"),
                            sl.HexAlt(b"sta", b"rR", b"t", 4, 8, b"end")], r.randint(2, 4)):
            s_r = sid(); add(r.choice([("str", s_r), ("cnt", s_r, 1)]), strings=[st])
    # fullword strings: the delimiter test looks at the bytes around the match, never beyond the block
    if r.random() < 0.7:
        s_r = sid(); add(r.choice([("str", s_r), ("cnt", s_r, 1)]), strings=[sl.Fullword(r.choice([b"hello", b"world", b"he"]))])
    if r.random() < 0.3:
        s_r = sid(); add(("str", s_r), strings=[sl.Fullword(sl.Rx("hel+o"))])
    # hex string with a jump: yr_re_fast_exec and the scanner's pool of position nodes
    if r.random() < 0.7:
        s_r = sid(); add(r.choice([("str", s_r), ("cnt", s_r, 1), ("len", s_r, 1, 5)]), strings=[sl.HexJump(b"AB", 0, 4, b"CD")])
    if bomb:
        s_r = sid(); add(("str", s_r), strings=[sl.Bomb()])
    if chains:
        for ch in r.sample(CHAINS, r.randint(1, 3)):
            s_c = sid()
            add(r.choice([("str", s_c), ("cnt", s_c, 1), ("cnt", s_c, 2), ("in", s_c, 0, 30), ("len", s_c, 1, 8 + r.choice([20, 260, 304]))]), strings=[ch])
    add(("epdef",))
    for e in r.sample(eps, min(4, len(eps))):
        add(("epeq", e))
    for n in r.sample(sizes, min(2, len(sizes))):
        add(("fseq", n))
    txt = [i for i in pool if i.data and not i.data.startswith(b"MZ") and not i.data.startswith(b"\x7fELF") and len(i.data) < 1000]
    if txt and r.random() < 0.8:
        place_rules(r, add, sid, txt)
    add(("rd", 1, 0, 0x4D))
    if txt:
        t = r.choice(txt).data
        w = r.choice([1, 1, 2, 4])
        off = r.randrange(len(t)) // w * w       # aligned: exec.c reads *(uintN_t*) (unaligned offsets are UB, C06's business)
        add(("rd", w, off, int.from_bytes(t[off:off + w].ljust(w, b"\0"), "little")))
    imports = []
    if pes and r.random() < 0.8:
        imports.append("pe")
        add(("mod", "pe", r.choice(pes)))
    if elfs and r.random() < 0.8:
        imports.append("elf")
        add(("mod", "elf", r.choice(elfs)))
    if txt and r.random() < 0.5:
        imports.append("hash")
        t = r.choice(txt).data
        off = r.randrange(len(t)); ln = r.randint(1, len(t) - off + 2)
        add(("hash", off, ln, hashlib.md5(t[off:off + ln]).hexdigest()))
    r.shuffle(imports)
    if r.random() < 0.5:
        add(("tt",), flags="p")
    k = len(rules)
    if k >= 4:
        a, b = sorted(r.sample([i for i in range(k) if not rules[i]["filler"]] if pad != "rules" else range(k), 2))
        add(r.choice([("and", ("ref", a), ("not", ("ref", b))), ("or", ("ref", a), ("ref", b))]))
    # second namespace: a global rule that fails on some inputs, so that ns_unsatisfied_flags matters
    if r.random() < 0.7:
        add(r.choice([("fsge", 1), ("not", ("epdef",)), ("str", sid())]) if False else ("fsge", r.choice([1, 40])), ns=1, flags="g")
        s2 = sid(); add(("str", s2), ns=1, strings=[b"he"])
        add(("tt",), ns=1)
    if use_burn:
        add(("burn",), ns=rules[-1]["ns"])
    rs = sl.RuleSet(rules, imports)
    rs.has_burn = use_burn
    return rs


def gen_ops(r, inputs, timeout):
    """inputs: final list (single-block pool + multi-block variants appended by the caller)"""
    ops = []
    multi = [i for i, x in enumerate(inputs) if len(x.parts) > 1]
    nscans = r.randint(2, 7)
    for _ in range(nscans):
        # between scans (never between a suspended scan and its resumption): new flags, a process scan
        if r.random() < 0.18:
            ops.append("F/%d" % r.choice(ALLFLAGS + [2, 2, 3, 10, 18]))
        if r.random() < 0.12:
            ops.append("P/%s/%s" % (r.choice("ccx"), r.choice(["-", "-", "a0", "e0", "a2"])))
        u = r.random()
        inp = r.randrange(len(inputs))
        nb = len(inputs[inp].parts)
        sched, cb, stk, nofs = "-", "-", "-", 0
        if u < 0.28:
            pass
        elif u < 0.46:
            cb = r.choice("ae") + str(r.choice([0, 1, 2, 3, 4, 5, 6, 8, 10, 13, 17, 25]))
        elif u < 0.58:
            k = r.randint(0, nb + 6)
            sched = "".join(r.choice("..s") for _ in range(k)) + r.choice(["S", "S", "ss", "sss"])
        elif u < 0.80:
            if multi and r.random() < 0.8:
                inp = r.choice(multi); nb = len(inputs[inp].parts)
            k = r.randint(1, nb + 2)
            s = ["."] * k
            for p in r.sample(range(k), r.randint(1, min(3, k))):
                s[p] = "n"
            if r.random() < 0.25:
                s += list(r.choice(["..n", ".n", "n"]))     # may reach rule evaluation
            sched = "".join(s)
            if r.random() < 0.3:
                cb = r.choice("ae") + str(r.randint(0, 12))
        elif u < 0.88:
            stk = "1"
        elif u < 0.94:
            sched = "." * r.randint(0, nb + 3) + "e"
        else:
            nofs = 1
        # now and then the caller keeps ITS iterator object for the next scan (last_error not reset) ...
        # (never while a suspended scan is pending: that would be a resumption with a swapped iterator)
        prev = ops[-1].split("/") if ops else None
        kind = "R" if prev and ((prev[0] == "P" and prev[1] == "c") or (prev[0] in "SR" and "n" not in prev[2])) and r.random() < 0.25 else "S"
        ops.append("%s/%d/%s/%s/%s/%d" % (kind, inp, sched, cb, stk, nofs))
        # ... in particular after a scan in which every block request of rule evaluation was answered "not ready" (F27: the scan
        # succeeds, last_error stays ERROR_BLOCK_NOT_READY): nothing of it may reach the next scan of OTHER data
        if r.random() < 0.15:
            j = r.randrange(len(inputs)); nbj = len(inputs[j].parts)
            ops.append("S/%d/%s/-/-/0" % (j, "." * (nbj + 1) + "n" * 40))
            others = [i for i in range(len(inputs)) if inputs[i].data != inputs[j].data] or [j]
            ops.append("R/%d/-/%s/-/0" % (r.choice(others), r.choice(["-", "-", "a3"])))
        nn = sched.count("n")
        if nn:
            v = r.random()
            nc = nn if v < 0.6 else r.randint(0, nn)      # resumed to the end, or abandoned somewhere
            ops += ["C"] * nc
    while len(ops) > 20:
        ops.pop()
    return ops


def place_rules(r, add, sid, texts):
    """rules with the place-dependent string operators, built around real occurrences in one of the text inputs"""
    t = r.choice(texts).data
    if len(t) < 6:
        return

    def pick():
        ln = r.randint(3, 5)
        p = r.randrange(0, len(t) - ln + 1)
        sub = t[p:p + ln]
        occ = [o for o, _ in sl.find_literal(sub, t)]
        return sub, occ
    for _ in range(r.randint(2, 4)):
        k = r.choice(["in", "off", "cin", "len", "ofat", "ofin", "forat", "forin"])
        a, oa = pick()
        p = r.choice(oa)
        lo, hi = max(0, p - r.randint(0, 3)), p + r.randint(0, 3)
        s1 = sid()
        if k == "in":
            add(("in", s1, lo, hi), strings=[a])
        elif k == "off":
            i = r.randint(1, min(len(oa), 3))
            add(("off", s1, i, oa[i - 1]), strings=[a])
        elif k == "cin":
            add(("cin", s1, lo, hi, sum(1 for o in oa if lo <= o <= hi)), strings=[a])
        elif k == "len":
            add(("len", s1, r.randint(1, min(len(oa), 2)), len(a)), strings=[a])
        else:
            b, ob = pick()
            q = r.choice(ob)
            ss = [s1, s1 + 1]
            if k == "ofat":
                add(("ofat", 1, r.choice([p, q]), ss), strings=[a, b])
            elif k == "ofin":
                add(("ofin", r.choice([1, 2]), min(lo, q), max(hi, q) if r.random() < 0.7 else hi, ss), strings=[a, b])
            elif k == "forat":
                add(("forat", r.choice([p, q]), ss), strings=[a, b])
            else:
                add(("forin", lo, hi, ss), strings=[a, b])


def count_occ(data, s):
    return len(sl.str_findall(s, data))


def gen_case(r, cid):
    # the order in which two different strings report TOO_MANY_MATCHES depends on the automaton's atoms, which the model does
    # not know: keep to cases where at most one string of the rule set can exceed the limit
    while True:
        c = gen_case1(r, cid)
        strs = c["rs"].all_strings()
        heavy = [s for s in strs if any(count_occ(i.data, s) > MAXM for i in c["inputs"])]
        # regexp strings stay below the limit (a candidate verified twice through two atoms would ask the callback twice)
        rx_ok = all(count_occ(i.data, s) < MAXM for s in strs if not isinstance(s, bytes) for i in c["inputs"])
        runs_ok = all(sl.Bomb.longest_run(i.data) <= sl.Bomb.SAFE or sl.Bomb.longest_run(i.data) >= sl.Bomb.SURE for i in c["inputs"]) \
            if any(isinstance(s, sl.Bomb) for s in strs) else True
        # pieces of chained strings stay below the limit too (the limit on the unconfirmed lists is not modelled)
        chain_ok = all(count_occ(i.data, strs[k]) < MAXM for k in c["rs"].expected_chain_idx() for i in c["inputs"])
        if len(heavy) <= 1 and rx_ok and runs_ok and chain_ok:
            return c


def gen_case1(r, cid):
    bomb = r.random() < 0.35
    chains = r.random() < 0.45
    gaps = r.random() < 0.5
    pad = r.choice([None, None, None, "strings", "strings", "rules", "ns9", "ns65"])
    pool = gen_pool(r, bomb)
    if chains:
        pool += chain_inputs(r)
        r.shuffle(pool)
    if gaps:
        pool += gap_inputs(r)
        r.shuffle(pool)
    inputs = list(pool)
    for x in pool:
        if len(x.data) == 5000:
            if r.random() < 0.5:       # the failing block between two harmless ones
                a, b = r.randint(1, 6), r.randint(1, 6)
                inputs.append(x.with_parts([a, 5000 - a - b, b]))
        elif len(x.data) >= 2 and r.random() < 0.6:
            k = r.randint(2, 4)
            parts = sl.split_parts(r, len(x.data), k)
            avail = [r.random() > 0.08 for _ in parts]
            inputs.append(x.with_parts(parts, avail))
    inputs = inputs[:12]
    rs = gen_ruleset(r, pool, bomb, pad, chains, gaps)
    rs.pad, rs.bomb, rs.chained, rs.gaps = pad, bomb, chains, gaps
    # yr_execute_code tests the timeout every 100 instructions: only a rule set that starts and ends with a long loop
    # makes the position of that test unobservable, so only those are combined with a timeout
    timeout = r.choice([0, 1000, 1000]) if rs.has_burn else 0
    flags = r.choice(ALLFLAGS)
    ops = gen_ops(r, inputs, timeout)
    if chains:
        # a scan that leaves chain heads pending when it ends, directly followed by one with tails only, on the same scanner
        hs = [i for i, x in enumerate(inputs) if H1 in x.data or H2 in x.data or H3 in x.data]
        ts = [i for i, x in enumerate(inputs) if (T1 in x.data or T2 in x.data or T3 in x.data) and H1 not in x.data and H2 not in x.data and H3 not in x.data]
        if hs and ts:
            pair = ["S/%d/-/%s/-/0" % (r.choice(hs), r.choice(["-", "-", "a2", "e1"])), "S/%d/-/-/-/0" % r.choice(ts)]
            k = r.randint(0, len(ops))
            while 0 < k < len(ops) and ops[k][0] == "C":
                k += 1
            ops = (ops[:k] + pair + ops[k:])[:20]
    return dict(id=cid, rs=rs, inputs=inputs, flags=flags, timeout=timeout, ops=ops)


def lines_of(cases, variant):
    return [sl.case_line(c["id"], c["rs"], c["inputs"], c["flags"], c["timeout"], MAXM, c["ops"], variant) for c in cases]


def corpus_lines(pid):
    """minimal reproducers of the findings made with this check (replayed on every run: they must stay fixed)"""
    import json
    d = os.path.join(core.VERIF, "corpus", pid)
    out = []
    for f in sorted(os.listdir(d)) if os.path.isdir(d) else []:
        if f.endswith(".json"):
            out.append(json.load(open(os.path.join(d, f)))["case"])
    return out


def classify(line, main, ref):
    """what kind of history produced a main/ref difference (used only to match known-finding signatures)"""
    ops = dict(t.split("=", 1) for t in line.split()[1:] if "=" in t)["ops"].split(";")
    sig = {"abandoned_before": False}
    last = None
    for i, (o, m) in enumerate(zip(ops, main)):
        if o[0] in "SR" and last == "rc=BLOCK_NOT_READY":
            sig["abandoned_before"] = True
        if m != "skip":
            last = m.rsplit(",", 1)[-1]
        if m != ref[i]:
            break
    return sig


def run(tier, replay=None):
    chk = core.Check("C10", tier)
    lres = core.lean_check(THM)
    core.proof_coverage(chk, lres, THM)
    b = core.build("asan", harness=["h_hist"], extra_defs="-DYR_MAX_STRING_MATCHES=%d" % MAXM, tag=build_tag("m%d" % MAXM))
    # from here on the real code runs: whatever goes wrong (crash, sanitizer report, hang, output that cannot be understood)
    # is a finding about /repo, reported as a violation with a replay file
    try:
        found = run_body(chk, lres, b, tier, replay)
    except sl.HarnessCrash as e:
        chk.violation("harness_crash.json", e.replay_obj("hist", "h_hist"))
        found = True
    except Exception as e:
        import traceback
        chk.violation("harness_unexpected.json", {"kind": "harness-crash-or-unexpected-output", "engine": "hist", "harness": "h_hist",
                                                  "error": repr(e), "traceback": traceback.format_exc()[-3000:],
                                                  "case": replay["case"] if replay else None}, no_input=not replay)
        found = True
    core.handle_broken_proof(chk, lres, found)
    chk.assumptions += ["rule sets use plain literal strings, three fixed regexp shapes and chained hex strings ([-], [250-300], three pieces) whose pieces stay below the match limit",
                        "at most one string per rule set can exceed the match limit in a block (order of TOO_MANY_MATCHES messages between strings is not modelled)",
                        "timeouts are virtual (the iterator rewinds the scanner's stopwatch by 400 s or 2000 s with a 1000 s limit)",
                        "ERROR_TOO_MANY_RE_FIBERS is forced by 5000 x 'c' against /(c{1,40}){1,40}d/ (runs of 7..2999 'c' are never generated)",
                        "yr_scanner_last_error_string (never reset by the code, not part of the callback trace) is not compared"]
    return chk.finish("proof")


def run_body(chk, lres, b, tier, replay):
    variant = os.environ.get("VERIF_SCAN_VARIANT") or None
    r = core.rng("C10")
    found = False
    if replay:
        lines = [replay["case"]]
        cases = None
    else:
        n = 260 if tier == "quick" else 6000
        cases = [gen_case(r, "c%d" % i) for i in range(n)]
        # "destroyed after any prefix": a share of the histories is also run cut after every call
        extra = []
        for c in cases:
            if r.random() < 0.25:
                for k in range(1, len(c["ops"])):
                    extra.append(dict(c, id="%sp%d" % (c["id"], k), ops=c["ops"][:k]))
        cases += extra
        shapes = {}
        for c in cases:
            for k in ("pad=%s" % c["rs"].pad, "regexp_fiber_bomb=%s" % c["rs"].bomb, "chained_strings=%s" % getattr(c["rs"], "chained", False), "bounded_gap_regexps=%s" % getattr(c["rs"], "gaps", False)):
                shapes[k] = shapes.get(k, 0) + 1
        chk.cov["rule_set_shapes"] = shapes
        chk.cov["rule_set_sizes"] = {"max_rules": max(len(c["rs"].rules) for c in cases), "max_strings": max(c["rs"].nstrings for c in cases),
                                     "max_namespaces": max(c["rs"].rules[-1]["ns"] + 1 for c in cases)}
        sl.describe(b["h_hist"], [c["rs"] for c in cases], core)
        lines = corpus_lines("C10") + lines_of(cases, variant)
    impl, rc, err = core.run_parallel([b["h_hist"]], lines, timeout=3000)
    if rc != 0 or len(impl) != len(lines):
        # find a history that kills the harness on its own, so that the replay file is concrete; the survivors of the
        # batches that died are run again one by one and take part in the comparisons below
        done = {l.split(" ", 1)[0] for l in impl}
        missing = [l for l in lines if l.split(" ", 1)[0] not in done]
        culprit = None
        for l in missing[:60]:
            o1, rc1, err1 = core.run_lines([b["h_hist"]], [l], timeout=400)
            if rc1 != 0 or not o1:
                if culprit is None:
                    culprit = (l, rc1, err1)
            else:
                impl.append(o1[0])
        obj = {"kind": "harness-crash-or-sanitizer", "rc": rc, "stderr": err, "engine": "hist", "harness": "h_hist"}
        if culprit:
            obj.update({"case": culprit[0], "rc": culprit[1], "stderr": culprit[2],
                        "note": "this history alone makes the harness die (sanitizer report / crash in libyara)"})
        else:
            obj["cases"] = missing[:20]
        chk.violation("harness_crash.json", obj)
        found = True
    parsed = {}
    for l in impl:
        cid, rest = l.split(" ", 1)
        parts = rest.split(" # ")
        if len(parts) == 3:
            parsed[cid] = (parts[0].split("|"), parts[1].split("|"), parts[2])
    # leak flags: after the first leak in a process later cases say "unknown": re-run those alone
    unknown = [l for l in lines if parsed.get(l.split(" ", 1)[0], (0, 0, ""))[2] == "leak=unknown"]
    for l in unknown[:200]:
        o, rc1, _ = core.run_lines([b["h_hist"]], [l])
        if o and " # " in o[0]:
            cid, rest = o[0].split(" ", 1)
            p = rest.split(" # ")
            parsed[cid] = (p[0].split("|"), p[1].split("|"), p[2])
    known = core.known_findings("C10")

    def report(name, obj, sig):
        nonlocal found
        for k in known:
            if all(sig.get(a) == bv for a, bv in k.get("signature", {}).items()):
                chk.known(k, "%s %s (%s)" % (k.get("id"), obj["kind"], obj["case"].split(" ", 1)[0]))
                return
        chk.violation(name, obj)
        found = True

    nd = nl = 0
    for l in lines:
        cid = l.split(" ", 1)[0]
        if cid not in parsed:
            continue
        main, ref, leak = parsed[cid]
        if main != ref and nd < 8:
            sig = classify(l, main, ref)
            sig["kind"] = "history-dependence"
            report("hist_%s.json" % cid, {"kind": "history-dependence: a call on the reused scanner differs from the same logical scan on a fresh scanner",
                                          "engine": "hist", "harness": "h_hist", "case": l, "implementation": "|".join(main),
                                          "fresh_scanner": "|".join(ref)}, sig)
            nd += 1
        if leak == "leak=1" and nl < 4:
            f = dict(t.split("=", 1) for t in l.split()[1:] if "=" in t)
            pending = any(m.endswith("rc=BLOCK_NOT_READY") and (i + 1 == len(main) or f["ops"].split(";")[i + 1].startswith("S"))
                          for i, m in enumerate(main))
            report("leak_%s.json" % cid, {"kind": "leak after destroying the scanner (LeakSanitizer)", "engine": "hist", "harness": "h_hist",
                                          "case": l, "implementation": "|".join(main)},
                   {"kind": "leak", "suspended_scan_left_pending": pending, "imports_elf": "1" in f.get("mi", "").split("+"),
                    "multi_block": any("+" in x.split("~")[1] for x in f["in"].split(";"))})
            nl += 1
    model = []
    if lres.get("driver_ok"):
        model, mrc, merr = core.run_parallel([core.driver_path(), "hist"], lines)
        mm = {x.split(" ", 1)[0]: x.split(" ", 1)[1] for x in model if " " in x}
        nm = 0
        for l in lines:
            cid = l.split(" ", 1)[0]
            if cid in parsed and mm.get(cid) != "|".join(parsed[cid][0]) and nm < 8:
                report("model_%s.json" % cid, {"kind": "model-implementation-disagreement", "engine": "hist", "harness": "h_hist", "case": l,
                                               "implementation": "|".join(parsed[cid][0]), "model_spec": mm.get(cid),
                                               "note": "model = Model/Scanner.lean, variant with the C10 fixes; Thm/C10 proves history independence for it"},
                       {"kind": "model"})
                nm += 1
        # evidence
        rcs, kinds = {}, {}
        nontriv = set()
        ncalls = 0
        for l in lines:
            cid = l.split(" ", 1)[0]
            if cid not in mm:
                continue
            trs = mm[cid].split("|")
            f = dict(t.split("=", 1) for t in l.split()[1:] if "=" in t)
            ops = f["ops"].split(";")
            seen = set()
            for o, t in zip(ops, trs):
                if t == "skip":
                    continue
                if o[0] in "FP":
                    key = "set_flags" if o[0] == "F" else "scan_proc_" + t
                    kinds[key] = kinds.get(key, 0) + 1
                    continue
                ncalls += 1
                code = t.rsplit("rc=", 1)[-1]
                rcs[code] = rcs.get(code, 0) + 1
                seen.add(code)
                if "T:" in t:
                    kinds["too_many_matches_msg"] = kinds.get("too_many_matches_msg", 0) + 1
                p = o.split("/")
                if p[0] == "C":
                    kinds["resume_call"] = kinds.get("resume_call", 0) + 1
                else:
                    if p[0] == "R": kinds["reused_iterator_object"] = kinds.get("reused_iterator_object", 0) + 1
                    if p[2].endswith("n" * 40): kinds["not_ready_throughout_evaluation"] = kinds.get("not_ready_throughout_evaluation", 0) + 1
                    if p[3] != "-": kinds["cb_abort_or_error"] = kinds.get("cb_abort_or_error", 0) + 1
                    if "S" in p[2] or "s" in p[2]: kinds["stall"] = kinds.get("stall", 0) + 1
                    if p[4] == "1": kinds["tiny_stack"] = kinds.get("tiny_stack", 0) + 1
                    if "!" in f["in"].split(";")[int(p[1])]: kinds["unavailable_block"] = kinds.get("unavailable_block", 0) + 1
            ab = classify(l, trs, ["?"] * len(trs))
            if ab["abandoned_before"] or any(o.startswith("S") and i and trs[i - 1].endswith("BLOCK_NOT_READY") for i, o in enumerate(ops)):
                kinds["abandoned_suspended_scan"] = kinds.get("abandoned_suspended_scan", 0) + 1
            if trs and trs[-1].endswith("BLOCK_NOT_READY"):
                kinds["destroyed_while_suspended"] = kinds.get("destroyed_while_suspended", 0) + 1
            if len(set(trs)) >= 3 and len(seen - {"OK"}) >= 1:
                nontriv.add(l.split(" ", 1)[1])
        chk.cov.update({"evaluations": len(lines), "api_calls": ncalls, "distinct_nontrivial": len(nontriv),
                        "traces_validated_against_impl": sum(1 for l in lines if l.split(" ", 1)[0] in parsed and mm.get(l.split(" ", 1)[0]) == "|".join(parsed[l.split(" ", 1)[0]][0])),
                        "rule": "random histories (2-7 logical scans, up to 20 calls) on one scanner over 4-10 inputs and a generated rule set of 12-100 rules "
                                "(literal and regexp strings; a share with > 64 filler strings / rules / > 8 / > 64 namespaces in front); "
                                "non-trivial = >= 3 distinct call traces and >= 1 call not ending in OK",
                        "result_codes": rcs, "history_features": kinds,
                        "samples": [{"case": lines[0][:600] + " ...", "implementation": impl[0][:400] if impl else None, "model": model[0][:400] if model else None}]})
    return found
