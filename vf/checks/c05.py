"""C05 — a rule's result does not depend on what else is compiled with it.

Differential on the real compiler/scanner (h_scan): every rule of a generated "company" is compiled
 (a) alone with the rules it references, (b) in the full company, (c) in permutations of independent rules,
 (d) in every prefix of the company (adding rules never changes earlier results),
 (e) with the namespace text cut at token boundaries over several add_string calls and nested includes;
verdicts AND match lists must be identical. Strings are drawn to collide (shared 4-byte windows, common
prefixes/suffixes, same atom with different backtrack) so automaton states, failure links and match lists
are shared. Thm/C05.lean: independence at the model level (any automaton that reports exactly the atom
occurrences gives the same per-string result; re-checked every run).
"""
import binascii, re
from vf import core, acbuild

THM = ["YaraModel.Thm.C05", "YaraModel.Thm.C05Cond", "YaraModel.Thm.C05EndToEnd", "YaraModel.Thm.AcCert", "YaraModel.Thm.AcBuild", "YaraModel.Thm.AcLayout"]
MANIFEST = dict(
    technique="Lean 4 theorem (per-string result is a function of the string and the buffer for EVERY candidate stage meeting the automaton contract) + alone-vs-company / permutation / prefix / source-split differential on the real compiler and scanner",
    text="proof: Thm/C05.lean proves that the modelled per-string result (offsets, admissible lengths/keys) is the same for ANY two candidate stages that each report exactly the occurrences "
         "of the string's atoms — i.e. whatever else shares the automaton (corollary of C01's pipeline theorem; the two hypotheses of that theorem apply). Thm/C05Cond.lean proves, over the "
         "condition language of Spec/Cond.lean (all constructs, every block layout, file size and external values), that each rule of a rule set gets the same verdict in EVERY larger rule set "
         "that contains it and the rules it refers to, in the same order, among arbitrary other rules before, between and after them (verdict_company_independent, by the frame lemma eval_rename; "
         "verdict_alone for rules naming no other rule). Thm/C05EndToEnd.lean (company_independent_end_to_end) removes the contract hypothesis: for the automata BUILT by the model of ahocorasick.c from two different rule sets containing the same text string (any indices, windows, other strings), both report exactly its documented occurrences on every buffer. The tie to the code is a differential run: each rule alone vs. in a colliding company, permutations, prefixes "
         "(monotonicity) and source splits/includes; the automaton contract itself is checked per case through hooks in C01, and Thm/AcBuild.lean proves it for the modelled "
         "construction of the SHARED automaton for every list of atoms (zero-length ones included) and every buffer (build_sound / build_scan_exact / build_candsOK: whatever else is inserted, each string's candidates are exactly "
         "the occurrences of its atoms); the construction model must build tables EQUAL to the real ones, and the real candidate sequence must EQUAL the model's scan and the specification sequence "
         "(order included), for every company and every generated rule set (text, hex, regex; growth; zero-length atoms). Rule-set shapes and buffers are sampled. Further scenarios: rule-set wildcards `of (pfx*)` followed by rules whose identifiers are proper prefixes of / equal to / extensions of the prefix (rejected iff the identifier starts with the prefix, same namespace only; otherwise alone = company), and a LARGE company: 32 probe rules alone vs among 30000 / 42000 unrelated rules (shared automaton > 65535 and > 131072 transition-table slots; thorough: up to 90000 rules and the construction tie on a 100000-slot automaton). Thm/AcLayout.lean (Gen/AcLayout.lean regenerated from types.h / ahocorasick.[ch] by translators/aclayout.py) checks by `decide` that YR_AC_STATE.t_table_slot, the builder's locals, tables_size and the table element types cover every value below the builder's limit YR_AC_MAX_TRANSITION_TABLE_SIZE (that limit is only an assert in the code) and that the model's constants are the code's.",
    design_ref="DESIGN.md §5 C05",
    note=core.TB + "Text strings only in the theorem (hex/regex strings covered by the differential). Global rules are not added to the namespace of the rule under test (excluded by the property).")

WORDS = [b"abcdefgh", b"abcdxyz", b"xbcdefgh", b"bcde", b"cdefgh", b"abcd", b"efgh", b"habcd", b"aaaa", b"aaaaaa", b"abab", b"ababab", b"zzabcd", b"cdef"]


def hx(b):
    return binascii.hexlify(b if isinstance(b, bytes) else b.encode("latin1")).decode() or "-"


def esc(b):
    return "".join("\\x%02x" % c for c in b)


def gen_string(r):
    w = r.choice(WORDS)
    k = r.random()
    if k < 0.55:
        mods = r.choice(["", "", " nocase", " wide", " ascii wide", " fullword", " xor", " xor(1-3)"])
        return '"%s"%s' % (esc(w), mods), w
    if k < 0.8:
        hexs = " ".join("%02X" % c for c in w)
        if len(w) > 4 and r.random() < 0.6:
            parts = hexs.split()
            parts[r.randint(1, len(parts) - 2)] = r.choice(["??", "?%X" % (w[1] & 15), "[1-2]" if False else "??"])
            hexs = " ".join(parts)
        return "{ %s }" % hexs, w
    a = w[:len(w) // 2].decode(); b = w[len(w) // 2:].decode()
    return r.choice(["/%s.?%s/", "/%s[a-z]*%s/", "/(%s|zz)%s/"]) % (a, b), w


NSNAMES = ["default", "nsb", "nsc", "nsg"]


def gen_company(r, gid):
    n = r.randint(2, 9)
    nns = r.choice([1, 1, 2, 3])
    rules, planted = [], []
    per_ns, wild_used = {}, set()
    for i in range(n):
        ns = r.randrange(nns)
        k = per_ns.get(ns, 0)                      # index within the namespace: rule names repeat across namespaces on purpose
        per_ns[ns] = k + 1
        nstr = r.randint(1, 3)
        strs = []
        for j in range(nstr):
            txt, w = gen_string(r)
            strs.append("$s%d = %s" % (j, txt))
            planted.append(w)
        base = r.choice(["any of them", "all of them", "$s0", "#s0 > 1", "$s0 at %d" % r.randint(0, 20), "$s0 in (0..%d)" % r.randint(5, 60),
                         "for any of them : (# >= 1)", "@s0[1] < 30", "!s0[1] >= 1", "%d of them" % r.randint(1, nstr)])
        deps = []
        earlier = [x["idx"] for x in rules if x["ns"] == ns]
        earlier_r = [x["idx"] for x in rules if x["ns"] == ns and x["name"].startswith("r")]
        u = r.random()
        if earlier and u < 0.3:
            d = r.choice(earlier)
            deps.append(d)
            base = "(%s) %s %s%s" % (base, r.choice(["and", "or"]), r.choice(["", "not "]), rules[d]["name"])
        elif earlier_r and u < 0.5:
            deps += earlier_r                                  # wildcard rule set: every earlier rule of this namespace named r*
            wild_used.add(ns)
            base = "(%s) %s %s of (r*)" % (base, r.choice(["and", "or"]), r.choice(["any", "all", "1", "none"]))
        if any("$s%d" % j not in base and "them" not in base for j in range(nstr)):
            base = "(%s) or (any of them and false)" % base           # every string must be referenced
        private = "private " if r.random() < 0.1 else ""
        # once `(r*)` was used in a namespace, later rule identifiers there must not match it (IDENTIFIER_MATCHES_WILDCARD)
        name = ("w%d" if (ns in wild_used and "(r*)" not in base) or (ns in wild_used and any("(r*)" in rules[d]["text"] for d in earlier)) else "r%d") % k
        text = "%srule %s { strings: %s condition: %s }" % (private, name, " ".join(strs), base)
        rules.append(dict(idx=i, ns=ns, name=name, text=text, deps=deps))
    # a namespace of its own holding a GLOBAL rule (its strings present in some buffers, absent in others — then the rule is
    # skipped without being evaluated) and an ordinary rule that depends on it: global rules only constrain their OWN namespace,
    # so every rule of the other namespaces must be unaffected by this company; inserted at a random position of the set
    if r.random() < 0.6:
        gns = 3
        pos = r.randint(0, len(rules))
        zw = r.choice(planted + [b"zq9absent", b"never__here"])
        gtxt = 'global rule g0 { strings: $z = "%s" condition: %s }' % ("".join("\\x%02x" % c for c in zw), r.choice(["$z", "#z > 1", "$z at 0"]))
        extra = [dict(idx=None, ns=gns, name="g0", text=gtxt, deps=[])]
        if r.random() < 0.6:
            # after the global rule: a prefix of the set that contains o0 then contains the rule that constrains it
            extra.append(dict(idx=None, ns=gns, name="o0", text="rule o0 { condition: filesize >= 0 }", deps=["g0"]))
        rules[pos:pos] = extra
        byname = {}
        for i, x in enumerate(rules):                      # re-index; deps of the older rules are indices into the old list
            x["_old"] = x["idx"]
            x["idx"] = i
        remap = {x["_old"]: x["idx"] for x in rules if x["_old"] is not None}
        gidx = next(x["idx"] for x in rules if x["name"] == "g0" and x["ns"] == gns)
        for x in rules:
            x["deps"] = [gidx if d == "g0" else remap[d] for d in x["deps"]]
            del x["_old"]
    bufs = []
    for _ in range(3):
        b = bytearray()
        for _ in range(r.randint(2, 9)):
            w = r.choice(planted)
            v = r.choice([w, w, w, w.upper(), bytes(c ^ 2 for c in w), b"".join(bytes([c, 0]) for c in w), w[:-1], w + w, w[1:] + w])
            b += bytes(r.choice(b" .a") for _ in range(r.choice([0, 0, 1, 2, 5])))
            b += v
        bufs.append(bytes(b[:200]))
    return rules, bufs


WILD_PREFIXES = ["mal_fam", "ab", "r_1x", "Zq9", "k"]


def gen_wild(r, g, lines, plan, werr, metas):
    """rule-set wildcards: rules `<pfx>…`, a rule using `of (<pfx>*)`, then a LATE rule in the same namespace whose identifier is a proper
    prefix of / equal to / an extension of / unrelated to the wildcard prefix. Documented outcome: the late rule is rejected
    (ERROR_IDENTIFIER_MATCHES_WILDCARD) iff its identifier STARTS WITH the prefix; otherwise it compiles and its result — and the result of the
    rule using the wildcard — are the same alone and in this company. In another namespace the late rule always compiles."""
    pfx = r.choice(WILD_PREFIXES)
    members = ["%s%s" % (pfx, suf) for suf in r.sample(["_a", "b", "_c1", "0", "Z"], r.randint(1, 3))]
    kind = r.choice(["proper_prefix", "proper_prefix", "equal", "extension", "unrelated", "last_char_differs", "other_namespace"])
    if kind == "proper_prefix" and len(pfx) < 2:
        kind = "extension"
    late = {"proper_prefix": pfx[:r.randint(1, max(1, len(pfx) - 1))], "equal": pfx, "extension": pfx + r.choice(["z9", "_", "0a", members[0][len(pfx):] + "x"]),
            "unrelated": "q_" + pfx, "last_char_differs": pfx[:-1] + ("y" if pfx[-1] != "y" else "w"), "other_namespace": pfx + "_late"}[kind]
    if late in members or late == "user":
        late = late + "Q" if kind != "proper_prefix" else late
    quant = r.choice(["any", "all", "1", "none"])
    texts = ['rule %s { strings: $a = "%s" condition: $a }' % (m, r.choice(["efgh", "abcd", "zzzz"])) for m in members]
    texts.append('rule user { strings: $u = "cdef" condition: %s of (%s*) or #u > 5 }' % (quant, pfx))
    texts.append('rule %s { strings: $s0 = "abcd" condition: $s0 }' % late)
    names = ["default:%s" % m for m in members] + ["default:user", ("nsb:%s" if kind == "other_namespace" else "default:%s") % late]
    buf = r.choice([b"..abcdefgh..abcd", b"efgh", b"xxabcdxx", b""])
    metas[g] = dict(rules=["default: " + t for t in texts], bufs=[hx(buf)], names=names, wildcard=dict(prefix=pfx, late=late, kind=kind))
    n = len(texts)
    head = "ns=default src=%s" % hx("\n".join(texts[:-1]))
    full, alone, nolate = "w%d_full" % g, "w%d_alone" % g, "w%d_nolate" % g
    late_ns = "nsb" if kind == "other_namespace" else "default"
    if kind == "other_namespace":
        lines.append("%s %s ns=nsb src=%s nsm=1 buf=%s" % (full, head, hx(texts[-1]), hx(buf)))
    else:
        lines.append("%s ns=default src=%s nsm=1 buf=%s" % (full, hx("\n".join(texts)), hx(buf)))
    lines.append("%s ns=%s src=%s nsm=1 buf=%s" % (alone, late_ns, hx(texts[-1]), hx(buf)))
    lines.append("%s %s nsm=1 buf=%s" % (nolate, head, hx(buf)))
    rejected = kind != "other_namespace" and late.startswith(pfx)
    if rejected:
        werr.append((g, full, alone, kind))
    else:
        plan.append((g, n - 1, "wild_late_" + kind, alone, full))          # the late rule: alone vs in the company
        for i in range(n - 1):
            plan.append((g, i, "wild_company", nolate, full))                 # the wildcard rule and its members: with vs without the late rule


LARGE_ALPHA = "abcdefghijklmnopqrstuvwxyz0123456789"
LARGE_PROBES = [('rule probe_0 { strings: $a = "PROBEaaa" condition: $a }', b"PROBEaaa"),
                ('rule probe_1 { strings: $a = "Xprobe01" nocase condition: #a == 2 }', b"xPROBE01..Xprobe01"),
                ('rule probe_2 { strings: $a = "wideprb2" wide condition: $a }', b"w\0i\0d\0e\0p\0r\0b\0002\0"),
                ('rule probe_3 { strings: $a = { 51 31 ?? 32 51 33 51 34 } condition: $a }', b"Q1_2Q3Q4"),
                ('rule probe_4 { strings: $a = /zzTOP[a-z]{2}1/ condition: $a and !a[1] == 8 }', b"zzTOPqq1"),
                ('rule probe_5 { strings: $a = "ab1" condition: #a == 3 }', b"ab1ab1.ab1"),
                ('rule probe_6 { strings: $a = "fullprb6" fullword condition: $a at 2 or $a }', b" fullprb6 "),
                ('rule probe_7 { strings: $a = "xorprob7" xor(1-3) condition: $a }', bytes(c ^ 2 for c in b"xorprob7"))]


def gen_large(r, n):
    """(source text, probe rule names, buffer): 8 fixed probe rules of different kinds + 24 of the generated ones, spread over `n` generated
    unrelated rules with plain 8-character strings (about 3.8 transition-table slots per string: 30000 -> ~99000 slots, 42000 -> ~138000; non-leaf states beyond slot 65535 appear from ~27000 strings on)"""
    words = ["".join(r.choice(LARGE_ALPHA) for _ in range(8)) for _ in range(n)]
    rules = ['rule u%d { strings: $a = "%s" condition: $a }' % (i, w) for i, w in enumerate(words)]
    picked = sorted(r.sample(range(n), 24))
    names = ["probe_%d" % i for i in range(8)] + ["u%d" % i for i in picked]
    alone = [t for t, _ in LARGE_PROBES] + [rules[i] for i in picked]
    pos = sorted(r.sample(range(n), 5)) + [n, n, n]                      # probes at the start region, inside and at the very end
    pos[0] = 0
    out, k = [], 0
    for i in range(n + 1):
        while k < 8 and pos[k] == i:
            out.append(LARGE_PROBES[k][0]); k += 1
        if i < n:
            out.append(rules[i])
    buf = b"..".join([pl for _, pl in LARGE_PROBES] + [words[i].encode() for i in picked]) + b".."
    return "\n".join(out), names, alone, buf


def large_company(chk, b, tier, replay=None):
    """a handful of probe rules compiled ALONE vs together with N generated unrelated rules, N large enough for the shared automaton to need more
    than 65535 (and more than 131072) transition-table slots: verdicts and match lists of every probe must be the same. In the thorough tier one
    such automaton (> 65535 slots) also goes through the construction tie: the Lean model of ahocorasick.c must build EQUAL tables."""
    sizes = [30000, 42000] if tier == "quick" else [20000, 30000, 42000, 62000, 90000]
    if replay:
        cases = [(replay["n"], replay["lines"], replay["names"])]
    else:
        cases = []
        for n in sizes:
            src, names, alone, buf = gen_large(core.rng("C05-large-%d" % n), n)
            lines = ["L%d_full ns=default src=%s nsm=1 actab=1 buf=%s" % (n, hx(src), hx(buf))]
            lines += ["L%d_alone%d ns=default src=%s nsm=1 buf=%s" % (n, i, hx(t), hx(buf)) for i, t in enumerate(alone)]
            cases.append((n, lines, names))
    found, stats = False, []
    for n, lines, names in cases:
        if found:
            break                                                              # one failing size is enough (a corrupted automaton may hang the next one)
        outs, rc, err = core.run_parallel([b["h_scan"]], lines, timeout=180)    # the unchanged tree needs 2-8 s; a hang (corrupted automaton) is a result
        om = {l.split(" ", 1)[0]: l for l in outs}
        full = om.get("L%d_full" % n, "")
        if rc != 0 or not full:
            chk.violation("large_crash_%d.json" % n, {"kind": "%s compiling/scanning a large company (%d unrelated rules + probes that compile and scan alone)" %
                                                      ("HANG (timeout)" if rc == -9 else "crash/sanitizer/no output", n), "rc": rc, "stderr": err, "harness": "h_scan",
                                                      "large": True, "n": n, "lines": lines, "names": names})
            found = True
            continue
        slots = [x.split(":")[1] for x in full.split() if x.startswith("actab=TOOBIG:")]
        nmatch, bad = 0, []
        for i, name in enumerate(names):
            a = om.get("L%d_alone%d" % (n, i))
            if a is None:
                continue
            ra, rb = result_of(a, "default:" + name), result_of(full, "default:" + name)
            nmatch += 1 if (len(ra) == 2 and ra[1]) else 0
            if ra != rb:
                bad.append({"rule": name, "alone": ra, "in_company": rb})
        stats.append({"unrelated_rules": n, "transition_table_slots": int(slots[0]) if slots else None, "probes": len(names), "probes_with_matches": nmatch, "differing": len(bad)})
        if bad:
            chk.violation("large_%d.json" % n, {"kind": "result of a rule depends on its company (large company: %d unrelated rules, %s transition-table slots)" % (n, slots[0] if slots else "?"),
                                                "differing": bad, "harness": "h_scan", "large": True, "n": n, "lines": lines, "names": names})
            found = True
    if tier == "thorough" and not replay and not found:
        # construction tie on an automaton with > 65535 slots: the Lean model of ahocorasick.c must build EQUAL tables (and the same candidates)
        n = 30000
        src, names, alone, buf = gen_large(core.rng("C05-large-%d" % n), n)
        line = "T%d ns=default src=%s atoms=1 cands=1 actab=400000 buf=%s" % (n, hx(src), hx(buf))
        outs, rc, err = core.run_lines([b["h_scan"]], [line], timeout=180)
        badt = acbuild.compare(outs, {"T%d" % n: hx(buf)})
        stats.append({"construction_tie_rules": n, "tables": dict(acbuild.compare.last), "mismatches": len(badt)})
        found = acbuild.report(chk, badt, {"T%d" % n: line}, "large") or found
    chk.cov["large_company"] = stats
    return found


def emit(rules, order, r=None, split=False):
    """h_scan tokens compiling the rules `order` (indices) in that order: one add_string per run of equal namespace
    (or, with split, further cut at random rule boundaries)"""
    toks, cur, chunk = [], None, []

    def flush():
        if chunk:
            toks.append("ns=%s src=%s" % (NSNAMES[cur], hx("\n".join(chunk))))
    for i in order:
        x = rules[i]
        if x["ns"] != cur or (split and chunk and r.random() < 0.5):
            flush()
            chunk = []
            cur = x["ns"]
        chunk.append(x["text"])
    flush()
    return " ".join(toks)


def closure(rules, i):
    need, todo = set(), [i]
    while todo:
        k = todo.pop()
        if k not in need:
            need.add(k)
            todo += rules[k]["deps"]
    return sorted(need)


def split_tokens(r, text, pieces):
    """cut a source text at whitespace positions that are outside string literals / braces of hex strings"""
    cuts = [m.start() for m in re.finditer(r"(?<=\})\s(?=(private )?rule )", text)]
    r.shuffle(cuts)
    cuts = sorted(cuts[:pieces - 1])
    out, prev = [], 0
    for c in cuts:
        out.append(text[prev:c]); prev = c
    out.append(text[prev:])
    return out


def result_of(line, nsname):
    """(verdict, match list) of one rule (given as 'namespace:name') from an h_scan output line produced with nsm=1"""
    t = line.split()
    if len(t) < 3 or t[1] != "OK":
        return (" ".join(t[1:3]),)
    rules = dict(x.rsplit("=", 1) for x in t[2][6:].split(",")) if t[2] != "rules=-" else {}
    verdict = rules.get(nsname, "private-or-absent")
    ms = [x for x in t[3][2:].split(";") if x.startswith(nsname + ".")] if t[3] != "m=-" else []
    return (verdict, tuple(ms))


def run(tier, replay=None):
    chk = core.Check("C05", tier)
    lres = core.lean_check(THM, translators=["aclayout"])     # Gen/AcLayout.lean: field widths / constants of the automaton tables, from the sources
    core.proof_coverage(chk, lres, THM, translators=lres.get("translators"))
    b = core.build("asan", harness=["h_scan"])
    if replay and replay.get("acbuild"):                 # a filed construction mismatch: recompile that rule set, rebuild, compare
        core.handle_broken_proof(chk, lres, acbuild.replay(chk, b, replay))
        return chk.finish("proof")
    if replay and replay.get("large"):                   # a filed large-company difference: recompile that company and the probes alone
        core.handle_broken_proof(chk, lres, large_company(chk, b, tier, replay))
        return chk.finish("proof")
    r = core.rng("C05")
    ng = 60 if tier == "quick" else 2500
    lines, plan = [], []          # plan: (group, rule idx, variant name, line id, reference line id)
    metas = {}
    for g in range(ng):
        rules, bufs = gen_company(r, g)
        metas[g] = dict(rules=["%s: %s" % (NSNAMES[x["ns"]], x["text"]) for x in rules], bufs=[hx(x) for x in bufs],
                        names=["%s:%s" % (NSNAMES[x["ns"]], x["name"]) for x in rules])
        allidx = list(range(len(rules)))
        single_ns = len({x["ns"] for x in rules}) == 1
        for bi, buf in enumerate(bufs):
            ref = "g%d_b%d_full" % (g, bi)
            lines.append("%s %s nsm=1 %sbuf=%s" % (ref, emit(rules, allidx), "atoms=1 cands=1 actab=1 " if bi == 0 else "", hx(buf)))
            for x in rules:
                i = x["idx"]
                lid = "g%d_b%d_alone%d" % (g, bi, i)
                lines.append("%s %s nsm=1 buf=%s" % (lid, emit(rules, closure(rules, i)), hx(buf)))
                plan.append((g, i, "alone", lid, ref))
            # prefixes (adding rules never changes earlier results)
            k = r.randint(1, len(rules) - 1)
            lid = "g%d_b%d_prefix%d" % (g, bi, k)
            lines.append("%s %s nsm=1 buf=%s" % (lid, emit(rules, allidx[:k]), hx(buf)))
            for i in range(k):
                plan.append((g, i, "prefix%d" % k, lid, ref))
            # permutation that keeps dependencies before dependants (this also reorders / re-enters namespaces)
            order = list(allidx)
            for _ in range(len(rules) * 3):
                a = r.randint(0, len(rules) - 2)
                x, y = order[a], order[a + 1]
                if x not in closure(rules, y) and not (rules[x]["ns"] == rules[y]["ns"] and "(r*)" in rules[y]["text"] + rules[x]["text"]):
                    order[a], order[a + 1] = y, x
            lid = "g%d_b%d_perm" % (g, bi)
            lines.append("%s %s nsm=1 buf=%s" % (lid, emit(rules, order), hx(buf)))
            for i in allidx:
                plan.append((g, i, "perm", lid, ref))
            # the same text cut at rule boundaries over more add_string calls
            lid = "g%d_b%d_split" % (g, bi)
            lines.append("%s %s nsm=1 buf=%s" % (lid, emit(rules, allidx, r, split=True), hx(buf)))
            for i in allidx:
                plan.append((g, i, "split", lid, ref))
            # nested includes (single-namespace companies): first piece includes the rest
            if single_ns and len(rules) >= 2:
                pieces = [x["text"] for x in rules]
                cut = sorted(r.sample(range(1, len(pieces)), min(len(pieces) - 1, r.randint(1, 3))))
                groups = [pieces[a:b] for a, b in zip([0] + cut, cut + [len(pieces)])]
                lid = "g%d_b%d_inc" % (g, bi)
                incs, main = [], "\n".join(groups[0]) + '\ninclude "f1"\n'
                for pi, grp in enumerate(groups[1:], 1):
                    body = "\n".join(grp) + ('\ninclude "f%d"\n' % (pi + 1) if pi + 1 < len(groups) else "")
                    incs.append("inc=f%d:%s" % (pi, hx(body)))
                lines.append("%s %s ns=%s src=%s nsm=1 buf=%s" % (lid, " ".join(incs), NSNAMES[rules[0]["ns"]], hx(main), hx(buf)))
                for i in allidx:
                    plan.append((g, i, "include", lid, ref))
    werr = []
    for j in range(14 if tier == "quick" else 600):
        gen_wild(core.rng("C05-wild-%d" % j), 100000 + j, lines, plan, werr, metas)
    if replay:
        lines = replay["lines"]; plan = [tuple(p) for p in replay["plan"]]; metas = {int(k): v for k, v in replay["metas"].items()}
        werr = [tuple(x) for x in replay.get("werr", [])]
    outs, rc, err = core.run_parallel([b["h_scan"]], lines)
    om = {l.split(" ", 1)[0]: l for l in outs}
    found = False
    if rc != 0:
        chk.violation("harness_crash.json", {"kind": "crash/sanitizer", "rc": rc, "stderr": err, "harness": "h_scan"})
        found = True
    # Aho-Corasick certificate on the SHARED automaton of every company (Thm/AcCert: candidates exact for every buffer)
    acl = []
    for l in outs:
        t = {x.split("=", 1)[0]: x.split("=", 1)[1] for x in l.split()[2:] if "=" in x}
        if "act" in t and "atoms" in t:
            atoms = "-" if t["atoms"] == "-" else ",".join("%s:%s:%s" % (a.split(":")[0], a.split(":")[1], a.split(":")[3]) for a in t["atoms"].split(","))
            bufhex = [x for x in lines if x.startswith(l.split(" ", 1)[0] + " ")][0].split("buf=")[1]
            acl.append("%s atoms=%s act=%s acm=%s acp=%s buf=%s cands=%s" % (l.split(" ", 1)[0], atoms, t["act"], t["acm"], t["acp"], bufhex, t["cands"]))
    ac_ok = 0
    if lres.get("driver_ok") and acl:
        acout, _, _ = core.run_parallel([core.driver_path(), "ac"], acl)
        for i, l in enumerate(acout):
            if "cert=1" in l and "scan=same" in l:
                ac_ok += 1
            elif i < 50:
                chk.violation("ac_cert_%s.json" % l.split(" ", 1)[0], {"kind": "Aho-Corasick certificate fails on the shared automaton of a company (or table-driven scan model != real candidates)",
                                                                     "driver": l, "engine": "ac"}, no_input=True)
                found = True
    chk.cov["ac_certificate"] = {"company_tables_checked": len(acl), "cert_ok": ac_ok}
    if lres.get("driver_ok"):
        # construction tie (Thm/AcBuild): the Lean model of ahocorasick.c must build EXACTLY the shared tables from the logged atoms
        found = acbuild.report(chk, acbuild.compare(outs, {x.split(" ", 1)[0]: x.rsplit("buf=", 1)[1] for x in lines if "buf=" in x}), {x.split(" ", 1)[0]: x for x in lines}, "company") or found
        chk.cov["ac_certificate"]["construction_model_equal"] = dict(acbuild.compare.last)
        if not replay:
            found = acbuild.run_extra(chk, b, core.rng("C05-acbuild"), "mixed", tier) or found
    nviol, hist, nontriv = 0, {}, set()
    lm = {l.split(" ", 1)[0]: l for l in lines}
    for g, i, variant, lid, ref in plan:
        a, bref = om.get(lid), om.get(ref)
        if a is None or bref is None:
            continue
        key = None
        for mline in metas[g]["rules"]:
            pass
        nsname = metas[g]["names"][i] if "names" in metas[g] else "default:r%d" % i
        ra, rb = result_of(a, nsname), result_of(bref, nsname)
        hist[variant.rstrip("0123456789")] = hist.get(variant.rstrip("0123456789"), 0) + 1
        if len(rb) == 2 and rb[1]:
            nontriv.add((g, i, lid.split("_")[1]))
        if ra != rb and nviol < 10:
            chk.violation("diff_%d.json" % nviol, {"kind": "result of a rule depends on its company (%s)" % variant, "group": g, "rule": metas[g]["rules"][i],
                                                   "variant_result": ra, "company_result": rb, "harness": "h_scan",
                                                   "lines": [lm[lid], lm[ref]], "plan": [[g, i, variant, lid, ref]], "metas": {g: metas[g]}})
            nviol += 1
            found = True
    # rule-set wildcards: a later identifier that STARTS WITH a used wildcard prefix must be rejected (and compile alone); nothing else may be
    whist = {}
    for g, full, alone, kind in werr:
        a, c = om.get(alone), om.get(full)
        if a is None or c is None:
            continue
        whist[kind] = whist.get(kind, 0) + 1
        why = []
        if a.split()[1] != "OK":
            why.append("the late rule alone does not compile: %s" % " ".join(a.split()[1:3]))
        if c.split()[1:3] != ["CERR", "IDENTIFIER_MATCHES_WILDCARD"]:
            why.append("in the company the late rule (identifier starts with the wildcard prefix) gives %s instead of ERROR_IDENTIFIER_MATCHES_WILDCARD" % " ".join(c.split()[1:3]))
        if why and nviol < 10:
            chk.violation("wild_%d.json" % nviol, {"kind": "rule-set wildcard: outcome of a later rule differs from the documented one", "why": why, "group": g,
                                                   "wildcard": metas[g]["wildcard"], "harness": "h_scan", "lines": [lm[full], lm[alone]], "plan": [],
                                                   "werr": [[g, full, alone, kind]], "metas": {g: metas[g]}})
            nviol += 1
            found = True
    chk.cov["wildcard_rule_sets"] = {"rejected_as_documented": whist, "accepted_and_compared": {k: v for k, v in hist.items() if k.startswith("wild")}}
    chk.cov.update({"evaluations": len(lines), "distinct_nontrivial": len(nontriv), "comparisons": len(plan), "comparisons_by_variant": hist,
                    "rule": "companies of 2-9 rules over colliding strings (text/hex/regex, modifiers), 3 planted buffers each; per rule: alone(+deps) vs company, prefix, "
                            "dependency-respecting permutation, source split over add_string calls, nested includes; non-trivial = the rule's strings have matches in the company run",
                    "traces_validated_against_impl": len(plan) - nviol,
                    "samples": [{"company": metas[min(metas)]["rules"], "buffer": metas[min(metas)]["bufs"][0]}]})
    if not replay:
        found = large_company(chk, b, tier) or found
    core.handle_broken_proof(chk, lres, found)
    return chk.finish("proof")
