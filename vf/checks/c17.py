"""C17 — incomplete or damaged compiled-rule files are rejected, never half-loaded.

Proof layer: Thm/C17.lean (every proper prefix of a saved image that ends before the relocation
section is rejected with the right error code: header / table / bodies; a trailing partial
relocation entry is dropped silently; negation witness: a prefix cut inside the relocation section
is accepted with unconverted references left in the arena; every single-field corruption of header and
buffer table, for all values, is rejected except the exactly characterised last-size family F51).
Tie: (1) op sequences incl. loads of truncated and corrupted small images (h_arena vs the Lean
model); (2) real compiled-rule images: every prefix length of small files, all section boundaries and
sampled interior points of larger ones, all single-field corruptions of header and buffer table —
each loaded by the real yr_rules_load_stream (forked, ASan/UBSan; rules that load are scanned and
their statistics walked) and by the Lean `loadRules`; outcomes are compared with each other and with
the specification "error code and no rule set"; (3) the file-name API yr_rules_load / yr_rules_save on the
same damaged files: same error code, no rule set, no descriptor and no heap block left behind."""
import collections, struct
from vf import core
from vf.checks import arena_common as ac

PID = "C17"
THM = ["YaraModel.Thm.C17"]
MANIFEST = dict(
    technique="Lean 4 proof over an executable model of yr_arena_load_stream / yr_rules_load_stream: every cut point before the relocation section is "
              "rejected (acceptance of cuts inside it proved as the negation), and every single-field corruption of header and buffer table, for ALL values of "
              "the field, is rejected except the exactly characterised family of last-entry size changes + exhaustive/sectioned truncation and "
              "value-set + random-value corruption of real images loaded by the real loader and by the model, with the theorems' closed-form verdicts "
              "recomputed at run time",
    text="proof: Thm/C17.lean proves for every arena (at most 16 buffers, each below 2 GiB), every loader configuration and EVERY cut point before the end of "
         "the buffer bodies that the loader rejects the prefix (prefix_header: INVALID_FILE; prefix_table, prefix_bodies: CORRUPT_FILE), and what happens to a "
         "trailing partial relocation entry (applyRelocs_partial). For cut points inside the relocation section the property is FALSE for this file format "
         "(no count, no terminator): reloc_cut_accepted / reloc_cut_accepted_witness; known finding F9 — and exactly there: prefix_in_entry (a cut inside an "
         "entry is CORRUPT_FILE for the fully checked loader) and prefix_accepted_iff classify EVERY proper prefix length: accepted iff at or after the end "
         "of the bodies on an entry boundary. SINGLE-FIELD CORRUPTIONS, for every saved image of a "
         "well-formed arena and ANY other value of the field's type: corrupt_magic (each of the 4 bytes, any byte: INVALID_FILE), corrupt_version (any byte, "
         "older or newer: UNSUPPORTED_FILE_VERSION), corrupt_num_buffers (any byte: INVALID_FILE above 16, else CORRUPT_FILE), corrupt_offset (any entry, any "
         "64-bit value: CORRUPT_FILE), corrupt_size_not_last (any entry but the last, any 32-bit value: CORRUPT_FILE) — the last three for a loader with the "
         "offset cross-check, which hardened_loaderCfg shows the source tree's loader is. For the last entry's size the property is FALSE and "
         "size_change_accepted_iff gives the exact acceptance condition of the fully checked loader: raised by 8k with 1 <= k <= number of relocation entries "
         "and an allocatable size (corrupt_size_last_raised: iff, the arena returned has lost its first k entries, every other raised value gives "
         "CORRUPT_FILE / INSUFFICIENT_MEMORY), or lowered by 8k where the buffer's cut-off tail passes as relocation entries (corrupt_size_last_lowered: the "
         "load equals the relocation loop on those bytes — content-dependent, not a closed form; corrupt_size_last_lowered_dvd: otherwise CORRUPT_FILE); "
         "kernel-checked witnesses size_raised_accepted_witness, size_lowered_accepted_witness; this family is known finding F51 and the check treats nothing "
         "wider as known. rules.c: rules_summary_test shows for ANY stream that yr_rules_load_stream adds exactly one test to the arena load (summary buffer "
         "present: a function of the buffer count and of the size field of entry 11), and rules_after_size_corruption that after a single-field corruption it can "
         "only fire when the summary's own size is set to 0. Tie: header/table corruptions of real images use value sets (boundaries, bit flips, neighbours, the "
         "two proved families and their edges) AND uniformly random 64-/32-bit values per field; each is loaded by the real loader under ASan/UBSan and by the "
         "model (must agree), and the driver recomputes the theorems' closed-form verdict for each and compares it with the loader model (THM token). "
         "file_api_gives_back_handle: the bodies of yr_rules_load / yr_rules_save (translated statement by statement from rules.c on every run) hold no FILE "
         "handle when they return, for every outcome of fopen and of the stream call. "
         "FILE-NAME API (h_loadfile): the same truncations and single-field corruptions are written to files and loaded by path with yr_rules_load; each call "
         "must return the stream API's error code on the same bytes, hand back no rule set, and give back every descriptor it opened (entries of "
         "/proc/self/fd before/after each rejected and each accepted load and after yr_rules_destroy; LeakSanitizer's recoverable check after every call); the "
         "intact file must still load after all the rejected ones; also a missing / directory / unreadable path, and yr_rules_save to a new file (bytes = "
         "image), into a missing directory, onto a directory and to /dev/full.",
    design_ref="DESIGN.md §5 C17, §4 D9, §6 F9, F51",
    note=core.TB + "The model covers arena.c's loader and the summary test of rules.c; what the scanner does with rules that were wrongly accepted is observed "
         "(crash / different results), not modelled. The corruption theorems are about images written by `save` of a well-formed arena; that real compiled "
         "rules are such images is what the correspondence (intact image loads, re-saves identically) samples. Still enumerated, not proved: corruptions of "
         "bytes outside header and table (bodies, relocation entries: op-sequence tie only), multi-field corruptions, and the content-dependent lowered-size "
         "case on real images. Quick tier samples the cut points inside the relocation section (exhaustive in the thorough tier).")

HDR = 6
ENT = 12


def layout(img):
    """-> dict(n, sizes, tbl_end, body_off[], bodies_end, nrel) of an intact image"""
    n = img[5]
    sizes = [struct.unpack_from("<I", img, HDR + ENT * i + 8)[0] for i in range(n)]
    offs = [struct.unpack_from("<Q", img, HDR + ENT * i)[0] for i in range(n)]
    tbl_end = HDR + ENT * n
    body_off, o = [], tbl_end
    for s in sizes:
        body_off.append(o)
        o += s
    return {"n": n, "sizes": sizes, "offs": offs, "tbl_end": tbl_end, "body_off": body_off, "bodies_end": o, "nrel": (len(img) - o) // 8}


def prefix_specs(img, lay, r, exhaustive, tier):
    if exhaustive and tier != "quick":
        return ["p0-%d" % len(img)]
    if exhaustive:
        # quick tier: every cut point up to the end of the bodies; inside the relocation section (where every
        # accepted prefix costs a crashed child) every byte of the first and last entries, all entry boundaries
        # of the next ones and a random sample
        be, n = lay["bodies_end"], lay["nrel"]
        pts = set(range(be, min(len(img), be + 17))) | set(range(max(be, len(img) - 17), len(img)))
        pts |= {be + 8 * k for k in range(min(n, 24))} | {be + r.randrange(max(1, len(img) - be)) for _ in range(24)}
        return ["p0-%d" % be] + ["p%d" % p for p in sorted(pts) if be <= p < len(img)]
    pts = set(range(0, min(len(img), HDR + 3)))
    for b in [lay["tbl_end"], lay["bodies_end"]] + lay["body_off"] + [HDR + ENT * i for i in range(lay["n"])] + [HDR + ENT * i + 8 for i in range(lay["n"])]:
        pts |= {b - 1, b, b + 1}
    for k in list(range(0, min(lay["nrel"], 6))) + list(range(max(0, lay["nrel"] - 6), lay["nrel"])) + [r.randrange(max(1, lay["nrel"])) for _ in range(24)]:
        e = lay["bodies_end"] + 8 * k
        pts |= {e, e + 1, e + 4, e + 7}
    pts |= {len(img) - 1, len(img) - 7, len(img) - 8, len(img) - 9}
    pts |= {r.randrange(len(img)) for _ in range(64)}
    return ["p%d" % p for p in sorted(p for p in pts if 0 <= p < len(img))]


def corruption_specs(img, lay, r, tier):
    """single-field corruptions of the header and of the buffer table: (spec, info) with info = dict(name, i, v, old).
    Value sets (boundaries, bit flips, neighbours) PLUS uniformly random values of the field's type, and for the size of
    the last entry the two families of Thm/C17 size_change_accepted_iff (raised / lowered by multiples of 8)."""
    out = []
    quick = tier == "quick"

    def put(off, fmt, old, vals, name, i=None):
        seen = set()
        for v in vals:
            v &= (1 << (8 * struct.calcsize(fmt))) - 1
            if v != old and v not in seen:
                seen.add(v)
                out.append(("w%d:%s" % (off, struct.pack(fmt, v).hex()), {"name": name, "i": i, "v": v, "old": old}))

    for i in range(4):
        put(i, "<B", img[i], [0, img[i] ^ 1, img[i] ^ 0x20, 255] + ([r.randrange(256) for _ in range(3)] if quick else list(range(256))), "magic", i)
    put(4, "<B", img[4], range(256), "version")
    put(5, "<B", img[5], range(256), "num_buffers")
    n = lay["n"]
    nrel = lay["nrel"]
    for i in range(n):
        off = lay["offs"][i]
        rnd = [r.randrange(2 ** 64) for _ in range(2 if quick else 12)] + [r.randrange(2 ** 20) for _ in range(1 if quick else 4)]
        vals = [0, 1, off + 1, off - 1, off + 8, len(img), 2 ** 63, 2 ** 64 - 1] + [off ^ (1 << b) for b in (0, 3, 8, 31, 32, 63)]
        if quick:
            vals = r.sample(vals, 4)
        put(HDR + ENT * i, "<Q", off, vals + rnd, "offset", i)
        sz = lay["sizes"][i]
        nb = lay["sizes"][(i + 1) % n]
        rnd = [r.randrange(2 ** 32) for _ in range(2 if quick else 12)] + [r.randrange(max(sz, 1) + 8 * nrel + 64) for _ in range(2 if quick else 8)]
        vals = [0, 1, 2, 3, 4, 5, 6, 7, 8, 9, sz + 1, sz - 1, sz + 8, sz - 8, sz + 16, sz * 2, sz // 2, nb, sz + nb, 2 ** 31, 2 ** 32 - 1, 3 * 10 ** 9] + \
               [sz ^ (1 << b) for b in (0, 1, 2, 3, 4, 8, 12, 16, 24, 31)]
        if quick:
            vals = [0, r.randint(1, 7), sz + 8, sz - 8, nb] + r.sample(vals, 4)
        if i == n - 1:
            # the proved acceptance families and their edges: raised by 8k with k <= nrel / k = nrel + 1 / not a multiple of 8;
            # lowered by 8k
            ks = {1, nrel, nrel + 1, max(1, nrel // 2)} | {r.randint(1, max(1, nrel)) for _ in range(2 if quick else 10)}
            vals += [sz + 8 * k for k in ks] + [sz + 8 * r.randint(1, max(1, nrel)) + r.randint(1, 7) for _ in range(2)]
            vals += [sz - 8 * k for k in range(1, sz // 8 + 1)][: (3 if quick else 40)] + [sz % 8]
        put(HDR + ENT * i + 8, "<I", sz, vals + rnd, "size", i)
    return out


CAP_MAX = 10485 << 18        # the largest buffer the loader's doubling from 10485 bytes can allocate within 4 GB


def f51_family(info, lay, model_verdict):
    """Thm/C17 size_change_accepted_iff: the single-field corruptions the fully checked loader accepts. Only the size of
    the LAST table entry: raised by 8k, 1 <= k <= number of relocation entries (closed form), or lowered by 8k where the
    bytes cut off pass as relocation entries (content-dependent: the loader model decides; unknown for images too big for it)."""
    if info.get("name") != "size" or info.get("i") != lay["n"] - 1:
        return False
    z, sz = info["v"], info["old"]
    if z > sz:
        return (z - sz) % 8 == 0 and z - sz <= 8 * lay["nrel"] and z <= CAP_MAX
    return (sz - z) % 8 == 0 and model_verdict in (None, "OK")


def classify_impl(res):
    """impl result token -> loader outcome comparable with the model"""
    if res.startswith("OK"):
        return "OK"
    if res.startswith("CRASH:assert"):
        return "ASSERT"
    if res.startswith("CRASH"):
        return "LOADCRASH"
    return res.split(":")[0]


def expand(tokens):
    """['p0-6=X', 'p7=Y', 'w4:00=Z'] -> dict spec -> result, with prefix ranges expanded"""
    d = {}
    for t in tokens:
        k, v = t.split("=", 1)
        if k.startswith("p") and "-" in k:
            a, b = k[1:].split("-")
            for i in range(int(a), int(b)):
                d["p%d" % i] = v
        else:
            d[k] = v
    return d


def cli_campaign(chk, tier, r):
    """cli/yara.c -C and cli/yarac.c: a damaged compiled-rules file given to the command line tool is diagnosed (exit status 1 and a
    message), with and without -d definitions — never a crash, never a scan. Cut points at relocation-entry boundaries are F9 (library level)."""
    import subprocess, os, struct
    b = core.build("plain", cli=True)
    d = os.path.join(core.OUT, PID, "cli-%d" % os.getpid())
    os.makedirs(d, exist_ok=True)
    open(d + "/r.yar", "w").write('rule t { strings: $a = "abc" condition: level > 3 and ($a or filesize >= 0) }\n'
                                  'rule u { meta: m = "x" strings: $h = { 61 [2-300] 78 } $r = /b+c/ condition: any of them and name == "n" }\n')
    open(d + "/data", "w").write("xabcx")
    p = subprocess.run([b["yarac"], "-d", "level=5", "-d", "name=n", d + "/r.yar", d + "/r.yarc"], capture_output=True, text=True)
    if p.returncode != 0:
        chk.violation("cli_yarac.json", {"kind": "yarac failed on a valid rule file", "stderr": p.stderr[-500:]})
        return True
    img = open(d + "/r.yarc", "rb").read()
    nbuf = img[5]
    rel = 6 + 12 * nbuf + sum(struct.unpack_from("<QI", img, 6 + 12 * i)[1] for i in range(nbuf))
    cuts = {0, 1, 3, 5, 6, 7, 6 + 12 * nbuf - 1, 6 + 12 * nbuf, 6 + 12 * nbuf + 1, rel - 1, len(img) - 1, len(img) - 3}
    cuts |= {r.randrange(6, rel) for _ in range(8 if tier == "quick" else 120)}
    cuts |= {rel + 8 * r.randrange((len(img) - rel) // 8) + r.randint(1, 7) for _ in range(6 if tier == "quick" else 60)}   # inside an entry
    muts = [("cut@%d" % c, img[:c]) for c in sorted(cuts) if 0 <= c < len(img)]
    for off, vals in ((0, (0x58,)), (1, (0x00,)), (2, (0x72,)), (3, (0x42, 0x00)), (4, (0, 99)), (5, (17, 64, 255))):
        for v in vals:
            m = bytearray(img)
            m[off] = v
            muts.append(("hdr[%d]=%d" % (off, v), bytes(m)))
    # a section table that is consistent in itself but lists fewer sections than rules.c reads (relocation entries dropped)
    tab = [struct.unpack_from("<QI", img, 6 + 12 * i) for i in range(nbuf)]
    for k in range(nbuf):
        bodies = [img[o:o + sz] for o, sz in tab[:k]]
        off, t = 6 + 12 * k, b""
        for body in bodies:
            t += struct.pack("<QI", off, len(body))
            off += len(body)
        muts.append(("sections=%d" % k, img[:5] + bytes([k]) + t + b"".join(bodies)))
    nviol, n = 0, 0
    for name, data in muts:
        f = d + "/m.yarc"
        open(f, "wb").write(data)
        for extra in ([], ["-d", "level=5"], ["-d", "level=5", "-d", "name=n", "-s"]):
            n += 1
            try:
                p = subprocess.run([b["yara"], "-C"] + extra + [f, d + "/data"], capture_output=True, text=True, timeout=60)
                rc, err, out = p.returncode, p.stderr, p.stdout
            except subprocess.TimeoutExpired:
                rc, err, out = "timeout", "", ""
            if rc != 1 or not err.strip() or out.strip():
                nviol += 1
                if nviol <= 5:
                    chk.violation("cli_%d.json" % nviol, {"kind": "damaged compiled-rules file not diagnosed by the command line tool", "mutation": name,
                                                          "argv": ["yara", "-C"] + extra + ["<damaged file>", "<data>"], "rc": rc, "stderr": err[-400:], "stdout": out[-200:],
                                                          "image_hex": data.hex() if len(data) < 6000 else None})
    import shutil
    shutil.rmtree(d, ignore_errors=True)
    chk.cov["cli_damaged_files"] = {"invocations": n, "mutations": len(muts), "violations": nviol}
    return nviol > 0


def file_campaign(chk, b, tier, r, images, findings, replay_line=None):
    """The FILE-NAME API (yr_rules_load / yr_rules_save): the same truncations and single-field corruptions written to a file and
    loaded by path.  A rejected load must be "an error and nothing else": same error code as the stream API on the same bytes,
    no rule set handed back, and every descriptor the call opened given back (entries of /proc/self/fd before/after each call;
    LeakSanitizer's recoverable check after each call where the build supports it).  Also: a path that does not exist / is a
    directory / is unreadable; yr_rules_save to a new file, into a missing directory, onto a directory, and to a full device."""
    lines, meta = [], {}
    if replay_line:
        lines = [replay_line]
    else:
        for k, (cid, hexs, lay) in enumerate(images):
            n_img = len(hexs) // 2
            be = lay["bodies_end"]
            cuts = {0, 1, 5, HDR, HDR + 1, lay["tbl_end"] - 1, lay["tbl_end"], lay["tbl_end"] + 1, be - 1, n_img - 1, n_img - 3}
            cuts |= {r.randrange(0, max(1, be)) for _ in range(40 if tier == "quick" else 400)}
            if lay["nrel"]:
                cuts |= {be + 8 * r.randrange(lay["nrel"]) + r.randint(1, 7) for _ in range(6 if tier == "quick" else 60)}   # inside an entry: rejected
            muts = ["full"] + ["p%d" % c for c in sorted(cuts) if 0 <= c < n_img and not (c >= be and (c - be) % 8 == 0)]
            img = bytes.fromhex(hexs)
            cor = [(sp, info) for sp, info in corruption_specs(img, lay, r, "quick") if not f51_family(info, lay, None)]
            muts += [sp for sp, _ in r.sample(cor, min(len(cor), 40 if tier == "quick" else 300))]
            muts += ["full", "nofile", "dir", "unreadable", "saveok", "savenodir", "savedir", "savefull", "full"]
            lid = "lf%d" % k
            lines.append("%s img=%s muts=%s" % (lid, hexs, ",".join(muts)))
            meta[lid] = cid
    env = ac.scratch_env(PID, {"ASAN_OPTIONS": "detect_leaks=1:symbolize=0:exitcode=99:abort_on_error=0", "VF_LSAN": "1",
                               "UBSAN_OPTIONS": "halt_on_error=0:print_stacktrace=0:symbolize=0"})
    out, rc, err = core.run_parallel(ac.capped(b["h_loadfile"]), lines, env=env, timeout=1200)
    found = False
    st = collections.Counter()
    nviol = 0
    byid = {l.split(" ", 1)[0]: l for l in lines}
    f_save = next((f for f in findings if f.get("signature", {}).get("kind") == "save-reports-success-on-write-failure"), None)
    if rc != 0:
        chk.violation("loadfile_harness.json", {"kind": "harness-failed", "rc": rc, "stderr": err[-2000:], "harness": "h_loadfile"})
        return True
    for l in out:
        l1, _ = ac.split_ub(l)
        toks = l1.split(" ")
        lid = toks[0]
        for t in toks[1:]:
            if "=" not in t:
                if t.startswith("CRASH"):
                    st["crash"] += 1
                    nviol += 1
                    found = True
                    chk.violation("loadfile_%d.json" % nviol, {"kind": "file-api-crash", "harness": "h_loadfile", "case": byid.get(lid), "crash": t, "part": "file"})
                continue
            m, res = t.split("=", 1)
            f = res.split(":")
            bad = None
            kind = "save" if m.startswith("save") else "path" if m in ("nofile", "dir", "unreadable") else "load"
            st[kind + ":" + f[0]] += 1
            if f[0] == "SKIPPED-ROOT":
                continue
            if "LEAK" in f:
                bad = "heap-leak-after-call"
            elif "RULES-RETURNED" in f:
                bad = "error-code-but-rules-returned"
            elif len(f) < 4:
                bad = "malformed-result"
            elif f[2] != "0":
                bad = "descriptor-not-given-back" if f[0] != "OK" else "descriptor-kept-after-successful-call"
            elif f[3] not in ("-", "0"):
                bad = "descriptor-kept-after-destroy"
            elif kind == "load" and f[1] != f[0]:
                bad = "file-api-and-stream-api-disagree"
            elif kind == "load" and m != "full" and f[0] == "OK":
                bad = "damaged-file-accepted"
            elif m == "full" and f[0] != "OK":
                bad = "intact-file-not-loaded (after %d earlier calls in this process)" % toks.index(t)
            elif m == "nofile" and f[0] != "COULD_NOT_OPEN_FILE":
                bad = "missing-file-not-reported"
            elif m in ("dir", "unreadable") and f[0] == "OK":
                bad = "unreadable-path-accepted"
            elif m == "saveok" and (f[0] != "OK" or f[-1] != "same"):
                bad = "saved-file-differs-from-image"
            elif m in ("savenodir", "savedir") and f[0] != "COULD_NOT_OPEN_FILE":
                bad = "unwritable-path-not-reported"
            elif m == "savefull" and f[0] == "OK":
                if f_save:
                    st["known:" + f_save["id"]] += 1
                    continue
                st["observed:save-to-full-device-reported-success"] += 1     # image smaller than the stdio buffer: the failure surfaces in fclose, whose result yr_rules_save drops
                continue
            if bad:
                nviol += 1
                found = True
                if nviol <= 5:
                    chk.violation("loadfile_%d.json" % nviol, {"kind": bad, "harness": "h_loadfile", "mutation": m, "result": res, "part": "file",
                                                             "case": byid[lid] if bad.startswith("intact-file-not-loaded") else
                                                                     "%s img=%s muts=%s" % (lid, byid[lid].split(" img=")[1].split(" ")[0], m),
                                                             "note": "result = <file rc>:<stream rc>:<open descriptors after the call - before>:<... after destroy>"})
    if f_save and st.get("known:" + f_save["id"]):
        chk.known(f_save, "%s: %s (%d saves this run)" % (f_save["id"], f_save["signature"].get("summary", ""), st["known:" + f_save["id"]]))
    chk.cov["file_api"] = {"lines": len(lines), "calls": sum(v for k, v in st.items() if not k.startswith("known")), "outcomes": dict(st), "violations": nviol}
    return found


def run(tier, replay=None):
    chk = core.Check(PID, tier)
    th = core.run_translators(["arenalayout", "rulesfile"])
    lres = core.lean_check(THM)
    core.proof_coverage(chk, lres, THM, th)
    b = core.build("asan", harness=["h_grow", "h_load", "h_arena", "h_loadfile"], **ac.REC)
    findings = core.known_findings(PID)
    fk = {f["id"]: f for f in findings}
    found = False
    r = core.rng(PID)
    ubs = set()

    if replay and replay.get("part") == "file":
        f = file_campaign(chk, b, tier, core.rng(PID + "/file"), [], findings, replay_line=replay["case"])
        core.handle_broken_proof(chk, lres, f)
        return chk.finish("proof")

    if replay and replay.get("part") == "ops":
        f, cov, u = ac.ops_tie(chk, b, 1, PID + "/ops", replay_case=replay["case"])
        core.handle_broken_proof(chk, lres, f)
        return chk.finish("proof")

    if lres.get("driver_ok") and not replay:
        f, cov, u = ac.ops_tie(chk, b, 400 if tier == "quick" else 6000, PID + "/ops", growth=False)
        found |= f
        ubs |= u
        chk.cov.update(cov)

    # ---- images of generated rule sets
    nex, nsec = (4, 10) if tier == "quick" else (30, 80)
    cases = ac.gen_cases(r, nex, sizes=("tiny",), corpus=False) + ac.gen_cases(r, nsec, sizes=("tiny", "small", "small", "large"), corpus=False)
    env = ac.scratch_env(PID, {"ASAN_OPTIONS": "detect_leaks=0:symbolize=0:exitcode=99:abort_on_error=0",
                               "UBSAN_OPTIONS": "halt_on_error=0:print_stacktrace=0:symbolize=0"})
    if replay:
        lines2 = [replay["case"]]
        meta = {lines2[0].split(" ", 1)[0]: {"fields": replay.get("fields", {}), "lay": replay["layout"], "len": replay["image_len"], "rules": replay.get("rules")}}
    else:
        lines = [ac.case_line("f%d" % i, c, hex=1) for i, c in enumerate(cases)]
        out, rc, err = core.run_parallel(ac.capped(b["h_grow"]), lines, env=ac.scratch_env(PID))
        lines2, meta = [], {}
        file_images = []
        for l in out:
            l1, u = ac.split_ub(l)
            ubs |= set(u)
            d = ac.fields(l1)
            if d.get("C") != "OK" or "HEX" not in d or "CRASH" in d:
                continue
            i = int(d["id"][1:])
            img = bytes.fromhex(d["HEX"])
            lay = layout(img)
            exhaustive = i < nex and len(img) <= 9000
            if len(img) <= 20000 and len(file_images) < (3 if tier == "quick" else 12):
                file_images.append((d["id"], d["HEX"], lay))
            specs = prefix_specs(img, lay, r, exhaustive, tier)
            cor = corruption_specs(img, lay, r, tier)
            fields = {s: f for s, f in cor}     # spec -> dict(name, i, v, old)
            bufs = " ".join("b=" + ac.hx(x) for x in cases[i]["bufs"][:2])
            allspecs = []
            for sp in specs:      # split long prefix ranges so that the work spreads over the cores
                if "-" in sp:
                    a0, b0 = map(int, sp[1:].split("-"))
                    step = 800
                    allspecs += ["p%d-%d" % (x, min(b0, x + step)) for x in range(a0, b0, step)]
                else:
                    allspecs.append(sp)
            allspecs += [s for s, _ in cor]
            # weight of a group: cheap rejected prefixes count 1/4, single mutations (a possible crashed child) 8,
            # scaled by the image size
            scale = 1 + len(img) // 20000
            groups, cur, w = [], [], 0
            for sp in allspecs:
                cur.append(sp)
                w += ((int(sp[1:].split("-")[1]) - int(sp[1:].split("-")[0])) // 4 if "-" in sp else 8) * scale
                if w >= 1200:
                    groups.append(cur); cur, w = [], 0
            if cur:
                groups.append(cur)
            for gi, g in enumerate(groups):
                cid = "%s.%d" % (d["id"], gi)
                lines2.append("%s img=%s %s muts=%s" % (cid, d["HEX"], bufs, ",".join(g)))
                meta[cid] = {"fields": fields, "lay": lay, "len": len(img), "exhaustive": exhaustive and gi == 0, "rules": [s for _, s in cases[i]["nss"]]}
    import time
    t0 = time.time()
    impl, rc, err = core.run_parallel(ac.capped(b["h_load"]), lines2, env=env, timeout=3000)
    t_impl = time.time() - t0
    if rc != 0:
        chk.violation("harness_crash.json", {"kind": "harness-failed", "rc": rc, "stderr": err, "harness": "h_load"})
        found = True
    model = []
    if lres.get("driver_ok"):
        # the Lean loader is quadratic in (bytes x relocation entries): leave the largest images to the C side only
        mlines = [l for l in lines2 if meta[l.split(" ", 1)[0]]["len"] <= 40000]
        t0 = time.time()
        model, mrc, merr = core.run_parallel([core.driver_path(), "arena"], mlines, timeout=3000)
        chk.cov["model_s"] = round(time.time() - t0, 1)
    mm = {l.split(" ", 1)[0]: l for l in model}
    byid = {l.split(" ", 1)[0]: l for l in lines2}
    st = collections.Counter()
    by_field = collections.defaultdict(collections.Counter)
    nviol = 0
    known_seen = collections.Counter()
    evals = 0
    nontrivial = set()
    compared = 0

    def viol(kind, cid, spec, res, mres, extra=None):
        nonlocal nviol, found
        nviol += 1
        found = True
        if nviol <= 8:
            m = meta[cid]
            line = byid[cid]
            # minimal replay: the same image with only this mutation
            toks = [t for t in line.split(" ") if not t.startswith("muts=")] + ["muts=" + spec]
            o = {"kind": kind, "harness": "h_load", "engine": "arena", "case": " ".join(toks), "mutation": spec, "implementation": res, "model": mres,
                 "layout": m["lay"], "image_len": m["len"], "fields": {spec: m["fields"].get(spec)} if spec in m["fields"] else {}, "rules": m.get("rules")}
            if extra:
                o.update(extra)
            chk.violation("load_%d.json" % nviol, o)

    for l in impl:
        l1, u = ac.split_ub(l)
        ubs |= set(u)
        toks = l1.split(" ")
        cid = toks[0]
        m = meta[cid]
        lay = m["lay"]
        if not toks[1].startswith("REF=OK"):
            viol("intact-image-not-loaded", cid, "full", toks[1], None)
            continue
        res = expand(toks[2:])
        mres = {}
        if cid in mm:
            mt = mm[cid].split(" ")
            mres = expand([t for t in mt[1:] if "=" in t and t[0] in "pw"])
            if not mt[1].startswith("REF=OK"):
                viol("model-rejects-intact-image", cid, "full", toks[1], mt[1])
            thm = [t for t in mt if t.startswith("THM=")]
            if thm:
                tv = thm[0][4:].split(":")
                st["closed-form-verdicts-checked"] += int(tv[0])
                if int(tv[1]) > 0:
                    viol("loader-model-leaves-the-proved-characterisation", cid, tv[2] + ":" + tv[3] if len(tv) > 3 else "?", None, thm[0],
                         {"note": "the closed-form verdict of Thm/C17 (corrupt_* / size_change_accepted_iff) differs from the loader model's verdict"})
        for spec, rs in res.items():
            evals += 1
            cls = classify_impl(rs)
            # model <-> implementation
            if spec in mres:
                mo = mres[spec]
                compared += 1
                if mo in ("OOB", "ADDRDEP"):
                    st["model:" + mo] += 1
                elif mo == "OK" and cls == "LOADCRASH":
                    # the arena loaded; the crash is in yr_rules_from_arena's walk over the (garbage) rules table,
                    # which the arena model does not cover; judged by the specification below
                    st["crash-after-arena-load"] += 1
                elif mo != cls:
                    viol("model-implementation-disagreement", cid, spec, rs, mo)
                    continue
            # specification: an error code and no rule set
            if spec.startswith("p"):
                k = int(spec[1:])
                region = "header" if k < HDR else "table" if k < lay["tbl_end"] else "bodies" if k < lay["bodies_end"] else "relocs"
                st["prefix:%s:%s" % (region, cls if cls != "OK" else rs.split(":")[1] if ":" in rs else "OK")] += 1
                if rs.endswith("RULES-RETURNED"):
                    viol("error-code-but-rules-returned", cid, spec, rs, mres.get(spec))
                elif cls == "OK":
                    if region == "relocs" and "F9" in fk:
                        known_seen["F9"] += 1
                        if rs != "OK:same":
                            nontrivial.add((cid, "reloc-cut-misbehaves"))
                    else:
                        viol("truncated-file-accepted", cid, spec, rs, mres.get(spec), {"region": region})
                elif cls in ("ASSERT", "LOADCRASH"):
                    viol("loader-crashes-on-truncated-file", cid, spec, rs, mres.get(spec), {"region": region})
                else:
                    nontrivial.add((cid, region))
            else:
                info = m["fields"].get(spec) or {}
                field = info.get("name", "?")
                outcome = cls if cls != "OK" else rs
                by_field[field][outcome.split("@")[0][:60]] += 1
                if info.get("name") in ("offset", "size") and info.get("v") not in (None,) and spec in mres:
                    st["random-or-listed-values-compared:" + field] += 1
                if rs.endswith("RULES-RETURNED"):
                    viol("error-code-but-rules-returned", cid, spec, rs, mres.get(spec))
                elif cls in ("OK", "LOADCRASH"):
                    # accepted by the arena loader (LOADCRASH with the model saying OK: the crash is in what follows the load).
                    # Known finding F51 covers exactly the family proved in Thm/C17 size_change_accepted_iff, nothing wider.
                    fam = f51_family(info, lay, mres.get(spec))
                    if fam and "F51" in fk and (cls == "OK" or mres.get(spec) in (None, "OK")):
                        known_seen["F51"] += 1
                        by_field["size"]["F51-" + ("raised" if info["v"] > info["old"] else "lowered")] += 1
                        if rs != "OK:same":
                            nontrivial.add((cid, "last-size-misbehaves"))
                    else:
                        viol("corrupted-file-accepted-or-loader-crash", cid, spec, rs, mres.get(spec),
                             {"field": field, "entry": info.get("i"), "new_value": info.get("v"), "old_value": info.get("old"),
                              "note": "outside the family proved in Thm/C17 size_change_accepted_iff (known finding F51)"})
                elif cls == "ASSERT":
                    viol("loader-assert-on-corrupted-file", cid, spec, rs, mres.get(spec), {"field": field})
                else:
                    # refused: for the closed-form part of the family the theorem says ACCEPTED — a refusal there means the
                    # code no longer matches the proved characterisation
                    if info.get("name") == "size" and info.get("i") == lay["n"] - 1 and info["v"] > info["old"] and f51_family(info, lay, None):
                        viol("last-size-raised-by-whole-entries-refused", cid, spec, rs, mres.get(spec), {"field": field})
                    else:
                        nontrivial.add((cid, field))
    if not replay:
        found |= cli_campaign(chk, tier, r)
        found |= file_campaign(chk, b, tier, core.rng(PID + "/file"), file_images, findings)
    for fid, cnt in sorted(known_seen.items()):
        f = next(x for x in findings if x["id"] == fid.split(":")[0] and (":" not in fid or x["signature"].get("field") == fid.split(":")[1]))
        chk.known(f, "%s: %s (%d mutations this run)" % (fid, f["signature"].get("summary", f["text"][:120]), cnt))
    # reports outside arena.c come from using rules that were wrongly accepted (consequences of F9/F22)
    mine = {u for u in ubs if u.endswith("@arena.c") or u.endswith("@stream.c")}
    found |= ac.known_ub(chk, PID, mine, findings)
    chk.cov.update({
        "impl_s": round(t_impl, 1), "evaluations": evals, "distinct_nontrivial": len(nontrivial), "mutations_compared_with_model": compared,
        "rule": "one mutated image (prefix of length n, or one header/table field overwritten) of a compiled rule set, loaded by yr_rules_load_stream in a forked "
                "child; non-trivial (counted per image and region/field) = the loader returned an error code for a mutation in that region",
        "images": len(lines2), "images_exhaustive_prefixes": sum(1 for m in meta.values() if m.get("exhaustive")),
        "prefix_outcomes": {k: v for k, v in st.items()}, "corruption_outcomes_by_field": {k: dict(v) for k, v in by_field.items()},
        "known_finding_hits": dict(known_seen), "ub_reports_elsewhere": sorted(ubs - mine)[:10],
        "samples": [{"case": (lines2[0][:200] + " ... " + lines2[0][-200:]) if lines2 else None, "implementation": impl[0][:600] if impl else None,
                     "model": model[0][:600] if model else None}]})
    core.handle_broken_proof(chk, lres, found)
    chk.assumptions += ["on the real loader field corruptions use a set of values per field plus random values (all values are covered by the theorems on the model)",
                        "rules that load are exercised by scanning two buffers and walking yr_rules_get_stats; other uses are not observed",
                        "the Lean loader is run on images up to 40000 bytes (larger ones are checked against the specification only)"]
    return chk.finish("proof")
