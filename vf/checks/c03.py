"""C03 — regular-expression strings and `matches` agree with regex semantics.

 (1) Lean: Spec/Re.lean + `ends_iff_Matches`; Thm/C03.lean (range_table: the counted-repeat emit table of re.c is
     equivalent to `range n m e`; vm soundness on the bytecode model for every well-formed expression; matches_sound for the scan mode);
 (2) spec-level correspondence: generated regex ASTs (<= 12 nodes, all-greedy or all-lazy, classes, escapes, anchors,
     word boundaries, /i /s, nocase ascii wide fullword, atoms forced into groups / branches / counted repeats) are
     printed as YARA text, run through the real compiler+scanner (complete match list) and the compiled Lean spec;
     `matches` through literal operands and external string variables;
 (3) parser tie: RE_AST from yr_compiler_set_re_ast_callback == the generator's AST (incl. class bitmaps, greedy flags);
 (4) translation validation of the real bytecode (C VM vs Lean VM model on the same code).
"""
from vf import core
from vf.checks import re_common as rc
from vf.checks.re_common import hx, RE_MAX_RANGE

THM = ["YaraModel.Thm.C03"]
MANIFEST = dict(
    technique="Lean 4: specification of the regexp AST (sets of end positions, cross-checked against a relational formulation), theorems on the counted-repeat emit table, "
              "atom decomposition and the bytecode VM + spec-level correspondence against the real compiler/scanner (regex strings and the `matches` operator) + AST tie through "
              "the re_ast callback + translation validation (real bytecode run by the C VM and by the Lean VM model; Lean model of _yr_re_emit compared byte for byte)",
    text="proof (partial): Thm/C03.lean proves, for ALL expressions (every RE_NODE_* kind), flags (wide, nocase, dot-all) and buffers: the specification is self-consistent "
         "(ends_iff_Matches, incl. the closures of * + {n,m}) and the driver's evaluator computes it (driver_evaluates_spec); the prolog/repeat/split/epilog code shape of "
         "counted repeats denotes exactly e{n,m} for all n <= m (range_table, range_concat); forward-from-the-atom + exhaustive-backward-from-the-atom equals a whole match "
         "with atoms inside groups, alternation branches and + bodies (decompose); everything the VM model reports (callback lengths, *matches, also in the scan mode of "
         "`matches`) comes from a reachable fiber at RE_OPCODE_MATCH (vm_reports_reachable, any bytecode); and on the code of the emit model the VM is SOUND for EVERY well-formed expression "
         "(WF: every RE_NODE kind incl. the empty alternative and counted repeats e{n,m} of every emit-table row - prolog copy, REPEAT_START/REPEAT_END loop with the counter on the "
         "fiber stack, split + epilog - n <= m < 65536, greedy or lazy, nested in any way; code below the emitter's int16 jump range), all buffers, start "
         "positions and flags: forward code in byte mode with or without the scan mode (vm_sound; matches_sound: a true `matches` verdict implies a matching substring), "
         "forward code with one- or two-byte (wide) characters (vm_sound_forward), and backward code - proved to be the forward code of the mirrored expression - run with "
         "RE_FLAGS_BACKWARDS, byte or wide (vm_sound_backward: L <= start and the expression matches buf[start-L, start)). "
         "the atoms handed to yr_ac_add_string (Model/ReAtoms.lean: walk with the sliding window, trim, OR/AND tree, choice - for EVERY quality function - wildcard expansion, widened atoms, case variants, zero-length atom) cover every match, for every expression, byte or wide matching, with or without nocase: one of these byte sequences occurs literally inside the match at the position of the node it begins at (reAtoms_cover; the position statement - before / node / after, code entry points - for loop-free expressions in Thm/C02); NOT proved: runs entering the code at an atom's instruction (the forward+backward composition of _yr_scan_verify_re_match; at specification level: decompose), the "
         "fast matcher, VM completeness for regular expressions (epsilon-loops, counted repeats with the repeat stack, fiber limits; proved for hex code - Thm/C02 vm_complete_hex - and for the STAR-FREE fragment: vm_complete_starfree_partial - for every expression built from consuming one-character nodes (literals, ., classes, \\w \\W \\s \\S \\d \\D), the empty expression, .{n,m}, concatenation and alternation whose first branch cannot be left without consuming a character (decidable predicate starFree), all buffers, start positions, nocase / dot-all flags, byte mode: every match of length <= 1024 at the start position is reported by the exhaustive forward run that ends without error (<= 256 alternatives); the same for the backward code (vm_complete_starfree_backward_partial); excluded: * + e{n,m}, ^ $ \\b \\B, alternatives with a passable first branch such as (|a), wide mode; the executable-side lemma vm_reports_accepting - pass / loop / exec report every accepting path in exhaustive mode - holds for every code), atom extraction, Aho-Corasick. That gap is covered by SAMPLING on "
         "every run: generated regexes (<= 12 nodes, all-greedy / all-lazy, anchors, word boundaries, classes, /i /s, nocase ascii wide fullword, atoms forced into groups, "
         "branches and repeats) x buffers (< 1024 bytes) through the real engine vs. the compiled Lean specification (complete match lists, `matches` verdicts through literal "
         "and external operands), the parser AST tie (incl. class bitmaps and greedy flags), the real bytecode through the C VM and the Lean VM model, the whole-expression code "
         "run exhaustively vs. the specification, the Lean emit model vs. the bytes yr_re_ast_emit_code writes, and the Lean model of atoms.c (heuristic quality included) vs. the atoms the compiler inserts into the automaton (hook H3) and the code positions of their entries.",
    design_ref="DESIGN.md §4 D6/D7, §5 C03",
    note=core.TB + "The regex printer and the oracle comparator (vf/checks/re_common.py) are trusted (the printer is inside the AST tie). Spec decisions: which admissible "
                   "length is reported is not constrained beyond membership; with `fullword` an offset must be reported when every admissible length is delimited and must not when "
                   "none is; ascii+wide strings may report a length of either encoding. Four listed findings (known_findings.json: empty matches, "
                   "nullable counted repeats, zero-width loop (hang), lazy dot chains) are "
                   "excused only for their signature; a model/code tie broken without a property-level failing input is reported as `no-failing-input-found`.")

LETTERS = [0x61, 0x62, 0x63]
ALPHA = [0x61, 0x62, 0x63, 0x41, 0x42, 0x31, 0x5F, 0x20, 0x2D, 0x0A, 0x00, 0xE9, 0x7A, 0x39]
RAW_OK = set(range(0x30, 0x3A)) | set(range(0x41, 0x5B)) | set(range(0x61, 0x7B)) | {0x5F, 0x20, 0x2D, 0x3D, 0x21, 0x40, 0x23, 0x25, 0x26, 0x3A, 0x3B, 0x3C, 0x3E, 0x7E, 0x2C, 0x27}
ESCAPABLE = [0x2E, 0x2A, 0x2B, 0x3F, 0x28, 0x29, 0x5B, 0x5D, 0x7C, 0x5E, 0x24, 0x5C, 0x2F]
BOUNDS = [0, 1, 2, 3, 4, 5, 7]
SPACES = [0x20, 0x09, 0x0D, 0x0A, 0x0B, 0x0C]


def is_word(c): return (0x30 <= c <= 0x39) or (0x41 <= c <= 0x5A) or (0x61 <= c <= 0x7A) or c == 0x5F
def is_space(c): return c in SPACES
def is_digit(c): return 0x30 <= c <= 0x39


# ---------------------------------------------------------------- generator (syntax tree)
class G:
    def __init__(self, r, greedy, lit_ok=True):
        self.r, self.greedy, self.budget = r, greedy, r.choice([2, 3, 4, 5, 6, 8, 10, 12])
        self.lit_zone = None      # when set: literals only inside the zone (atoms forced there)
        self.in_zone = False

    def char(self):
        r = self.r
        u = r.random()
        if u < 0.75: return r.choice(LETTERS)
        if u < 0.93: return r.choice(ALPHA)
        return r.choice(ESCAPABLE + [0xFF, 0x7B, 0x7D, 0x22])

    def cls(self):
        r = self.r
        items = []
        for _ in range(r.choice([1, 1, 2, 3])):
            u = r.random()
            if u < 0.5:
                items.append(("c", self.char()))
            elif u < 0.8:
                lo = r.choice([0x61, 0x62, 0x41, 0x30, 0x00, 0x20, 0x7B, 0xE0])
                hi = min(255, lo + r.choice([0, 1, 2, 5, 25, 31]))
                items.append(("r", lo, hi))
            else:
                items.append(("e", r.choice("wWsSdD")))
        return ("cls", items, r.random() < 0.3)

    def atom(self, depth):
        r = self.r
        self.budget -= 1
        u = r.random()
        lit_allowed = self.lit_zone is None or self.in_zone
        if depth < 3 and self.budget > 1 and u < 0.20:
            zone_here = self.lit_zone == "pending" and r.random() < 0.6
            if zone_here:
                self.lit_zone, self.in_zone = "used", True
            n = r.choice([1, 1, 2, 2, 3])
            alts = [self.concat(depth + 1) for _ in range(n)]
            if n >= 2 and r.random() < 0.12:
                alts[-1] = []                       # `(a|)`
            if zone_here:
                self.in_zone = False
            return ("grp", alts)
        if u < 0.62 and lit_allowed:
            return ("ch", self.char())
        if u < 0.62:
            return r.choice([("dot",), ("esc", r.choice("wWsSdD")), self.cls()])
        if u < 0.72: return ("dot",)
        if u < 0.84: return ("esc", r.choice("wWsSdD"))
        return self.cls()

    def piece(self, depth):
        r = self.r
        u = r.random()
        if u < 0.06 and self.budget > 1:
            self.budget -= 1
            return r.choice([("bol",), ("eol",), ("wb",), ("nwb",), ("wb",), ("nwb",)])
        a = self.atom(depth)
        v = r.random()
        if v < 0.42 and self.budget > 0:
            self.budget -= 1
            k = r.choice(["*", "+", "?", "{n}", "{n,}", "{,m}", "{n,m}", "{n,m}", "{n}"])
            lo = r.choice(BOUNDS); hi = r.choice([b for b in BOUNDS if b >= lo])
            if k == "*": lo, hi = 0, None
            elif k == "+": lo, hi = 1, None
            elif k == "?": lo, hi = 0, 1
            elif k == "{n}": hi = lo
            elif k == "{n,}": hi = RE_MAX_RANGE
            elif k == "{,m}": lo = 0
            return ("rep", a, k, lo, hi)
        return a

    def concat(self, depth):
        n = self.r.choice([1, 1, 2, 2, 3, 4])
        out = []
        for _ in range(n):
            if self.budget <= 0 and out:
                break
            out.append(self.piece(depth))
        return out

    def top(self):
        r = self.r
        if r.random() < 0.45:
            self.lit_zone = "pending"
        n = r.choice([1, 1, 1, 1, 2, 3])
        alts = [self.concat(0) for _ in range(n)]
        if n >= 2 and r.random() < 0.08:
            alts[-1] = []
        return alts


def ch_text(c, r=None, in_cls=False):
    if c in RAW_OK and not (r and r.random() < 0.08) and not (in_cls and c in (0x2D, 0x5E)):
        return chr(c)
    if c in ESCAPABLE or (c in (0x2D, 0x7B, 0x7D, 0x22) and (r is None or r.random() < 0.7)):
        return "\\" + chr(c)
    if c in (0x0A, 0x09, 0x0D, 0x0C, 0x07) and (r is None or r.random() < 0.5):
        return {0x0A: "\\n", 0x09: "\\t", 0x0D: "\\r", 0x0C: "\\f", 0x07: "\\a"}[c]
    return "\\x%02x" % c


def node_text(n, lazy, r):
    k = n[0]
    if k == "ch": return ch_text(n[1], r)
    if k == "dot": return "."
    if k == "esc": return "\\" + n[1]
    if k == "cls":
        body = ""
        for it in n[1]:
            if it[0] == "c": body += ch_text(it[1], r, True)
            elif it[0] == "r": body += ch_text(it[1], r, True) + "-" + ch_text(it[2], r, True)
            else: body += "\\" + it[1]
        return "[" + ("^" if n[2] else "") + body + "]"
    if k == "grp": return "(" + alts_text(n[1], lazy, r) + ")"
    if k == "rep":
        kind, lo, hi = n[2], n[3], n[4]
        q = kind if kind in "*+?" else "{%d}" % lo if kind == "{n}" else "{%d,}" % lo if kind == "{n,}" else "{,%d}" % hi if kind == "{,m}" else "{%d,%d}" % (lo, hi)
        if "," in q and r is not None and r.random() < 0.2:
            q = q.replace(",", " " * r.choice([0, 0, 1]) + "," + " " * r.choice([0, 1, 1, 2]))   # re_lexer.l: blanks are allowed around the comma of an interval
        return node_text(n[1], lazy, r) + q + ("?" if lazy else "")
    return {"bol": "^", "eol": "$", "wb": "\\b", "nwb": "\\B"}[k]


def alts_text(alts, lazy, r):
    return "|".join("".join(node_text(x, lazy, r) for x in c) for c in alts)


def cls_bitmap(items):
    bm = 0
    for it in items:
        if it[0] == "c": bm |= 1 << it[1]
        elif it[0] == "r":
            for c in range(it[1], it[2] + 1): bm |= 1 << c
        else:
            f = {"w": is_word, "s": is_space, "d": is_digit}[it[1].lower()]
            for c in range(256):
                if f(c) != it[1].isupper(): bm |= 1 << c
    return bm


def node_ast(n, greedy):
    k = n[0]
    if k == "ch": return ("lit", n[1])
    if k == "dot": return ("any",)
    if k == "esc": return (n[1],)
    if k == "cls": return ("cls", cls_bitmap(n[1]), n[2])
    if k == "grp": return alts_ast(n[1], greedy)
    if k == "rep":
        a, kind, lo, hi = n[1], n[2], n[3], n[4]
        if kind == "*": return ("star", node_ast(a, greedy), greedy)
        if kind == "+": return ("plus", node_ast(a, greedy), greedy)
        if a[0] == "dot": return ("rangeany", lo, hi, greedy)
        return ("range", node_ast(a, greedy), lo, hi, greedy)
    return {"bol": ("bol",), "eol": ("eol",), "wb": ("wb",), "nwb": ("nwb",)}[k]


def alts_ast(alts, greedy):
    def cat(c):
        return ("empty",) if not c else ("concat", [node_ast(x, greedy) for x in c])
    acc = cat(alts[0])
    for c in alts[1:]:
        acc = ("alt", acc, cat(c))
    return acc


def has_rep(alts):
    for c in alts:
        for x in c:
            if x[0] == "rep" or (x[0] == "grp" and has_rep(x[1])):
                return True
            if x[0] == "rep" and x[1][0] == "grp" and has_rep(x[1][1]):
                return True
    return False


def walk(alts, f):
    for c in alts:
        for x in c:
            f(x)
            y = x[1] if x[0] == "rep" else x
            if y is not x: f(y)
            if y[0] == "grp": walk(y[1], f)


def sample(alts, r, depth=0):
    c = r.choice(alts)
    out = bytearray()
    for x in c:
        out += sample_node(x, r, depth)
    return bytes(out)


def sample_node(n, r, depth):
    k = n[0]
    if k == "ch": return bytes([n[1]])
    if k == "dot":
        # the boundary values of the wildcard (atoms spanning a `.` are expanded 00..FF) come up often
        return bytes([r.choice([0x00, 0xFF, 0xFF, 0x01, 0xFE]) if r.random() < 0.35 else r.choice([c for c in ALPHA if c != 0x0A])])
    if k == "esc":
        f = {"w": is_word, "s": is_space, "d": is_digit}[n[1].lower()]
        pool = [c for c in ALPHA + SPACES + [0x30, 0x39] if f(c) != n[1].isupper()]
        return bytes([r.choice(pool)])
    if k == "cls":
        bm = cls_bitmap(n[1])
        pool = [c for c in ALPHA + list(range(256)) if bool(bm >> c & 1) != n[2]]
        if not pool: return b""
        u = r.random()
        return bytes([pool[0] if u < 0.35 else max(pool) if u < 0.5 else min(pool) if u < 0.6 else r.choice(pool[:40])])
    if k == "grp": return sample(n[1], r, depth + 1)
    if k == "rep":
        lo = n[3]; hi = n[4] if n[4] is not None else lo + 3
        cnt = r.randint(lo, min(hi, lo + 3))
        return b"".join(sample_node(n[1], r, depth + 1) for _ in range(min(cnt, 8)))
    return b""


MODS = [("", "a"), ("", "a"), ("nocase", "ai"), ("wide", "w"), ("ascii wide", "aw"), ("fullword", "af"), ("wide fullword", "wf"),
        ("nocase wide", "wi"), ("ascii wide nocase fullword", "awif"), ("ascii", "a"), ("ascii wide fullword", "awf"), ("nocase fullword", "aif")]


def gen_atom_run(r):
    """`x.abc.y`: a run of 6-12 characters and dots whose best 4-token atom window lies inside the run and begins with
    a dot (atoms.c trims the leading wildcard; the atom's bytes and its code position must stay in step)"""
    def low():
        u = r.random()
        if u < 0.5: return ("ch", r.choice([0x20, 0x00, 0xFF, 0x20]))
        if u < 0.8: return ("dot",)
        return ("ch", r.choice(LETTERS))
    left = [("ch", r.choice([0x78, 0x20, 0x61, 0x2D]))] + [low() for _ in range(r.choice([0, 0, 1, 2]))]
    core = [("ch", c) for c in r.sample([0x61, 0x62, 0x63, 0x31, 0x5F, 0x7A, 0x41, 0xE9, 0x2D], r.choice([2, 3, 3, 3]))]
    after = [("dot",)] if r.random() < 0.75 else [low()]
    right = [low() for _ in range(r.choice([0, 1, 1, 2]))] + [("ch", r.choice([0x79, 0x20, 0x62, 0x39]))]
    run = left + [("dot",)] * r.choice([1, 1, 1, 2]) + core + after + right
    while len(run) < 6:
        run.insert(len(left), low())
    return run[:12]


def gen_regex(r):
    """loops over zero-width assertions hang the engine (listed finding C03-zero-width-loop-hang, kept in the corpus):
    the random stream avoids them, every hang would cost a timeout"""
    if r.random() < 0.10:
        run = gen_atom_run(r)
        u = r.random()
        if u < 0.2:
            return [[("rep", ("ch", r.choice(LETTERS)), "*", 0, None)] + run], True
        if u < 0.35:
            return [run, [("ch", r.choice(LETTERS)), ("ch", r.choice(LETTERS))]], True
        return [run], True
    while True:
        greedy = r.random() < 0.6
        g = G(r, greedy)
        alts = g.top()
        t = rc.ast_text(rc.norm(alts_ast(alts, greedy)))
        if not zero_width_loop(t):
            return alts, greedy


def widen(b):
    return b"".join(bytes([c, 0]) for c in b)


def gen_buffer(r, alts, fl, limit=200):
    buf = bytearray()
    alpha = list(ALPHA)
    walk(alts, lambda x: alpha.append(x[1]) if x[0] == "ch" else None)
    if "i" in fl:
        alpha += [c ^ 0x20 for c in alpha if 0x41 <= (c & 0xDF) <= 0x5A]
    n = r.choice([0, 1, 2, 3, 5])
    if r.random() < 0.15:
        buf += bytes(r.choice(alpha) for _ in range(r.randint(0, 6)))
    for _ in range(n):
        s = sample(alts, r)
        if "i" in fl and r.random() < 0.5:
            s = bytes((c ^ 0x20) if (0x41 <= (c & 0xDF) <= 0x5A and r.random() < 0.5) else c for c in s)
        if r.random() < 0.2 and s:
            s = bytearray(s); s[r.randrange(len(s))] = r.choice(alpha); s = bytes(s)
        if "w" in fl and (("a" not in fl) or r.random() < 0.6):
            s = widen(s)
            if r.random() < 0.1 and s:
                s = s[:-1]
        buf += s
        sep = bytes(r.choice(alpha) for _ in range(r.choice([0, 0, 1, 1, 2, 4])))
        buf += widen(sep) if ("w" in fl and r.random() < 0.5) else sep
    if len(buf) > limit:
        buf = buf[:limit]
    return bytes(buf)


def gen_string_case(r, cid):
    alts, greedy = gen_regex(r)
    mods, fl = r.choice(MODS)
    rfl = r.choice(["", "", "", "i", "s", "is"])
    if "i" in rfl and "i" not in fl: fl += "i"
    if "s" in rfl: fl += "s"
    text = alts_text(alts, not greedy, r)
    ast = rc.norm(alts_ast(alts, greedy))
    buf = gen_buffer(r, alts, fl)
    rule = "rule r { strings: $a = /%s/%s %s condition: #a >= 0 }" % (text, rfl, mods)
    meta = dict(kind="string", regex=text, reflags=rfl, mods=mods, greedy=greedy, nodes=rc.count_nodes(ast), has_rep=has_rep(alts), zone=None)
    line = "%s src=%s re=%s fl=%s buf=%s code=1 fx=1 atoms=1" % (cid, hx(rule), rc.ast_text(ast), fl, hx(buf))
    return line, meta


def lit_text(b):
    return "".join(chr(c) if (c in RAW_OK and c != 0x27) else "\\x%02x" % c for c in b)


def gen_matches_case(r, cid):
    alts, greedy = gen_regex(r)
    if r.random() < 0.12:
        # `(e)*$`: when the operand does not end with an instance of e the only match is the empty one at the very end
        w = [[("rep", ("grp", alts), "*", 0, None), ("eol",)]]
        if not zero_width_loop(rc.ast_text(rc.norm(alts_ast(w, greedy)))):
            alts = w
    rfl = r.choice(["", "", "i", "s", "is"])
    text = alts_text(alts, not greedy, r)
    ast = rc.norm(alts_ast(alts, greedy))
    s = gen_buffer(r, alts, "a" + rfl, limit=60)
    use_ext = r.random() < 0.4 and 0 not in s
    if use_ext:
        rule = "rule r { strings: $t = /%s/%s condition: x matches /%s/%s or #t < 0 }" % (text, rfl, text, rfl)
        ext = " cext=s:x:%s" % hx(s)
    else:
        rule = "rule r { strings: $t = /%s/%s condition: \"%s\" matches /%s/%s or #t < 0 }" % (text, rfl, lit_text(s), text, rfl)
        ext = ""
    meta = dict(kind="matches", regex=text, reflags=rfl, greedy=greedy, operand=hx(s), ext=use_ext, has_rep=has_rep(alts), nodes=rc.count_nodes(ast))
    line = "%s%s src=%s re=%s fl=%s mstr=%s buf=00" % (cid, ext, hx(rule), rc.ast_text(ast), rfl or "-", hx(s))
    return line, meta


def parse_ast_text(s):
    """canonical AST text -> nested tuples (only the structure needed for the signatures)"""
    pos = [0]

    def num():
        j = pos[0]
        while pos[0] < len(s) and s[pos[0]].isdigit(): pos[0] += 1
        return int(s[j:pos[0]])

    def node():
        c = s[pos[0]]; pos[0] += 1
        if c in "ln": pos[0] += 2; return ("leaf",)
        if c in "mk": pos[0] += 4; return ("leaf",)
        if c == "c": pos[0] += 65; return ("leaf",)
        if c in ".wWsSdD": return ("leaf",)
        if c in "e^$bB": return ("zero", c)
        if c in "CA":
            pos[0] += 1; a = node(); pos[0] += 1; b = node(); pos[0] += 1
            return ("cat" if c == "C" else "alt", a, b)
        if c in "*+":
            pos[0] += 2; a = node(); pos[0] += 1
            return ("star" if c == "*" else "plus", a)
        if c == "R":
            pos[0] += 1; lo = num(); pos[0] += 1; hi = num(); pos[0] += 1; a = node(); pos[0] += 1
            return ("range", a, lo, hi)
        if c == "J":
            pos[0] += 1; lo = num(); pos[0] += 1; hi = num()
            return ("rangeany", lo, hi)
        raise ValueError(s)
    return node()


def nullable(n):
    k = n[0]
    if k == "leaf": return False
    if k == "zero": return True
    if k == "cat": return nullable(n[1]) and nullable(n[2])
    if k == "alt": return nullable(n[1]) or nullable(n[2])
    if k == "star": return True
    if k == "plus": return nullable(n[1])
    if k == "range": return n[2] == 0 or nullable(n[1])
    if k == "rangeany": return n[1] == 0
    return False


def zero_width_loop(ast_text):
    """signature of C03-zero-width-loop-hang: a repeat whose body is nullable and contains a zero-width assertion"""
    def has_zero(n):
        if n[0] == "zero" and n[1] != "e": return True
        return any(has_zero(x) for x in n[1:] if isinstance(x, tuple))

    def go(n):
        if n[0] in ("star", "plus", "range") and nullable(n[1]) and has_zero(n[1]):
            return True
        return any(go(x) for x in n[1:] if isinstance(x, tuple))
    try:
        return go(parse_ast_text(ast_text))
    except Exception:
        return False


def lazy_dot_chain(ast_text):
    """signature of C03-lazy-dot-chain: top-level concatenation with an inner lazy rangeAny whose bounds exceed 200"""
    items = []
    t = ast_text
    # top-level right-nested C(x,C(y,...)): collect items textually through the parsed structure
    try:
        n = parse_ast_text(ast_text)
    except Exception:
        return False
    while n[0] == "cat":
        items.append(n[1]); n = n[2]
    items.append(n)
    import re as _re
    lazy = set(m.group(0) for m in _re.finditer(r"Jl\d+,\d+", ast_text))
    for i, it in enumerate(items[1:-1], 1):
        if it[0] == "rangeany" and (it[1] > 200 or it[2] > 200) and ("Jl%d,%d" % (it[1], it[2])) in lazy:
            return True
    return False


def nullable_repeat(ast_text):
    """signature of C03-nullable-repeat: a counted repeat with lower bound >= 2 over a body that can match the empty string"""
    def go(n):
        if n[0] == "range" and n[2] >= 2 and nullable(n[1]):
            return True
        return any(go(x) for x in n[1:] if isinstance(x, tuple))
    try:
        return go(parse_ast_text(ast_text))
    except Exception:
        return False


CORPUS = [
    ("/a*/", "", "a", b"xxaaaxx"), ("/a{,0}/", "", "a", b"a"), ("/(a|bc)+d/", "", "a", b"abcabcd xbcd"), ("/a(b|bc)/", "fullword", "af", b"abc"),
    ("/ab{2,4}?c/", "", "a", b"abbbbc abc abbc"), ("/\\bfoo\\B/", "", "a", b"food foo"), ("/^ab/", "", "a", b"abab"), ("/ab$/", "", "a", b"abab"),
    ("/(\\B)*?b|./", "", "a", b"-\xe9a", "A(C(*l(B),l62),.)"), ("/(\\B)*b|./", "", "a", b"-\xe9a", "A(C(*g(B),l62),.)"),
    ("/^(a{,2}?){4,4}?/", "", "a", b"Aaaaaaa", "C(^,Rl4,4(Rl0,2(l61)))"),
    ("/(a{0})+b/", "", "a", b"ab", "C(+g(Rg0,0(l61)),l62)"), ("/x(a?b)+c/", "", "a", b"xabbc xbabc"),
    ("/[0-0]/", "wide fullword", "wf", b"a\x000\x00"), ("/[0-0]/", "wide fullword", "wf", b"a0\x00"), ("/[0-0]x*/", "wide fullword", "wf", b"0\x00a\x00"),
    ("/x.abc.y/", "", "a", b"--x1abc2y--abc"), ("/ab.d/", "", "a", b"ab\xffd ab\x00d abcd"), ("/ab[^c]d/", "", "a", b"ab\xffd ab\x00d abcd"), ("/x(aa|a){4,6}y/", "", "a", b"xaaaay xaaay"), ("/x[a-f\\W]y/", "", "a", b"xay x-y xgy"),
    ("/x[\\Wa-f]y/", "", "a", b"xay x-y xgy"), ("/x[^\\da-c]y/", "", "a", b"xay x1y xdy"),
    ("/[^a-c]x/i", "", "ai", b"Ax dx Dx"), ("/a.c/s", "wide", "ws", b"a\0\n\0c\0a\0b\0c\0"), ("/(a*)*b/", "", "a", b"aaab"), ("/(a|)*b/", "", "a", b"aab"),
]


# `matches` regression cases: (regex, regex flags, operand)
MCORPUS = [
    ("x*$", "", b"abc"), ("$", "", b"abc"), ("\\b$", "", b"ab"), ("(a|b)*$", "", b"abc"), ("^$", "", b"a"), ("c$", "", b"abc"), ("x(a?b)+c", "", b"-xbc"),
    ("(a{0})+b", "", b"ab"), ("a*?$", "s", b"b\n"),
]


def group_with_big_jump(toks):
    """the binary AST text cannot tell a group that ends the expression from the tail of the top-level concatenation: a large lazy
    `.{n,m}?` inside such a group is not a chaining point in re.c; regexes with a group and a large lazy dot range are left out
    of the chain-structure comparison"""
    import re as _re
    try:
        src = bytes.fromhex(toks.get("src", "")).decode("latin1")
    except ValueError:
        return False
    big = any(int(a) > 200 or int(b) > 200 for a, b in _re.findall(r"Jl(\d+),(\d+)", toks.get("re", "")))
    return big and "(" in src


def clean_out(pid):
    from vf.checks import c02
    c02.clean_out(pid)


def run(tier, replay=None):
    chk = core.Check("C03", tier)
    clean_out("C03")
    lres = core.lean_check(THM)
    core.proof_coverage(chk, lres, THM)
    b = core.build("asan", harness=["h_scan", "h_re"])
    r = core.rng("C03")
    ns, nm = (1800, 500) if tier == "quick" else (15000, 5000)
    cases, metas = [], {}
    for i, ent in enumerate(CORPUS):
        rx, mods, fl, buf = ent[:4]
        cid = "k%d" % i
        rule = "rule r { strings: $a = %s %s condition: #a >= 0 }" % (rx, mods)
        cases.append("%s src=%s re=%s fl=%s buf=%s code=1 fx=1 atoms=1" % (cid, hx(rule), ent[4] if len(ent) > 4 else "?", fl, hx(buf)))
        metas[cid] = dict(kind="string", regex=rx, mods=mods, corpus=True)
    for i, (rx, rfl, opnd) in enumerate(MCORPUS):
        cid = "km%d" % i
        rule = "rule r { strings: $t = /%s/%s condition: \"%s\" matches /%s/%s or #t < 0 }" % (rx, rfl, lit_text(opnd), rx, rfl)
        cases.append("%s src=%s re=? fl=%s mstr=%s buf=00" % (cid, hx(rule), rfl or "-", hx(opnd)))
        metas[cid] = dict(kind="matches", regex=rx, reflags=rfl, operand=hx(opnd), corpus=True)
    for i in range(ns):
        line, meta = gen_string_case(r, "s%d" % i)
        cases.append(line); metas[line.split(" ", 1)[0]] = meta
    for i in range(nm):
        line, meta = gen_matches_case(r, "m%d" % i)
        cases.append(line); metas[line.split(" ", 1)[0]] = meta
    if replay:
        cases = [replay["case"]]
        metas[replay["case"].split(" ", 1)[0]] = replay.get("meta", {})
    found = False
    # corpus cases known to hang the engine run apart, only through h_scan, with a short timeout
    hazard = [c for c in cases if c.split(" ", 1)[0].startswith("k") and zero_width_loop(dict(t.split("=", 1) for t in c.split()[1:] if "=" in t).get("re", ""))]
    hz = set(c.split(" ", 1)[0] for c in hazard)
    normal = [c for c in cases if c.split(" ", 1)[0] not in hz]
    amap, crash_re = rc.run_robust(core, [b["h_re"]], normal)
    fixed = []
    for c in cases:
        cid = c.split(" ", 1)[0]
        if " re=? " in c:
            tok = [t for t in amap.get(cid, "").split() if t.startswith("ast=")]
            c = c.replace(" re=? ", " re=%s " % (tok[0].split(":", 2)[2] if tok else "e"))
        fixed.append(c)
    cases = fixed
    imap, crash_scan = rc.run_robust(core, [b["h_scan"]], [c for c in cases if c.split(" ", 1)[0] not in hz])
    im2, cr2 = rc.run_robust(core, [b["h_scan"]], hazard, jobs=1, chunk_timeout=4, confirm=False)
    imap.update(im2); crash_scan += cr2
    for c in hazard:
        amap.setdefault(c.split(" ", 1)[0], c.split(" ", 1)[0] + " OK ast=-")
    mmap = {}
    if lres.get("driver_ok"):
        mmap, _ = rc.run_robust(core, [core.driver_path(), "re"], cases, chunk_timeout=300, single_timeout=30)
    model = [mmap[c.split(" ", 1)[0]] for c in cases if c.split(" ", 1)[0] in mmap]
    kf = {f["id"]: f for f in core.known_findings("C03")}
    nviol = 0
    hist = {"string_cases": 0, "matches_cases": 0, "limit_skipped": {}, "with_matches": 0, "spec_offsets": 0, "reported": 0, "ast_tie_ok": 0, "mods": {}, "greedy": 0, "lazy": 0,
            "matches_true": 0, "matches_false": 0, "wide": 0, "fullword": 0, "nocase": 0}
    distinct = set()
    known_hits = {}
    LIMITS = ("REGULAR_EXPRESSION_TOO_COMPLEX", "REGULAR_EXPRESSION_TOO_LARGE", "TOO_MANY_RE_FIBERS")

    def viol(name, obj):
        nonlocal nviol, found
        if nviol < 12:
            chk.violation(name, obj)
        nviol += 1; found = True

    crashed = set()
    for hname, lst in (("h_scan", crash_scan), ("h_re", crash_re)):
        for c, rcx, errx in lst:
            cid = c.split(" ", 1)[0]
            if cid in crashed:
                continue
            crashed.add(cid)
            toks = dict(t.split("=", 1) for t in c.split()[1:] if "=" in t)
            if "C03-zero-width-loop-hang" in kf and rcx == "timeout" and zero_width_loop(toks.get("re", "")):
                known_hits.setdefault("C03-zero-width-loop-hang", []).append(cid)
                continue
            viol("crash_%s.json" % cid, {"kind": "crash / sanitizer report while compiling or scanning", "engine": "re", "harness": hname, "case": c, "rc": rcx,
                                        "stderr": errx[-2500:], "meta": metas.get(cid, {})})
    for c in cases:
        cid = c.split(" ", 1)[0]
        meta = metas.get(cid, {})
        il, ml, al = imap.get(cid), mmap.get(cid), amap.get(cid)
        if il is None or ml is None or al is None:
            continue
        d = rc.parse_scan(il)
        toks = dict(t.split("=", 1) for t in c.split()[1:] if "=" in t)
        if d["status"] != "OK":
            if "TOO_MANY_RE_FIBERS" in il and "C03-zero-width-loop-hang" in kf and zero_width_loop(toks.get("re", "")):
                known_hits.setdefault("C03-zero-width-loop-hang", []).append(cid)
                continue
            if any(x in il for x in LIMITS):
                k = [x for x in LIMITS if x in il][0]
                hist["limit_skipped"][k] = hist["limit_skipped"].get(k, 0) + 1
                continue
            viol("err_%s.json" % cid, {"kind": "well-formed regular expression rejected or scan error", "engine": "re", "harness": "h_scan", "case": c, "implementation": il, "meta": meta})
            continue
        tok = [t for t in al.split() if t.startswith("ast=")]
        c_ast = tok[0].split(":", 2) if tok else ["", "0", ""]
        if not meta.get("corpus"):
            if c_ast[2] != toks["re"]:
                viol("ast_%s.json" % cid, {"kind": "parser AST differs from the expression's AST (lexer/grammar glue)", "engine": "re", "harness": "h_re", "case": c,
                                          "implementation": c_ast[2], "model_spec": toks["re"], "meta": meta})
                continue
            want = (0x400 if meta.get("greedy") else 0x800) if meta.get("has_rep") else 0
            if int(c_ast[1]) != want:
                viol("astflags_%s.json" % cid, {"kind": "RE_AST flags (greedy/ungreedy/fast) differ from the expression's", "engine": "re", "harness": "h_re", "case": c,
                                               "implementation": c_ast[1], "model_spec": want, "meta": meta})
            hist["ast_tie_ok"] += 1
        spec = rc.parse_spec(ml)
        if meta.get("kind") == "matches":
            hist["matches_cases"] += 1
            if spec.get("kind") != "M":
                viol("driver_%s.json" % cid, {"kind": "driver could not evaluate the case", "engine": "re", "case": c, "model_spec": ml})
                continue
            got = d["rules"].get("r")
            hist["matches_true" if spec["M"] else "matches_false"] += 1
            distinct.add(("m", meta.get("regex"), meta.get("operand")))
            if got != spec["M"]:
                if got == 0 and "C03-nullable-repeat" in kf and nullable_repeat(toks["re"]):
                    known_hits.setdefault("C03-nullable-repeat", []).append(cid)
                    continue
                viol("matches_%s.json" % cid, {"kind": "`matches` verdict differs from the specification", "engine": "re", "harness": "h_scan", "case": c,
                                              "implementation": il, "model_spec": ml, "meta": meta})
            continue
        hist["string_cases"] += 1
        if spec.get("kind") != "S":
            viol("driver_%s.json" % cid, {"kind": "driver could not evaluate the case", "engine": "re", "case": c, "model_spec": ml})
            continue
        fl = toks.get("fl", "a")
        ms = d["matches"].get("$a", [])
        blen = len(toks["buf"]) // 2 if toks["buf"] != "-" else 0
        vs, known = rc.judge(ms, spec, "a" in fl, "w" in fl, "f" in fl, blen)
        hist["mods"][meta.get("mods", "")] = hist["mods"].get(meta.get("mods", ""), 0) + 1
        hist["greedy" if meta.get("greedy") else "lazy"] += 1
        hist["wide"] += int("w" in fl); hist["fullword"] += int("f" in fl); hist["nocase"] += int("i" in fl)
        hist["with_matches"] += int(bool(ms))
        hist["spec_offsets"] += len(set(spec.get("a", {})) | set(spec.get("w", {})))
        hist["reported"] += len(ms)
        if spec.get("a") or spec.get("w"):
            distinct.add(("s", meta.get("regex"), meta.get("mods"), toks["buf"]))
        if vs and "C03-lazy-dot-chain" in kf and lazy_dot_chain(toks["re"]):
            known_hits.setdefault("C03-lazy-dot-chain", []).append(cid)
            vs, known = [], []
        if vs and "C03-nullable-repeat" in kf and all(v.startswith("missed") for v in vs) and nullable_repeat(toks["re"]):
            known_hits.setdefault("C03-nullable-repeat", []).append(cid)
            vs = []
        if known:
            if "C03-empty-match" in kf:
                known_hits.setdefault("C03-empty-match", []).append(cid)
            else:
                vs = vs + known
        if vs:
            viol("match_%s.json" % cid, {"kind": "match list differs from the specification", "engine": "re", "harness": "h_scan", "case": c,
                                        "implementation": il[:2000], "model_spec": ml[:2000], "problems": vs[:10], "meta": meta})
    for sig, ids in known_hits.items():
        chk.known(kf.get(sig), "%s: %s (%d cases, e.g. %s)" % (sig, kf[sig]["text"][:150], len(ids), ids[0]))
    from vf.checks import c02
    fxres = c02.check_fx(chk, b, cases, amap, lres, replay, found)
    found = found or fxres.get("found", False)

    def excuse(line, kind, err):
        toks = dict(t.split("=", 1) for t in line.split()[1:] if "=" in t)
        if kind == "emit":
            return False
        if kind == "crash":
            return "C03-zero-width-loop-hang" in kf and zero_width_loop(toks.get("re", ""))
        return "C03-nullable-repeat" in kf and nullable_repeat(toks.get("re", ""))
    wres, wfound = rc.check_wfx(core, chk, b, [c for c in cases if c.split(" ", 1)[0] not in hz], excuse, found_so_far=found) if lres.get("driver_ok") else ({}, False)
    found = found or wfound
    ares, afound = rc.check_atoms(core, chk, cases, imap, amap, found_so_far=found) if lres.get("driver_ok") else ({}, False)
    found = found or afound
    cres, cfound = rc.check_chain(core, chk, cases, amap, skip=group_with_big_jump) if lres.get("driver_ok") else ({}, False)
    found = found or cfound
    chk.cov.update({
        "evaluations": len(cases), "distinct_nontrivial": len(distinct),
        "rule": "generated regex (<=12 AST nodes) x buffer (<=200 bytes) built from sampled instances / mutations; non-trivial = the specification admits at least one match "
                "in the buffer (strings) or any verdict (matches operator); distinct (regex, modifiers, buffer)",
        "histogram": hist, "violating_cases": nviol, "known_finding_cases": {k: len(v) for k, v in known_hits.items()},
        "traces_validated_against_impl": len(cases) - nviol, "fx": fxres.get("cov"), "wfx": wres, "atoms_tie": ares, "chain_tie": cres,
        "samples": [{"meta": metas.get(c.split(" ", 1)[0]), "implementation": imap.get(c.split(" ", 1)[0], "")[:300], "model": mmap.get(c.split(" ", 1)[0], "")[:300]}
                    for c in cases[len(CORPUS):len(CORPUS) + 2]],
    })
    core.handle_broken_proof(chk, lres, found)
    chk.assumptions += ["buffers < 1024 bytes (generator: <= 200) and expressions <= 12 AST nodes so that RE_MAX_FIBERS / RE_MAX_SPLIT_ID are rarely hit (hits are counted and skipped)",
                        "all-greedy or all-lazy expressions only (mixed ones are rejected by the compiler for strings)",
                        "external operands of `matches` contain no NUL byte (the C API takes C strings)"]
    return chk.finish("proof")
