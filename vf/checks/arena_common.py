"""Shared generator of the arena/serialisation checks (C08, C17, C19): random rule sets over every
construct that writes pointers into the compiler's arena, plus buffers that make the rules fire.

A generated case is a dict  {exts:[(t,name,val)], nss:[(ns,src)], bufs:[bytes], feats:set()}  and is
rendered to a harness case line by `case_line`."""
import base64, re, struct


def hx(b):
    if isinstance(b, str):
        b = b.encode("latin-1")
    return b.hex() if b else "-"


IDCH = "abcdefghijklmnopqrstuvwxyz"
WORDS = ["hello", "World", "yara", "Rule", "match", "foo", "barbaz", "quux", "zeta", "Alpha", "kernel32", "MZP", "abcd", "xyzzy", "needle", "HayStack"]


class Gen:
    def __init__(self, r, size="small"):
        self.r = r
        self.size = size
        self.feats = set()
        self.plants = []      # byte strings that make some string of the rule set match
        self.exts = []
        self.imports = set()

    # ------------------------------------------------------------ helpers
    def f(self, name):
        self.feats.add(name)

    def word(self, lo=4, hi=9):
        r = self.r
        if r.random() < 0.5:
            w = r.choice(WORDS)
            if len(w) >= lo:
                return w
        return "".join(r.choice("abcdefgXYZ0123") for _ in range(r.randint(lo, hi)))

    def lit(self, s):
        """YARA text literal for the python str s (latin-1)."""
        out = []
        for ch in s:
            o = ord(ch)
            if ch == '"':
                out.append('\\"')
            elif ch == "\\":
                out.append("\\\\")
            elif 32 <= o < 127:
                out.append(ch)
            else:
                out.append("\\x%02x" % o)
        return '"' + "".join(out) + '"'

    # ------------------------------------------------------------ strings section
    def text_string(self):
        r = self.r
        w = self.word()
        if r.random() < 0.15:
            w = w + "\x00" + self.word(2, 4)
            self.f("text-escape")
        mods = []
        kind = r.random()
        sample = w.encode("latin-1")
        if kind < 0.25:
            self.f("text-plain")
        elif kind < 0.40:
            mods.append("nocase"); self.f("text-nocase")
            sample = w.swapcase().encode("latin-1")
        elif kind < 0.55:
            mods.append("wide"); self.f("text-wide")
            if r.random() < 0.5:
                mods.append("ascii"); self.f("text-wide-ascii")
            else:
                sample = b"".join(bytes([c, 0]) for c in sample)
        elif kind < 0.70:
            if r.random() < 0.5:
                mods.append("xor"); k = r.randint(1, 255)
            else:
                lo = r.randint(0, 200); hi = lo + r.randint(0, 55)
                mods.append("xor(0x%02x-0x%02x)" % (lo, hi)); k = r.randint(lo, hi)
            self.f("text-xor")
            if r.random() < 0.3:
                mods.append("wide"); sample = b"".join(bytes([c, 0]) for c in sample); self.f("text-xor-wide")
            sample = bytes(c ^ k for c in sample)
        elif kind < 0.85:
            wide = r.random() < 0.4
            if r.random() < 0.3:
                alpha = "!@#$%^&*(){}[].,|ABCDEFGHIJ\x09LMNOPQRSTUVWXYZabcdefghijklmnopqrstu"
                mods.append("base64wide(%s)" % self.lit(alpha) if wide else "base64(%s)" % self.lit(alpha))
                std = "ABCDEFGHIJKLMNOPQRSTUVWXYZabcdefghijklmnopqrstuvwxyz0123456789+/"
                enc = base64.b64encode(b"xxx" + sample + b"yyy").decode().translate(str.maketrans(std, alpha)).encode("latin-1")
                self.f("text-base64-alphabet")
            else:
                mods.append("base64wide" if wide else "base64")
                enc = base64.b64encode(b"xxx" + sample + b"yyy")
                self.f("text-base64")
            sample = b"".join(bytes([c, 0]) for c in enc) if wide else enc
        else:
            mods.append("fullword"); self.f("text-fullword")
            if r.random() < 0.4:
                mods.append("nocase")
            sample = b" " + sample + b" "
        if r.random() < 0.12 and "fullword" not in mods:
            mods.append("private"); self.f("string-private")
        self.plants.append(sample)
        return self.lit(w) + (" " + " ".join(mods) if mods else "")

    def hex_string(self):
        r = self.r
        toks, sample = [], bytearray()

        def byte():
            b = r.randint(0, 255)
            toks.append("%02X" % b); sample.append(b)

        for _ in range(r.randint(3, 5)):
            byte()
        nseg = r.randint(1, 4) if self.size != "tiny" else r.randint(0, 2)
        for _ in range(nseg):
            u = r.random()
            if u < 0.18:
                toks.append("??"); sample.append(r.randint(0, 255)); self.f("hex-wildcard")
            elif u < 0.30:
                b = r.randint(0, 255)
                toks.append(("%X?" % (b >> 4)) if r.random() < 0.5 else ("?%X" % (b & 15))); sample.append(b); self.f("hex-nibble")
            elif u < 0.38:
                b = r.randint(0, 255)
                toks.append("~%02X" % b); sample.append(b ^ 0x55); self.f("hex-not")
            elif u < 0.50:
                n = r.randint(1, 6)
                toks.append("[%d]" % n if r.random() < 0.5 else "[%d-%d]" % (n, n + r.randint(0, 6)))
                sample.extend(r.randint(0, 255) for _ in range(n)); self.f("hex-jump-small")
            elif u < 0.68:
                lo = r.choice([0, 1, 10, 100]); hi = lo + r.choice([200, 250, 300, 1000])
                toks.append("[%d-%d]" % (lo, hi))
                sample.extend(r.randint(0, 255) for _ in range(r.choice([lo, lo + 1, min(hi, lo + 40)])))
                self.f("hex-jump-big-chained")
            elif u < 0.78:
                lo = r.choice([0, 3])
                toks.append("[%s-]" % (lo if lo else ""))
                sample.extend(r.randint(0, 255) for _ in range(lo + r.randint(0, 30))); self.f("hex-jump-unbounded-chained")
            elif u < 0.92:
                alts = []
                for _ in range(r.randint(2, 3)):
                    alts.append([r.randint(0, 255) for _ in range(r.randint(1, 4))])
                parts = []
                for a in alts:
                    p = ["%02X" % x for x in a]
                    if len(p) > 2 and r.random() < 0.3:
                        p[1] = "??"
                    parts.append(" ".join(p))
                toks.append("( " + " | ".join(parts) + " )")
                sample.extend(r.choice(alts)); self.f("hex-alternation")
            else:
                pass
            for _ in range(r.randint(2, 4)):
                byte()
        self.plants.append(bytes(sample))
        mods = " private" if r.random() < 0.08 else ""
        return "{ " + " ".join(toks) + " }" + mods

    def regex(self, for_string=True):
        """returns (regex source without slashes, sample bytes)"""
        r = self.r
        pat, sample = [], bytearray()
        lazy = r.random() < 0.25   # greedy and lazy quantifiers cannot be mixed in one regex
        w = self.word(4, 6)
        pat.append(re.sub(r"([.\\+*?()\[\]{}|^$/])", r"\\\1", w)); sample.extend(w.encode())
        for _ in range(r.randint(1, 4)):
            u = r.random()
            if u < 0.15:
                pat.append("."); sample.append(r.choice(b"abcXYZ12"))
            elif u < 0.30:
                pat.append(r.choice(["[a-f]", "[0-9]", "\\d", "\\w", "[^x]", "[A-Za-z]"]))
                sample.append({"[a-f]": 0x63, "[0-9]": 0x37, "\\d": 0x34, "\\w": 0x71, "[^x]": 0x79, "[A-Za-z]": 0x51}[pat[-1]])
            elif u < 0.45:
                c = r.choice("abz")
                q = r.choice(["+?", "*?", "??", "{2,3}?"] if lazy else ["+", "*", "?", "{2,3}", "{2}", "{1,}"])
                pat.append(c + q)
                n = {"+": 2, "*": 0, "?": 1, "{2,3}": 3, "{2}": 2, "+?": 1, "*?": 0, "{1,}": 2, "??": 0, "{2,3}?": 2}[q]
                sample.extend(c.encode() * n)
            elif u < 0.62:
                a, b = self.word(2, 4), self.word(2, 4)
                a = re.sub(r"\W", "x", a); b = re.sub(r"\W", "y", b)
                pat.append("(%s|%s)" % (a, b)); sample.extend(r.choice([a, b]).encode()); self.f("re-alternation")
            elif u < 0.75 and for_string:
                lo = r.choice([0, 2]); hi = lo + r.choice([200, 300, 600])
                pat.append(".{%d,%d}%s" % (lo, hi, "?" if lazy else "")); sample.extend(b"q" * (lo + r.randint(0, 20))); self.f("re-big-gap-chained")
            elif u < 0.82:
                pat.append("\\x41\\.\\/"); sample.extend(b"A./")
            else:
                w2 = re.sub(r"\W", "k", self.word(2, 5))
                pat.append(w2); sample.extend(w2.encode())
        w3 = re.sub(r"\W", "k", self.word(3, 5))
        pat.append(w3); sample.extend(w3.encode())
        return "".join(pat), bytes(sample)

    def regex_string(self):
        r = self.r
        p, sample = self.regex(True)
        flags = r.choice(["", "", "i", "s", "is"])
        mods = []
        u = r.random()
        if u < 0.15:
            mods.append("nocase"); sample = sample.swapcase()
        elif u < 0.3:
            mods.append("wide"); sample = b"".join(bytes([c, 0]) for c in sample); self.f("re-wide")
        elif u < 0.4:
            mods.append("ascii wide")
        elif u < 0.5:
            mods.append("fullword"); sample = b" " + sample + b" "
        self.f("regex-string")
        self.plants.append(sample)
        return "/%s/%s%s" % (p, flags, (" " + " ".join(mods)) if mods else "")

    # ------------------------------------------------------------ conditions
    def int_expr(self, ids, depth=0):
        r = self.r
        u = r.random()
        if depth > 2 or u < 0.25:
            return str(r.choice([0, 1, 2, 3, 7, 16, 100, 255, 0x1000, 65536]))
        if u < 0.35:
            return "filesize"
        if u < 0.45:
            self.f("int-read")
            return "%s(%d)" % (r.choice(["uint8", "uint16", "uint32", "int8", "int16be", "uint32be", "int32"]), 4 * r.randint(0, 3))  # aligned: exec.c reads the scanned buffer through typed pointers
        if u < 0.55 and ids:
            self.f("string-count")
            return "#%s" % r.choice(ids)
        if u < 0.62 and ids:
            self.f("string-offset")
            return r.choice(["@%s[1]", "!%s[1]", "@%s", "!%s", "@%s[2]"]) % r.choice(ids)
        ie = [e for e in self.exts if e[0] == "i"]
        if u < 0.72 and ie:
            self.f("ext-int-used")
            return r.choice(ie)[1]
        if u < 0.80 and "math" in self.imports:
            self.f("module-call")
            return r.choice(["math.max(%s, %s)", "math.min(%s, %s)"]) % (self.int_expr(ids, depth + 1), self.int_expr(ids, depth + 1))
        if u < 0.84 and "tests" in self.imports:
            self.f("module-call")
            return r.choice(["tests.isum(%s, 2)" % self.int_expr(ids, depth + 1), "tests.constants.two", "tests.integer_array[1]",
                             "tests.length(\"abc\")", "tests.struct_array[1].i"])
        op = r.choice(["+", "-", "*", "&", "|", "^", "<<", "\\", "%"])
        a, b = self.int_expr(ids, depth + 1), self.int_expr(ids, depth + 1)
        if op in ("\\", "%"):
            b = str(r.choice([1, 2, 3, 7]))
        if op == "<<":   # exec.c shifts unchecked: keep both operands small non-negative constants
            a, b = str(r.choice([0, 1, 3, 16, 255])), str(r.randint(0, 8))
        if op == "*":
            b = str(r.choice([0, 1, 2, 3, 16]))   # no int64 overflow at run time (exec.c multiplies unchecked; C04's subject, not ours)
        return "(%s %s %s)" % (a, op, b)

    def cond(self, ids, rules_before, depth=0):
        r = self.r
        u = r.random()
        sx = [e for e in self.exts if e[0] == "s"]
        if depth < 2 and u < 0.22:
            op = r.choice(["and", "or"])
            return "(%s %s %s)" % (self.cond(ids, rules_before, depth + 1), op, self.cond(ids, rules_before, depth + 1))
        if depth < 2 and u < 0.27:
            return "not (%s)" % self.cond(ids, rules_before, depth + 1)
        if u < 0.40 and ids:
            s = r.choice(ids)
            v = r.random()
            if v < 0.35:
                return "$" + s
            if v < 0.55:
                self.f("string-at"); return "$%s at %s" % (s, self.int_expr([], 2))
            if v < 0.75:
                self.f("string-in"); return "$%s in (%d..%d)" % (s, r.randint(0, 20), r.randint(20, 400))
            self.f("string-count-in"); return "#%s in (0..%d) >= %d" % (s, r.randint(10, 300), r.randint(0, 2))
        if u < 0.52 and ids:
            v = r.random()
            pre = ids[0][0]
            sets = ["them", "($%s*)" % pre, "(%s)" % ", ".join("$" + i for i in r.sample(ids, r.randint(1, len(ids))))]
            q = r.choice(["any", "all", "none", "1", "2", "50%", str(len(ids))])
            if v < 0.5:
                self.f("of-them"); return "%s of %s" % (q, r.choice(sets))
            if v < 0.65:
                self.f("of-in"); return "%s of %s in (0..%d)" % (r.choice(["any", "all", "1"]), r.choice(sets), r.randint(10, 300))
            if v < 0.75:
                self.f("of-at"); return "any of %s at %d" % (r.choice(sets), r.randint(0, 5))
            self.f("for-of")
            body = r.choice(["$ at %d" % r.randint(0, 4), "# > %d" % r.randint(0, 2), "@ < %d" % r.randint(5, 300), "$ in (0..50)", "! >= 3"])
            return "for %s of %s : (%s)" % (r.choice(["any", "all", "1"]), r.choice(sets), body)
        if u < 0.60:
            self.f("for-in-range")
            hi = r.choice(["3", "10", "filesize \\ 4"] + (["#%s" % ids[0]] if ids else []))
            body = r.choice(["uint8(i) == 0x%02x" % r.choice([0x41, 0x61, 0x00, 0x68]), "i %% 2 == %d" % r.randint(0, 1)] +
                            (["@%s[i] >= %d" % (ids[0], r.randint(0, 9))] if ids else []))
            if r.random() < 0.25:
                self.f("for-nested")
                body = "for any j in (0..2) : (uint8(i + j) == 0x%02x)" % r.choice([0x61, 0x6c])
            return "for %s i in (%d..%s) : (%s)" % (r.choice(["any", "all", "2"]), r.randint(0, 1), hi, body)
        if u < 0.66:
            self.f("text-string-set")
            lits = [self.word(1, 5) for _ in range(r.randint(1, 4))]
            if sx and r.random() < 0.7:
                lits.append(sx[0][2]); self.f("ext-string-used")
                body = r.choice(["s == %s", "%s contains s", "%s startswith s", "s iequals %s"]) % sx[0][1]
            else:
                body = r.choice(['s contains "%s"' % r.choice("aeo"), 's matches /^[a-zA-Z]+$/', 's == %s' % self.lit(lits[0]), "s icontains \"L\""])
            return "for %s s in (%s) : (%s)" % (r.choice(["any", "all", "1"]), ", ".join(self.lit(x) for x in lits), body)
        if u < 0.70:
            self.f("int-set")
            return "for any n in (%s) : (n == %s)" % (", ".join(str(r.randint(0, 9)) for _ in range(r.randint(1, 4))), self.int_expr(ids, 2))
        if u < 0.78 and sx:
            e = r.choice(sx)
            self.f("ext-string-used")
            v = r.random()
            if v < 0.4:
                self.f("matches-operand")
                p, _ = self.regex(False)
                return "%s matches /%s/%s" % (e[1], r.choice([p, "^" + re.escape(e[2][:2]).replace("/", "\\/"), "[a-z]+", ".{2,}$"]), r.choice(["", "i", "s"]))
            return "%s %s %s" % (e[1], r.choice(["==", "!=", "contains", "icontains", "startswith", "endswith", "iequals"]),
                                 self.lit(r.choice([e[2], e[2][:2], "zz", ""])))
        if u < 0.82:
            self.f("matches-operand")
            w = self.word()
            return "%s matches /%s/%s" % (self.lit(w), r.choice([re.escape(w[:3]).replace("/", "\\/"), "^[a-z]+$", "(a|b|c).", "\\d"]), r.choice(["", "i"]))
        be = [e for e in self.exts if e[0] == "b"]
        fe = [e for e in self.exts if e[0] == "f"]
        if u < 0.86 and be:
            self.f("ext-bool-used"); return r.choice(be)[1]
        if u < 0.90 and fe:
            self.f("ext-float-used"); return "%s %s %s" % (r.choice(fe)[1], r.choice(["<", ">=", "=="]), r.choice(["0.5", "1.5", "-2.0", "100.25"]))
        if u < 0.93 and rules_before:
            v = r.random()
            if v < 0.6:
                self.f("rule-ref"); return r.choice(rules_before)
            self.f("rule-set")
            self.wild = True   # later rule names must not match the wildcard
            return "%s of (%s)" % (r.choice(["any", "all", "1"]), r.choice([rules_before[0][0] + "*", ", ".join(r.sample(rules_before, min(2, len(rules_before))))]))
        if u < 0.99 and self.imports:
            m = r.choice(sorted(self.imports))
            self.f("module-" + m)
            table = {
                "math": ["math.entropy(0, filesize) >= 0.0", "math.in_range(math.mean(0, filesize), 0.0, 255.0)", "math.to_number($X) == 1".replace("$X", "filesize > 2")],
                "hash": ["hash.md5(0, filesize) != \"d41d8cd98f00b204e9800998ecf8427e\"", "hash.crc32(0, filesize) != 0", "hash.sha1(\"abc\") == \"a9993e364706816aba3e25717850c26c9cd0d89d\""],
                "tests": ["tests.constants.one == 1", "tests.string_dict[\"foo\"] == \"foo\"", "tests.match(/foo/, \"foo\") == 3",
                          "for any k, v in tests.struct_dict : (k == \"foo\" and v.i == 1)", "for any e in tests.integer_array : (e == 1)",
                          "tests.fsum(1.0, 2.0) == 3.0", "tests.foobar(1) == tests.foobar(1)", "not defined tests.undefined.i"],
                "string": ["string.to_int(\"10\") == 10", "string.length(\"ab\") == 2"],
                "console": ["console.log(\"hi\")", "console.log(\"n=\", filesize)", "console.hex(\"h=\", 255)"],
                "pe": ["pe.is_pe", "not defined pe.number_of_sections", "pe.imphash() == \"x\"", "pe.machine == pe.MACHINE_AMD64"],
                "elf": ["elf.type == elf.ET_EXEC", "not defined elf.machine"],
                "time": ["time.now() > 0"],
                "dotnet": ["dotnet.is_dotnet", "not defined dotnet.version"],
                "macho": ["macho.cputype == macho.CPU_TYPE_X86"],
                "dex": ["not defined dex.header.magic"],
            }
            return r.choice(table[m])
        a = self.int_expr(ids)
        return "%s %s %s" % (a, r.choice(["==", "!=", "<", ">", "<=", ">="]), self.int_expr(ids))

    # ------------------------------------------------------------ rules
    def rule(self, name, rules_before):
        r = self.r
        mods = []
        if r.random() < 0.06:
            mods.append("global"); self.f("rule-global")
        if r.random() < 0.10:
            mods.append("private"); self.f("rule-private")
        tags = r.sample(["t1", "apt", "x86", "T_2", "mal"], r.choice([0, 0, 1, 2, 3]))
        if tags:
            self.f("tags")
        out = ["%srule %s%s {" % ("".join(m + " " for m in mods), name, (" : " + " ".join(tags)) if tags else "")]
        nm = r.choice([0, 0, 1, 2, 4])
        if nm:
            out.append(" meta:")
            for i in range(nm):
                u = r.random()
                if u < 0.4:
                    out.append("  m%d = %s" % (i, self.lit(self.word(0, 6) + r.choice(["", "\n", "\x01\xff", "\"q\""])))); self.f("meta-string")
                elif u < 0.7:
                    out.append("  m%d = %s%d" % (i, r.choice(["", "-"]), r.choice([0, 1, 42, 2 ** 31, 2 ** 62]))); self.f("meta-int")
                else:
                    out.append("  m%d = %s" % (i, r.choice(["true", "false"]))); self.f("meta-bool")
        maxs = {"tiny": 2, "small": 4, "large": 8}[self.size]
        ns = r.choice([0] + list(range(1, maxs + 1)) * 2)
        ids = []
        if ns:
            out.append(" strings:")
            pre = r.choice(["a", "s", "k"])
            for i in range(ns):
                sid = "%s%d" % (pre, i)
                ids.append(sid)
                u = r.random()
                if u < 0.45:
                    body = self.text_string()
                elif u < 0.78:
                    body = self.hex_string()
                else:
                    body = self.regex_string()
                out.append("  $%s = %s" % (sid, body))
        anon = bool(ids) and r.random() < 0.08
        if anon:
            out.append("  $ = %s" % self.text_string()); self.f("anonymous-string")
        c = self.cond(ids, rules_before)
        if ids:
            refs = ["any of them", "all of them", "1 of them", "for any of them : ($)"]
            if not anon:
                refs += [" and ".join("$" + i for i in ids), " or ".join("#%s > 0" % i for i in ids)]
            c = "(%s) %s %s" % (c, r.choice(["or", "or", "and"]), r.choice(refs))
        out.append(" condition: %s" % c)
        out.append("}")
        return "\n".join(out)

    def ruleset(self):
        r = self.r
        nx = r.choice([0, 1, 2, 3, 4, 4])
        types = ["s", "i", "b", "f"]
        r.shuffle(types)
        for i in range(nx):
            t = types[i % 4] if r.random() < 0.8 else r.choice("sibf")
            name = "x%s%d" % (t, i)
            if t == "s":
                val = r.choice([self.word(), "", "hi there", "A/b"]); self.f("ext-string")
            elif t == "i":
                val = str(r.choice([0, 1, -1, 7, 2 ** 40, -2 ** 33])); self.f("ext-int")
            elif t == "b":
                val = str(r.randint(0, 1)); self.f("ext-bool")
            else:
                val = r.choice(["0.5", "1.5", "-2.0", "100.25", "0.0"]); self.f("ext-float")
            self.exts.append((t, name, val))
        nns = r.choice([1, 1, 2, 3]) if self.size != "tiny" else 1
        if nns > 1:
            self.f("multi-namespace")
        nss = []
        for k in range(nns):
            imps = r.sample(["math", "hash", "tests", "string", "console", "pe", "elf", "time", "dotnet", "macho", "dex"], r.choice([0, 0, 1, 2, 3]))
            if self.size == "tiny":
                imps = imps[:1] if r.random() < 0.3 else []
            self.imports = set(imps)
            src = ["import \"%s\"" % m for m in imps]
            if imps:
                self.f("imports")
            nr = {"tiny": r.randint(1, 2), "small": r.randint(1, 4), "large": r.randint(6, 14)}[self.size]
            names = []
            self.wild = False
            for i in range(nr):
                name = "%s%d" % ("z" if self.wild else r.choice(["r", "r", "q"]), i)
                src.append(self.rule(name, [n for n in names]))
                names.append(name)
            nss.append(("-" if k == 0 and r.random() < 0.6 else "ns%d" % k, "\n".join(src) + "\n"))
        bufs = self.buffers()
        return {"exts": self.exts, "nss": nss, "bufs": bufs, "feats": sorted(self.feats)}

    def noise(self, n):
        r = self.r
        return bytes(r.choice(b"ab \x00hQ\xff1") for _ in range(n))

    def buffers(self):
        r = self.r
        out = []
        for k in range(3):
            if k == 2 and r.random() < 0.5:
                out.append(self.noise(r.choice([0, 1, 7, 60])))
                continue
            b = bytearray(self.noise(r.randint(0, 6)))
            pl = list(self.plants)
            r.shuffle(pl)
            for p in pl[: max(1, int(len(pl) * (0.9 if k == 0 else 0.5)))]:
                b += p
                b += self.noise(r.randint(0, 9))
                if r.random() < 0.2:
                    b += p
            out.append(bytes(b[:60000]))
        return out


def case_line(cid, case, **kw):
    toks = [cid]
    for k, v in kw.items():
        if v is not None:
            toks.append("%s=%s" % (k, v))
    for t, n, v in case["exts"]:
        toks.append("x=%s:%s:%s" % (t, n, hx(v) if t == "s" else v))
    for ns, src in case["nss"]:
        toks.append("n=%s:%s" % (ns, hx(src)))
    for b in case["bufs"]:
        toks.append("b=%s" % hx(b))
    return " ".join(toks)


def corpus_cases():
    """minimised rule sets of past failures (corpus/arena/*.json); they run first in every check that uses gen_cases"""
    import glob, json, os
    out = []
    for p in sorted(glob.glob(os.path.join(os.path.dirname(os.path.dirname(os.path.dirname(os.path.abspath(__file__)))), "corpus", "arena", "*.json"))):
        d = json.load(open(p))
        out.append({"exts": [tuple(e) for e in d.get("exts", [])], "nss": [tuple(x) for x in d["nss"]],
                    "bufs": [bytes.fromhex(b) for b in d["bufs"]], "feats": sorted(d.get("feats", []))})
    return out


def gen_cases(r, n, sizes=("tiny", "small", "small", "small", "large"), corpus=True):
    out = corpus_cases() if corpus and n >= 20 else []
    for i in range(n - len(out)):
        g = Gen(r, sizes[i % len(sizes)])
        out.append(g.ruleset())
    return out


def fields(line):
    """harness output line -> dict of K=V tokens (first token is the id)."""
    toks = line.split(" ")
    d = {"id": toks[0]}
    for t in toks[1:]:
        if "=" in t:
            k, v = t.split("=", 1)
            d[k] = v
        elif t.startswith("CRASH:"):
            d["CRASH"] = t[6:]
    return d


# ---------------------------------------------------------------------------------------------
# op sequences for the arena model correspondence (harness/h_arena.c vs lean/Driver/Arena.lean)

def gen_ops(r, cid, growth=True, loads="mutated"):
    """One case line. The generator keeps its own picture of the arena so that the sequence stays
    inside the protocol the theorems assume (registered slots hold null or a pointer to used bytes,
    nothing else overwrites a slot) except for a few deliberate probes at the end of a line."""
    n = r.choice([1, 2, 2, 3, 4, 12])
    init = r.choice([1, 1, 2, 3, 8, 16, 64, 1024])
    move = r.random() < 0.3
    if not growth:       # C17: the loader is the subject; keep the fix-up loop of the growth path out of the picture
        init, move = 1 << 16, False
    ops = ["create:%d:%d" % (n, init)]
    if move:
        ops.append("move:1")
    used = [0] * n
    kind = [r.choice("rz") for _ in range(n)]       # raw buffers (write_data) / zeroed buffers (structs)
    slots = []                                      # registered (b, off)
    zero_areas = []                                 # (b, off) 8 zero bytes, unregistered
    raw_areas = []                                  # (b, off, len) pokeable bytes
    feats = set()

    def target(allow_null=True, avoid=None):
        """null or a reference to a used byte; `avoid`: not into this buffer (the protocol of Thm/C19 `astep`: the
        pointer written by p:<b> is obtained before the allocation in <b>, so it must not point into <b>)"""
        cands = [(b, o) for b in range(n) if used[b] > 0 and b != avoid for o in {0, used[b] - 1, r.randrange(used[b])}]
        if not cands or (allow_null and r.random() < 0.2):
            return "null"
        b, o = r.choice(sorted(cands))
        return "%d.%d" % (b, o)

    def one():
        u = r.random()
        zb = [b for b in range(n) if kind[b] == "z"]
        rb = [b for b in range(n) if kind[b] == "r"]
        if u < 0.16 and rb:
            b = r.choice(rb); l = r.choice([1, 1, 2, 3, 5, 8, 9, 17, 40])
            raw_areas.append((b, used[b], l))
            ops.append("w:%d:%s" % (b, bytes(r.randrange(256) for _ in range(l)).hex())); used[b] += l; feats.add("write")
        elif u < 0.28 and zb:
            b = r.choice(zb); l = r.choice([0, 1, 8, 8, 16, 24, 33])
            for o in range(0, l - 7, 8):
                zero_areas.append((b, used[b] + o))
            ops.append("z:%d:%d" % (b, l)); used[b] += l; feats.add("zalloc")
        elif u < 0.50 and zb:
            b = r.choice(zb); size = r.choice([8, 16, 24, 32, 40, 13, 21])
            offs, o = [], r.choice([0, 0, 8, 3, 5])
            while o + 8 <= size and len(offs) < 5:
                if r.random() < 0.7:
                    offs.append(o)
                o += r.choice([8, 8, 9, 16])
            for o in offs:
                slots.append((b, used[b] + o))
            ops.append("s:%d:%d:%s" % (b, size, ".".join(map(str, offs)) if offs else "-")); used[b] += size; feats.add("struct")
            if any(o % 8 for o in offs):
                feats.add("unaligned-slot")
        elif u < 0.56 and zero_areas:
            b, o = zero_areas.pop(r.randrange(len(zero_areas)))
            slots.append((b, o)); ops.append("r:%d:%d" % (b, o)); feats.add("reloc")
        elif u < 0.60 and (zero_areas or any(l >= 8 for _, _, l in raw_areas)):
            # register a slot that holds anything (zero bytes or raw junk) and store a pointer into it, in either order
            big = [i for i, (_, _, l) in enumerate(raw_areas) if l >= 8]
            if big and (not zero_areas or r.random() < 0.5):
                i = r.choice(big)
                b, o, l = raw_areas.pop(i)
                s = r.randint(0, l - 8)
                if s > 0:
                    raw_areas.append((b, o, s))
                if l - s - 8 > 0:
                    raw_areas.append((b, o + s + 8, l - s - 8))
                o += s
                feats.add("regptr-raw")
            else:
                b, o = zero_areas.pop(r.randrange(len(zero_areas)))
                feats.add("regptr-zero")
            slots.append((b, o)); ops.append("rs:%d.%d:%s:%d" % (b, o, target(), r.randint(0, 1)))
            if o % 8:
                feats.add("unaligned-slot")
        elif u < 0.78 and slots:
            b, o = r.choice(slots)
            ops.append("sp:%d.%d:%s" % (b, o, target())); feats.add("setptr")
        elif u < 0.88 and rb:
            b = r.choice(rb)
            if r.random() < 0.1:      # outside the protocol: a raw pointer into <b> kept across the allocation in <b>
                t = target(); feats.add("ptr-same-buffer" if t.startswith("%d." % b) else "ptr")
            else:
                t = target(avoid=b); feats.add("ptr")
            slots.append((b, used[b])); ops.append("p:%d:%s" % (b, t)); used[b] += 8
            if (used[b] - 8) % 8:
                feats.add("unaligned-slot")
        elif u < 0.93 and raw_areas:
            b, o, l = r.choice(raw_areas)
            k = r.randint(1, l); s = r.randint(0, l - k)
            ops.append("k:%d.%d:%s" % (b, o + s, bytes(r.randrange(256) for _ in range(k)).hex())); feats.add("poke")
        elif u < 0.96 and any(used):
            ops.append("rt:%s" % target()); feats.add("rt")
        elif slots:
            b, o = r.choice(slots)
            ops.append("ref:%d.%d" % (b, o)); feats.add("ref")

    nops = r.randint(3, 40)
    for i in range(nops):
        one()
        if r.random() < 0.08:
            ops.append("save")
    for b, o in r.sample(slots, min(len(slots), 4)):
        ops.append("ref:%d.%d" % (b, o))
    ops.append("save")
    nrel = len(slots)
    hdr = 6; tbl = hdr + 12 * n; bod = tbl + sum(used); end = bod + 8 * nrel
    body_off = [tbl + sum(used[:b]) for b in range(n)]
    # loads: intact, prefixes at and around every boundary, single-field corruptions
    # (C19 is about growth only: no loads; C08 loads intact images; C17 also truncated and corrupted ones)
    if loads == "none":
        return cid + " " + " ".join(ops), feats
    ops.append("load:full:%d:%d" % (r.randrange(1 << 30), r.choice([0, 1, 2, 3, 7, 64])))
    if loads == "full":
        ops.append("load:full:%d:%d" % (r.randrange(1 << 30), r.choice([1, 2, 5])))
        return cid + " " + " ".join(ops), feats
    cuts = {0, 1, 3, 4, 5, hdr, hdr + 1, tbl - 1, tbl, tbl + 1, bod - 1, bod, bod + 1, end - 9, end - 8, end - 1} | \
           {bo for bo in body_off} | {bo + 1 for bo in body_off} | {bod + 8 * k for k in range(nrel)} | {bod + 8 * k + r.randint(1, 7) for k in range(nrel)}
    cuts = sorted(c for c in cuts if 0 <= c < end)
    for c in r.sample(cuts, min(len(cuts), 6)):
        ops.append("load:p%d:%d:%d" % (c, r.randrange(1 << 30), r.choice([0, 1, 5])))
    for _ in range(r.randint(1, 5)):
        u = r.random()
        if u < 0.15:
            off = r.randrange(6); val = bytes([r.choice([0, 1, 15, 16, 17, 20, 21, 22, 0x41, 0x59, 255])])
            feats.add("corrupt-header")
        elif u < 0.45:
            b = r.randrange(n)
            if r.random() < 0.3:
                off = hdr + 12 * b; val = struct.pack("<Q", r.choice([0, 1, 2 ** 63, tbl, end])); feats.add("corrupt-table-offset")
            else:
                off = hdr + 12 * b + 8
                val = struct.pack("<I", r.choice([0, 1, 7, 8, used[b] + 1, max(0, used[b] - 1), used[b] + 8, max(0, used[b] - 8), 2 ** 31, 2 ** 32 - 1, 3 * 10 ** 9]))
                feats.add("corrupt-table-size")
        elif u < 0.8 and nrel:
            k = r.randrange(nrel); b, o = slots[k]
            nb = r.choice([b, r.randrange(n), n, n + 1, 255, 2 ** 32 - 1])
            no = r.choice([o, max(0, used[b] - 8), max(0, used[b] - 7), used[b], used[b] + 1, 2 ** 32 - 1, 0, 1])
            off = bod + 8 * k; val = struct.pack("<II", nb, no); feats.add("corrupt-reloc-entry")
        elif slots:
            b, o = r.choice(slots)
            tb = r.choice([r.randrange(n), n, 16, 2 ** 32 - 1])
            to = r.choice([0, used[tb] if tb < n else 0, (used[tb] if tb < n else 0) + 1, 2 ** 32 - 1])
            off = body_off[b] + o; val = struct.pack("<II", tb, to); feats.add("corrupt-slot-ref")
        else:
            continue
        ops.append("load:w%d.%s:%d:%d" % (off, val.hex(), r.randrange(1 << 30), r.choice([0, 3])))
    # deliberate probes outside the protocol (each ends the usefulness of the line)
    u = r.random()
    if u < 0.08 and slots and any(used):
        b, o = r.choice(slots); tb = r.choice([x for x in range(n) if used[x] > 0])
        ops += ["sp:%d.%d:%d.%d" % (b, o, tb, used[tb]), "ref:%d.%d" % (b, o), "save"]; feats.add("probe-end-pointer")
    elif u < 0.12 and slots:
        b, o = r.choice(slots); tb = r.randrange(n)
        ops += ["sp:%d.%d:%d.%d" % (b, o, tb, used[tb] + 1 + r.randrange(3))]; feats.add("probe-ref-beyond-used")
    elif u < 0.16:
        b = r.randrange(n)
        ops += ["w:%d:aabbcc" % b, "z:%d:8" % b, "save"]; feats.add("probe-zalloc-after-raw-growth")
    return cid + " " + " ".join(ops), feats


INITS = [1, 1, 2, 3, 8, 16, 64, 1024]


def twin_line(r, line):
    """the same operation list under another configuration: other initial buffer size and/or the always-move hook
    toggled (Thm/C19 run_abs: every address-free output and every saved image must be the same)"""
    toks = line.split(" ")
    cid, ops = toks[0], toks[1:]
    _, n, init = ops[0].split(":")
    move = len(ops) > 1 and ops[1] == "move:1"
    rest = ops[2:] if move else ops[1:]
    while True:
        init2 = r.choice(INITS + [5, 100, 4096])
        move2 = r.random() < 0.5
        if (str(init2), move2) != (init, move):
            break
    return " ".join([cid + "t", "create:%s:%d" % (n, init2)] + (["move:1"] if move2 else []) + rest), move != move2


# ---------------------------------------------------------------------------------------------
# shared pieces of the three checks

REC = dict(extra_defs="-fsanitize-recover=alignment,bounds", tag="rec")
ENV = {"UBSAN_OPTIONS": "halt_on_error=0:print_stacktrace=0", "ASAN_OPTIONS": "detect_leaks=0:abort_on_error=0:exitcode=99"}
UB_ALIGN = "load_of_misaligned_address_ADDR_for_type_'void_*'"
UB_ALIGN_ST = "store_to_misaligned_address_ADDR_for_type_'void_*'"
UB_INDEX = "index_N_out_of_bounds_for_type_'YR_ARENA_BUFFER_[16]'"


def capped(path, limit_mb=200):
    """command line that runs a harness with its output capped: a code change that makes a harness print
    gigabytes (e.g. a loader accepting a 2 GiB size field) must not exhaust the memory of the check"""
    return ["bash", "-c", "set -o pipefail; %s | head -c %d" % (path, limit_mb << 20)]


def scratch_env(pid, extra=None):
    import os
    from vf import core
    d = os.path.join(core.OUT, pid, "scratch")
    os.makedirs(d, exist_ok=True)
    e = dict(ENV)
    e["VF_SCRATCH"] = d
    if extra:
        e.update(extra)
    return e


def split_ub(line):
    """-> (line without UB: tokens, list of UB summaries)"""
    toks = line.split()
    return " ".join(t for t in toks if not t.startswith("UB:")), [t[3:] for t in toks if t.startswith("UB:")]


def norm_ops(line):
    """canonical token list of an op-sequence result (C side or model side)"""
    out = []
    for t in line.split():
        if t.startswith("UB:") or t.startswith("OPSOK="):
            continue
        if t.startswith("CRASH:assert"):
            out.append("ASSERT")
            break
        out.append(t)
        if t == "ASSERT":
            break
    return out


def opsok(model_line):
    """(k, flags): the first k output tokens of the line were produced inside the protocol of Thm/C19 (driver's
    abstract-machine shadow); flags: SPECDIFF (the model left its proven specification), NOADM"""
    for t in model_line.split():
        if t.startswith("OPSOK="):
            v = t[6:].split(":")
            return int(v[0]), v[1:]
    return 0, []


def ops_agree(impl, model):
    """compare token lists; the model's OOB (the C code reads beyond the used bytes), ADDRDEP (two
    relocation entries of a corrupted image overlap) and UNSPEC (allocate_zeroed served from spare
    capacity that was never cleared) mean "anything may happen from here in this line"."""
    for x, y in zip(impl, model):
        if "OOB" in y or "ADDRDEP" in y:
            return True, "tolerated"
        if x != y:
            if "UNSPEC" in y:
                continue
            return False, "diff"
    if len(impl) != len(model):
        return False, "length"
    return True, "equal"


STORE = ("sp:", "p:", "rs:")
ALLOC = ("w:", "z:", "s:", "p:")


def store_alloc_readback(optoks, k):
    """within the first k tokens: a pointer is stored, later an allocation happens, later a slot is read back"""
    st = 0
    for t in optoks[:k]:
        if st == 0 and t.startswith(STORE) and not t.endswith(":null"):
            st = 1
        elif st == 1 and t.startswith(ALLOC):
            st = 2
        elif st == 2 and t.startswith("ref:"):
            return True
    return False


def ops_tie(chk, b, n, tag, replay_case=None, growth=True, loads="mutated", twin=False, replay_twin=None):
    """op-sequence correspondence of the Lean arena model with arena.c. Returns (found, cov, ub_seen).
    twin=True: every op list is also run under a second configuration (other initial size / always-move toggled);
    the two IMPLEMENTATION runs must agree token by token on the prefix that is inside the protocol of Thm/C19
    (OPSOK, computed by the driver's abstract machine) — the executable shadow of `run_abs` — and each run must
    agree with the model."""
    import collections, re
    from vf import core
    r = core.rng(tag)
    gen = [gen_ops(r, "a%d" % i, growth, loads) for i in range(n)]
    cases = [g[0] for g in gen]
    twins = {}
    if replay_case:
        cases = [replay_case]
        gen = []
        if replay_twin:
            twins[replay_case.split(" ", 1)[0]] = (replay_twin.split(" ", 1)[0], True)
            cases.append(replay_twin)
            twin = True
        else:
            twin = False
    if twin and not replay_case:
        rt = core.rng(tag + "/twin")
        for c in list(cases):
            cid = c.split(" ", 1)[0]
            if cid.endswith("t"):
                continue
            t, moved = twin_line(rt, c)
            twins[cid] = (t.split(" ", 1)[0], moved)
            cases.append(t)
    env = scratch_env(chk.pid)
    impl, rc, err = core.run_parallel(capped(b["h_arena"]), cases, env=env)
    model, mrc, merr = core.run_parallel([core.driver_path(), "arena"], cases)
    found = False
    if rc != 0 or mrc != 0:
        chk.violation("arena_ops_crash.json", {"kind": "harness-or-driver-failed", "rc": rc, "stderr": err, "model_rc": mrc, "model_stderr": merr,
                                                 "engine": "arena", "harness": "h_arena", "cases": cases[:20]})
        return True, {}, set()
    mi = {l.split(" ", 1)[0]: l for l in impl}
    mm = {l.split(" ", 1)[0]: l for l in model}
    byid = {c.split(" ", 1)[0]: c for c in cases}
    st = collections.Counter()
    ubs = collections.Counter()
    feats = collections.Counter()
    nbad = 0
    nontrivial = set()
    for i, c in enumerate(cases):
        k = c.split(" ", 1)[0]
        a, m = mi.get(k, ""), mm.get(k, "")
        for u in split_ub(a)[1]:
            ubs[u] += 1
        ok, how = ops_agree(norm_ops(a), norm_ops(m))
        st[how] += 1
        for t in norm_ops(m)[1:]:
            st["tok:" + re.sub(r"[=:].*", "", re.sub(r"^\d+\.\d+$", "ref", t))] += 1
        if i < len(gen):
            for f in gen[i][1]:
                feats[f] += 1
        if "S=" in m and any(x.startswith("sp:") or x.startswith("p:") for x in c.split()):
            nontrivial.add(c.split(" ", 1)[1])
        kk, flags = opsok(m)
        if "SPECDIFF" in flags or "NOADM" in flags:
            # the model left the specification it is proved to refine (or its own allocator is inadmissible): proof tie broken
            ok, how = False, "model-vs-abstract-machine"
            st["specdiff"] += 1
        if not ok:
            nbad += 1
            found = True
            if nbad <= 5:
                ni, nm = norm_ops(a), norm_ops(m)
                at = next((j for j, (x, y) in enumerate(zip(ni, nm)) if x != y), min(len(ni), len(nm)))
                chk.violation("arena_ops_diff_%d.json" % nbad,
                              {"kind": "arena-model-implementation-disagreement" if how != "model-vs-abstract-machine" else
                                       "arena-model-leaves-its-abstract-machine",
                               "engine": "arena", "harness": "h_arena", "case": c,
                               "first_difference_at_op": c.split()[at] if at < len(c.split()) else None,
                               "implementation": a[:4000], "model": m[:4000], "part": "ops"})
    cov = {"arena_op_sequences": len(cases), "arena_op_sequences_agree": len(cases) - nbad, "arena_ops_total": sum(len(c.split()) - 1 for c in cases),
           "arena_op_outcomes": dict(st.most_common(30)), "arena_op_features": dict(feats), "arena_ops_nontrivial": len(nontrivial)}
    # ---- the theorem's executable shadow: same op list, two configurations, implementation against implementation
    if twin:
        tw = collections.Counter()
        ophist = collections.Counter()
        ntw = 0
        for cid, (tid, moved) in twins.items():
            a1, a2 = norm_ops(mi.get(cid, "")), norm_ops(mi.get(tid, ""))
            m1, m2 = mm.get(cid, ""), mm.get(tid, "")
            n1, n2 = norm_ops(m1), norm_ops(m2)
            k1, _ = opsok(m1)
            k2, _ = opsok(m2)
            optoks = byid[cid].split(" ")[1:]
            t2 = byid[tid].split(" ")[1:]
            # token positions: line 1 and line 2 differ by the optional move:1 token after create -> align on the op list
            o1 = 2 if len(optoks) > 1 and optoks[1] == "move:1" else 1
            o2 = 2 if len(t2) > 1 and t2[1] == "move:1" else 1
            kk = min(k1 - o1, k2 - o2)          # ops (after create/move) inside the protocol in both runs
            tw["pairs"] += 1
            if kk <= 0:
                tw["pairs-empty-prefix"] += 1
                continue
            if kk == len(optoks) - o1:
                tw["pairs-whole-line-in-protocol"] += 1
            tw["ops-compared"] += kk
            if moved:
                tw["pairs-move-toggled"] += 1
            if store_alloc_readback(optoks[o1:], kk):
                tw["pairs-store-alloc-readback"] += 1
            for t in optoks[o1:o1 + kk]:
                ophist[t.split(":", 1)[0]] += 1
            bad = None
            for j in range(kk):
                x1 = a1[1 + o1 + j] if 1 + o1 + j < len(a1) else "<missing>"
                x2 = a2[1 + o2 + j] if 1 + o2 + j < len(a2) else "<missing>"
                y1 = n1[1 + o1 + j] if 1 + o1 + j < len(n1) else ""
                y2 = n2[1 + o2 + j] if 1 + o2 + j < len(n2) else ""
                if "UNSPEC" in y1 or "UNSPEC" in y2:
                    continue
                if x1 != x2:
                    bad = (j, x1, x2, "implementation")
                    break
                if y1 != y2:
                    bad = (j, y1, y2, "model")
                    break
                if x1.startswith("S="):
                    tw["images-compared"] += 1
            if bad:
                ntw += 1
                found = True
                tw["pairs-differ"] += 1
                if ntw <= 5:
                    chk.violation("arena_twin_diff_%d.json" % ntw,
                                  {"kind": "result-depends-on-initial-size-or-move-schedule", "engine": "arena", "harness": "h_arena",
                                   "case": byid[cid], "twin": byid[tid], "op": optoks[o1 + bad[0]], "where": bad[3],
                                   "config_1": bad[1][:600], "config_2": bad[2][:600], "part": "ops",
                                   "note": "same op list inside the protocol of Thm/C19 run_abs under two configurations: an address-free output or the saved image differs"})
        cov["twin"] = dict(tw)
        cov["twin_ops_in_protocol_histogram"] = dict(ophist)
    return found, cov, set(ubs)


def known_ub(chk, pid, ubs, findings):
    """UBSan reports seen in arena.c during the run -> KNOWN-FINDING (if listed) or violation."""
    found = False
    for u in sorted(ubs):
        hit = None
        for f in findings:
            sig = f.get("signature", {})
            if sig.get("kind") == "ubsan" and sig.get("message") in u and u.endswith("@" + sig.get("file", "")):
                hit = f
        if hit:
            chk.known(hit, "%s: %s" % (hit["id"], u))
        else:
            chk.violation("ub_%s.json" % hashlib_name(u), {"kind": "undefined-behaviour-report", "report": u,
                                                           "note": "UBSan report (recoverable build) that is not a listed known finding"})
            found = True
    return found


def hashlib_name(s):
    import hashlib
    return hashlib.sha1(s.encode()).hexdigest()[:10]
