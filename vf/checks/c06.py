"""C06 — Scanning arbitrary bytes with any module is memory-safe and terminates (PARTIAL).

1. translator T5 regenerates Gen/Bounds.lean from the C text; Thm/C06.lean is re-checked (all 64-bit values);
2. function-level correspondence: compiled macro/function of /repo vs generated Lean predicate on boundary-biased
   64-bit tuples, pe_rva_to_offset vs its model (harness/h_bounds.c, plain build; Driver/Bounds.lean); every accepted
   tuple is also tested against the in-range meaning (directed search for unsound predicates, R4);
3. runtime tie: structure-aware mutations of the samples scanned under ASan/UBSan/LSan with rules touching every module
   field/function, one forked child per case, per-case timeout (harness/h_fuzzmod.c)."""
import os, re, json, glob, collections
from vf import core
from vf.checks import c06_mut as M

THM = ["YaraModel.Thm.C06"]
MANIFEST = dict(
    category="proof",
    technique="Lean 4 theorems over BitVec 64 about bounds predicates regenerated from the C text (translator T5) + function-level correspondence "
              "(compiled macro vs generated predicate) + structure-aware fuzzing of every module under ASan/UBSan/LSan with per-case fork and timeout",
    text="partial: PROVED for all 64-bit values about the definitions GENERATED from the current C text — is_valid_ptr, fits_in_pe/struct_fits_in_pe, fits_in_dex, "
         "exec.c function_read range test, arena relocation test, Mach-O fat/command tests, ELF table and string-table tests, pe.c available_space and export-table "
         "tests, .NET string start and blob index tests imply an in-range access under allocation validity only; .NET blob length tests under 'buffer not within 4 GiB "
         "of the top of the address space'; pe_rva_to_offset result < data_size; capped loops run <= cap times. The two pe.c tests that were unsound in 4.5.2 (F60 Rich-header offset, F61 32-bit sum in "
         "the security directory) are fixed in /repo and proved at full strength on the regenerated text (pe_rich_nthdr_sound, pe_security_dir_sound). SAMPLED ONLY: that every dereference in the parsers is guarded, absence of leaks/uninitialised reads, termination "
         "of whole scans — exhibited by sanitizer runs on seeded structure-aware mutations of the sample files.",
    design_ref="DESIGN.md §1.3, §4 D12, §5 C06",
    note=core.TB + "Predicates are tied to the code twice (regenerated from text on every run; compiled code compared on tuples, strictly only where the C "
         "evaluation has no pointer-arithmetic UB). Parsers' memory safety is sampled, not proved. MSan is not used (uninitialised reads are seen only when they "
         "reach a branch UBSan/ASan notices).")

BOUNDS_PREDS = {  # name -> arity; the ones with a compiled twin in h_bounds.c
    "fits_in_pe": 4, "struct_fits_in_pe": 3, "fits_in_dex": 4, "struct_fits_in_dex": 3, "is_valid_ptr": 4,
    "function_read_in_range": 4, "arena_reloc_reject": 5, "dotnet_string_start_ok": 5}
MODEL_ONLY = {"macho_cmd_hdr_outside": 3, "macho_cmd_too_big": 3, "macho_cmd_too_small": 1, "macho_fat_wraps": 2, "macho_fat_outside": 3,
              "macho_fat_table_outside": 3, "elf_table_wraps": 2, "elf_table_outside": 4,
              "pe_available_before": 3, "pe_available_after": 3, "pe_rich_nthdr_reject": 2, "pe_exports_table_outside": 3, "pe_export_names_outside": 3,
              "pe_security_dir_reject": 3, "dotnet_blob4_ok": 3, "dotnet_blob_entry_outside": 4, "dotnet_blob_index_reject": 4,
              "dotnet_attr_blob_reject": 4, "dotnet_attr_str_outside": 4, "elf_str_entry_outside": 2, "pe_fullname_guard_covers_index": 1}
U32_ARGS = {"pe_rich_nthdr_reject": [1], "pe_exports_table_outside": [2], "pe_export_names_outside": [2], "pe_security_dir_reject": [1, 2],
            "dotnet_blob_entry_outside": [3], "dotnet_blob_index_reject": [3], "dotnet_attr_blob_reject": [3]}
U8_ARGS = {"dotnet_attr_str_outside": [3]}
TOP = 1 << 64
# natural-number meaning of the predicates: name -> (value that means "access allowed", hypotheses on the tuple, in-range test)
MEANING = {
    "pe_rich_nthdr_reject": ("0", lambda a: a[0] + 4 < TOP, lambda a: a[1] >= 4 and a[1] <= a[0]),
    "pe_security_dir_reject": ("0", lambda a: True, lambda a: a[1] > 0 and a[1] + a[2] <= a[0]),
    "pe_exports_table_outside": ("0", lambda a: a[1] <= a[0], lambda a: a[1] + 4 * a[2] <= a[0]),
    "pe_export_names_outside": ("0", lambda a: a[1] <= a[0], lambda a: a[1] + 4 * a[2] <= a[0]),
    "dotnet_blob4_ok": ("1", lambda a: a[0] + a[1] + (1 << 32) <= TOP and a[2] <= a[0] + a[1], lambda a: a[2] + 4 <= a[0] + a[1]),
    "dotnet_blob_entry_outside": ("0", lambda a: a[0] + a[1] + (1 << 32) <= TOP and a[2] <= a[0] + a[1], lambda a: a[2] + a[3] <= a[0] + a[1]),
    "dotnet_attr_blob_reject": ("0", lambda a: a[0] + a[1] + (1 << 32) <= TOP and a[2] <= a[0] + a[1], lambda a: a[3] >= 3 and a[2] + a[3] <= a[0] + a[1]),
    "dotnet_attr_str_outside": ("0", lambda a: a[0] + a[1] + (1 << 32) <= TOP and a[2] <= a[0] + a[1], lambda a: a[2] + a[3] <= a[0] + a[1]),
    "dotnet_blob_index_reject": ("0", lambda a: a[0] + a[1] < TOP, lambda a: a[3] != 0 and a[2] < a[0] + a[1]),
    "pe_fullname_guard_covers_index": ("0", lambda a: a[0] < TOP - 1, lambda a: False),   # the size guarded before `string[len]` is read must exceed len
    "macho_cmd_too_big": ("0", lambda a: a[1] <= a[0], lambda a: a[1] + a[2] <= a[0]),
    "macho_fat_table_outside": ("0", lambda a: a[1] < (1 << 32) and a[2] <= 32, lambda a: 8 + a[1] * a[2] <= a[0]),
}
# named conditions a listed predicate-level finding may restrict itself to (signature.condition)
PRED_CONDITIONS = {"nthdr_offset>data_size": lambda a: a[1] > a[0], "data_size>=2^31": lambda a: a[0] >= (1 << 31)}
M64 = (1 << 64) - 1
MAPADDR = 0x200000000000


def bval(r, anchors):
    u = r.random()
    if u < 0.55:
        return (r.choice(anchors) + r.choice([-9, -8, -7, -2, -1, 0, 0, 1, 2, 7, 8, 9, 16, 40, 112])) & M64
    if u < 0.75:
        return r.choice([0, 1, 7, 8, 9, 40, 112, 0xffffffff, 1 << 32, 1 << 47, 1 << 63, M64, M64 - 7, M64 - 8, M64 - 15, M64 - 40])
    if u < 0.9:
        return r.getrandbits(r.choice([8, 16, 32, 48]))
    return r.getrandbits(64)


def gen_pred_cases(r, n):
    out = []
    names = list(BOUNDS_PREDS)
    for i in range(n):
        name = names[i % len(names)]
        if name == "arena_reloc_reject":
            nb = r.choice([1, 1, 2, 3]); bid = r.choice([0, 0, 0, 1, 2, 3, 5, 15])
            used = r.choice([8, 8, 9, 15, 16, 24, 100, 4096, 0]) if bid < nb else 16
            bdata = 0 if used == 0 else 1
            off = max(0, (r.choice([0, used, used - 8, 0xffffffff, 1 << 31]) + r.choice([-9, -8, -7, -1, 0, 1, 7, 8]))) & 0xffffffff
            args = [bid, nb, off, used if bid < nb else 16, bdata]
        elif name == "dotnet_string_start_ok":
            data = MAPADDR + 0x1000 + r.choice([0, 0x10, 0x800]); dsz = r.choice([0, 1, 16, 0x400, 0x1000])
            idx = r.choice([0, 0, 1, 5, dsz, dsz - 1 if dsz else 0, 0x100])
            hs = r.choice([0, 1, idx, idx + 1, 0x1000, 0xffffffff])
            start = (data + r.choice([-1, 0, 0, 1, dsz - 1, dsz, dsz + 1, 5])) & M64
            args = [data, dsz, start, idx, hs]
        else:
            top = r.random() < 0.25
            base = r.choice([0x1000, 0x7f0000001000, 0x555500000000, 0]) if not top else r.choice([M64 - 0x1000 + 1, M64 - 0xfff, 1 << 63, M64 - 0x2000])
            size = r.choice([0, 1, 7, 8, 16, 40, 112, 0x400, 0x1000, 0xfff, 1 << 32]) if r.random() < 0.9 else bval(r, [M64 - base])
            if name == "function_read_in_range":
                nn = r.choice([1, 2, 4])
            elif name.startswith("struct_"):
                nn = 40 if name.endswith("pe") else 112
            else:
                nn = r.choice([0, 1, 2, 4, 8, 16, 40, 112, size, size + 1, max(0, size - 1), 0x1000, M64, M64 - 7, 1 << 63]) if r.random() < 0.85 else bval(r, [size])
            anchors = [base, (base + size) & M64, (base + size - nn) & M64, (0 - nn) & M64, 0]
            p = bval(r, anchors)
            args = [base, size, p, nn]
            if name.startswith("struct_"):
                args = args[:3]
        out.append("b%d p %s %s" % (i, name, " ".join("%x" % (a & M64) for a in args)))
    return out


def gen_model_only(r, n):
    out = []
    names = list(MODEL_ONLY)
    for i in range(n):
        name = names[i % len(names)]
        size = r.choice([0, 8, 28, 32, 100, 0x1000, 1 << 31, 0xC0000000, 1 << 32, M64])
        base = r.choice([0, 0x1000, 0x7f0000001000, M64 - 0xfff])
        args = [bval(r, [size, 0, (0 - size) & M64, base, (base + size) & M64]) for _ in range(MODEL_ONLY[name])]
        if name.startswith(("dotnet_", "pe_available")):
            args[0], args[1] = base, size if size < (1 << 40) else 0x1000
            args[2] = bval(r, [base, (base + args[1]) & M64])
        elif name.startswith("pe_") and r.random() < 0.8:
            args[0] = size
        for k in U32_ARGS.get(name, []):
            args[k] = bval(r, [size & 0xffffffff, 0, 3, (size - (args[2] if len(args) > 2 else 0)) & 0xffffffff]) & 0xffffffff
        for k in U8_ARGS.get(name, []):
            args[k] &= 0xff
        out.append("m%d p %s %s" % (i, name, " ".join("%x" % (a & M64) for a in args)))
    return out


def gen_rva_cases(r, n):
    out = []
    for i in range(n):
        ns_real = r.choice([0, 1, 2, 3, 5, 8, 96, 97, 100])
        nsec = r.choice([ns_real, ns_real, ns_real, max(0, ns_real - 1), 0xffff]) if ns_real <= 96 else ns_real
        given = min(max(nsec, ns_real), 100)
        sec_off = 0x138 + r.choice([0, 0, 8, 0x40])
        fa = r.choice([0, 1, 4, 0x200, 0x200, 0x1000, 0x3ff, 0xffffffff])
        sa = r.choice([0, 0x200, 0x1000, 0x1000, 0x2000, 0xfff])
        table_end = sec_off + 40 * min(given, 96)
        ds = r.choice([0x10000, 0x10000, 0x100000, table_end, table_end - 1, table_end + 1, sec_off + 39, sec_off + 40, 0x200, (1 << 32) + 5, (1 << 32)])
        secs = []
        va = 0x1000
        for k in range(given):
            vs = r.choice([0, 0x10, 0x200, 0x1000, 0x1234, 0xffffffff])
            rs = r.choice([0, 0x200, 0x400, 0x1000, 0xffffffff, vs])
            rp = r.choice([0, 0x200, 0x400, 0x3ff, 0x401, 0x1ff, ds - 0x100 if ds > 0x100 else 0, ds, 0xffffff00, 0x600]) & 0xffffffff
            v = va if r.random() < 0.8 else r.choice([0, 0x1000, 0xfffff000, va - 0x800 if va > 0x800 else 0])
            secs.append((v & 0xffffffff, vs, rp, rs))
            va += r.choice([0x1000, 0x2000, 0x200])
        pick = r.choice(secs) if secs and r.random() < 0.8 else (0, 0, 0, 0)
        rva = (pick[0] + r.choice([0, 1, 0x10, pick[1], pick[3], pick[1] - 1, pick[3] - 1, -1, 0x1ff, 0x200])) & M64 if r.random() < 0.85 else \
            r.choice([0, 1, 0x138, 0xfff, 0xffffffff, 1 << 32, M64, ds, ds - 1])
        flat = " ".join("%x %x %x %x" % s for s in secs)
        out.append(("r%d rva %x %x %x %x %x %x %d %s" % (i, ds, fa, sa, nsec, sec_off, rva, given, flat)).rstrip())
    return out


def in_range(base, size, p, n):
    return base <= p and p + n <= base + size


def unsound(name, a):
    """accepted tuple that violates the natural-number meaning under allocation validity -> description or None"""
    if name in ("fits_in_pe", "fits_in_dex", "is_valid_ptr", "function_read_in_range"):
        base, size, p, n = a
    elif name == "struct_fits_in_pe":
        base, size, p = a; n = 40
    elif name == "struct_fits_in_dex":
        base, size, p = a; n = 112
    elif name == "dotnet_string_start_ok":
        base, size, p, n = a[0], a[1], a[2], 1
    else:
        return None
    if base + size >= (1 << 64):
        return None
    return None if in_range(base, size, p, n) else "accepted [%#x,+%#x) outside [%#x,+%#x)" % (p, n, base, size)


def unsound_generic(name, a, val):
    m = MEANING.get(name)
    if not m or val != m[0] or not m[1](a):
        return None
    return None if m[2](a) else "allowed by %s but outside its natural-number meaning: %s" % (name, " ".join("%#x" % x for x in a))


SEED_GLOBS = ["tests/data/*", "tests/oss-fuzz/*_corpus/*"]


def seeds(tier):
    out = []
    lim = 420000 if tier == "quick" else 3000000
    for g in SEED_GLOBS:
        for p in sorted(glob.glob(os.path.join(core.REPO, g))):
            if os.path.isfile(p) and 16 <= os.path.getsize(p) <= lim and not p.endswith((".yar", ".txt", ".notes", ".out")):
                d = open(p, "rb").read()
                fmt, F, cuts = M.analyse(d)
                if fmt != "raw" or "corpus" in p:
                    out.append((p, d, fmt, F, sorted(set(c for c in cuts if 0 <= c <= len(d))), M.anchors(d)))
    return out


def gen_fuzz_cases(r, tier, sds):
    """-> (case lines, {id: (format, mutation kind)})"""
    cases, meta = [], {}
    per_fmt = collections.defaultdict(list)
    for s in sds:
        per_fmt[s[2]].append(s)
    quick = tier == "quick"
    cnt = [0]

    def add(path, ops, fmt, kind):
        cid = "f%d" % cnt[0]; cnt[0] += 1
        cases.append("%s %s %s" % (cid, path, ops)); meta[cid] = (fmt, kind)

    for s in sds:                                   # (a) every seed unmodified once: the baseline must be clean
        add(s[0], "N", s[2], "seed")
    fmts = sorted(per_fmt)
    # (b) directed: every class of header field, pointer-like ones aimed at the end of the file, counts made huge
    for fmt in fmts:
        classes = collections.defaultdict(list)
        for s in per_fmt[fmt]:
            for fld in s[3]:
                if 0 <= fld[0] and fld[0] + fld[1] <= len(s[1]):
                    classes[M.klass(fld[3])].append((s, fld))
        for kl in sorted(classes):
            inst = classes[kl]
            k = min(12, 3 + len(inst) // 8) * (1 if quick else 12)
            for _ in range(k):
                s, (off, w, en, lab) = r.choice(inst)
                cur = int.from_bytes(s[1][off:off + w], "little" if en == "<" else "big")
                v = M.directed_value(r, lab, cur, w, len(s[1]), s[5])
                ops = "%s%d:%d:%x" % ("W" if en == "<" else "B", off, w, v)
                if r.random() < 0.25:               # a second field of the same seed (two sites that are each fine alone)
                    off2, w2, en2, lab2 = r.choice(s[3])
                    if 0 <= off2 and off2 + w2 <= len(s[1]):
                        cur2 = int.from_bytes(s[1][off2:off2 + w2], "little" if en2 == "<" else "big")
                        ops += ",%s%d:%d:%x" % ("W" if en2 == "<" else "B", off2, w2, M.directed_value(r, lab2, cur2, w2, len(s[1]), s[5]))
                add(s[0], ops, fmt, "directed:" + kl.split(".")[0].split("/")[-1].split("[")[0][:12])
    # (b2) every table the parsers walk copied so that it ends exactly at the last byte of the buffer (or sticks out), pointer re-aimed, counts varied
    for s in sds:
        if len(s[1]) > (120000 if quick else 3000000):
            continue
        for ops, kind in M.reloc_cases(r, s[1], M.reloc_targets(s[1]), 6 if quick else 8):
            add(s[0], ops, s[2], kind)
    # (b3) .NET signature blobs of the #Blob heap rewritten with crafted type encodings (array shapes, nesting, generic instantiations, compressed ints)
    for s in sds:
        if s[2] == "dotnet":
            for ops, kind in M.dotnet_blob_cases(r, s[1], 120 if quick else 500):
                add(s[0], ops, s[2], kind)
    # (b4) first / middle / last entry of every RVA- or offset-driven table aimed at a place that maps nowhere (a loop that does not advance on that
    #      branch never ends: the per-case timeout reports it)
    for s in sds:
        if len(s[1]) > (120000 if quick else 3000000):
            continue
        for ops, kind in M.unmapped_cases(r, s[1], s[2], s[3]):
            add(s[0], ops, s[2], kind)
    # (b5) rows of the .NET metadata tables (#~ stream): indices 0 / last / last+1 / max in the first, middle and last row; rows made to share an owner
    #      with one column invalid. The one large sample with multi-row GenericParam / NestedClass / MethodSpec tables is used for those tables only.
    for s in sds:
        if s[2] == "dotnet":
            for ops, kind in M.dotnet_table_cases(r, s[1], 4 if quick else 12):
                add(s[0], ops, s[2], kind)
    big = os.path.join(core.REPO, "tests/data/756684f4017ba7e931a26724ae61606b16b5f8cc84ed38a260a34e50c5016f59")
    if quick and os.path.exists(big) and not any(s[0] == big for s in sds):
        bd = open(big, "rb").read()
        for ops, kind in M.dotnet_table_cases(r, bd, 4, only=("GenericParam", "GenericParamConstraint", "NestedClass", "MethodSpec", "InterfaceImpl", "ManifestResource")):
            add(big, ops, "dotnet", kind)
    # (b6) strings copied into fixed-size local buffers: VS_VERSIONINFO String keys / values of 62..65, 255..257, 1000 characters (consistent and
    #      inconsistent wLength / wValueLength), resource name lengths, .NET stream names without terminator
    for s in sds:
        if s[2] in ("pe", "dotnet") and len(s[1]) <= (420000 if quick else 3000000):
            vc = M.version_info_cases(r, s[1])
            if quick:
                imp = [c for c in vc if not c[1].endswith("key0")]
                rest = [c for c in vc if c[1].endswith("key0")]
                r.shuffle(imp); r.shuffle(rest)
                vc = imp[:45] + rest[:20]
            for ops, kind in vc:
                add(s[0], ops, s[2], kind.replace("key0", "other"))
    # (b7) cycles and self-references: NestedClass enclosing chains of length 1, 2, 3, TypeDef.Extends loops, resource directories pointing at themselves,
    #      their parent or the root (a walk that does not bound its depth never ends / exhausts the stack: timeout or crash of the forked child)
    for s in sds:
        if s[2] in ("pe", "dotnet") and len(s[1]) <= (420000 if quick else 3000000):
            cc = M.cycle_cases(r, s[1])
            if quick and len(cc) > 150:
                keep = [c for c in cc if c[1] in ("cycle:NestedClass-1edit", "cycle:NestedClass-self", "cycle:NestedClass-2") or c[1].startswith("cycle:TypeDef")]
                rest = [c for c in cc if c not in keep]
                r.shuffle(rest); cc = keep[:200] + rest[:60]
            for ops, kind in cc:
                add(s[0], ops, s[2], kind)
    # (b8) COFF string table at EOF with "/<n>" section names; version resources with 60..130 distinct keys (dictionary growth past its initial 64 slots)
    for s in sds:
        if s[2] in ("pe", "dotnet") and len(s[1]) <= (420000 if quick else 3000000):
            cc = M.coff_name_cases(r, s[1])
            if quick and len(cc) > 16:
                r.shuffle(cc); cc = cc[:16]
            for ops, kind in cc + M.many_keys_cases(r, s[1]):
                add(s[0], ops, s[2], kind)
    # (c) truncation at every structure boundary of every seed (all deltas for the smallest seed of each format)
    for fmt in fmts:
        small = min(per_fmt[fmt], key=lambda s: len(s[1]))
        for s in per_fmt[fmt]:
            for c in s[4]:
                for dlt in ((-1, 0, 1, 7, 39) if (s is small or not quick) else (r.choice([0, 1, 1, 7, 19, 39]),)):
                    add(s[0], "T%d" % max(0, min(len(s[1]), c + dlt)), fmt, "trunc@boundary")
    # (d) random mix
    for _ in range(600 if quick else 20000):
        fmt = r.choice(fmts)
        cand = per_fmt[fmt]
        s = r.choice(sorted(cand, key=lambda s: len(s[1]))[: max(1, (len(cand) + 1) // 2)]) if r.random() < 0.7 else r.choice(cand)
        ops, kind = M.mutate(r, s[1], s[3], s[4])
        add(s[0], ops, fmt, "mix:" + (kind.split(":")[0] if not kind.startswith("field") else "field"))
    for k in range(40 if quick else 2000):            # (e) random data, with and without a magic
        ln = r.choice([0, 1, 2, 3, 4, 63, 64, 100, 1000, 4096, 70000])
        magic = r.choice(["", "", "X0:4d5a", "X0:7f454c4602", "X0:7f454c4601", "X0:cafebabe", "X0:feedface", "X0:cffaedfe", "X0:6465780a30333500",
                          "X0:4d5a,W60:4:40,X64:50450000", "X0:4d5a,W60:4:40,X64:50450000", "X0:6465780a30333500"])
        add("-", "Z%d:%d%s" % (ln, r.getrandbits(30), "," + magic if magic else ""), "random", "random")
    return cases, meta


def signature(line):
    """canonical (kind, function) of a CRASH/TIMEOUT output line"""
    if " TIMEOUT" in line:
        return ("timeout", "-")
    msg = line.split("msg=", 1)[1] if "msg=" in line else ""
    m = re.search(r"ERROR: (?:Address|Leak)Sanitizer: ([\w-]+)", msg)
    if m:
        kind = m.group(1)
        if kind == "detected":
            kind = "memory-leak"
    else:
        m = re.search(r"runtime error: (.*?) ##", msg)
        if m:
            kind = "ubsan:" + re.sub(r"0x[0-9a-f]+|-?\d+", "N", m.group(1))[:70].strip().replace(" ", "_")
        else:
            m2 = re.search(r"exit=(-?\d+) signal=(\d+)", line)
            kind = "exit%s/signal%s" % (m2.group(1), m2.group(2)) if m2 else "unknown"
    fn = "-"
    for f, path in re.findall(r"#\d+ 0x[0-9a-f]+ in (\S+) (\S+)", msg):
        if "/libyara/" in path and f not in ("yr_malloc", "yr_calloc", "yr_realloc", "yr_strdup", "yr_free"):
            fn = f
            break
    return (kind, fn)


def runtime_known(krun, kind, fn):
    """a sanitizer report is a listed finding only when its (kind, first libyara function) signature is listed verbatim"""
    for f in krun:
        if f["signature"].get("kind") == kind and f["signature"].get("function") == fn:
            return f
    return None


def guard_pairs_check(chk, gstatus):
    """(1) every extracted site: read extent <= guarded size, else VIOLATION naming the site and the read that sticks out (the same fact Thm/C06
    struct_guard_reads_in_guard decides in Lean); (2) the struct layouts the translator parsed from the headers agree with the compiler's sizeof/offsetof."""
    import subprocess
    found = False
    sites = gstatus["sites"]
    for s in sites:
        if s["read_extent"] > s["guard_size"]:
            chk.violation("guard_%s.json" % s["name"].replace("/", "_"), {"kind": "read-beyond-guard", "engine": "guards", "harness": "-", "case": s["name"],
                          "implementation": "guard %s = %d bytes; reads through the %s pointer reach byte %d (fields %s)" %
                          (s["guard_type"], s["guard_size"], s["ptr_type"], s["read_extent"], ", ".join(s["fields"])),
                          "model_spec": "every read through a guarded pointer stays within the guarded size", "file": s["file"]})
            found = True
    for form in (gstatus["strnlen"] or [[]])[0]:
        m = re.fullmatch(r"\(?\(data_size - offset\)(?: ([+-]) \((\d+)#64\)\))?", form)
        k = 0 if not m or not m.group(1) else (int(m.group(2)) if m.group(1) == "+" else -int(m.group(2)))
        for sz, off in ((100, 40), (100, 100), (0, 0), (1 << 32, 5)):
            bound = (sz - off + k) % (1 << 64)
            if off + bound > sz:
                chk.violation("guard_strnlen.json", {"kind": "read-beyond-guard", "engine": "guards", "harness": "-", "case": "pe.c strnlen bound %s" % form,
                              "implementation": "data_size=%d offset=%d: strnlen may read %d bytes from offset, i.e. up to byte %d of a %d-byte file" % (sz, off, bound, off + bound, sz),
                              "model_spec": "pe_strnlen_walk_in_file: offset + bound <= data_size"})
                found = True
                break
    lay = gstatus["layouts"]
    src = ["#include <stdio.h>", "#include <stddef.h>", "#include <yara/pe.h>", "#include <yara/dotnet.h>", "#include <yara/elf.h>", "int main(void) {"]
    for t in sorted(lay):
        src.append('  printf("%s %%zu\\n", sizeof(%s));' % (t, t))
        for f in sorted(lay[t]["fields"]):
            src.append('  printf("%s.%s %%zu %%zu\\n", offsetof(%s, %s), sizeof(((%s*) 0)->%s));' % (t, f, t, f, t, f))
    src += ["  return 0;", "}"]
    d = os.path.join(core.vbuild.BUILD, "layout")
    os.makedirs(d, exist_ok=True)
    open(os.path.join(d, "layout.c"), "w").write("\n".join(src) + "\n")
    r = subprocess.run(["gcc", "-w", "-D_GNU_SOURCE", "-I%s/libyara/include" % core.REPO, "-I%s/libyara" % core.REPO, "-o", os.path.join(d, "layout"), os.path.join(d, "layout.c")],
                       stdout=subprocess.PIPE, stderr=subprocess.STDOUT, text=True)
    tie = "not-built"
    if r.returncode == 0:
        out = subprocess.run([os.path.join(d, "layout")], stdout=subprocess.PIPE, text=True).stdout.split("\n")
        want = []
        for t in sorted(lay):
            want.append("%s %d" % (t, lay[t]["size"]))
            for f in sorted(lay[t]["fields"]):
                want.append("%s.%s %d %d" % (t, f, lay[t]["fields"][f][0], lay[t]["fields"][f][1]))
        got = [l for l in out if l]
        bad = [(w, g) for w, g in zip(want, got) if w != g]
        tie = "ok (%d sizes/offsets)" % len(want) if not bad and len(want) == len(got) else "MISMATCH"
        if tie == "MISMATCH":
            chk.violation("guard_layout.json", {"kind": "translator-layout-mismatch", "engine": "guards", "harness": "-", "case": "struct layouts",
                                                "implementation": "compiler: %s" % (bad[:5] or got[-3:]), "model_spec": "translator: parsed layout of the packed structs"})
            found = True
    else:
        tie = "layout program does not compile: " + r.stdout[-300:]
    if gstatus["unparsed"]:
        print("NOTE property=C06 guard/read translator could not parse: %s (not counted; other sites and the runtime campaign still decide)" % "; ".join(gstatus["unparsed"])[:300])
    return {"sites": len(sites), "sites_with_read_extent_equal_guard": sum(1 for s in sites if s["read_extent"] == s["guard_size"]),
            "unparsed_sites": gstatus["unparsed"], "strnlen_bound": gstatus["strnlen"], "layout_tie": tie, "found": found,
            "site_list": ["%s: guard %s=%d, extent %d" % (s["name"], s["guard_type"], s["guard_size"], s["read_extent"]) for s in sites]}


def run(tier, replay=None):
    chk = core.Check("C06", tier)
    for f in glob.glob(os.path.join(core.OUT, "C06", "*.json")):
        os.remove(f)
    tr = core.run_translators(["bounds", "guards"])
    status = json.load(open(os.path.join(core.LEAN, "YaraModel", "Gen", "Bounds.status.json")))
    gstatus = json.load(open(os.path.join(core.LEAN, "YaraModel", "Gen", "Guards.status.json")))
    lres = core.lean_check(THM)
    core.proof_coverage(chk, lres, THM, tr)
    # predicates the translator could not parse get a never-accepting stub: their theorems are vacuous and are NOT counted as discharged,
    # the function-level comparison is skipped for them, and the verdict rests on the runtime correspondence (DESIGN R4)
    unparsed = sorted(k for k, v in status["status"].items() if isinstance(v, str) and v.startswith("unparsed"))
    if unparsed:
        dep = [t for t in lres["theorems"] if any(u.replace("struct_", "") .split("_unparsed")[0] in t or
                                                  (u.startswith("macho_cmd") and "macho_cmd" in t) or (u.startswith("macho_fat") and "macho_fat" in t) or
                                                  (u.startswith("elf_table") and "elf_table" in t) or (u.startswith("MAX_") and ("iterations" in t or "capped" in t))
                                                  for u in unparsed)]
        chk.cov["unparsed_predicates"] = unparsed
        chk.cov["theorems_not_counted_because_unparsed"] = dep
        chk.cov["discharged"] = max(0, chk.cov.get("discharged", 0) - len(dep))
        print("NOTE property=C06 translator could not parse %s: dependent theorems not counted, falling back to runtime correspondence" % ", ".join(unparsed))
    bp = core.build("plain", harness=["h_bounds", "h_fuzzmod"])
    # UBSan's alignment check is switched off for the campaign: libyara reads unaligned multi-byte fields of the scanned buffer by design
    # (uint32(n) at odd n, packed on-disk structures); that is outside the property's statement and would end ~25% of the cases at the first report.
    ba = core.build("asan", harness=["h_fuzzmod"], extra_defs="-fno-sanitize=alignment", tag="noalign")
    known = core.known_findings("C06")
    kpred = [f for f in known if f["signature"].get("level") == "predicate"]
    krun = [f for f in known if f["signature"].get("level") == "runtime"]
    found = False
    r = core.rng("C06")

    # ---------------------------------------------------------------- 1b. guard/read pairs: concrete check + layout tie with the compiler
    gsum = guard_pairs_check(chk, gstatus)
    found = found or gsum.pop("found")
    chk.cov["guard_read_pairs"] = gsum
    # ---------------------------------------------------------------- 2. function-level correspondence
    npred = 4000 if tier == "quick" else 200000
    pcases = ["s0 sizes"] + gen_pred_cases(r, npred) + gen_rva_cases(r, 1500 if tier == "quick" else 60000) + gen_model_only(r, 3000 if tier == "quick" else 60000)
    if replay and replay.get("engine") == "bounds":
        pcases = [replay["case"]]
    run_pred = not replay or replay.get("engine") == "bounds"
    stats = collections.Counter()
    if run_pred:
        impl, rc, err = core.run_parallel([bp["h_bounds"]], [c for c in pcases if not c.startswith("m")])
        if rc != 0:
            chk.violation("bounds_harness_crash.json", {"kind": "harness-crash", "engine": "bounds", "harness": "h_bounds", "rc": rc, "stderr": err})
            found = True
        model = []
        if lres.get("driver_ok"):
            model, mrc, merr = core.run_parallel([core.driver_path(), "bounds"], pcases)
        mi = {l.split(" ", 1)[0]: l.split(" ")[1:] for l in impl}
        mm = {l.split(" ", 1)[0]: l.split(" ")[1:] for l in model}
        nviol = 0
        for c in pcases:
            t = c.split(" ")
            cid, kind = t[0], t[1]
            a, m = mi.get(cid), mm.get(cid)
            if m is None or (a is None and not cid.startswith("m")):
                continue
            if kind == "sizes":
                if a != m:
                    chk.violation("sizes.json", {"kind": "translator-constant-mismatch", "engine": "bounds", "harness": "h_bounds", "case": c,
                                                 "implementation": " ".join(a), "model_spec": " ".join(m)})
                    found = True
                continue
            if kind == "rva":
                stats["rva"] += 1
                stats["rva_defined"] += m[0] != "-1"
                if a[0] != m[0] and nviol < 10:
                    nviol += 1
                    chk.violation("rva_%d.json" % nviol, {"kind": "model-implementation-disagreement", "engine": "bounds", "harness": "h_bounds", "case": c,
                                                          "implementation": a[0], "model_spec": m[0], "note": "pe_rva_to_offset vs Model/PeRva.lean"})
                    found = True
                continue
            name = t[2]
            if name in unparsed or name.replace("struct_", "") in unparsed:
                stats["pred_skipped_unparsed"] += 1
                continue
            args = [int(x, 16) for x in t[3:]]
            val, ub = m[0], m[1]
            stats["pred:" + name] += 1
            stats["pred_true:" + name] += val == "1"
            if not cid.startswith("m"):
                if a[0] in ("-1",):
                    stats["pred_skipped_domain"] += 1
                elif ub == "1":
                    stats["pred_ub_tuples"] += 1
                    stats["pred_ub_agree"] += a[0] == val
                elif a[0] != val and nviol < 10:
                    nviol += 1
                    chk.violation("pred_%d.json" % nviol, {"kind": "model-implementation-disagreement", "engine": "bounds", "harness": "h_bounds", "case": c,
                                                           "implementation": a[0], "model_spec": val,
                                                           "note": "compiled predicate vs Lean predicate regenerated from the C text (translator or compiler-visible semantics differ)"})
                    found = True
            why = (unsound(name, args) if val == "1" else None) or unsound_generic(name, args, val)
            if why:
                stats["unsound:" + name] += 1
                kf = [f for f in kpred if f["signature"].get("predicate") == name and
                      PRED_CONDITIONS.get(f["signature"].get("condition"), lambda a: True)(args)]
                if kf:
                    if not any(k[0] is kf[0] for k in chk.known_hit):
                        chk.known(kf[0], "%s: bounds test %s allows an out-of-range access (%s), e.g. `%s`" %
                                  (kf[0]["id"], name, kf[0]["signature"].get("condition"), c.split(" ", 2)[2]))
                elif stats["unsound_reported"] < 5:
                    stats["unsound_reported"] += 1
                    chk.violation("unsound_%s_%d.json" % (name, stats["unsound_reported"]),
                                  {"kind": "bounds-predicate-unsound", "engine": "bounds", "harness": "h_bounds", "case": c, "implementation": a[0] if a else None,
                                   "model_spec": val, "why": why, "note": "predicate (as regenerated from the current C text) accepts an access outside the buffer"})
                    found = True

    # ---------------------------------------------------------------- 3. runtime campaign
    sds = seeds(tier)
    fcases, meta = gen_fuzz_cases(r, tier, sds)
    flavour_bin = ba["h_fuzzmod"]
    rules = os.path.join(core.VERIF, "corpus", "C06", "rules.yar")
    # wrap-around regression input (plain build: no UBSan in front of the wrap): ELF64 symtab offset = 2^64 - address - 16
    f10 = None
    elfp = os.path.join(core.REPO, "tests/data/elf_with_imports")
    if os.path.exists(elfp):
        d = open(elfp, "rb").read()
        import struct
        shoff, shnum = struct.unpack_from("<Q", d, 40)[0], struct.unpack_from("<H", d, 60)[0]
        for k in range(shnum):
            o = shoff + 64 * k
            if o + 64 <= len(d) and struct.unpack_from("<I", d, o + 4)[0] == 2:
                addr = 0x500000000000
                f10 = ["x0 %s M%x" % (elfp, addr), "x1 %s M%x,W%d:8:%x,W%d:8:30" % (elfp, addr, o + 24, (1 << 64) - addr - 16, o + 32)]
    do_fuzz = not replay or replay.get("engine") == "fuzzmod"
    if replay and replay.get("engine") == "fuzzmod":
        fcases, f10 = [replay["case"]], None
        meta = {fcases[0].split(" ")[0]: ("replay", "replay")}
        if replay.get("flavour") == "plain":
            flavour_bin = bp["h_fuzzmod"]
    hist, fmt_hist, sigs = collections.Counter(), collections.Counter(), collections.defaultdict(list)
    nontrivial = set()
    if do_fuzz:
        tmo = "15" if tier == "quick" else "60"
        out, rc, err = core.run_parallel([flavour_bin, rules, tmo], fcases, timeout=3000)
        if rc != 0 or len(out) != len(fcases):
            chk.violation("fuzz_harness_crash.json", {"kind": "harness-crash", "engine": "fuzzmod", "harness": "h_fuzzmod", "rc": rc, "stderr": err,
                                                      "answered": len(out), "cases": len(fcases)})
            found = True
        byid = {c.split(" ", 1)[0]: c for c in fcases}
        # re-run every crash/timeout once alone with a generous timeout: scans are deterministic, load-induced time-outs are not
        bad = [l.split(" ", 1)[0] for l in out if " ok " not in l[:14]]
        if bad and len(bad) <= 40 and not replay:
            rout, rrc, rerr = core.run_lines([flavour_bin, rules, "120"], [byid[c] for c in bad if c in byid], timeout=3000)
            redo = {l.split(" ", 1)[0]: l for l in rout}
            out = [redo.get(l.split(" ", 1)[0], l) if " ok " not in l[:14] else l for l in out]
            stats["not_reproduced_when_rerun_alone"] = sum(1 for c in bad if " ok " in redo.get(c, "")[:14])
        for l in out:
            cid = l.split(" ", 1)[0]
            fmt, kind = meta.get(cid, ("?", "?"))
            hist[kind] += 1; fmt_hist[fmt] += 1
            if " ok " in l[:len(cid) + 4]:
                m = re.search(r"rc=(\S+) rules=(\d+) def=(\d+)", l)
                stats["scan_rc:" + (m.group(1) if m else "?")] += 1
                if m and int(m.group(3)) > 520 and kind != "seed":     # 459 fields are defined on any input (constants); > 520 = a parser went deep
                    nontrivial.add(byid[cid].split(" ", 1)[1])
            else:
                sigs[signature(l)].append((byid.get(cid), l[:6000]))
        if f10:
            # regression case of the fixed finding F10 (6105253): must scan normally; a crash is a VIOLATION with this replay
            xo, xrc, xerr = core.run_lines([bp["h_fuzzmod"], rules, "30"], f10)
            ctl_ok = len(xo) == 2 and " ok " in xo[0]
            if ctl_ok and " ok " not in xo[1][:8]:
                chk.violation("elf_wrap.json", {"kind": "crash-on-crafted-elf", "engine": "fuzzmod", "harness": "h_fuzzmod", "flavour": "plain", "case": f10[1],
                                                "implementation": xo[1][:500], "model_spec": "scan terminates normally",
                                                "note": "ELF64 whose symtab sh_offset = 2^64 - buffer address - 16 (buffer mapped at 0x500000000000): a bounds test "
                                                        "that adds to the file-derived pointer wraps around (Lean: Thm/C06.is_valid_ptr_sound must hold for the current text)"})
                found = True
            stats["elf_wrap_regression"] = "crash" if ctl_ok and " ok " not in xo[1][:8] else ("ok" if ctl_ok else "not-run")
        n = 0
        for (kind, fn), lst in sorted(sigs.items()):
            stats["report:%s@%s" % (kind, fn)] = len(lst)
            kn = [(c, l, runtime_known(krun, kind, fn)) for c, l in lst]
            hit = [x for x in kn if x[2]]
            if hit:
                chk.known(hit[0][2], "%s %s (function %s) on %d input(s), e.g. `%s` -> %s" %
                          (hit[0][2]["id"], kind, fn, len(hit), hit[0][0], hit[0][1].split(" msg=")[0].split(" ", 1)[1]))
            if True:
                for case, l in [(c, l) for c, l, k in kn if not k][:2]:
                    n += 1
                    chk.violation("sanitizer_%d.json" % n, {"kind": "sanitizer-report-or-hang", "engine": "fuzzmod", "harness": "h_fuzzmod", "flavour": "asan",
                                                            "case": case, "signature": {"kind": kind, "function": fn}, "implementation": l,
                                                            "model_spec": "scan terminates; no ASan/UBSan/LSan report"})
                    found = True

    if unparsed and not lres["ok"]:
        # the proof layer cannot be re-checked because a predicate's C text is no longer recognised by the translator (stub in Gen/Bounds.lean);
        # "one of two ties": the verdict then rests on the function-level comparison of the remaining predicates and on the runtime campaign above
        chk.cov["proof_layer"] = "not re-checked: translator could not parse %s" % ", ".join(unparsed)
        chk.cov["discharged"] = 0
        print("NOTE property=C06 proof layer not re-checked (unparsed: %s); verdict from correspondence only" % ", ".join(unparsed))
    else:
        core.handle_broken_proof(chk, lres, found)
    chk.cov.update({
        "evaluations": (len(pcases) if run_pred else 0) + (len(fcases) if do_fuzz else 0),
        "distinct_nontrivial": len(nontrivial) + sum(v for k, v in stats.items() if k.startswith("pred_true:")),
        "rule": "function level: boundary-biased 64-bit tuples, non-trivial = accepted by the predicate; runtime: mutated inputs on which a module parser still "
                "defines > 520 fields (459 are constants defined on any input), i.e. the mutation went through the parser rather than being rejected at the magic",
        "samples": [fcases[len(sds) + 5] if len(fcases) > len(sds) + 5 else None, fcases[-50] if len(fcases) > 50 else None, pcases[1] if len(pcases) > 1 else None],
        "translator_status": status["status"], "bounds_call_sites": status["call_sites"],
        "function_level": {k: v for k, v in sorted(stats.items()) if k.startswith(("pred", "rva", "unsound"))},
        "runtime": {"cases": len(fcases) if do_fuzz else 0, "seeds": len(sds), "by_format": dict(fmt_hist), "by_mutation": dict(hist),
                    "scan_results": {k: v for k, v in stats.items() if k.startswith("scan_rc")},
                    "reports": {k: v for k, v in stats.items() if k.startswith("report:")}, "elf_wrap_regression": stats.get("elf_wrap_regression")},
        "traces_validated_against_impl": sum(v for k, v in stats.items() if k.startswith("pred:") or k == "rva"),
    })
    chk.assumptions += ["allocation validity: base + size < 2^64 (and + 8 for the Mach-O command header test)",
                        "64-bit little-endian target: size_t, pointers and uint64_t are 64 bit; narrower unsigned operands are zero-extended",
                        "function-level comparison is strict only on tuples whose C evaluation performs no out-of-range pointer arithmetic (UB)",
                        "parsers' memory safety, leak freedom and termination are sampled (sanitizers, fork per case, timeout), not proved",
                        "arena relocation test is examined for used >= 8 only (smaller buffers are C17's finding F9)"]
    return chk.finish("proof")
