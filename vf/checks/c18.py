"""C18 — command-line results are independent of thread count and rule form.

Three layers (DESIGN.md §5 C18, D11, T10):
  1. proof    : Thm/C18.lean (queue protocol over all interleavings; output-mutex discipline), constants from T10
  2. queue tie: harness/h_queue.c drives the real file_queue_put/get/finish from stress threads (TSan and ASan
                builds), records the global order of atomic actions; Driver/Queue.lean replays the history in the
                model: must be a model run, end final, deliver every path exactly once
  3. binaries : the real yara / yarac built from the working tree on generated trees and rule files:
                -p N directory / scan-list runs vs the union of per-file single-threaded invocations (multiset of
                output blocks, every line intact), compiled (-C) vs source rules with integer / string / boolean / float externals at either stage,
                exit status non-zero iff an error was reported."""
import os, re, json, shutil, stat, subprocess, random, hashlib, time
from collections import Counter
from concurrent.futures import ThreadPoolExecutor
from vf import core

PID = "C18"
THM = ["YaraModel.Thm.C18"]
MANIFEST = dict(
    technique="Lean 4 invariant proof over all interleavings of a small-step model of the CLI work queue (+ model of the output-mutex discipline), "
              "history-refinement tie against the real queue functions under TSan/ASan, differential runs of the real yara/yarac binaries",
    text="proof (queue protocol) + sampled (binaries): Thm/C18.lean proves for every interleaving of one producer and n consumers (all n with 1<=n<=thread limit, "
         "all capacities>=1, all inputs) that no path is lost or duplicated, head/tail/size stay in bounds, the semaphore/size equations hold, the mutex is exclusive, "
         "no reachable non-final state is stuck, and every step decreases a measure (termination, no fairness needed); and that output printed under the output mutex "
         "is contiguous per block. The constants (array length, moduli, semaphore initial values, finish posts, thread limit) are re-read from cli/yara.c on every run. "
         "The model is tied to the code by replaying recorded histories of the real file_queue_put/get/finish (stress threads, TSan+ASan) in the model. "
         "Thread-count independence of the printed results, compiled-vs-source equivalence with externals at either stage and the exit-status rule are *sampled* on the "
         "real binaries (generated trees > 64 files, options -s -L -X -m -g -e -c -n -t -i -l -r and -f combined with -s/-L/-X, -p 1..32, repeated runs); partial: -l is only checked as "
         "sub-multiset + lower bound (its directory semantics is a global counter), scan deadlines/timeouts and sem_timedwait interruption are outside the model.",
    design_ref="DESIGN.md §4 D11, §5 C18, Appendix A.6, translator T10",
    note=core.TB + "The CLI comparison trusts single-file single-threaded invocations of the same binary as the reference for what a file's output is.")

DATA = os.path.join(core.REPO, "tests", "data")
BIN_SAMPLES = ["tiny", "mtxex.dll", "elf_with_imports", "0ca09bde7602769120fadc4f7a4147347a7a97271370583586c9e587fd396171",
               "tiny-idata-5200", "xor.out", "base64", "weird_rich", "tiny.notes", "6c2abf4b80a87e63eee2996e5cea8f004d49ec0c1806080fa72e960529cba14c"]
WORDS = ["alpha", "bravo", "charlie", "delta", "echo", "foxtrot", "golf", "hotel", "india", "juliet"]
WORK = "w%d" % os.getpid()      # per-process work area: concurrent runs of this check must not share trees / rule files
RUN_TIMEOUT = 120          # a normal run takes well under 2 s; only a deadlocked binary gets here
HANG = {"n": 0}           # after the first hang the remaining runs get a short leash, after 3 the thread scenarios stop


# ---------------------------------------------------------------------------------------------- trees

def build_tree(seed, quick=True):
    """Deterministic directory tree for `seed` under out/C18/trees/t<seed>. Returns its path."""
    root = os.path.join(core.OUT, PID, WORK, "trees", "t%d" % seed)
    if os.path.exists(root):
        shutil.rmtree(root)
    os.makedirs(root)
    r = random.Random("tree/%d" % seed)
    dirs = [root]
    for d in range(r.randint(3, 6)):
        parent = r.choice(dirs)
        # directory names beginning with one or two dots are ordinary directories for the walk (only "." and ".." are skipped)
        p = os.path.join(parent, r.choice(["d%d", "d%d", ".d%d", "..d%d"]) % d)
        os.makedirs(p)
        dirs.append(p)
    ntop = r.randint(66, 90)            # more top-level files than queue slots, also without -r
    nnest = r.randint(20, 60)
    bins = [b for b in BIN_SAMPLES if os.path.exists(os.path.join(DATA, b))]

    def make(path, kind):
        if kind == "empty":
            open(path, "wb").close()
        elif kind == "bin" and bins:
            shutil.copyfile(os.path.join(DATA, r.choice(bins)), path)
        elif kind == "xor":
            key = r.randint(1, 255)
            data = " ".join(r.choice(WORDS) for _ in range(r.randint(3, 40))).encode()
            open(path, "wb").write(bytes(c ^ key for c in data) + b"\n" + " ".join(r.choice(WORDS) for _ in range(5)).encode())
        elif kind == "wide":
            data = " ".join(r.choice(WORDS) for _ in range(r.randint(3, 40)))
            open(path, "wb").write(data.encode("utf-16-le"))
        else:
            n = r.choice([1, 3, 10, 40, 200, 2000] if quick else [1, 3, 10, 40, 200, 2000, 20000])
            words = [r.choice(WORDS + ["zulu", "x", "lorem", "ALPHA", "Bravo"]) for _ in range(r.randint(0, n))]
            open(path, "w").write((" " if r.random() < .7 else "\n").join(words) + ("\n" if r.random() < .5 else ""))

    kinds = ["text"] * 10 + ["empty"] * 2 + ["bin"] * 4 + ["xor"] * 2 + ["wide"]
    for i in range(ntop):
        make(os.path.join(root, "f%03d.%s" % (i, r.choice(["txt", "bin", "dat"]))), r.choice(kinds))
    for i in range(nnest):
        make(os.path.join(r.choice(dirs[1:]), "n%03d" % i), r.choice(kinds))
    make(os.path.join(root, "name with space.txt"), "text")
    make(os.path.join(root, ".dotfile"), "text")
    os.makedirs(os.path.join(root, ".cache", "objects"))
    make(os.path.join(root, ".cache", "objects", "o1"), "text")
    make(os.path.join(root, ".cache", "c1.txt"), "text")
    os.symlink([f for f in sorted(os.listdir(root)) if f.startswith("f000.")][0], os.path.join(root, "link_to_f000"))
    os.symlink("does-not-exist", os.path.join(root, "dangling"))
    return root


def walk_like_scan_dir(d, recursive):
    """The files scan_dir() of cli/yara.c enqueues for directory d (POSIX branch, default follow_symlinks)."""
    out = []
    for name in os.listdir(d):
        full = d + "/" + name
        try:
            lst = os.lstat(full)
        except OSError:
            continue
        if stat.S_ISLNK(lst.st_mode) and os.readlink(full) in (".", ".."):
            continue
        try:
            st = os.stat(full)
        except OSError:
            continue
        if stat.S_ISREG(st.st_mode):
            out.append(full)
        elif recursive and stat.S_ISDIR(st.st_mode) and name not in (".", ".."):
            out += walk_like_scan_dir(full, recursive)
    return out


# ---------------------------------------------------------------------------------------------- rules

def gen_rules(r, tag, console=False, reuse=False, externals=False):
    """One rule file (text). Returns (text, info) with info = dict(names, tags, f2, f6)."""
    names, alltags, lines = [], set(), []
    imports = set()
    f2, f6 = [], []
    nr = r.randint(3, 7)
    for k in range(nr):
        name = "r%s_%d" % (tag, k)
        names.append(name)
        tags = r.sample(["t1", "t2", "exe", "txt"], r.randint(0, 2))
        alltags.update(tags)
        metas = []
        for m in range(r.randint(0, 3)):
            metas.append(r.choice(['m%d = "va\\"l\\\\ue\\t%d"' % (m, m), "m%d = %d" % (m, r.randint(-5, 500)), "m%d = %s" % (m, r.choice(["true", "false"]))]))
        strs, ids = [], []
        for j in range(r.randint(1, 4)):
            sid = "$s%d" % j
            ids.append(sid)
            u = r.random()
            if u < .55:
                mods = r.choice(["", "", " nocase", " wide ascii", " xor", " fullword", " ascii wide nocase", " xor(1-255)"])
                strs.append('%s = "%s"%s' % (sid, r.choice(WORDS), mods))
            elif u < .75:
                strs.append("%s = %s" % (sid, r.choice(["{ 4D 5A }", "{ 7F 45 4C 46 }", "{ 61 6C ?? 68 61 }", "{ 62 72 [1-3] 6F }"])))
            else:
                strs.append("%s = %s" % (sid, r.choice(["/br[a-z]vo/", "/ech?o/", "/(golf|hotel) [a-j]/", "/de[l-t]{2}a/ nocase"])))
        c = r.choice(["any of them", "any of them", "all of them", ids[0], "#s0 > 2", "%s at 0" % ids[0], "any of them and filesize < 300",
                      "filesize == 0", "true", "not %s" % ids[0], "any of them or filesize > 100000", "@s0[1] > 5", "2 of them",
                      "pe.is_pe", "elf.type == elf.ET_EXEC or elf.type == elf.ET_DYN", "pe.is_pe and any of them",
                      "for any i in (1..#s0) : (@s0[i] > 10)"])
        if "pe." in c:
            imports.add("pe")
        if "elf." in c:
            imports.add("elf")
        if c in ("filesize == 0", "true", "pe.is_pe", "elf.type == elf.ET_EXEC or elf.type == elf.ET_DYN"):
            strs = []
        if "2 of them" == c and len(strs) < 2:
            c = "any of them"
        if strs and not re.search(r"them|\$s|#s|@s", c):
            strs = []
        unref = [i for i, s in enumerate(strs) if "them" not in c and ("s%d" % i) not in c]
        strs = [s for i, s in enumerate(strs) if i not in unref]
        if console:
            c = 'console.log("@@LOG%s%da@@") and (%s) and console.log("@@LOG%s%db@@")' % (tag, k, c, tag, k)
            imports.add("console")
        hdr = "%srule %s%s" % ("private " if (not console and r.random() < .06 and k > 0) else "", name, (" : " + " ".join(tags)) if tags else "")
        body = ""
        if metas:
            body += " meta: " + " ".join(metas)
        if strs:
            body += " strings: " + " ".join(strs)
        lines.append("%s {%s condition: %s }" % (hdr, body, c))
    if reuse:
        lines.append("rule r%s_ep { condition: entrypoint >= 0 }" % tag)
        names.append("r%s_ep" % tag)
        f6.append("r%s_ep" % tag)
    if externals:
        lines.append('rule r%s_xi { condition: ext_i == 2 or ext_i > 100 }' % tag)
        lines.append('rule r%s_xd { condition: ext_i == 10 or ext_i == 100 or ext_i == 7 }' % tag)     # decimal reading of 010 / 0100 / 007
        lines.append('rule r%s_xw { condition: ext_i > 4294967296 or ext_i < -4294967296 }' % tag)     # values beyond 32 bits keep all their bits
        lines.append('rule r%s_xs { condition: ext_s contains "ab" }' % tag)
        lines.append('rule r%s_xfh { condition: ext_f > 1.25 }' % tag)
        lines.append('rule r%s_xfl { condition: ext_f < 0.75 and ext_f >= 0.0 }' % tag)
        lines.append('rule r%s_xfn { condition: ext_f < 0.0 }' % tag)
        lines.append('rule r%s_xb { strings: $a = "alpha" condition: ext_b and $a }' % tag)
        lines.append('rule r%s_xf { condition: filesize > ext_i * 10 }' % tag)
        lines.append('rule r%s_f2at { strings: $a = "alpha" $b = "bravo" condition: $a at ext_i or $b at ext_i }' % tag)
        lines.append('rule r%s_f2in { strings: $a = "alpha" condition: $a in (0..ext_i) }' % tag)
        lines.append('rule r%s_f2of { strings: $a = "alpha" $b = "bravo" $c = "charlie" condition: ext_i of them }' % tag)
        names += ["r%s_%s" % (tag, x) for x in ("xi", "xd", "xs", "xfh", "xfl", "xfn", "xb", "xf", "f2at", "f2in", "f2of")]
        f2 += ["r%s_%s" % (tag, x) for x in ("f2at", "f2in", "f2of")]
    text = "".join('import "%s"\n' % m for m in sorted(imports)) + "\n".join(lines) + "\n"
    return text, dict(names=names, tags=sorted(alltags), f2=f2, f6=f6)


# ---------------------------------------------------------------------------------------------- running

def run_cmd(argv, timeout=None, env=None):
    timeout = timeout or (RUN_TIMEOUT if HANG["n"] == 0 else 10)
    e = dict(os.environ)
    e["ASAN_OPTIONS"] = "detect_leaks=1:abort_on_error=0:exitcode=99"
    e["UBSAN_OPTIONS"] = "print_stacktrace=1:halt_on_error=1"
    if env:
        e.update(env)
    try:
        p = subprocess.run(argv, stdout=subprocess.PIPE, stderr=subprocess.PIPE, timeout=timeout, env=e, stdin=subprocess.DEVNULL)
        return dict(rc=p.returncode, out=p.stdout.decode("latin-1"), err=p.stderr.decode("latin-1"), hang=False)
    except subprocess.TimeoutExpired as ex:
        HANG["n"] += 1
        return dict(rc=None, out=(ex.stdout or b"").decode("latin-1"), err=(ex.stderr or b"").decode("latin-1"), hang=True)


def blocks_of(text):
    """Split stdout into blocks: a line not starting with 0x opens a block, following 0x… lines belong to it."""
    blocks, cur = [], None
    lines = text.split("\n")
    if lines and lines[-1] == "":
        lines.pop()
    else:
        lines.append("<<NO-FINAL-NEWLINE>>")
    for l in lines:
        if l.startswith("0x") and cur is not None:
            cur.append(l)
        else:
            if cur is not None:
                blocks.append("\n".join(cur))
            cur = [l]
    if cur is not None:
        blocks.append("\n".join(cur))
    return blocks


def err_lines(text):
    return [l for l in text.split("\n") if l != ""]


def is_error_line(l):
    """stderr lines that are not errors: compiler/scan warnings and the skip notice."""
    return not (l.startswith("warning:") or re.match(r"^.*\(\d+\): warning: ", l) or l.startswith("skipping "))


def reported_error(err):
    return any(is_error_line(l) for l in err_lines(err))


LINE_GRAMMAR = [
    re.compile(r"^0x[0-9a-f]+:(\d+:)?\$\w*(:xor\(0x[0-9a-f]{2},.*\))?(: .*)?$"),     # string match line
    re.compile(r"^(\S+:)?r\w+ (\[[\w,]*\] )?(\[.*\] )?/.*$"),                                  # rule line (our rule names start with r)
    re.compile(r"^/.*: \d+$"),                                                              # -c line
    re.compile(r"^@@LOG\w+@@$"),                                                              # console.log line
]


def line_ok(l):
    return any(g.match(l) for g in LINE_GRAMMAR)


def rule_of_block(b):
    first = b.split("\n", 1)[0]
    tok = first.split(" ", 1)[0]
    return tok.split(":")[-1]


class Cli:
    """Differential runs of the real binaries."""

    def __init__(self, chk, b, basan, tier):
        self.chk, self.b, self.basan, self.tier = chk, b, basan, tier
        self.pool = ThreadPoolExecutor(12)
        self.nviol = 0
        self.stats = Counter()
        self.hist_p = Counter()
        self.hist_opts = Counter()
        self.samples = []
        self.nontrivial = set()
        self.kf = {f["id"]: f for f in core.known_findings(PID)}
        self.known_seen = Counter()
        self.cache = {}

    # ---- reference: per-file single-threaded invocations
    def reference(self, rule_args, opts, files, flavour="plain"):
        key = (tuple(rule_args), tuple(opts), tuple(files), flavour)
        if key in self.cache:
            return self.cache[key]
        y = (self.b if flavour == "plain" else self.basan)["yara"]
        rs = list(self.pool.map(lambda f: run_cmd([y] + opts + rule_args + [f]), files))
        self.stats["reference_invocations"] += len(files)
        self.cache[key] = rs
        return rs

    def violation(self, name, sc, detail):
        self.nviol += 1
        if self.nviol <= 20:
            self.chk.violation("cli_%s_%d.json" % (name, self.nviol), {"kind": "cli-" + name, "scenario": sc, "detail": detail,
                                                                        "replay_hint": "./check C18 --replay <this file> re-runs the scenario (new schedules)"})

    def known(self, fid, what):
        """Downgrade to a KNOWN-FINDING only if known_findings.json lists `fid` for C18; returns False otherwise (caller reports a violation)."""
        if fid not in self.kf:
            return False
        self.known_seen[fid] += 1
        if self.known_seen[fid] == 1:
            self.chk.known(fid, "%s: %s" % (fid, what))
        return True

    # ---- one "threads" scenario: -p N runs of a directory / scan list vs the per-file union
    def threads_scenario(self, sc):
        if HANG["n"] >= 3 and self.nviol > 0:
            self.stats["scenarios_skipped_after_hangs"] += 1
            return
        tree = build_tree_cached(sc["tree"], self.tier == "quick")
        rdir = os.path.join(core.OUT, PID, WORK, "rules")
        os.makedirs(rdir, exist_ok=True)
        rule_args = []
        for i, rf in enumerate(sc["rules"]):
            p = os.path.join(rdir, "s%s_%d.yar" % (sc["id"], i))
            open(p, "w").write(rf["text"])
            rule_args.append(("%s:" % rf["ns"] if rf.get("ns") else "") + p)
        opts = list(sc["opts"])
        recursive = "-r" in opts
        files = walk_like_scan_dir(tree, recursive)
        flavour = sc.get("flavour", "plain")
        y = (self.b if flavour == "plain" else self.basan)["yara"]
        ref_opts = [o for o in opts if o != "-r"]
        limit = None
        if "-l" in ref_opts:
            i = ref_opts.index("-l")
            limit = int(ref_opts[i + 1])
            ref_opts = ref_opts[:i] + ref_opts[i + 2:]      # reference without the limit: the dir-mode counter is global
        refs = self.reference(rule_args, ref_opts, files, flavour)
        count_mode = "-c" in opts
        exp_blocks, exp_err_each = Counter(), []
        for f, r_ in zip(files, refs):
            if r_["hang"]:
                self.violation("hang", sc, {"what": "single-file invocation did not terminate", "file": f})
                return
            if count_mode:
                exp_blocks["%s: %s" % (f, r_["out"].strip())] += 1
            else:
                exp_blocks.update(blocks_of(r_["out"]))
            exp_err_each.append(Counter(err_lines(r_["err"])))
        common = None
        for c in exp_err_each:
            common = c if common is None else (common & c)
        common = common or Counter()
        exp_err = Counter(common)
        for c in exp_err_each:
            exp_err.update(c - common)
        any_ref_error = any(r_["rc"] != 0 for r_ in refs)
        # single-file exit status rule
        for f, r_ in zip(files, refs):
            if (r_["rc"] != 0) != reported_error(r_["err"]):
                self.violation("exit", sc, {"what": "single-file run: exit status vs reported error", "file": f, "rc": r_["rc"], "stderr": r_["err"][-500:]})
        if sc["mode"] == "list":
            lst = os.path.join(rdir, "s%s.list" % sc["id"])
            lr = random.Random(sc["id"])
            order = files[:]
            lr.shuffle(order)
            # the last line of a list need not end with a newline
            open(lst, "w").write("\n".join(order) + ("\n" if sc.get("list_nl", True) else ""))
            target = ["--scan-list", lst]
            opts = [o for o in opts if o != "-r"]
        else:
            target = [tree]
        runs = []
        for p in sc["p"]:
            for rep in range(sc["reps"]):
                runs.append(p)
        argvs = [[y] + opts + (["-p", str(p)] if p else []) + rule_args + target for p in runs]
        if sc.get("nofile"):
            # the directory / list run under a lowered descriptor limit (the per-file reference runs do not need it)
            argvs = [["sh", "-c", 'ulimit -n %d || exit 97; exec "$@"' % sc["nofile"], "sh"] + a for a in argvs]
        results = list(self.pool.map(run_cmd, argvs))
        self.stats["dir_runs"] += len(results)
        for o in opts:
            if o.startswith("-"):
                self.hist_opts[o] += len(results)
        log_tokens = sc.get("log_tokens")
        for p, argv, res in zip(runs, argvs, results):
            self.hist_p[p or 32] += 1
            d = {"argv": argv, "p": p}
            if res["hang"]:
                self.violation("hang", sc, dict(d, what="directory scan did not terminate (deadlock?); killed after the timeout",
                                                stdout_tail=res["out"][-300:], stderr_tail=res["err"][-300:]))
                continue
            if res["rc"] not in (0, 1):
                self.violation("crash", sc, dict(d, what="abnormal exit / sanitizer report", rc=res["rc"], stderr_tail=res["err"][-2500:]))
                continue
            out = res["out"]
            act_blocks = Counter({("%s" % b): n for b, n in Counter(blocks_of(out)).items()}) if not count_mode else Counter(err_lines(out))
            missing, extra = exp_blocks - act_blocks, act_blocks - exp_blocks
            ok = True
            if limit is not None:
                # partial: every printed block is a genuine block; at least min(limit, total) matching rules reported
                nmatch = sum(act_blocks.values())
                if extra or nmatch < min(limit, sum(exp_blocks.values())):
                    ok = False
            elif missing or extra:
                ok = False
            if not ok and log_tokens and self.console_only(out, exp_blocks, log_tokens):
                ok = self.known("F24", "console.log output is printed outside output_mutex: a log line was inserted inside another thread's output block "
                                       "(-p %s, %d files) [cli/yara.c callback CALLBACK_MSG_CONSOLE_LOG]" % (p or "default", len(files)))
            if not ok and sc.get("f6") and all(rule_of_block(b) in sc["f6"] for b in list(missing) + list(extra)):
                ok = self.known("F6", "rule using `entrypoint` gives a different result on a reused per-thread scanner than in a fresh single-file scan "
                                      "(%d differing blocks, -p %s) [libyara scanner entry_point not reset; C10 F6]" % (sum(missing.values()) + sum(extra.values()), p or "default"))
            if not ok:
                torn = [l for b in extra for l in b.split("\n") if not line_ok(l)]
                self.violation("output", sc, dict(d, what="stdout differs from the union of per-file single-threaded runs",
                                                  files=len(files), missing=list(missing.elements())[:8], extra=list(extra.elements())[:8],
                                                  torn_lines=torn[:8], n_missing=sum(missing.values()), n_extra=sum(extra.values())))
            # stderr: same set of (intact) lines as the per-file runs (multiplicities of file-independent lines legitimately differ)
            act_err = set(err_lines(res["err"]))
            if act_err != set(exp_err) and limit is None:
                self.violation("stderr", sc, dict(d, what="stderr lines differ from the per-file runs", missing=sorted(set(exp_err) - act_err)[:6],
                                                  extra=sorted(act_err - set(exp_err))[:6]))
            # exit status rule
            rep = reported_error(res["err"])
            if (res["rc"] != 0) != rep:
                if rep and res["rc"] == 0 and all(l.startswith("error scanning ") or not is_error_line(l) for l in err_lines(res["err"])) and \
                        self.known("F12", "directory / scan-list mode exits 0 although scan errors were printed (%d `error scanning` lines) [cli/yara.c main: "
                                          "scanning_thread results and scan_dir result are dropped]" % sum(1 for l in err_lines(res["err"]) if l.startswith("error scanning "))):
                    pass
                else:
                    self.violation("exit", sc, dict(d, what="exit status non-zero iff an error was reported", rc=res["rc"], stderr_tail=res["err"][-800:]))
            if len(files) > 64 and (p or 32) >= 2 and sum(exp_blocks.values()) >= 20:
                self.nontrivial.add((sc["id"], p, tuple(opts)))
            if len(self.samples) < 3 and sum(exp_blocks.values()) >= 20:
                self.samples.append({"argv": argv, "files": len(files), "expected_blocks": sum(exp_blocks.values()), "stdout_head": out[:400], "rc": res["rc"]})

    @staticmethod
    def console_only(out, exp_blocks, log_tokens):
        """True iff removing the console.log lines (wherever they were inserted) from the raw stdout leaves exactly the expected
        non-log blocks, and the log lines are exactly the expected ones."""
        exp_logs = Counter({b: n for b, n in exp_blocks.items() if b in log_tokens})
        exp_rest = Counter({b: n for b, n in exp_blocks.items() if b not in log_tokens})
        act_logs = Counter()
        for t in log_tokens:
            k = out.count(t + "\n")
            if k:
                act_logs[t] = k
                out = out.replace(t + "\n", "")
        return act_logs == exp_logs and Counter(blocks_of(out)) == exp_rest

    # ---- compiled vs source
    def compiled_scenario(self, sc):
        tree = build_tree_cached(sc["tree"], self.tier == "quick")
        rdir = os.path.join(core.OUT, PID, WORK, "rules")
        os.makedirs(rdir, exist_ok=True)
        src = os.path.join(rdir, "c%s.yar" % sc["id"])
        binp = os.path.join(rdir, "c%s.yarc" % sc["id"])
        open(src, "w").write(sc["rules"][0]["text"])
        dc = [a for k, v in sc["compile_ext"] for a in ("-d", "%s=%s" % (k, v))]
        ds = [a for k, v in sc["scan_ext"] for a in ("-d", "%s=%s" % (k, v))]
        eff = dict(sc["compile_ext"])
        eff.update(dict(sc["scan_ext"]))
        dref = [a for k, v in eff.items() for a in ("-d", "%s=%s" % (k, v))]
        if os.path.exists(binp):
            os.remove(binp)
        rc = run_cmd([self.b["yarac"]] + dc + [src, binp])
        self.stats["yarac_runs"] += 1
        if rc["hang"] or rc["rc"] != 0 or reported_error(rc["err"]):
            self.violation("yarac", sc, {"what": "yarac failed on a valid rule file", "rc": rc["rc"], "stderr": rc["err"][-800:]})
            return
        opts = list(sc["opts"])
        targets = [tree] + sc.get("single_files", [])
        for tgt in targets:
            isdir = os.path.isdir(tgt)
            extra_o = (["-p", str(sc["p"][0])] if isdir else [])
            o = opts if isdir else [x for x in opts if x != "-r"]
            a = run_cmd([self.b["yara"]] + o + extra_o + ["-C"] + ds + [binp, tgt])
            b_ = run_cmd([self.b["yara"]] + o + extra_o + dref + [src, tgt])
            self.stats["compiled_vs_source_pairs"] += 1
            d = {"target": tgt, "compiled_argv": ["yara"] + o + extra_o + ["-C"] + ds + [binp, tgt], "source_argv": ["yara"] + o + extra_o + dref + [src, tgt]}
            if a["hang"] or b_["hang"]:
                self.violation("hang", sc, dict(d, what="run did not terminate"))
                continue
            ba, bb = Counter(blocks_of(a["out"])), Counter(blocks_of(b_["out"]))
            if "-c" in o:
                ba, bb = Counter(err_lines(a["out"])), Counter(err_lines(b_["out"]))
            diff = list((ba - bb).elements()) + list((bb - ba).elements())
            if diff:
                changed = [k for k, v in sc["scan_ext"] if dict(sc["compile_ext"]).get(k) != v]
                if changed and all(rule_of_block(x) in sc["f2"] for x in diff) and \
                        self.known("F2", "with -C compiled rules an integer external used after `at` / in a range / as `of` quantifier keeps its compile-time value "
                                         "(yarac -d ext_i=%s, yara -C -d ext_i=%s; %d differing blocks) [grammar.y constant folding of external identifiers; C12 F2]"
                                   % (dict(sc["compile_ext"]).get("ext_i"), dict(sc["scan_ext"]).get("ext_i"), len(diff))):
                    pass
                else:
                    self.violation("compiled", sc, dict(d, what="yara -C <compiled> differs from yara <source> with the same effective externals",
                                                        only_compiled=list((ba - bb).elements())[:8], only_source=list((bb - ba).elements())[:8]))
            if a["rc"] != b_["rc"]:
                self.violation("compiled", sc, dict(d, what="exit status differs between compiled and source rules", rc_compiled=a["rc"], rc_source=b_["rc"],
                                                    stderr_compiled=a["err"][-400:], stderr_source=b_["err"][-400:]))
            for which, r_ in (("compiled", a), ("source", b_)):
                if (r_["rc"] != 0) != reported_error(r_["err"]):
                    self.violation("exit", sc, dict(d, what="exit status vs reported error (%s rules)" % which, rc=r_["rc"], stderr_tail=r_["err"][-500:]))
            if sum(bb.values()) >= 10:
                self.nontrivial.add((sc["id"], tgt))

    # ---- exit status scenarios
    def exit_scenarios(self, sc):
        tree = build_tree_cached(sc["tree"], self.tier == "quick")
        rdir = os.path.join(core.OUT, PID, WORK, "rules")
        os.makedirs(rdir, exist_ok=True)
        good = os.path.join(rdir, "e%s_good.yar" % sc["id"])
        bad = os.path.join(rdir, "e%s_bad.yar" % sc["id"])
        deep = os.path.join(rdir, "e%s_deep.yar" % sc["id"])
        two = os.path.join(rdir, "e%s_two.yar" % sc["id"])
        open(good, "w").write('rule rgood { strings: $a = "alpha" condition: $a }\n')
        open(bad, "w").write('rule rbad { strings: $a = "alpha" condition: $a and }\n')
        open(deep, "w").write("rule rdeep { condition: 1 + (2 + (3 + (4 + (5 + (6 + filesize))))) > 0 }\n")
        open(two, "w").write('rule rtwo { strings: $a = "alpha" $b = "bravo" condition: any of them }\n')
        comp = os.path.join(rdir, "e%s_good.yarc" % sc["id"])
        run_cmd([self.b["yarac"], good, comp])
        files = walk_like_scan_dir(tree, False)
        f0 = files[0]
        small = os.path.join(core.OUT, PID, WORK, "trees", "small%s" % sc["id"])
        shutil.rmtree(small, ignore_errors=True)
        os.makedirs(small)
        for i in range(5):
            open(os.path.join(small, "s%d.txt" % i), "w").write("alpha bravo %d\n" % i)
        lst_missing = os.path.join(rdir, "e%s_missing.list" % sc["id"])
        open(lst_missing, "w").write(f0 + "\n" + tree + "/no-such-file\n")
        lst_missing_first = os.path.join(rdir, "e%s_missing_first.list" % sc["id"])
        open(lst_missing_first, "w").write(tree + "/no-such-file\n" + "".join(f + "\n" for f in files[:12]))
        lst_missing_mid = os.path.join(rdir, "e%s_missing_mid.list" % sc["id"])
        open(lst_missing_mid, "w").write("".join(f + "\n" for f in files[:5]) + tree + "/no-such-file\n" + "".join(f + "\n" for f in files[5:14]))
        lst_ok = os.path.join(rdir, "e%s_ok.list" % sc["id"])
        open(lst_ok, "w").write("".join(f + "\n" for f in files[:10]))
        y, yc = self.b["yara"], self.b["yarac"]
        # (name, argv, error expected?, F12 candidate?)
        table = [
            ("file-ok", [y, good, f0], False, False),
            ("dir-ok", [y, "-p", "4", good, tree], False, False),
            ("dir-ok-recursive", [y, "-r", good, tree], False, False),
            ("list-ok", [y, "--scan-list", good, lst_ok], False, False),
            ("file-missing", [y, good, tree + "/no-such-file"], True, False),
            ("rules-missing", [y, rdir + "/no-such-rules.yar", f0], True, False),
            ("rules-syntax-error-file", [y, bad, f0], True, False),
            ("rules-syntax-error-dir", [y, bad, tree], True, False),
            ("max-strings-per-rule", [y, "--max-strings-per-rule=1", two, f0], True, False),
            ("max-strings-per-rule-dir", [y, "--max-strings-per-rule=1", two, small], True, False),
            ("too-many-threads", [y, "-p", "33", good, tree], True, False),
            ("compiled-as-source", [y, comp, f0], True, False),
            ("source-as-compiled", [y, "-C", good, f0], True, False),
            ("compiled-ok", [y, "-C", comp, f0], False, False),
            ("compiled-ok-dir", [y, "-C", "-p", "3", comp, tree], False, False),
            ("two-compiled", [y, "-C", comp, comp, f0], True, False),
            ("scan-error-file", [y, "-k", "2", deep, f0], True, False),
            ("scan-error-dir", [y, "-k", "2", "-p", "4", deep, small], True, True),
            ("scan-error-dir-p1", [y, "-k", "2", "-p", "1", deep, small], True, True),
            ("list-with-missing-file", [y, "--scan-list", good, lst_missing], True, True),
            ("list-missing-file-first-p1", [y, "-p", "1", "--scan-list", good, lst_missing_first], True, True),
            ("list-missing-file-first-p4", [y, "-p", "4", "--scan-list", good, lst_missing_first], True, True),
            ("list-missing-file-mid-p1", [y, "-p", "1", "--scan-list", good, lst_missing_mid], True, True),
            ("list-missing-file-mid-p32", [y, "-p", "32", "--scan-list", good, lst_missing_mid], True, True),
            ("list-missing", [y, "--scan-list", good, rdir + "/no-such.list"], True, False),
            ("list-is-dir", [y, "--scan-list", good, tree], True, False),
            ("bad-external", [y, "-d", "x", good, f0], True, "F25"),
            ("yarac-bad-external", [yc, "-d", "x", good, comp + ".6"], True, "F25"),
            ("dup-external", [y, "-d", "a=1", "-d", "a=2", good, f0], True, False),
            ("yarac-dup-external", [yc, "-d", "a=1", "-d", "a=2", good, comp + ".7"], True, "F26"),
            ("compiled-unknown-external", [y, "-C", "-d", "zz=1", comp, f0], True, False),
            ("wrong-arg-count", [y, good], True, False),
            ("yarac-ok", [yc, good, comp + ".2"], False, False),
            ("yarac-syntax-error", [yc, bad, comp + ".3"], True, False),
            ("yarac-missing-rules", [yc, rdir + "/no-such-rules.yar", comp + ".4"], True, False),
            ("yarac-max-strings", [yc, "--max-strings-per-rule=1", two, comp + ".5"], True, False),
        ]
        rs = list(self.pool.map(lambda t: run_cmd(t[1]), table))
        for (name, argv, experr, f12), res in zip(table, rs):
            self.stats["exit_status_runs"] += 1
            d = {"name": name, "argv": argv, "rc": res["rc"], "stderr_tail": res["err"][-600:]}
            if res["hang"]:
                self.violation("hang", sc, dict(d, what="did not terminate"))
                continue
            rep = reported_error(res["err"])
            if (res["rc"] != 0) != rep:
                el = err_lines(res["err"])
                if f12 is True and rep and res["rc"] == 0 and \
                        self.known("F12", "directory / scan-list mode exits 0 although scan errors were printed (scenario %s: `%s`) [cli/yara.c main: scanning_thread "
                                          "results and the result of scan_dir are dropped]" % (name, el[0][:80])):
                    pass
                elif f12 == "F25" and rep and res["rc"] == 0 and el == ["error: wrong syntax for `-d` option."] and \
                        self.known("F25", "a malformed -d option is reported (`error: wrong syntax for `-d` option.`) but the run continues and exits 0 (scenario %s) "
                                          "[cli/common.c define_external_variables returns ERROR_SUCCESS]" % name):
                    pass
                elif f12 == "F26" and not el and res["rc"] == 1 and \
                        self.known("F26", "yarac exits 1 without printing anything when an external variable definition fails (scenario %s) "
                                          "[cli/yarac.c main: result of define_external_variables not reported]" % name):
                    pass
                else:
                    self.violation("exit", sc, dict(d, what="exit status must be non-zero exactly when an error was reported (scenario %s)" % name))
            elif rep != experr:
                self.violation("exit", sc, dict(d, what="scenario %s: expected error reported=%s, stderr says %s" % (name, experr, rep)))
            elif f12:
                self.stats["known_finding_scenarios_clean"] += 1
            self.nontrivial.add((sc["id"], name))
        # warnings: -w silences them (they are then neither printed nor counted), --fail-on-warnings turns a counted warning into
        # exit status 1; source rules and the same rules compiled by yarac must agree on what is printed
        warn = os.path.join(rdir, "e%s_warn.yar" % sc["id"])
        open(warn, "w").write('rule rwarn { strings: $a = "a" condition: $a }\nrule rslow { strings: $r = /al.*ha/ condition: $r }\n')
        wcomp = os.path.join(rdir, "e%s_warn.yarc" % sc["id"])
        run_cmd([yc, "-w", warn, wcomp])
        ref = run_cmd([y, "-C", wcomp, f0])
        wtable = [("warn-plain", [y, warn, f0], 0, True, True), ("warn-silenced", [y, "-w", warn, f0], 0, True, False),
                  ("warn-fail", [y, "--fail-on-warnings", warn, f0], 1, False, True),
                  ("warn-silenced-fail", [y, "-w", "--fail-on-warnings", warn, f0], 0, True, False),
                  ("warn-silenced-fail-dir", [y, "-w", "--fail-on-warnings", "-p", "3", warn, small], 0, None, False),
                  ("yarac-warn-fail", [yc, "--fail-on-warnings", warn, wcomp + ".2"], 1, None, True),
                  ("yarac-warn-silenced-fail", [yc, "-w", "--fail-on-warnings", warn, wcomp + ".3"], 0, None, False)]
        for (name, argv, exprc, same_out, expwarn), res in zip(wtable, self.pool.map(lambda t: run_cmd(t[1]), wtable)):
            self.stats["exit_status_runs"] += 1
            haswarn = "warning:" in res["err"]
            bad = res["hang"] or res["rc"] != exprc or haswarn != expwarn or reported_error(res["err"]) or \
                (same_out is True and sorted(res["out"].splitlines()) != sorted(ref["out"].splitlines())) or (same_out is False and res["out"].strip())
            if bad:
                self.violation("exit", sc, {"name": name, "argv": argv, "rc": res["rc"], "stderr_tail": res["err"][-400:], "stdout": res["out"][-300:],
                                            "what": "warnings scenario %s: expected exit status %d, warning printed=%s, output %s" %
                                                    (name, exprc, expwarn, "as of the compiled rules" if same_out else "empty" if same_out is False else "any")})
            self.nontrivial.add((sc["id"], name))


_TREES = {}


FIBER_RULES = ('rule re_hit { strings: $a = /token=(ab|a[b-d]|abc?)+x?/ condition: $a }\n'
               'rule re_two { strings: $a = /id=(x|xy|x[y-z])+;/ $b = "tail" condition: $a and $b }\n')
FD_RULES = ('rule marker { strings: $m = "MARKER" condition: $m }\n'
            'rule deep { condition: uint8(0) == 0x42 and (' + 'filesize + (' * 40 + 'filesize' + ')' * 40 + ') > 0 }\n')
FD_LIMIT = 96        # descriptor limit of the fd scenario; the tree has more failing files than that


def build_special_tree(kind):
    """Trees for per-scanner / per-process resources that are only visible when ONE invocation handles many files:
    'fibers' - several hundred small files that all make a non-fast regexp with alternatives match (a scanner's fiber pool is
               reused for every file a worker thread picks up);
    'fdleak' - more files whose scan FAILS (evaluation stack too small for rule `deep` with -k 16) than the lowered descriptor
               limit allows, next to ordinary files in the same and in other directories."""
    root = os.path.join(core.OUT, PID, WORK, "trees", "t_" + kind)
    if os.path.exists(root):
        shutil.rmtree(root)
    os.makedirs(root)
    r = random.Random("special/" + kind)
    if kind == "fibers":
        os.makedirs(root + "/sub")
        for i in range(440):
            d = root if i % 5 else root + "/sub"
            body = "hdr token=abcabx tail token=ababab more token=abcx %d id=xyxzx; id=xxy;\n" % i
            if i % 41 == 0:
                body = "nothing here %d\n" % i
            open("%s/f%03d.txt" % (d, i), "w").write(body * r.choice([1, 1, 2]))
    else:
        for d in ("a_bad", "b_good", "b_good/deeper", "c_mixed"):
            os.makedirs(root + "/" + d)
        for i in range(3 * FD_LIMIT):
            open("%s/a_bad/b%03d.dat" % (root, i), "w").write("Bad file %d MARKER\n" % i)
        for i in range(30):
            open("%s/b_good/g%02d.txt" % (root, i), "w").write("good file %d MARKER\n" % i)
            open("%s/b_good/deeper/h%02d.txt" % (root, i), "w").write("deeper good file %d MARKER MARKER\n" % i)
        for i in range(60):
            open("%s/c_mixed/m%02d.txt" % (root, i), "w").write(("Bad" if i % 2 else "ok") + " mixed %d MARKER\n" % i)
    return root


def build_tree_cached(seed, quick):
    if seed not in _TREES:
        _TREES[seed] = build_special_tree(seed) if isinstance(seed, str) else build_tree(seed, quick)
    return _TREES[seed]


# ---------------------------------------------------------------------------------------------- scenario generation

OPTION_SETS = [[], ["-s"], ["-s", "-L"], ["-s", "-X"], ["-L", "-X"], ["-s", "-L", "-X", "-m", "-g", "-e"], ["-m", "-g"], ["-e", "-g"], ["-c"], ["-n"],
               ["-n", "-g", "-e", "-m"], ["-c", "-n"], ["-s", "-m"], ["-X", "-e"],
               # fast matching mode changes which string matches are printed (presence-only strings: first occurrence only); every
               # worker's scanner must get it: compared, like everything else, with per-file single-threaded runs WITH the same options
               ["-f", "-s"], ["-f", "-L", "-X"], ["-f", "-s", "-L", "-g"]]


def fast_mode_rules(tag):
    """strings that occur many times in the generated text files, used in presence-only conditions (fast mode reports one match
    for them) next to strings whose count / offsets matter (reported in full in either mode)"""
    return ("rule r%s_fa { strings: $a = \"alpha\" condition: $a }\n"
            "rule r%s_fb { strings: $a = \"bravo\" $b = \"charlie\" $c = \"delta\" condition: any of them }\n"
            "rule r%s_fc { strings: $a = \"echo\" $b = \"golf\" condition: $a or $b }\n"
            "rule r%s_fd { strings: $a = \"hotel\" $b = \"india\" condition: $a and #b > 1 }\n"
            "rule r%s_fe { strings: $a = /ju[a-z]iet/ $b = { 61 6C 70 68 61 } condition: $a or $b at 0 }\n" % ((tag,) * 5))


def gen_scenarios(tier):
    r = core.rng("C18/cli")
    quick = tier == "quick"
    trees = [r.randint(1, 10 ** 6) for _ in range(2 if quick else 6)]
    scs = []
    sid = 0

    def pick_p():
        if quick:
            return sorted(set([1, 32, r.choice([2, 3, 4]), r.randint(5, 31)])) + ([0] if r.random() < .3 else [])
        return list(range(1, 33)) + [0]

    for ti, t in enumerate(trees):
        nsets = 7 if quick else len(OPTION_SETS) * 2
        osets = [OPTION_SETS[i % len(OPTION_SETS)] for i in r.sample(range(len(OPTION_SETS) * 2), nsets)]
        if ["-s"] not in osets:
            osets[0] = ["-s"]
        if not any("-c" in o for o in osets):      # the per-file counter of -c is per-thread state: always in the grid
            osets[2] = r.choice([["-c"], ["-c", "-n"]])
        for oi, base in enumerate(osets):
            sid += 1
            nfiles = r.choice([1, 1, 2])
            rules, infos = [], []
            for k in range(nfiles):
                text, info = gen_rules(r, "%d%s" % (sid, "ab"[k]))
                rules.append({"ns": (r.choice(["nsA", "nsB"]) + str(k)) if (nfiles > 1 or r.random() < .3) else None, "text": text})
                infos.append(info)
            opts = list(base)
            u = r.random()
            if u < .2 and infos[0]["tags"]:
                opts += ["-t", r.choice(infos[0]["tags"])]
            elif u < .4:
                opts += ["-i", r.choice(infos[0]["names"])]
                if r.random() < .5:
                    opts += ["-i", r.choice(infos[-1]["names"])]
            if r.random() < .6:
                opts.append("-r")
            if r.random() < .2:
                opts.append("-w")
            scs.append({"kind": "threads", "id": "%d" % sid, "tree": t, "rules": rules, "opts": opts, "p": pick_p(), "reps": 2 if quick else 3,
                        "mode": "list" if (oi == 1 or r.random() < .15) else "dir",
                        # last line of the list with / without a newline: the first tree's forced list scenario has none
                        "list_nl": (ti % 2 == 1) if oi == 1 else (r.random() < .5)})
        # fast matching mode with match printing: one forced scenario per tree (directory and scan list alternate)
        sid += 1
        text, info = gen_rules(r, "%df" % sid)
        scs.append({"kind": "threads", "id": "%d" % sid, "tree": t, "rules": [{"ns": None, "text": fast_mode_rules("%dq" % sid) + text}],
                    "opts": ["-f"] + r.choice([["-s"], ["-L"], ["-s", "-L"], ["-X", "-s"]]) + ["-r"],
                    "p": [1, 2, 32, r.randint(3, 16)] if quick else [1, 2, 3, 4, 8, 16, 32, 0], "reps": 2,
                    "mode": "list" if ti % 2 == 1 else "dir", "list_nl": True})
        if ti == 0:
            # resources that live as long as a worker's scanner / the process: only visible when one invocation handles many files
            sid += 1
            scs.append({"kind": "threads", "id": "%d" % sid, "tree": "fibers", "rules": [{"ns": None, "text": FIBER_RULES}], "opts": ["-s", "-r"],
                        "p": [1, 2, 8, 32] if quick else [1, 2, 3, 8, 32, 0], "reps": 1, "mode": "dir"})
            sid += 1
            scs.append({"kind": "threads", "id": "%d" % sid, "tree": "fdleak", "rules": [{"ns": None, "text": FD_RULES}], "opts": ["-k", "16", "-r"],
                        "p": [1, 4, 32], "reps": 1, "mode": "dir", "nofile": FD_LIMIT})
            sid += 1
            scs.append({"kind": "threads", "id": "%d" % sid, "tree": "fdleak", "rules": [{"ns": None, "text": FD_RULES}], "opts": ["-k", "16", "-s", "-r"],
                        "p": [1, 8], "reps": 1, "mode": "list", "list_nl": True, "nofile": FD_LIMIT})
        # -l : partial check
        sid += 1
        text, info = gen_rules(r, "%dl" % sid)
        scs.append({"kind": "threads", "id": "%d" % sid, "tree": t, "rules": [{"ns": None, "text": text}], "opts": ["-l", str(r.choice([1, 3, 10])), "-r"],
                    "p": [1, 4, 32] if quick else [1, 2, 4, 8, 16, 32], "reps": 1, "mode": "dir"})
        # console.log (F24) and scanner reuse (F6)
        sid += 1
        text, info = gen_rules(r, "%dc" % sid, console=True)
        toks = re.findall(r"@@LOG\w+@@", text)
        scs.append({"kind": "threads", "id": "%d" % sid, "tree": t, "rules": [{"ns": None, "text": text}], "opts": ["-s", "-r"], "p": [1, 8, 32], "reps": 2 if quick else 4,
                    "mode": "dir", "log_tokens": toks})
        sid += 1
        text, info = gen_rules(r, "%de" % sid, reuse=True)
        scs.append({"kind": "threads", "id": "%d" % sid, "tree": t, "rules": [{"ns": None, "text": text}], "opts": ["-w", "-r"], "p": [1, 2, 32], "reps": 1, "mode": "dir", "f6": info["f6"]})
        # ASan flavour of the binary (queue index errors, leaks, races visible as memory errors)
        sid += 1
        text, info = gen_rules(r, "%ds" % sid)
        scs.append({"kind": "threads", "id": "%d" % sid, "tree": t, "rules": [{"ns": None, "text": text}], "opts": ["-s", "-r"], "p": [32, 3] if quick else [1, 2, 8, 32], "reps": 1,
                    "mode": "dir", "flavour": "asan"})
        # compiled vs source
        for ci in range(3 if quick else 9):
            sid += 1
            text, info = gen_rules(r, "%dx" % sid, externals=True)
            vi = r.choice([0, 2, 4, 6, 101, "010", "0100", "007", "-0", 5000000000, -5000000000, 4294967303])
            if ci == 1:
                vi = r.choice(["010", "0100"])      # decimal reading of a leading-zero value at the scan stage: in every tree, not by luck
            fv = r.choice(["2.5", "0.5", "-3.5", "1.0"])
            cext = [("ext_i", str(vi)), ("ext_s", r.choice(["abc", "xyz", "cab"])), ("ext_b", r.choice(["true", "false"])), ("ext_f", fv)]
            mode = ci % 3
            if mode == 0:
                sext = []                                                           # externals only at the compile stage
            elif mode == 1:
                sext = list(cext)                                                   # same values at both stages
            else:
                sext = [("ext_i", str(r.choice([x for x in [0, 2, 4, 6, 101, "010", "0100", 5000000000, -5000000000, 4294967303, 4294967303, 9223372036854775807] if x != vi]))), ("ext_s", r.choice(["abd", "zab"])), ("ext_b", r.choice(["true", "false"])),
                        ("ext_f", r.choice([x for x in ["2.5", "0.5", "-3.5", "0.0"] if x != fv]))]     # float external (re)defined at the scan stage
            files = walk_like_scan_dir(build_tree_cached(t, quick), False)
            scs.append({"kind": "compiled", "id": "%d" % sid, "tree": t, "rules": [{"ns": None, "text": text}], "opts": r.choice([["-s", "-r"], ["-r"], ["-g", "-m", "-r"], ["-c", "-r"]]),
                        "p": [r.choice([1, 4, 32])], "compile_ext": cext, "scan_ext": sext, "f2": info["f2"], "single_files": r.sample(files, 3)})
        sid += 1
        scs.append({"kind": "exit", "id": "%d" % sid, "tree": t})
    return scs


# ---------------------------------------------------------------------------------------------- queue tie

def queue_cases(tier):
    r = core.rng("C18/queue")
    quick = tier == "quick"
    cases = []
    ns = [1, 2, 3, 8, 31, 32]
    items = [0, 1, 2, 63, 64, 65, 66, 129, 130, 200, 333]
    k = 0
    for n in ns:                                  # every n of the grid with > 2*64 items and with few items
        for it in (r.choice([130, 200, 333]), r.choice([0, 1, 2, 63, 64, 65, 66])):
            cases.append("q%d n=%d items=%d seed=%d yield=%d" % (k, n, it, r.randint(1, 10 ** 6), r.choice([0, 50, 300])))
            k += 1
    residues = list(range(65))
    r.shuffle(residues)
    for j in range(40 if quick else 400):
        n = r.choice(ns + [r.randint(1, 32)])
        # final head position = items mod ring length: spread it over all residues (boundary-specific index bugs)
        it = r.choice([0, 65, 130, 260]) + residues[j % 65] if r.random() < .8 else r.choice(items + [r.randint(0, 400)])
        cases.append("q%d n=%d items=%d seed=%d yield=%d" % (k, n, it, r.randint(1, 10 ** 6), r.choice([0, 0, 20, 100, 300, 700])))
        k += 1
    if not quick:
        for n in (1, 4, 32):
            cases.append("q%d n=%d items=2000 seed=%d yield=10" % (k, n, r.randint(1, 10 ** 6)))
            k += 1
    return cases


def history_property(line, slots):
    """Model-independent reading of a recorded history: what, if anything, is wrong at the level of the property."""
    if not line:
        return "no history recorded"
    head, _, evs = line.partition("|")
    put, got, bad_idx = Counter(), Counter(), 0
    for tok in evs.split():
        f = tok.split(".")
        if f[1] == "A":
            put[f[2]] += 1
        elif f[1] == "G" and f[2] != "-1":
            got[f[2]] += 1
        elif f[1] in "LU" and not all(0 <= int(x) < slots for x in f[2:4]):
            bad_idx += 1
        elif f[1] == "T":
            return "a semaphore wait timed out"
    if " HANG " in head:
        return "threads did not terminate (%d of %d paths delivered)" % (sum(got.values()), sum(put.values()))
    if bad_idx:
        return "%d head/tail values outside file_queue[0..%d)" % (bad_idx, slots)
    if got != put:
        lost, dup = put - got, got - put
        return "paths lost: %s; delivered twice or never put: %s" % (sorted(lost.elements())[:5], sorted(dup.elements())[:5])
    return None


def run_queue_flavour(chk, binary, cases, flavour, hist, slots, jobs=6):
    """Run the harness (several processes), replay every history in the Lean driver. Returns (#violations, #ok)."""
    chunks = [cases[i::jobs] for i in range(jobs)]
    chunks = [c for c in chunks if c]
    env = {"TSAN_OPTIONS": "halt_on_error=0:exitcode=66:report_signal_unsafe=0", "ASAN_OPTIONS": "detect_leaks=1:abort_on_error=0:exitcode=99"}

    def one(chunk):
        try:
            return core.run_lines([binary, "15"], chunk, timeout=600, env=env)
        except subprocess.TimeoutExpired:
            return [], -9, "harness timed out"
    with ThreadPoolExecutor(len(chunks)) as ex:
        rs = list(ex.map(one, chunks))
    nbad = nok = 0
    traces = {}
    lost_behind = set()
    for chunk, (outl, rc, err) in zip(chunks, rs):
        for l in outl:
            traces[l.split(" ", 1)[0]] = l
        if rc != 0 or any(" HANG |" in l for l in outl):
            lost_behind.update(c.split(" ", 1)[0] for c in chunk)     # the harness stops at the first hang / sanitizer abort
        if rc != 0:
            nbad += 1
            chk.violation("queue_%s_sanitizer_%d.json" % (flavour, nbad), {"kind": "queue-harness-sanitizer-or-crash", "flavour": flavour, "rc": rc, "stderr": err,
                                                                            "engine": "queue", "harness": "h_queue", "cases": chunk})
    lines = [traces[c.split(" ", 1)[0]] for c in cases if c.split(" ", 1)[0] in traces]
    verdicts, mrc, merr = core.run_parallel([core.driver_path(), "queue"], lines)
    vd = {v.split(" ", 1)[0]: v for v in verdicts}
    for c in cases:
        cid = c.split(" ", 1)[0]
        v = vd.get(cid)
        if v is not None and v.split(" ")[1] == "ok":
            nok += 1
            m = re.search(r"maxsize=(\d+)", v)
            hist["maxsize"][min(64, int(m.group(1))) // 8 * 8] += 1
            hist["events"] += int(re.search(r"ev=(\d+)", v).group(1))
            continue
        if cid not in traces and cid in lost_behind:
            continue    # lost behind a crash/hang that is reported
        nbad += 1
        prop = history_property(traces.get(cid) or "", slots)
        if nbad <= 10:
            # the property itself fails on this history (lost/duplicated path, index outside the ring, threads hang): a concrete failing input;
            # otherwise the code merely left the modelled protocol: the proof no longer covers it, but no failing input is at hand
            chk.violation("queue_%s_%s.json" % (flavour, cid), {"kind": "queue-history-violates-property" if prop else "queue-history-not-a-model-run", "flavour": flavour,
                                                                 "engine": "queue", "harness": "h_queue", "case": c, "history": (traces.get(cid) or "")[:200000],
                                                                 "model_verdict": v, "property_failure": prop,
                                                                 "note": "the history was produced by the real file_queue_put/get/finish; the model is proved correct (Thm/C18)"},
                          no_input=not prop)
    return nbad, nok


# ---------------------------------------------------------------------------------------------- entry

def run(tier, replay=None):
    chk = core.Check(PID, tier)
    found = False
    if not replay:
        for f in os.listdir(os.path.join(core.OUT, PID)):        # replay files of earlier runs
            if f.endswith(".json"):
                os.remove(os.path.join(core.OUT, PID, f))
    try:
        tr = core.run_translators(["cli"])
    except Exception as e:                                   # the protocol's constants are no longer where T10 expects them
        tr = None
        chk.violation("translator.json", {"kind": "translator-tie-broken", "translator": "cli", "error": repr(e)}, no_input=True)
    lres = core.lean_check(THM)
    core.proof_coverage(chk, lres, THM, tr)
    # a scratch copy of the repo (VERIF_REPO) gets its own build directories: the harness #includes cli/*.c through -I<repo>,
    # which the per-flavour Makefile cannot track across different repo roots
    tag = None if core.REPO == "/repo" else "r" + hashlib.sha1(os.path.abspath(core.REPO).encode()).hexdigest()[:8]
    bt = core.build("tsan", harness=["h_queue"], tag=tag)
    ba = core.build("asan", harness=["h_queue"], cli=True, tag=tag)
    bp = core.build("plain", cli=True, tag=tag)

    # ---- queue tie
    try:
        from translators import cli as tcli
        slots = tcli.extract(core.REPO)["slots"]
    except Exception:
        slots = 65
    hist = {"maxsize": Counter(), "events": 0, "n": Counter(), "items": Counter()}
    qcases = queue_cases(tier)
    if replay and replay.get("kind", "").startswith("queue"):
        qcases = [replay["case"]] if "case" in replay else replay.get("cases", [])
        if replay.get("history") and lres.get("driver_ok"):
            v, _, _ = core.run_lines([core.driver_path(), "queue"], [replay["history"]])
            print("recorded history -> model verdict:", v[0] if v else None)
    elif replay:
        qcases = []
    for c in qcases:
        hist["n"][int(re.search(r"n=(\d+)", c).group(1))] += 1
        hist["items"][min(400, int(re.search(r"items=(\d+)", c).group(1))) // 50 * 50] += 1
    qbad = qok = 0
    if qcases and lres.get("driver_ok"):
        for flavour, binary in (("tsan", bt["h_queue"]), ("asan", ba["h_queue"])):
            nb, nk = run_queue_flavour(chk, binary, qcases, flavour, hist, slots)
            qbad += nb
            qok += nk
    found = found or qbad > 0

    # ---- binaries
    cli = Cli(chk, bp, ba, tier)
    if replay and replay.get("kind", "").startswith("cli"):
        scs = [replay["scenario"]]
    elif replay:
        scs = []
    else:
        scs = gen_scenarios(tier)
    for sc in scs:
        if sc["kind"] == "threads":
            cli.threads_scenario(sc)
        elif sc["kind"] == "compiled":
            cli.compiled_scenario(sc)
        else:
            cli.exit_scenarios(sc)
    found = found or cli.nviol > 0

    chk.cov.update({
        "evaluations": 2 * len(qcases) + cli.stats["dir_runs"] + cli.stats["compiled_vs_source_pairs"] + cli.stats["exit_status_runs"],
        "distinct_nontrivial": qok + len(cli.nontrivial),
        "rule": "queue: one recorded history of the real queue functions per (n consumers, items, seed, yield rate) and sanitizer flavour, non-trivial = replayed to the end in the model "
                "(final, every path delivered once); binaries: one -p N run of a directory/scan-list or one compiled-vs-source pair or one exit-status scenario, "
                "non-trivial = >64 files, >=2 threads and >=20 expected output blocks (threads), >=10 blocks (compiled), every exit scenario",
        "queue_histories_ok": qok, "queue_histories_bad": qbad, "queue_events_replayed": hist["events"],
        "queue_hist_consumers": dict(sorted(hist["n"].items())), "queue_hist_items": dict(sorted(hist["items"].items())),
        "queue_hist_max_size_seen": dict(sorted(hist["maxsize"].items())),
        "cli_stats": dict(cli.stats), "cli_hist_threads": dict(sorted(cli.hist_p.items())), "cli_hist_options": dict(cli.hist_opts),
        "cli_scenarios": Counter(s["kind"] for s in scs), "known_findings_hit": dict(cli.known_seen),
        "samples": cli.samples[:3] + ([{"queue_case": qcases[0]}] if qcases else []),
    })
    core.handle_broken_proof(chk, lres, found)
    chk.violations.sort(key=lambda v: v[1] != "")          # concrete failing inputs first
    chk.assumptions += [
        "the scan deadline never expires during a run (cli_semaphore_wait returns only with a token; sem_timedwait is not interrupted by a signal: on EINTR the code proceeds as if it held a token)",
        "_tcsdup in file_queue_put does not fail",
        "thread counts 1..YR_MAX_THREADS (-p 0 or negative creates no consumer: the walker then blocks after MAX_QUEUED_FILES files until the timeout)",
        "per-file single-threaded invocations of the same binary are the reference for a file's output; -l is checked as sub-multiset + lower bound only",
        "stdout is a pipe (fully buffered); each printf call is atomic (stdio lock)"]
    shutil.rmtree(os.path.join(core.OUT, PID, WORK), ignore_errors=True)
    return chk.finish("proof")
